/-
  Lemmas/WorldHist.lean — the history of the context over a WHOLE script (work package W9).

  Properties/CtxLift.lean shows that ONE poll of `run()` drives `World.c` through one `Ctx.serve` history. Here the polls are
  composed. In the style of Lemmas/WorldWireSent.lean a family of ghost functions runs in parallel with `pollCtx`,
  `pollTask`, `drain`, `sweep`, `apply`, `step`: they list, in order, everything that ever touches the context —

    `HEv.handler c i`      `handle_message` / `handle_packet` is called in context state `c` on the input `i`
    `HEv.resume c`         the prelude of `run()` (first poll of a `run()` call) in context state `c`
    `HEv.connack c k`      `handle_connack` in state `c` (`connect()` / `authorize()` got its CONNACK)
    `HEv.request c sei p`  `connect()` / `authorize()` first polled with an encodable request: the packet `p` is handed to the
                           transport; `connect()` also records the session expiry interval it asks for (`sei`)
    `HEv.disc c n`         the caller records the disconnection time (`markDisc`)
    `HEv.dropCtx q c`      the context is dropped
    `HEv.fresh`            `setup` creates the context

  `World.history cfg evs` is that list for the script `evs`. `Tracks w w' h` says that the list `h` accounts for the move of
  the context from `w` to `w'`: the events are chained (each happens in the state the previous one left), the context of
  `w'` is the state after the last one, and every handler input is well formed. `script_tracks`: every script is tracked by
  its history; `scriptEvs_sent`: with an unlimited transport the bytes handed to the transport are the packets of the
  events (`evPkts`).

  The list is cut into connection segments (`ctxHist : List HEv → List CtxSeg`, `segs`); `segs_good`: in a chained history
  the handler calls of every segment are ONE `Ctx.serve` history from the segment's start state; `segs_linked`: consecutive
  segments are linked as their causes say; `segs_pkts`, `segs_obs`: the segments partition the packets and the handler
  calls of the history. `sessionObs`, `session_fold`: the components of the context that are folds over the observations
  of the whole session (`retx`, `inQos2`). The property-level statements are in Properties/HistWorld.lean.
-/
import PosterModel.Lemmas.WorldWireSent
import PosterModel.Lemmas.WorldRet
import PosterModel.Properties.CtxLift

set_option linter.unusedVariables false
set_option linter.unusedSimpArgs false

namespace Poster
open Framing

/-! ## ghost events -/

/-- everything that touches the context, as an event (see the file header) -/
inductive HEv where
  | handler (c : Ctx) (i : CIn)
  | resume (c : Ctx)
  | connack (c : Ctx) (k : ConnackRx)
  | request (c : Ctx) (sei : Option Nat) (pkt : Bytes)
  | disc (c : Ctx) (secs : Nat)
  | dropCtx (q : List Msg) (c : Ctx)
  | fresh
deriving Repr, DecidableEq

namespace HEv

/-- the context state in which the event happens (`fresh` does not look at it) -/
def before : HEv → Option Ctx
  | handler c _ => some c
  | resume c => some c
  | connack c _ => some c
  | request c _ _ => some c
  | disc c _ => some c
  | dropCtx _ c => some c
  | fresh => none

/-- the context state the event leaves -/
def after : HEv → Ctx
  | handler c i => (c.stepIn i).1
  | resume c => c.resume.1
  | connack c k => c.handleConnack k
  | request c (some n) _ => { c with sei := n }
  | request c none _ => c
  | disc c n => { c with disc := some n }
  | dropCtx _ _ => {}
  | fresh => {}

/-- the packets the event hands to the transport, in order (each one `tx.write`) -/
def pkts : HEv → List Bytes
  | handler c i => writesOf (c.stepIn i).2.effs
  | resume c => c.resume.2.2
  | request _ _ p => [p]
  | _ => []

/-- handler inputs are well formed (inbound packets are decoder output) -/
def ok : HEv → Prop
  | handler _ i => i.wf
  | _ => True

/-- the observation of a handler call -/
def obs? : HEv → Option CObs
  | handler c i => some (c.stepIn i).2
  | _ => none

end HEv

/-- the events are chained from the state `c`: each happens in the state the previous one left -/
def Chained : Ctx → List HEv → Prop
  | _, [] => True
  | c, e :: t => (∀ b, e.before = some b → b = c) ∧ Chained e.after t

/-- the state after the last event (`c` if there is none) -/
def lastCtx (c : Ctx) (h : List HEv) : Ctx := h.foldl (fun _ e => e.after) c

@[simp] theorem lastCtx_nil (c : Ctx) : lastCtx c [] = c := rfl
@[simp] theorem lastCtx_cons (c : Ctx) (e : HEv) (t : List HEv) : lastCtx c (e :: t) = lastCtx e.after t := rfl
theorem lastCtx_append (c : Ctx) (a b : List HEv) : lastCtx c (a ++ b) = lastCtx (lastCtx c a) b := by
  simp [lastCtx, List.foldl_append]

theorem chained_append (c : Ctx) (a b : List HEv) : Chained c (a ++ b) ↔ Chained c a ∧ Chained (lastCtx c a) b := by
  induction a generalizing c with
  | nil => simp [Chained]
  | cons e t ih => simp only [List.cons_append, Chained, lastCtx_cons, ih, and_assoc]

/-- the handler events of serving the inputs `is` one after the other from the state `c` -/
def histEvs (c : Ctx) : List CIn → List HEv
  | [] => []
  | i :: is => .handler c i :: histEvs (c.stepIn i).1 is

theorem chained_histEvs (c : Ctx) (is : List CIn) : Chained c (histEvs c is) := by
  induction is generalizing c with
  | nil => trivial
  | cons i is ih => exact ⟨fun b hb => by cases hb; rfl, ih _⟩

theorem histEvs_ok (c : Ctx) (is : List CIn) (h : ∀ i ∈ is, i.wf) : ∀ e ∈ histEvs c is, e.ok := by
  induction is generalizing c with
  | nil => intro e he; cases he
  | cons i is ih =>
    intro e he
    simp only [histEvs, List.mem_cons] at he
    rcases he with rfl | he
    · exact h i (by simp)
    · exact ih _ (fun j hj => h j (by simp [hj])) e he

/-- a history in which no input was skipped: the first handler lets the loop go on, or it is the only one -/
theorem w9_serve_full_cons (c : Ctx) (i : CIn) (is : List CIn) (h : (c.serve (i :: is)).2.length = (i :: is).length) :
    is = [] ∨ ((c.stepIn i).2.flow = .cont ∧ ((c.stepIn i).1.serve is).2.length = is.length) := by
  rw [Ctx.serve_cons] at h
  split at h
  · rename_i hfl
    right
    exact ⟨hfl, by simpa using h⟩
  · left
    simp only [List.length_cons, List.length_nil] at h
    cases is with
    | nil => rfl
    | cons a t => simp at h

theorem w9_serve_single (c : Ctx) (i : CIn) : c.serve [i] = ((c.stepIn i).1, [(c.stepIn i).2]) := by
  rw [Ctx.serve_cons]
  split <;> simp [Ctx.serve_nil]

/-- with no input skipped, the state after the events is the state after the history, and the packets of the events are the
    writes of the history -/
theorem histEvs_full (c : Ctx) (is : List CIn) (h : (c.serve is).2.length = is.length) :
    lastCtx c (histEvs c is) = (c.serve is).1 ∧
    (histEvs c is).flatMap HEv.pkts = World.histWrites (c.serve is).2 ∧
    (histEvs c is).filterMap HEv.obs? = (c.serve is).2 := by
  induction is generalizing c with
  | nil => simp [histEvs, Ctx.serve_nil, World.histWrites]
  | cons i is ih =>
    rcases w9_serve_full_cons c i is h with rfl | ⟨hfl, hlen⟩
    · simp [histEvs, w9_serve_single, World.histWrites, HEv.pkts, HEv.obs?, HEv.after]
    · obtain ⟨h1, h2, h3⟩ := ih _ hlen
      rw [World.serve_cons_cont _ _ _ hfl]
      refine ⟨by simpa [histEvs, HEv.after] using h1, ?_, ?_⟩
      · simp only [histEvs, List.flatMap_cons, h2, World.histWrites_cons]
        rfl
      · simp only [histEvs, List.filterMap_cons, HEv.obs?, h3]

/-- the packets the events hand to the transport, in order -/
def evPkts (h : List HEv) : List Bytes := h.flatMap HEv.pkts

@[simp] theorem evPkts_nil : evPkts [] = [] := rfl
@[simp] theorem evPkts_append (a b : List HEv) : evPkts (a ++ b) = evPkts a ++ evPkts b := by
  simp [evPkts]
@[simp] theorem evPkts_cons (e : HEv) (t : List HEv) : evPkts (e :: t) = e.pkts ++ evPkts t := by
  simp [evPkts]

theorem w9_filterMap_obs_cons (e : HEv) (t : List HEv) :
    (e :: t).filterMap HEv.obs? = e.obs?.toList ++ t.filterMap HEv.obs? := by
  rw [List.filterMap_cons]; cases e.obs? <;> rfl

/-! ## connection segments -/

/-- how the start state of a connection segment came about -/
inductive SegCause where
  /-- the state before anything happened (`Context::new` of the model's initial world) -/
  | init
  /-- `setup` created the context -/
  | fresh
  /-- `handle_connack` handled the CONNACK `k` -/
  | connack (k : ConnackRx)
  /-- `connect()` / `authorize()` handed its request `pkt` to the transport (`connect()` recorded its session expiry) -/
  | request (pkt : Bytes)
  /-- the caller recorded the disconnection time -/
  | disc
  /-- the prelude of `run()` resumed the session of the state `c` (`c.disc ≠ none`): the retransmit queue is re-sent,
      or the expired session is reset -/
  | resumed (c : Ctx)
  /-- the previous segment ended with a handler that ended `run()` -/
  | exited
  /-- the context was dropped -/
  | dropped
deriving Repr, DecidableEq

/-- a connection segment: its start state, why it starts there, and the handler calls made until it ends, each with the
    context state it was made in -/
structure CtxSeg where
  cause : SegCause
  start : Ctx
  calls : List (Ctx × CIn) := []
deriving Repr, DecidableEq

/-- the states the inputs `is` are handled in when they are handled one after the other from `c` -/
def callsOf (c : Ctx) : List CIn → List (Ctx × CIn)
  | [] => []
  | i :: is => (c, i) :: callsOf (c.stepIn i).1 is

/-- the state after handling the inputs one after the other (without stopping) -/
def runIns (c : Ctx) (is : List CIn) : Ctx := is.foldl (fun c i => (c.stepIn i).1) c

/-- the observation of one handler call -/
def callObs (x : Ctx × CIn) : CObs := (x.1.stepIn x.2).2

namespace CtxSeg

/-- the inputs handled in the segment, in order -/
def ins (s : CtxSeg) : List CIn := s.calls.map (·.2)
/-- the observations of the handler calls of the segment, in order: **the history of the segment** -/
def obs (s : CtxSeg) : List CObs := s.calls.map callObs
/-- the context state at the end of the segment -/
def endCtx (s : CtxSeg) : Ctx := runIns s.start s.ins
/-- the packets handed to the transport when the segment was opened: the CONNECT / AUTH request, or the re-sent packets
    of a resumed session -/
def opening (s : CtxSeg) : List Bytes :=
  match s.cause with
  | .request p => [p]
  | .resumed c => c.resume.2.2
  | _ => []
/-- the packets handed to the transport during the segment, in order -/
def pkts (s : CtxSeg) : List Bytes := s.opening ++ s.obs.flatMap fun o => writesOf o.effs
/-- what the protocol expects on the wire during a segment: what was handed to the transport when it was opened (the
    request of `connect()` / `authorize()`, the re-sent packets of a resumed session), then for each handled inbound packet
    the acknowledgement owed and for each handled request what it wrote, in order -/
def wire (s : CtxSeg) : List Bytes := s.opening ++ s.obs.flatMap obsWire
/-- append a handler call -/
def push (s : CtxSeg) (c : Ctx) (i : CIn) : CtxSeg := { s with calls := s.calls ++ [(c, i)] }

/-- the handler calls of the segment are ONE served history from its start state: every call is made in the state the
    previous ones left, and no input was skipped (all but possibly the last let the loop go on) -/
structure Good (s : CtxSeg) : Prop where
  calls_eq : s.calls = callsOf s.start s.ins
  full : (s.start.serve s.ins).2.length = s.ins.length

end CtxSeg

/-- the cause a cutting event gives to the segment it opens -/
def HEv.cause : HEv → SegCause
  | .handler _ _ => .exited
  | .resume c => .resumed c
  | .connack _ k => .connack k
  | .request _ _ p => .request p
  | .disc _ _ => .disc
  | .dropCtx _ _ => .dropped
  | .fresh => .fresh

/-- cut the events into segments, `cur` being the segment under construction: a handler call is appended to it (and ends
    it if it ends `run()`); the prelude of `run()` on a context without a recorded disconnection changes nothing
    (a `run()` that was cancelled and called again goes on in the same segment); every other event ends the segment
    and opens a new one in the state it leaves -/
def segs (cur : CtxSeg) : List HEv → List CtxSeg
  | [] => [cur]
  | e :: t =>
    match e with
    | .handler c i =>
      if (c.stepIn i).2.flow = .cont then segs (cur.push c i) t
      else cur.push c i :: segs ⟨.exited, e.after, []⟩ t
    | .resume c => if c.disc = none then segs cur t else cur :: segs ⟨e.cause, e.after, []⟩ t
    | _ => cur :: segs ⟨e.cause, e.after, []⟩ t

/-- **the connection segments of a history** -/
def ctxHist (h : List HEv) : List CtxSeg := segs ⟨.init, {}, []⟩ h

/-! ### lists of calls -/

@[simp] theorem runIns_nil (c : Ctx) : runIns c [] = c := rfl
@[simp] theorem runIns_cons (c : Ctx) (i : CIn) (is : List CIn) : runIns c (i :: is) = runIns (c.stepIn i).1 is := rfl
theorem runIns_append (c : Ctx) (a b : List CIn) : runIns c (a ++ b) = runIns (runIns c a) b := by
  simp [runIns, List.foldl_append]

theorem callsOf_append (c : Ctx) (a b : List CIn) : callsOf c (a ++ b) = callsOf c a ++ callsOf (runIns c a) b := by
  induction a generalizing c with
  | nil => rfl
  | cons i is ih => simp [callsOf, ih]

@[simp] theorem callsOf_length (c : Ctx) (is : List CIn) : (callsOf c is).length = is.length := by
  induction is generalizing c with
  | nil => rfl
  | cons i is ih => simp [callsOf, ih]

theorem callsOf_ins (c : Ctx) (is : List CIn) : (callsOf c is).map (·.2) = is := by
  induction is generalizing c with
  | nil => rfl
  | cons i is ih => simp [callsOf, ih]

/-- serving inputs whose handlers all let the loop go on, then more inputs -/
theorem w9_serve_append_cont (c : Ctx) (a b : List CIn) (h : ∀ x ∈ callsOf c a, (callObs x).flow = .cont) :
    c.serve (a ++ b) = (((runIns c a).serve b).1, (callsOf c a).map callObs ++ ((runIns c a).serve b).2) := by
  induction a generalizing c with
  | nil => simp [callsOf]
  | cons i is ih =>
    have hfl : (c.stepIn i).2.flow = .cont := h (c, i) (by simp [callsOf])
    rw [List.cons_append, World.serve_cons_cont _ _ _ hfl,
      ih _ (fun x hx => h x (by simp [callsOf, hx]))]
    simp [callsOf, callObs]

/-- a served history in which no input was skipped: the observations are those of the calls, the state is the state
    after all of them -/
theorem w9_serve_full (c : Ctx) (is : List CIn) (h : (c.serve is).2.length = is.length) :
    (c.serve is).2 = (callsOf c is).map callObs ∧ (c.serve is).1 = runIns c is := by
  induction is generalizing c with
  | nil => simp [Ctx.serve_nil, callsOf]
  | cons i is ih =>
    rcases w9_serve_full_cons c i is h with rfl | ⟨hfl, hlen⟩
    · simp [w9_serve_single, callsOf, callObs]
    · obtain ⟨h1, h2⟩ := ih _ hlen
      rw [World.serve_cons_cont _ _ _ hfl]
      exact ⟨by simp [callsOf, callObs, h1], by simpa using h2⟩

/-- in a served history in which no input was skipped every handler but possibly the last lets the loop go on -/
theorem w9_serve_cont_of_full (c : Ctx) (is : List CIn) (h : (c.serve is).2.length = is.length) :
    ∀ o ∈ (c.serve is).2.dropLast, o.flow = .cont := by
  induction is generalizing c with
  | nil => simp [Ctx.serve_nil]
  | cons i is ih =>
    rcases w9_serve_full_cons c i is h with rfl | ⟨hfl, hlen⟩
    · simp [w9_serve_single]
    · rw [World.serve_cons_cont _ _ _ hfl]
      intro o ho
      rcases World.mem_dropLast_cons ho with rfl | ho
      · exact hfl
      · exact ih _ hlen o ho

theorem CtxSeg.Good.obs_eq {s : CtxSeg} (h : s.Good) : s.obs = (s.start.serve s.ins).2 := by
  rw [(w9_serve_full _ _ h.full).1, ← h.calls_eq]; rfl

theorem CtxSeg.Good.endCtx_eq {s : CtxSeg} (h : s.Good) : s.endCtx = (s.start.serve s.ins).1 :=
  (w9_serve_full _ _ h.full).2.symm

/-- the segment under construction: its calls are chained from its start, all of them let the loop go on, and `c` is the
    state they lead to -/
structure CtxSeg.Open (s : CtxSeg) (c : Ctx) : Prop where
  calls_eq : s.calls = callsOf s.start s.ins
  cont : ∀ x ∈ s.calls, (callObs x).flow = .cont
  now : c = s.endCtx

theorem CtxSeg.open_empty (cause : SegCause) (c : Ctx) : (⟨cause, c, []⟩ : CtxSeg).Open c :=
  ⟨rfl, by simp, rfl⟩

theorem CtxSeg.Open.good {s : CtxSeg} {c : Ctx} (h : s.Open c) : s.Good := by
  refine ⟨h.calls_eq, ?_⟩
  have := w9_serve_append_cont s.start s.ins [] (by rw [← h.calls_eq]; exact h.cont)
  rw [List.append_nil] at this
  rw [this]
  simp [Ctx.serve_nil, ← h.calls_eq, CtxSeg.ins]

theorem CtxSeg.push_ins (s : CtxSeg) (c : Ctx) (i : CIn) : (s.push c i).ins = s.ins ++ [i] := by
  simp [CtxSeg.push, CtxSeg.ins]

theorem CtxSeg.push_calls_eq {s : CtxSeg} {c : Ctx} (h : s.Open c) (i : CIn) :
    (s.push c i).calls = callsOf (s.push c i).start (s.push c i).ins := by
  rw [CtxSeg.push_ins, show (s.push c i).start = s.start from rfl, callsOf_append, ← h.calls_eq, h.now]
  rfl

theorem CtxSeg.Open.push_cont {s : CtxSeg} {c : Ctx} (h : s.Open c) (i : CIn) (hfl : (c.stepIn i).2.flow = .cont) :
    (s.push c i).Open (c.stepIn i).1 where
  calls_eq := CtxSeg.push_calls_eq h i
  cont := by
    intro x hx
    simp only [CtxSeg.push, List.mem_append, List.mem_singleton] at hx
    rcases hx with hx | rfl
    · exact h.cont x hx
    · exact hfl
  now := by
    rw [CtxSeg.endCtx, CtxSeg.push_ins, runIns_append, show (s.push c i).start = s.start from rfl]
    rw [show runIns s.start s.ins = c from h.now.symm]
    rfl

theorem CtxSeg.Open.push_good {s : CtxSeg} {c : Ctx} (h : s.Open c) (i : CIn) : (s.push c i).Good := by
  refine ⟨CtxSeg.push_calls_eq h i, ?_⟩
  rw [CtxSeg.push_ins, show (s.push c i).start = s.start from rfl,
    w9_serve_append_cont s.start s.ins [i] (by rw [← h.calls_eq]; exact h.cont), w9_serve_single]
  simp [← h.calls_eq, CtxSeg.ins]

theorem CtxSeg.Open.push_end {s : CtxSeg} {c : Ctx} (h : s.Open c) (i : CIn) : (s.push c i).endCtx = (c.stepIn i).1 := by
  rw [CtxSeg.endCtx, CtxSeg.push_ins, runIns_append, show (s.push c i).start = s.start from rfl,
    show runIns s.start s.ins = c from h.now.symm]
  rfl

/-! ### every segment of a chained history is one served history -/

theorem segs_good (h : List HEv) : ∀ (cur : CtxSeg) (c : Ctx), Chained c h → cur.Open c →
    ∀ s ∈ segs cur h, s.Good := by
  induction h with
  | nil =>
    intro cur c _ ho s hs
    simp only [segs, List.mem_singleton] at hs
    subst hs; exact ho.good
  | cons e t ih =>
    intro cur c hch ho s hs
    obtain ⟨hb, hch'⟩ := hch
    have tail : ∀ (cause : SegCause), Chained e.after t → s ∈ cur :: segs ⟨cause, e.after, []⟩ t → s.Good := by
      intro cause h1 h2
      rcases List.mem_cons.mp h2 with rfl | h2
      · exact ho.good
      · exact ih _ _ h1 (CtxSeg.open_empty _ _) s h2
    cases e with
    | handler c' i =>
      have hc : c' = c := hb c' rfl
      subst hc
      simp only [segs] at hs
      split at hs
      · rename_i hfl
        exact ih _ _ hch' (ho.push_cont i hfl) s hs
      · rcases List.mem_cons.mp hs with rfl | hs
        · exact ho.push_good i
        · exact ih _ _ hch' (CtxSeg.open_empty _ _) s hs
    | resume c' =>
      have hc : c' = c := hb c' rfl
      subst hc
      simp only [segs] at hs
      split at hs
      · rename_i hd
        have e1 : c'.resume.1 = c' := by simp [Ctx.resume, hd]
        have hch2 : Chained c' t := by simpa [HEv.after, e1] using hch'
        exact ih _ _ hch2 ho s hs
      · exact tail _ hch' hs
    | connack c' k => exact tail _ hch' (by simpa [segs] using hs)
    | request c' sei p => exact tail _ hch' (by simpa [segs] using hs)
    | disc c' n => exact tail _ hch' (by simpa [segs] using hs)
    | dropCtx q c' => exact tail _ hch' (by simpa [segs] using hs)
    | fresh => exact tail _ hch' (by simpa [segs] using hs)

/-- the handler inputs of the segments are those of the events -/
theorem segs_wf (h : List HEv) : ∀ (cur : CtxSeg), (∀ e ∈ h, e.ok) → (∀ i ∈ cur.ins, i.wf) →
    ∀ s ∈ segs cur h, ∀ i ∈ s.ins, i.wf := by
  induction h with
  | nil =>
    intro cur _ hc s hs
    simp only [segs, List.mem_singleton] at hs
    subst hs; exact hc
  | cons e t ih =>
    intro cur hok hc s hs
    have hok' : ∀ e' ∈ t, e'.ok := fun e' he' => hok e' (by simp [he'])
    have tail : ∀ (cause : SegCause) (c0 : Ctx), s ∈ cur :: segs ⟨cause, c0, []⟩ t → ∀ i ∈ s.ins, i.wf := by
      intro cause c0 h2
      rcases List.mem_cons.mp h2 with rfl | h2
      · exact hc
      · exact ih _ hok' (by simp [CtxSeg.ins]) s h2
    cases e with
    | handler c' i =>
      have hi : i.wf := hok (.handler c' i) (by simp)
      have hp : ∀ j ∈ (cur.push c' i).ins, j.wf := by
        intro j hj
        rw [CtxSeg.push_ins] at hj
        rcases List.mem_append.mp hj with hj | hj
        · exact hc j hj
        · simp only [List.mem_singleton] at hj; subst hj; exact hi
      simp only [segs] at hs
      split at hs
      · exact ih _ hok' hp s hs
      · rcases List.mem_cons.mp hs with rfl | hs
        · exact hp
        · exact ih _ hok' (by simp [CtxSeg.ins]) s hs
    | resume c' =>
      simp only [segs] at hs
      split at hs
      · exact ih _ hok' hc s hs
      · exact tail _ _ hs
    | connack c' k => exact tail _ _ (by simpa [segs] using hs)
    | request c' sei p => exact tail _ _ (by simpa [segs] using hs)
    | disc c' n => exact tail _ _ (by simpa [segs] using hs)
    | dropCtx q c' => exact tail _ _ (by simpa [segs] using hs)
    | fresh => exact tail _ _ (by simpa [segs] using hs)

/-- the packets of the segments, in order, are the packets of the events -/
theorem segs_pkts (h : List HEv) : ∀ (cur : CtxSeg), (segs cur h).flatMap CtxSeg.pkts = cur.pkts ++ evPkts h := by
  induction h with
  | nil => intro cur; simp [segs]
  | cons e t ih =>
    intro cur
    have hpush : ∀ c i, (cur.push c i).pkts = cur.pkts ++ (HEv.handler c i).pkts := by
      intro c i
      simp [CtxSeg.pkts, CtxSeg.push, CtxSeg.obs, CtxSeg.opening, HEv.pkts, callObs]
    cases e with
    | handler c i =>
      simp only [segs]
      split
      · rw [ih, hpush]; simp
      · rw [List.flatMap_cons, ih, hpush]; simp [CtxSeg.pkts, CtxSeg.opening, CtxSeg.obs]
    | resume c =>
      simp only [segs]
      split
      · rename_i hd
        have : (HEv.resume c).pkts = [] := by simp [HEv.pkts, Ctx.resume, hd]
        rw [ih]; simp [this]
      · rw [List.flatMap_cons, ih]; simp [CtxSeg.pkts, CtxSeg.opening, CtxSeg.obs, HEv.pkts, HEv.cause]
    | connack c k => simp [segs, ih, CtxSeg.pkts, CtxSeg.opening, CtxSeg.obs, HEv.pkts, HEv.cause]
    | request c sei p => simp [segs, ih, CtxSeg.pkts, CtxSeg.opening, CtxSeg.obs, HEv.pkts, HEv.cause]
    | disc c n => simp [segs, ih, CtxSeg.pkts, CtxSeg.opening, CtxSeg.obs, HEv.pkts, HEv.cause]
    | dropCtx q c => simp [segs, ih, CtxSeg.pkts, CtxSeg.opening, CtxSeg.obs, HEv.pkts, HEv.cause]
    | fresh => simp [segs, ih, CtxSeg.pkts, CtxSeg.opening, CtxSeg.obs, HEv.pkts, HEv.cause]

/-- the handler calls of the segments, in order, are the handler events -/
theorem segs_obs (h : List HEv) : ∀ (cur : CtxSeg),
    (segs cur h).flatMap CtxSeg.obs = cur.obs ++ h.filterMap HEv.obs? := by
  induction h with
  | nil => intro cur; simp [segs]
  | cons e t ih =>
    intro cur
    cases e with
    | handler c i =>
      simp only [segs]
      split
      · rw [ih]; simp [CtxSeg.push, CtxSeg.obs, HEv.obs?, callObs]
      · rw [List.flatMap_cons, ih]; simp [CtxSeg.push, CtxSeg.obs, HEv.obs?, callObs]
    | resume c =>
      simp only [segs]
      split
      · rw [ih]; simp [HEv.obs?, w9_filterMap_obs_cons]
      · rw [List.flatMap_cons, ih]; simp [CtxSeg.obs, HEv.obs?, w9_filterMap_obs_cons]
    | connack c k => simp [segs, ih, CtxSeg.obs, HEv.obs?, w9_filterMap_obs_cons]
    | request c sei p => simp [segs, ih, CtxSeg.obs, HEv.obs?, w9_filterMap_obs_cons]
    | disc c n => simp [segs, ih, CtxSeg.obs, HEv.obs?, w9_filterMap_obs_cons]
    | dropCtx q c => simp [segs, ih, CtxSeg.obs, HEv.obs?, w9_filterMap_obs_cons]
    | fresh => simp [segs, ih, CtxSeg.obs, HEv.obs?, w9_filterMap_obs_cons]

theorem segs_ne_nil (cur : CtxSeg) (h : List HEv) : segs cur h ≠ [] := by
  induction h generalizing cur with
  | nil => simp [segs]
  | cons e t ih =>
    cases e <;> simp only [segs] <;> (try split) <;> first | exact ih _ | simp

/-- the state at the end of the last segment is the state the last event left -/
theorem segs_last (h : List HEv) : ∀ (cur : CtxSeg) (c : Ctx), Chained c h → cur.Open c →
    ∀ s, (segs cur h).getLast? = some s → s.endCtx = lastCtx c h := by
  induction h with
  | nil =>
    intro cur c _ ho s hs
    simp only [segs, List.getLast?_singleton, Option.some.injEq] at hs
    subst hs; exact ho.now.symm
  | cons e t ih =>
    intro cur c hch ho s hs
    obtain ⟨hb, hch'⟩ := hch
    have tail : ∀ (cause : SegCause), (cur :: segs ⟨cause, e.after, []⟩ t).getLast? = some s →
        s.endCtx = lastCtx e.after t := by
      intro cause h2
      rw [List.getLast?_cons_of_ne_nil (segs_ne_nil _ _)] at h2
      exact ih _ _ hch' (CtxSeg.open_empty _ _) s h2
    cases e with
    | handler c' i =>
      have hc : c' = c := hb c' rfl
      subst hc
      simp only [segs] at hs
      split at hs
      · rename_i hfl
        exact ih _ _ hch' (ho.push_cont i hfl) s hs
      · rw [List.getLast?_cons_of_ne_nil (segs_ne_nil _ _)] at hs
        exact ih _ _ hch' (CtxSeg.open_empty _ _) s hs
    | resume c' =>
      have hc : c' = c := hb c' rfl
      subst hc
      simp only [segs] at hs
      split at hs
      · rename_i hd
        have e1 : c'.resume.1 = c' := by simp [Ctx.resume, hd]
        have hch2 : Chained c' t := by simpa [HEv.after, e1] using hch'
        rw [lastCtx_cons, show (HEv.resume c').after = c' from e1]
        exact ih _ _ hch2 ho s hs
      · exact tail _ hs
    | connack c' k => exact tail _ (by simpa [segs] using hs)
    | request c' sei p => exact tail _ (by simpa [segs] using hs)
    | disc c' n => exact tail _ (by simpa [segs] using hs)
    | dropCtx q c' => exact tail _ (by simpa [segs] using hs)
    | fresh => exact tail _ (by simpa [segs] using hs)

/-! ### how consecutive segments are linked -/

/-- the start state `start` of a segment opened for the reason `cause`, when the previous segment ended in the state `c`
    with `last` as its last observation -/
def CauseOk (c : Ctx) (last : Option CObs) (cause : SegCause) (start : Ctx) : Prop :=
  match cause with
  | .init => False
  | .fresh => start = {}
  | .dropped => start = {}
  | .connack k => start = c.handleConnack k
  | .request _ => start = c ∨ ∃ n, start = { c with sei := n }
  | .disc => ∃ n, start = { c with disc := some n }
  | .resumed c' => c' = c ∧ c.disc ≠ none ∧ start = c.resume.1
  | .exited => start = c ∧ ∃ o, last = some o ∧ o.flow ≠ .cont

/-- segment `b` follows segment `a` -/
def SegLink (a b : CtxSeg) : Prop := CauseOk a.endCtx a.obs.getLast? b.cause b.start

/-- every segment is linked to the next one -/
def Linked : List CtxSeg → Prop
  | a :: b :: t => SegLink a b ∧ Linked (b :: t)
  | _ => True

theorem segs_head (h : List HEv) : ∀ cur : CtxSeg, ∃ s rest, segs cur h = s :: rest ∧ s.cause = cur.cause ∧
    s.start = cur.start := by
  induction h with
  | nil => intro cur; exact ⟨cur, [], rfl, rfl, rfl⟩
  | cons e t ih =>
    intro cur
    cases e with
    | handler c i =>
      simp only [segs]
      split
      · obtain ⟨s, rest, h1, h2, h3⟩ := ih (cur.push c i)
        exact ⟨s, rest, h1, h2, h3⟩
      · exact ⟨_, _, rfl, rfl, rfl⟩
    | resume c =>
      simp only [segs]
      split
      · exact ih cur
      · exact ⟨_, _, rfl, rfl, rfl⟩
    | _ => exact ⟨_, _, rfl, rfl, rfl⟩

theorem w9_linked_cons {a : CtxSeg} {l : List CtxSeg} (hl : Linked l)
    (hh : ∀ b rest, l = b :: rest → SegLink a b) : Linked (a :: l) := by
  cases l with
  | nil => trivial
  | cons b rest => exact ⟨hh b rest rfl, hl⟩

/-- a cutting event opens the next segment for its cause, in the state it leaves -/
theorem w9_causeOk_cut (e : HEv) (c : Ctx) (last : Option CObs) (hb : ∀ b, e.before = some b → b = c)
    (hne : ∀ c' i, e ≠ .handler c' i) (hres : ∀ c', e = .resume c' → c'.disc ≠ none) :
    CauseOk c last e.cause e.after := by
  cases e with
  | handler c' i => exact absurd rfl (hne c' i)
  | resume c' =>
    have : c' = c := hb c' rfl
    subst this
    exact ⟨rfl, hres c' rfl, rfl⟩
  | connack c' k => have : c' = c := hb c' rfl; subst this; rfl
  | request c' sei p =>
    have : c' = c := hb c' rfl
    subst this
    cases sei with
    | none => exact Or.inl rfl
    | some n => exact Or.inr ⟨n, rfl⟩
  | disc c' n => have : c' = c := hb c' rfl; subst this; exact ⟨n, rfl⟩
  | dropCtx q c' => rfl
  | fresh => rfl

theorem segs_linked (h : List HEv) : ∀ (cur : CtxSeg) (c : Ctx), Chained c h → cur.Open c → Linked (segs cur h) := by
  induction h with
  | nil => intro cur c _ _; trivial
  | cons e t ih =>
    intro cur c hch ho
    obtain ⟨hb, hch'⟩ := hch
    have tail : (∀ c' i, e ≠ .handler c' i) → (∀ c', e = .resume c' → c'.disc ≠ none) →
        Linked (cur :: segs ⟨e.cause, e.after, []⟩ t) := by
      intro h1 h2
      refine w9_linked_cons (ih _ _ hch' (CtxSeg.open_empty _ _)) ?_
      intro b rest hbr
      obtain ⟨s, rest', e1, e2, e3⟩ := segs_head t ⟨e.cause, e.after, []⟩
      rw [hbr] at e1
      cases e1
      unfold SegLink
      rw [e2, e3, ← ho.now]
      exact w9_causeOk_cut e c _ hb h1 h2
    cases e with
    | handler c' i =>
      have hc : c' = c := hb c' rfl
      subst hc
      simp only [segs]
      split
      · rename_i hfl
        exact ih _ _ hch' (ho.push_cont i hfl)
      · rename_i hfl
        refine w9_linked_cons (ih _ _ hch' (CtxSeg.open_empty _ _)) ?_
        intro b rest hbr
        obtain ⟨s, rest', e1, e2, e3⟩ := segs_head t ⟨.exited, (HEv.handler c' i).after, []⟩
        rw [hbr] at e1
        cases e1
        unfold SegLink
        rw [e2, e3, ho.push_end i]
        refine ⟨rfl, callObs (c', i), ?_, hfl⟩
        simp [CtxSeg.obs, CtxSeg.push]
    | resume c' =>
      have hc : c' = c := hb c' rfl
      subst hc
      simp only [segs]
      split
      · rename_i hd
        have e1 : c'.resume.1 = c' := by simp [Ctx.resume, hd]
        have hch2 : Chained c' t := by simpa [HEv.after, e1] using hch'
        exact ih _ _ hch2 ho
      · rename_i hd
        exact tail (by intro _ _ h; cases h) (by intro c'' h; cases h; exact hd)
    | connack c' k => exact tail (by intro _ _ h; cases h) (by intro _ h; cases h)
    | request c' sei p => exact tail (by intro _ _ h; cases h) (by intro _ h; cases h)
    | disc c' n => exact tail (by intro _ _ h; cases h) (by intro _ h; cases h)
    | dropCtx q c' => exact tail (by intro _ _ h; cases h) (by intro _ h; cases h)
    | fresh => exact tail (by intro _ _ h; cases h) (by intro _ h; cases h)

/-! ## the observations of the current session -/

/-- the event starts a new session: the context is created or dropped, or the prelude of `run()` finds the session
    expired and resets it -/
def HEv.resets : HEv → Bool
  | .fresh => true
  | .dropCtx _ _ => true
  | .resume c => (match c.disc with | some e => c.sessionExpired e | none => false)
  | _ => false

/-- the observations of all handler calls since the last event that started a new session (`acc`: those before `h`) -/
def sessFrom (acc : List CObs) : List HEv → List CObs
  | [] => acc
  | e :: t => if e.resets then sessFrom [] t else sessFrom (acc ++ e.obs?.toList) t

/-- **the history of the current session**: the observations of all handler calls — across `run()` calls, connections
    and segments — since the session started -/
def sessionObs (h : List HEv) : List CObs := sessFrom [] h

/-- a component of the context that is a fold of the observations of the session -/
theorem session_fold {α} (f : Ctx → α) (g : α → CObs → α)
    (hstep : ∀ c i, f (c.stepIn i).1 = g (f c) (c.stepIn i).2)
    (hconn : ∀ c k, f (c.handleConnack k) = f c) (hsei : ∀ (c : Ctx) n, f { c with sei := n } = f c)
    (hdisc : ∀ (c : Ctx) d, f { c with disc := d } = f c)
    (hreset : ∀ c : Ctx, f { c with awaiting := [], subs := [], retx := [], inQos2 := [], disc := none } = f {})
    (h : List HEv) : ∀ (c : Ctx) (acc : List CObs), Chained c h → f c = acc.foldl g (f {}) →
      f (lastCtx c h) = (sessFrom acc h).foldl g (f {}) := by
  induction h with
  | nil => intro c acc _ hc; exact hc
  | cons e t ih =>
    intro c acc hch hc
    obtain ⟨hb, hch'⟩ := hch
    rw [lastCtx_cons]
    cases e with
    | handler c' i =>
      have : c' = c := hb c' rfl
      subst this
      simp only [sessFrom, HEv.resets, Bool.false_eq_true, ↓reduceIte, HEv.obs?, Option.toList]
      refine ih _ _ hch' ?_
      rw [List.foldl_append, ← hc]
      exact hstep c' i
    | resume c' =>
      have : c' = c := hb c' rfl
      subst this
      simp only [sessFrom, HEv.resets, HEv.obs?, Option.toList, List.append_nil]
      cases hd : c'.disc with
      | none =>
        simp only [Bool.false_eq_true, ↓reduceIte]
        refine ih _ _ hch' ?_
        simpa [HEv.after, Ctx.resume, hd] using hc
      | some el =>
        simp only
        by_cases hx : c'.sessionExpired el = true
        · simp only [hx, ↓reduceIte]
          refine ih _ _ hch' ?_
          simp only [HEv.after, Ctx.resume, hd, hx, ↓reduceIte, Ctx.resetSession, List.foldl_nil]
          exact hreset c'
        · have hx' : c'.sessionExpired el = false := by simpa using hx
          simp only [hx', Bool.false_eq_true, ↓reduceIte]
          refine ih _ _ hch' ?_
          simp only [HEv.after, Ctx.resume, hd, hx', Bool.false_eq_true, ↓reduceIte]
          rw [hdisc c' none]; exact hc
    | connack c' k =>
      have : c' = c := hb c' rfl
      subst this
      simp only [sessFrom, HEv.resets, Bool.false_eq_true, ↓reduceIte, HEv.obs?, Option.toList, List.append_nil]
      exact ih _ _ hch' (by simpa [HEv.after, hconn] using hc)
    | request c' sei p =>
      have : c' = c := hb c' rfl
      subst this
      simp only [sessFrom, HEv.resets, Bool.false_eq_true, ↓reduceIte, HEv.obs?, Option.toList, List.append_nil]
      refine ih _ _ hch' ?_
      cases sei with
      | none => exact hc
      | some n => simp only [HEv.after]; rw [hsei]; exact hc
    | disc c' n =>
      have : c' = c := hb c' rfl
      subst this
      simp only [sessFrom, HEv.resets, Bool.false_eq_true, ↓reduceIte, HEv.obs?, Option.toList, List.append_nil]
      refine ih _ _ hch' ?_
      simp only [HEv.after]; rw [hdisc]; exact hc
    | dropCtx q c' =>
      simp only [sessFrom, HEv.resets, ↓reduceIte]
      exact ih _ _ hch' rfl
    | fresh =>
      simp only [sessFrom, HEv.resets, ↓reduceIte]
      exact ih _ _ hch' rfl

/-- the retransmit queue is the unfinished handshakes of the whole session -/
theorem session_retx (h : List HEv) (hch : Chained {} h) : (lastCtx {} h).retx = unfinished (sessionObs h) :=
  session_fold (·.retx) retxStep step_retx (fun c k => (Ctx.handleConnack_frame c k).2.2.2.1) (fun _ _ => rfl)
    (fun _ _ => rfl) (fun _ => rfl) h {} [] hch rfl

/-- the inbound QoS 2 identifiers kept are those pending in the whole session -/
theorem session_inQos2 (h : List HEv) (hch : Chained {} h) : (lastCtx {} h).inQos2 = pendingQ2 (sessionObs h) :=
  session_fold (·.inQos2) q2Step step_inQos2 (fun c k => (Ctx.handleConnack_frame c k).1) (fun _ _ => rfl)
    (fun _ _ => rfl) (fun _ => rfl) h {} [] hch rfl

theorem sessFrom_append (a b : List HEv) (acc : List CObs) : sessFrom acc (a ++ b) = sessFrom (sessFrom acc a) b := by
  induction a generalizing acc with
  | nil => rfl
  | cons e t ih =>
    simp only [List.cons_append, sessFrom]
    split <;> exact ih _

theorem sessFrom_suffix (h : List HEv) : ∀ acc : List CObs, sessFrom acc h <:+ acc ++ h.filterMap HEv.obs? := by
  induction h with
  | nil => intro acc; simp [sessFrom]
  | cons e t ih =>
    intro acc
    rw [w9_filterMap_obs_cons]
    simp only [sessFrom]
    split
    · have h1 := ih []
      rw [List.nil_append] at h1
      exact h1.trans ((List.suffix_append _ _).trans (List.suffix_append _ _))
    · have h1 := ih (acc ++ e.obs?.toList)
      rwa [List.append_assoc] at h1

/-! ### membership in a linked list of segments -/

theorem w9_linked_pred {l : List CtxSeg} (hl : Linked l) {s : CtxSeg} (hs : s ∈ l) :
    (∃ rest, l = s :: rest) ∨ ∃ a ∈ l, SegLink a s := by
  induction l with
  | nil => cases hs
  | cons a t ih =>
    rcases List.mem_cons.mp hs with rfl | hs
    · exact Or.inl ⟨t, rfl⟩
    · right
      cases t with
      | nil => cases hs
      | cons b t' =>
        obtain ⟨h1, h2⟩ := hl
        rcases ih h2 hs with ⟨rest, e⟩ | ⟨a', ha', hl'⟩
        · cases e; exact ⟨a, by simp, h1⟩
        · exact ⟨a', by simp [ha'], hl'⟩

theorem w9_linked_adjacent {pre : List CtxSeg} {a b : CtxSeg} {post : List CtxSeg}
    (hl : Linked (pre ++ a :: b :: post)) : SegLink a b := by
  induction pre with
  | nil => exact hl.1
  | cons x t ih =>
    cases t with
    | nil => exact ih hl.2
    | cons y t' => exact ih hl.2

/-- a `run()` prelude on a context without a recorded disconnection does not show in the segments -/
theorem segs_skip_resume (a b : List HEv) (c : Ctx) (hd : c.disc = none) :
    ∀ cur, segs cur (a ++ .resume c :: b) = segs cur (a ++ b) := by
  induction a with
  | nil => intro cur; simp [segs, hd]
  | cons e t ih =>
    intro cur
    cases e <;> simp only [List.cons_append, segs, ih]

/-- the QoS>0 PUBLISH packets of a retransmit queue: (packet identifier, QoS) — what is in flight again after they were
    re-sent -/
def inflightOf (r : List (Nat × Bytes)) : List (Nat × Nat) :=
  r.filterMap fun x => if pktType x.2 = 3 then some (aidPid x.1, if aidKind x.1 = 4 then 1 else 2) else none

namespace World
open W7

/-! ## the ghost functions -/

/-- the event of the wait for the first response of `connect()` / `authorize()`: a CONNACK is handled -/
def firstEvs (w : World) : List HEv :=
  match pollNext w.rx w.reader with
  | (_, _, .item fr) =>
    (match decodeRx fr with
     | .ok (.connack k) => [.connack w.c k]
     | _ => [])
  | _ => []

/-- the session expiry interval `connect()` records (nothing for `authorize()`) -/
def reqSei (call : Call) (t : ConnectTx) : Option Nat :=
  match call with
  | .connect => some (t.sessionExpiry.getD 0)
  | _ => none

/-- the events of ONE poll of the context task -/
def ctxEvs (w : World) : List HEv :=
  match w.task with
  | .none => []
  | .connecting call t a started =>
    if started then w.firstEvs else
    if !reqValid call t a then [] else
      .request w.c (reqSei call t) (reqBytes call t a) ::
        (if w.canWrite (reqBytes call t a).length then ((seiSet w call t).writeBytes (reqBytes call t a)).firstEvs
         else [])
  | .running started =>
    if started then histEvs w.c (loopHist w.loopFuel w)
    else .resume w.c ::
      (if w.resumed.canWrite ((w.c.resume.2.2.map List.length).sum) then
         histEvs w.c.resume.1 (loopHist w.resent.loopFuel w.resent)
       else [])

/-- the events of one poll of a task: only the context task touches the context -/
def taskEvs (w : World) : Task → List HEv
  | .ctx => (w.unwake .ctx).ctxEvs
  | _ => []

/-- … of the executor running until nothing is ready -/
def drainEvs : Nat → World → List HEv
  | 0, _ => []
  | f+1, w =>
    match w.pick with
    | none => []
    | some t => w.taskEvs t ++ drainEvs f (w.pollTask t)

/-- … of the sweep over the task list `l` -/
def sweepListEvs : List Task → World → List HEv
  | [], _ => []
  | t :: l, w =>
    if w.taskLive t ∧ t ∉ w.woken ∧ t ∉ w.held then w.taskEvs t ++ sweepListEvs l (w.pollTask t)
    else sweepListEvs l w

def sweepEvs (w : World) : List HEv := sweepListEvs w.sweepTasks w

/-- … of a script event itself -/
def applyEvs (w : World) : Ev → List HEv
  | .poll t => if w.taskLive t then w.taskEvs t else []
  | .setup =>
    if w.task ≠ .none ∨ w.ctxDropped then [] else
    if !w.hasCtx then (if w.handles ≠ [] ∨ w.ops ≠ [] then [] else [.fresh]) else []
  | .dropCtx => if w.hasCtx then [.dropCtx w.queue w.c] else []
  | .markDisc secs => if !w.hasCtx ∨ w.task ≠ .none then [] else [.disc w.c secs]
  | _ => []

/-- … of one script step: the event, the drain, and with `exec=sweep` the sweep and the second drain -/
def stepEvs (w : World) (e : Ev) : List HEv :=
  if w.bad then [] else
  let w0 := w.emit (.ev e)
  let w1 := w0.apply e
  w0.applyEvs e ++
    (if w1.bad then [] else
      let w2 := drain w1.drainFuel w1
      drainEvs w1.drainFuel w1 ++
        (if w2.cfg.sweep then w2.sweepEvs ++ drainEvs w2.sweep.drainFuel w2.sweep else []))

/-- … of a script run from the world `w` -/
def scriptEvs : World → List Ev → List HEv
  | _, [] => []
  | w, e :: es => w.stepEvs e ++ scriptEvs (w.step e) es

/-- **the history of the context over the script `evs`**: everything that touches the context, in order -/
def history (cfg : Cfg) (evs : List Ev) : List HEv := scriptEvs { cfg := cfg } evs

theorem ctxEvs_running (w : World) (started : Bool) (ht : w.task = .running started) :
    w.ctxEvs =
      if started then histEvs w.c (loopHist w.loopFuel w)
      else .resume w.c ::
        (if w.resumed.canWrite ((w.c.resume.2.2.map List.length).sum) then
           histEvs w.c.resume.1 (loopHist w.resent.loopFuel w.resent)
         else []) := by
  simp [ctxEvs, ht]

theorem scriptEvs_append (a b : List Ev) (w : World) :
    scriptEvs w (a ++ b) = scriptEvs w a ++ scriptEvs (a.foldl step w) b := by
  induction a generalizing w with
  | nil => simp [scriptEvs]
  | cons e es ih => simp [scriptEvs, ih]

/-! ## `Tracks` -/

/-- the events `h` account for the move of the context from `w` to `w'` -/
structure Tracks (w w' : World) (h : List HEv) : Prop where
  /-- each event happens in the state the previous one left, the first one in the state of `w` -/
  chained : Chained w.c h
  /-- the context of `w'` is the state the last event left -/
  c_eq : w'.c = lastCtx w.c h
  /-- handler inputs are well formed -/
  ok : ∀ e ∈ h, e.ok

theorem Tracks.nil {w w' : World} (h : w'.c = w.c) : Tracks w w' [] := ⟨trivial, h, by simp⟩

theorem Tracks.trans {a b c : World} {h1 h2 : List HEv} (t1 : Tracks a b h1) (t2 : Tracks b c h2) :
    Tracks a c (h1 ++ h2) where
  chained := (chained_append _ _ _).mpr ⟨t1.chained, by rw [← t1.c_eq]; exact t2.chained⟩
  c_eq := by rw [lastCtx_append, ← t1.c_eq]; exact t2.c_eq
  ok := by
    intro e he
    rcases List.mem_append.mp he with h | h
    · exact t1.ok e h
    · exact t2.ok e h

theorem Tracks.congr_left {a a' b : World} {h : List HEv} (t : Tracks a b h) (hc : a'.c = a.c) : Tracks a' b h :=
  ⟨by rw [hc]; exact t.chained, by rw [hc]; exact t.c_eq, t.ok⟩

theorem Tracks.congr_right {a b b' : World} {h : List HEv} (t : Tracks a b h) (hc : b'.c = b.c) : Tracks a b' h :=
  ⟨t.chained, by rw [hc]; exact t.c_eq, t.ok⟩

theorem Tracks.one {w w' : World} (e : HEv) (hb : ∀ b, e.before = some b → b = w.c) (ha : w'.c = e.after)
    (hok : e.ok) : Tracks w w' [e] :=
  ⟨⟨hb, trivial⟩, ha, by simpa using hok⟩

/-- a poll of the `select!` loop is tracked by the handler events of its history -/
theorem tracks_pollServe {w r : World} {is : List CIn} (h : PollServe w r is) : Tracks w r (histEvs w.c is) where
  chained := chained_histEvs _ _
  c_eq := by rw [(histEvs_full _ _ h.len_eq).1]; exact h.c_eq
  ok := histEvs_ok _ _ h.wf

/-! ### the context task -/

theorem firstEvs_congr {w w' : World} (h1 : w'.rx = w.rx) (h2 : w'.reader = w.reader) (h3 : w'.c = w.c) :
    w'.firstEvs = w.firstEvs := by
  simp only [firstEvs, h1, h2, h3]

theorem firstEnd_tracks {w : World} {call : Call} {t : ConnectTx} {a : AuthTx} {r : World}
    (h : FirstEnd w call t a r) : Tracks w r w.firstEvs := by
  have hk : ∀ (k : ConnackRx) (w' : World), w'.c = w.c.handleConnack k → Tracks w w' [.connack w.c k] :=
    fun k w' hc => .one _ (fun b hb => by cases hb; rfl) hc trivial
  cases h with
  | connack rx' rd' fr k hp hd =>
    have e : w.firstEvs = [.connack w.c k] := by simp [firstEvs, hp, hd]
    rw [e]; exact hk k _ (by simp)
  | refused rx' rd' fr k hp hd =>
    have e : w.firstEvs = [.connack w.c k] := by simp [firstEvs, hp, hd]
    rw [e]; exact hk k _ (by simp)
  | assertSubId rx' rd' fr k hp hd =>
    have e : w.firstEvs = [.connack w.c k] := by simp [firstEvs, hp, hd]
    rw [e]; exact hk k _ (by simp)
  | auth rx' rd' fr au hp hd =>
    have e : w.firstEvs = [] := by simp [firstEvs, hp, hd]
    rw [e]; exact .nil (by simp)
  | unexpected rx' rd' fr p hp hd h1 h2 =>
    have e : w.firstEvs = [] := by
      simp only [firstEvs, hp, hd]
      cases p <;> first | rfl | exact absurd rfl (h1 _)
    rw [e]; exact .nil (by simp)
  | codec rx' rd' fr hp hd =>
    have e : w.firstEvs = [] := by simp [firstEvs, hp, hd]
    rw [e]; exact .nil (by simp)
  | panic rx' rd' fr hp hd =>
    have e : w.firstEvs = [] := by simp [firstEvs, hp, hd]
    rw [e]; exact .nil (by simp)
  | sock rx' rd' hp =>
    have e : w.firstEvs = [] := by simp [firstEvs, hp]
    rw [e]; exact .nil (by simp)
  | pending rx' rd' hp =>
    have e : w.firstEvs = [] := by simp [firstEvs, hp]
    rw [e]
    refine .nil ?_
    split <;> simp

theorem awaitFirst_tracks (w : World) (call : Call) (t : ConnectTx) (a : AuthTx) :
    Tracks w (w.awaitFirst call t a) w.firstEvs := firstEnd_tracks (awaitFirst_spec w call t a)

theorem pollCtx_tracks (w : World) : Tracks w w.pollCtx w.ctxEvs := by
  unfold pollCtx ctxEvs
  cases ht : w.task with
  | none => exact .nil rfl
  | connecting call t a started =>
    cases started with
    | true => simp only [pollConnect, ↓reduceIte]; exact awaitFirst_tracks w call t a
    | false =>
      simp only [Bool.false_eq_true, ↓reduceIte]
      rw [pollConnect_false_eq]
      by_cases hv : reqValid call t a = true
      · simp only [hv, Bool.not_true, Bool.false_eq_true, ↓reduceIte]
        have h1 : Tracks w ((seiSet w call t).writeBytes (reqBytes call t a))
            [.request w.c (reqSei call t) (reqBytes call t a)] :=
          .one _ (fun b hb => by cases hb; rfl) (by rw [writeBytes_c]; cases call <;> rfl) trivial
        split
        · exact h1.trans (awaitFirst_tracks _ call t a)
        · have := h1.trans (Tracks.nil (w' := ((seiSet w call t).writeBytes (reqBytes call t a)).finish call
            (.err .socketClosed)) (by simp))
          simpa using this
      · have hv' : reqValid call t a = false := by simpa using hv
        simp only [hv', Bool.not_false, ↓reduceIte]
        exact .nil (by simp)
  | running started =>
    cases started with
    | true =>
      simp only [↓reduceIte]
      exact tracks_pollServe (pollRun_started_pollServe w)
    | false =>
      simp only [Bool.false_eq_true, ↓reduceIte]
      have h1 : Tracks w w.resumed [.resume w.c] :=
        .one _ (fun b hb => by cases hb; rfl) (resumed_c w) trivial
      have h2 : Tracks w.resumed w.resent [] := .nil (by rw [resent_c, resumed_c])
      by_cases hc : w.resumed.canWrite ((w.c.resume.2.2.map List.length).sum) = true
      · rw [if_pos hc]
        have h3 := tracks_pollServe (pollRun_first_pollServe w hc)
        rw [resent_c] at h3
        have := (h1.trans h2).trans h3
        simpa using this
      · rw [if_neg hc]
        have hc' : w.resumed.canWrite ((w.c.resume.2.2.map List.length).sum) = false := by simpa using hc
        have h3 : Tracks w.resumed (w.pollRun false) [] :=
          .nil (by rw [(pollRun_first_fail w hc').1, resumed_c])
        have := h1.trans h3
        simpa using this

/-! ### tasks, the executor -/

theorem pollTask_tracks (w : World) (t : Task) : Tracks w (w.pollTask t) (w.taskEvs t) := by
  cases t with
  | ctx =>
    simp only [pollTask, taskEvs]
    exact (pollCtx_tracks (w.unwake .ctx)).congr_left (by simp)
  | op n => exact .nil (by simp [pollTask, pollOp_c])
  | st n => exact .nil (by simp [pollTask, pollStream_c])

theorem drain_tracks (f : Nat) (w : World) : Tracks w (drain f w) (drainEvs f w) := by
  induction f generalizing w with
  | zero => exact .nil rfl
  | succ f ih =>
    simp only [drain, drainEvs]
    cases hp : w.pick with
    | none => exact .nil rfl
    | some t => exact (pollTask_tracks w t).trans (ih _)

theorem sweepList_tracks (l : List Task) (w : World) :
    Tracks w (l.foldl (fun w t => if w.taskLive t ∧ t ∉ w.woken ∧ t ∉ w.held then w.pollTask t else w) w)
      (sweepListEvs l w) := by
  induction l generalizing w with
  | nil => exact .nil rfl
  | cons t l ih =>
    simp only [List.foldl_cons, sweepListEvs]
    split
    · exact (pollTask_tracks w t).trans (ih _)
    · exact ih w

theorem sweep_tracks (w : World) : Tracks w w.sweep w.sweepEvs := sweepList_tracks w.sweepTasks w

/-! ### script events, steps, scripts -/

theorem apply_tracks (w : World) (e : Ev) : Tracks w (w.apply e) (w.applyEvs e) := by
  cases e with
  | poll t =>
    simp only [apply, applyEvs]
    split
    · exact pollTask_tracks w t
    · exact .nil rfl
  | setup =>
    simp only [apply, applyEvs]
    split
    · exact .nil rfl
    · split
      · split
        · exact .nil rfl
        · exact .one _ (fun b hb => by cases hb) rfl trivial
      · exact .nil (flushRaw_c w)
  | dropCtx =>
    cases hc : w.hasCtx with
    | false => simp only [apply, applyEvs, hc]; exact .nil rfl
    | true =>
      rw [apply_dropCtx w hc]
      simp only [applyEvs, hc, ↓reduceIte]
      exact .one _ (fun b hb => by cases hb; rfl) rfl trivial
  | markDisc secs =>
    simp only [apply, applyEvs]
    split
    · exact .nil rfl
    · exact .one _ (fun b hb => by cases hb; rfl) rfl trivial
  | connect t => simp only [apply, applyEvs]; split <;> exact .nil (by first | rfl | simp)
  | authorize a => simp only [apply, applyEvs]; split <;> exact .nil (by first | rfl | simp)
  | run => simp only [apply, applyEvs]; split <;> exact .nil (by first | rfl | simp)
  | dropFut => exact .nil rfl
  | snap => simp only [apply, applyEvs]; split <;> exact .nil (by first | rfl | simp)
  | feed chunks =>
    simp only [apply, applyEvs]; split
    · exact .nil rfl
    · exact .nil (feedEvents_c _ _)
  | feedEof =>
    simp only [apply, applyEvs]; split
    · exact .nil rfl
    · exact .nil (feedEvents_c _ _)
  | feedErr =>
    simp only [apply, applyEvs]; split
    · exact .nil rfl
    · exact .nil (feedEvents_c _ _)
  | op id h req => simp only [apply, applyEvs]; split <;> exact .nil (by first | rfl | simp)
  | hold t => simp only [apply, applyEvs]; split <;> exact .nil rfl
  | release t => exact .nil rfl
  | drop t =>
    cases t with
    | ctx => exact .nil rfl
    | op id => exact .nil (dropOp_c w id)
    | st id => simp only [apply, applyEvs]; split <;> exact .nil rfl
  | dropRsp id => simp only [apply, applyEvs]; split <;> exact .nil rfl
  | stream id => simp only [apply, applyEvs]; split <;> exact .nil (by first | rfl | simp)
  | clone h h2 => simp only [apply, applyEvs]; split <;> exact .nil rfl
  | dropHandle h => simp only [apply, applyEvs]; split <;> exact .nil (by first | rfl | simp)

/-- **one script step** is tracked by its events -/
theorem step_tracks (w : World) (e : Ev) : Tracks w (w.step e) (w.stepEvs e) := by
  unfold step stepEvs
  split
  · exact .nil rfl
  · dsimp only
    have h1 : Tracks w ((w.emit (.ev e)).apply e) ((w.emit (.ev e)).applyEvs e) :=
      (apply_tracks (w.emit (.ev e)) e).congr_left (by simp)
    generalize (w.emit (.ev e)).apply e = w1 at h1 ⊢
    split
    · simpa using h1
    · have h2 := drain_tracks w1.drainFuel w1
      generalize drain w1.drainFuel w1 = w2 at h2 ⊢
      have h3 : Tracks w2 (if w2.cfg.sweep = true then drain w2.sweep.drainFuel w2.sweep else w2)
          (if w2.cfg.sweep = true then w2.sweepEvs ++ drainEvs w2.sweep.drainFuel w2.sweep else []) := by
        split
        · exact (sweep_tracks w2).trans (drain_tracks _ _)
        · exact .nil rfl
      generalize (if w2.cfg.sweep = true then drain w2.sweep.drainFuel w2.sweep else w2) = w3 at h3 ⊢
      have h4 : Tracks w3 (if w3.task ≠ CtxTask.none ∧ w3.reader ≠ [] then w3.emit Obs.stall else w3) [] := by
        split
        · exact .nil (by simp)
        · exact .nil rfl
      have := ((h1.trans h2).trans h3).trans h4
      simpa [List.append_assoc] using this

theorem scriptEvs_tracks (evs : List Ev) (w : World) : Tracks w (evs.foldl step w) (scriptEvs w evs) := by
  induction evs generalizing w with
  | nil => exact .nil rfl
  | cons e es ih => exact (step_tracks w e).trans (ih _)

/-- **every script is tracked by its history**: the events of `history cfg evs` are chained from the fresh context, the
    context of the world reached is the state the last one left, every handler input is well formed -/
theorem script_tracks (cfg : Cfg) (evs : List Ev) :
    Tracks { cfg := cfg } (evs.foldl step { cfg := cfg }) (history cfg evs) :=
  scriptEvs_tracks evs _

/-! ## the bytes handed to the transport (unlimited transport) -/

theorem firstEvs_pkts (w : World) : evPkts w.firstEvs = [] := by
  unfold firstEvs
  split
  · split <;> simp [HEv.pkts]
  · rfl

theorem ctxEvs_pkts (w : World) (hl : w.cfg.wlimit = none) : evPkts w.ctxEvs = w.ctxSubmits := by
  unfold ctxEvs ctxSubmits
  cases ht : w.task with
  | none => rfl
  | connecting call t a started =>
    cases started with
    | true => simp [firstEvs_pkts]
    | false =>
      simp only [Bool.false_eq_true, ↓reduceIte]
      by_cases hv : reqValid call t a = true
      · simp only [hv, Bool.not_true, Bool.false_eq_true, ↓reduceIte, evPkts_cons, HEv.pkts]
        rw [if_pos (canWrite_unlimited w hl _), firstEvs_pkts]
        cases call <;> rfl
      · have hv' : reqValid call t a = false := by simpa using hv
        simp [hv']
  | running started =>
    cases started with
    | true =>
      simp only [↓reduceIte]
      exact (histEvs_full _ _ (pollRun_started_pollServe w).len_eq).2.1
    | false =>
      simp only [Bool.false_eq_true, ↓reduceIte, evPkts_cons, HEv.pkts]
      have hc : w.resumed.canWrite ((w.c.resume.2.2.map List.length).sum) = true :=
        canWrite_unlimited _ (by rw [resumed_cfg]; exact hl) _
      rw [if_pos hc]
      have hp := pollRun_first_pollServe w hc
      have := (histEvs_full _ _ hp.len_eq).2.1
      rw [resent_c] at this ⊢
      rw [show evPkts (histEvs w.c.resume.1 (loopHist w.resent.loopFuel w.resent)) = _ from this]

theorem taskEvs_pkts (w : World) (t : Task) (hl : w.cfg.wlimit = none) : evPkts (w.taskEvs t) = w.taskSubmits t := by
  cases t with
  | ctx => exact ctxEvs_pkts _ (by simpa using hl)
  | op n => rfl
  | st n => rfl

theorem drainEvs_pkts (f : Nat) (w : World) (hl : w.cfg.wlimit = none) :
    evPkts (drainEvs f w) = drainSubmits f w := by
  induction f generalizing w with
  | zero => rfl
  | succ f ih =>
    simp only [drainEvs, drainSubmits]
    cases hp : w.pick with
    | none => rfl
    | some t =>
      simp only [evPkts_append]
      rw [taskEvs_pkts w t hl, ih _ (by rw [pollTask_cfg]; exact hl)]

theorem sweepListEvs_pkts (l : List Task) (w : World) (hl : w.cfg.wlimit = none) :
    evPkts (sweepListEvs l w) = sweepListSubmits l w := by
  induction l generalizing w with
  | nil => rfl
  | cons t l ih =>
    simp only [sweepListEvs, sweepListSubmits]
    split
    · simp only [evPkts_append]
      rw [taskEvs_pkts w t hl, ih _ (by rw [pollTask_cfg]; exact hl)]
    · exact ih w hl

theorem applyEvs_pkts (w : World) (e : Ev) (hl : w.cfg.wlimit = none) : evPkts (w.applyEvs e) = w.applySubmits e := by
  cases e with
  | poll t =>
    simp only [applyEvs, applySubmits]
    split
    · exact taskEvs_pkts w t hl
    · rfl
  | setup => simp only [applyEvs, applySubmits]; (repeat' split) <;> rfl
  | dropCtx => simp only [applyEvs, applySubmits]; split <;> rfl
  | markDisc secs => simp only [applyEvs, applySubmits]; split <;> rfl
  | _ => rfl

theorem stepEvs_pkts (w : World) (e : Ev) (hl : w.cfg.wlimit = none) : evPkts (w.stepEvs e) = w.stepSubmits e := by
  unfold stepEvs stepSubmits
  split
  · rfl
  · dsimp only
    have h0 : (w.emit (.ev e)).cfg.wlimit = none := by simpa using hl
    have hc1 : ((w.emit (.ev e)).apply e).cfg.wlimit = none := by rw [apply_cfg]; exact h0
    rw [evPkts_append, applyEvs_pkts _ e h0]
    generalize (w.emit (.ev e)).apply e = w1 at hc1 ⊢
    congr 1
    split
    · rfl
    · have hc2 : (drain w1.drainFuel w1).cfg.wlimit = none := by rw [drain_cfg]; exact hc1
      rw [evPkts_append, drainEvs_pkts _ _ hc1]
      congr 1
      split
      · rw [evPkts_append]
        unfold sweepEvs sweepSubmits
        rw [sweepListEvs_pkts _ _ hc2, drainEvs_pkts _ _ (by rw [sweep_cfg]; exact hc2)]
      · rfl

theorem scriptEvs_pkts (evs : List Ev) (w : World) (hl : w.cfg.wlimit = none) :
    evPkts (scriptEvs w evs) = scriptSubmits w evs := by
  induction evs generalizing w with
  | nil => rfl
  | cons e es ih =>
    simp only [scriptEvs, scriptSubmits, evPkts_append]
    rw [stepEvs_pkts w e hl, ih _ (by rw [step_cfg]; exact hl)]

/-- **the bytes of a script, unlimited transport**: what the script hands to the transport is exactly, in order, the
    packets of the events of its history -/
theorem scriptEvs_sent (evs : List Ev) (w : World) (hl : w.cfg.wlimit = none) :
    (evs.foldl step w).sent = w.sent ++ (evPkts (scriptEvs w evs)).flatten := by
  rw [scriptEvs_pkts evs w hl]; exact scriptSubmits_sent evs w hl

/-! ## computing the history of concrete polls (for examples) -/

/-- exactly one message queued whose handler lets the loop go on, nothing at the transport, framing idle: the history of
    the poll is that message -/
theorem w9_loopHist_one_msg (f : Nat) (w : World) (m : Msg) (hq : w.queue = [m]) (hrx : w.rx = {}) (hrd : w.reader = []) :
    loopHist (f + 2) w = [w.inMsg m] := by
  have hi : w.iterIn = some (w.inMsg m) := by simp [iterIn, hq]
  rw [loopHist_succ, hi]
  simp only
  cases h : runIter w with
  | inr r => rfl
  | inl w1 =>
    simp only
    have hc := runIter_inl h
    have h1 : w1.queue = [] ∧ w1.rx = {} ∧ w1.reader = [] := by
      cases hc with
      | msg m' q w1 hq' hr =>
        rw [hq] at hq'
        cases hq'
        have e : w1 = (World.runHandler { w with queue := [] } (fun wok => w.c.handleMsg m wok)).1 := by rw [hr]
        rw [e]
        exact ⟨by simp, by simp [hrx], by simp [hrd]⟩
      | pkt rx' rd' fr' p' w1 hq' hs' hp' hd' hr => rw [hq] at hq'; cases hq'
    have : w1.iterIn = none := by
      simp [iterIn, h1.1, h1.2.1, h1.2.2, pollNext_idle_nil]
    rw [loopHist_succ, this]

end World

end Poster
