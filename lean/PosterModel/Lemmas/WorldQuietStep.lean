/-
  Lemmas/WorldQuietStep.lean — the registration invariant through every script event (`apply`), the executor
  (`drain`, `sweep`) and a whole script step (`step`), under the side condition `evOk` on the event.
-/
import PosterModel.Lemmas.WorldQuietUser

set_option linter.unusedVariables false
set_option linter.unusedSimpArgs false

namespace Poster
open Framing
namespace World

/-- side condition on a script event: a SUBSCRIBE operation does not re-use the identifier of a live stream or
    of a response whose stream has not been taken yet (the script names the stream of operation `id` by `id`, so
    re-using the identifier would make two different subscription channels share one name in the model) -/
def evOk (w : World) : Ev → Bool
  | .op id _ (.subscribe _) => decide (id ∉ w.streams) && decide (id ∉ w.rsps)
  | _ => true

/-! ## small steps -/

theorem Inv.init (cfg : Cfg) : Inv NoE { cfg := cfg } := by
  refine ⟨fun h => absurd rfl h, fun t _ _ => ?_, ?_, ?_, by simp, ?_, ?_⟩
  · cases t with
    | ctx => exact fun h => absurd rfl h
    | op id => intro st hst; simp [opSt, lookupFirst] at hst
    | st id => intro hs; simp at hs
  · intro id s k hst; simp [opSt, lookupFirst] at hst
  · intro id s k hst; simp [opSt, lookupFirst] at hst
  · intro id hsub
    rcases hsub with ⟨hh, t, e⟩ | ⟨s, e⟩ <;> simp [opSt, lookupFirst] at e
  · intro id hid; simp at hid

theorem Inv.badScript {E : Task → Prop} {w : World} (h : Inv E w) : Inv E w.badScript :=
  h.frame (fun _ x => x) rfl rfl rfl rfl rfl rfl h.hasCtx (Or.inr (Or.inr ⟨rfl, rfl, rfl, rfl, rfl, rfl, rfl⟩))

theorem Inv.setHeld {E : Task → Prop} {w : World} (h : Inv E w) (l : List Task) : Inv E { w with held := l } :=
  h.frame (fun _ x => x) rfl rfl rfl rfl rfl rfl h.hasCtx (Or.inr (Or.inr ⟨rfl, rfl, rfl, rfl, rfl, rfl, rfl⟩))

/-- `connect()` / `authorize()` / `run()` called: the new future is flagged -/
theorem Inv.startCtx {w : World} (h : Inv NoE w) (hc : w.hasCtx = true) (tk : CtxTask) :
    Inv NoE (({ w with task := tk } : World).wake .ctx) := by
  refine ⟨fun _ => by simpa using hc, fun t ht hE => ?_, ?_, ?_, by simpa using h.nodup, ?_, ?_⟩
  · have ht' : t ∉ w.woken := fun hm => ht (mem_wake_of_mem _ _ _ hm)
    have h0 := h.ok t ht' hE
    cases t with
    | ctx => exact absurd (mem_wake_self _ _) ht
    | op id => exact h0.op_congr (by simp) (by simp) (by simp)
    | st id => exact h0.st_congr (by simp) (by simp)
  · intro id s k hst; exact h.own id s k (by simpa [opSt] using hst)
  · intro id s k hst hE; simpa [slot] using h.slotEx id s k (by simpa [opSt] using hst) hE
  · intro id hsub; simpa using h.subp id (by simpa [opSt] using hsub)
  · intro id hid; simpa using h.disj id (by simpa using hid)

theorem Inv.closes {E : Task → Prop} {a b : World} (hc : Closes a b) (h : Inv E a) : Inv E b := by
  induction hc with
  | refl => exact h
  | slot s _ ih => exact ih.dropSlotTx s
  | chan c _ ih => exact ih.dropChanTx c

theorem lookupFirst_append_single {β} (k a : Nat) (v : β) (l : List (Nat × β)) :
    lookupFirst k (l ++ [(a, v)]) =
      match lookupFirst k l with
      | some x => some x
      | none => if a = k then some v else none := by
  induction l with
  | nil => simp [lookupFirst]
  | cons x t ih =>
    obtain ⟨a', b'⟩ := x
    simp only [List.cons_append, lookupFirst]
    split
    · rfl
    · exact ih

/-- a handle method is called: the new future is flagged -/
theorem Inv.addOp {w : World} (h : Inv NoE w) (id hh : Nat) (req : Req) (hop : w.opSt id = none)
    (hsub : ∀ t, req = .subscribe t → id ∉ w.streams ∧ id ∉ w.rsps) :
    Inv NoE (({ w with ops := w.ops ++ [(id, OpSt.fresh hh req)] } : World).wake (.op id)) := by
  have hself : lookupFirst id (w.ops ++ [(id, OpSt.fresh hh req)]) = some (.fresh hh req) := by
    rw [lookupFirst_append_single]
    have : lookupFirst id w.ops = none := hop
    simp [this]
  have hother : ∀ id', id' ≠ id → lookupFirst id' (w.ops ++ [(id, OpSt.fresh hh req)]) = w.opSt id' := by
    intro id' hne
    rw [lookupFirst_append_single]
    cases h1 : lookupFirst id' w.ops with
    | none => simp [opSt, h1, Ne.symm hne]
    | some x => simp [opSt, h1]
  refine ⟨by simpa using h.hasCtx, fun t ht hE => ?_, ?_, ?_, ?_, ?_, by simpa using h.disj⟩
  · have ht' : t ∉ w.woken := fun hm => ht (mem_wake_of_mem _ _ _ hm)
    have h0 := h.ok t ht' hE
    cases t with
    | ctx => exact h0.ctx_congr (by simp) (by simp) (by simp) (by simp) (by simp) (by simp) (by simp [senders])
    | st id' => exact h0.st_congr (by simp) (by simp)
    | op id' =>
      by_cases hid : id' = id
      · subst hid; exact absurd (mem_wake_self _ _) ht
      · intro st hst
        have e : lookupFirst id' (w.ops ++ [(id, OpSt.fresh hh req)]) = some st := by simpa [opSt] using hst
        rw [hother id' hid] at e
        simpa [slot] using h0 st e
  · intro id' s k hst
    have e : lookupFirst id' (w.ops ++ [(id, OpSt.fresh hh req)]) = some (.wait s k) := by simpa [opSt] using hst
    by_cases hid : id' = id
    · subst hid; rw [hself] at e; cases e
    · rw [hother id' hid] at e; exact h.own id' s k e
  · intro id' s k hst hE
    have e : lookupFirst id' (w.ops ++ [(id, OpSt.fresh hh req)]) = some (.wait s k) := by simpa [opSt] using hst
    by_cases hid : id' = id
    · subst hid; rw [hself] at e; cases e
    · rw [hother id' hid] at e; simpa [slot] using h.slotEx id' s k e hE
  · have hnot : id ∉ w.ops.map (·.1) := (User.lookupFirst_none_iff id w.ops).1 hop
    simp only [wake_ops, List.map_append, List.map_cons, List.map_nil]
    rw [List.nodup_append]
    refine ⟨h.nodup, by simp, ?_⟩
    intro a ha b hb
    simp only [List.mem_singleton] at hb
    subst hb
    intro e; subst e; exact hnot ha
  · intro id' hs
    have hs' : (∃ h' t, lookupFirst id' (w.ops ++ [(id, OpSt.fresh hh req)]) = some (.fresh h' (.subscribe t))) ∨
        (∃ s, lookupFirst id' (w.ops ++ [(id, OpSt.fresh hh req)]) = some (.wait s .suback)) := by
      simpa [opSt] using hs
    show id' ∉ (World.wake _ _).streams ∧ id' ∉ (World.wake _ _).rsps
    simp only [wake_streams, wake_rsps]
    by_cases hid : id' = id
    · subst hid
      rw [hself] at hs'
      rcases hs' with ⟨h', t, e⟩ | ⟨s, e⟩
      · cases e; exact hsub t rfl
      · cases e
    · rw [hother id' hid] at hs'
      exact h.subp id' hs'

/-- the number of senders of the message queue changes: if the last one goes, `run()` is woken -/
theorem Inv.senderGoneOf {E : Task → Prop} {w w1 : World} (h : Inv E w)
    (h1 : Inv (fun u => E u ∨ u = .ctx) w1)
    (htask : w1.task = w.task) (hhc : w1.hasCtx = w.hasCtx) (hrd : w1.reader = w.reader)
    (hrr : w1.readerReg = w.readerReg) (hrx : w1.rx = w.rx) (hq : w1.queue = w.queue)
    (hqr : w1.queueReg = w.queueReg) (hwk : w1.woken = w.woken) : Inv E w1.senderGone := by
  generalize hR : w1.senderGone = R
  have e := senderGone_eq w1
  rw [hR] at e
  have hwoken : ∀ t, t ∈ w1.woken → t ∈ R.woken := by
    intro t ht; rw [← hR]; simp only [World.senderGone]; split
    · exact mem_wake_of_mem _ _ _ ht
    · exact ht
  have hctx : Task.ctx ∉ R.woken → R.queueReg = w1.queueReg ∧ (w1.queueReg = true → w1.hasCtx = true → R.senders ≠ 0) := by
    intro hn
    rw [← hR] at hn ⊢
    simp only [World.senderGone] at hn ⊢
    split
    · rename_i hc; rw [if_pos hc] at hn; exact absurd (mem_wake_self _ _) hn
    · rename_i hc
      exact ⟨rfl, fun a b c => hc ⟨c, b, a⟩⟩
  refine ⟨?_, fun t ht hE => ?_, ?_, ?_, ?_, ?_, ?_⟩
  · rw [e]; exact h1.hasCtx
  · cases t with
    | ctx =>
      have h0 := h.ok .ctx (fun hm => ht (hwoken _ (hwk ▸ hm))) hE
      intro hne
      have hne' : w.task ≠ .none := by rw [← htask]; rw [e] at hne; exact hne
      obtain ⟨a1, a2, a3, a4⟩ := h0 hne'
      obtain ⟨c1, c2⟩ := hctx ht
      refine ⟨by rw [e]; exact hrd.trans a1, by rw [e]; exact hrr.trans a2, by rw [e]; rw [hrx]; exact a3, ?_⟩
      rcases a4 with ⟨b1, b2, b3, b4⟩ | ⟨call, t, a, b1⟩
      · refine Or.inl ⟨by rw [e]; exact htask.trans b1, by rw [e]; exact hq.trans b2, by rw [c1, hqr]; exact b3, ?_⟩
        exact c2 (hqr.trans b3) (hhc.trans (h.hasCtx hne'))
      · exact Or.inr ⟨call, t, a, by rw [e]; exact htask.trans b1⟩
    | op id =>
      have h0 := h1.ok (.op id) (fun hm => ht (hwoken _ hm)) (by rintro (x | x); exact hE x; cases x)
      exact h0.op_congr (by rw [e]) (by rw [e]) (by rw [e])
    | st id =>
      have h0 := h1.ok (.st id) (fun hm => ht (hwoken _ hm)) (by rintro (x | x); exact hE x; cases x)
      exact h0.st_congr (by rw [e]) (by rw [e])
  · intro id s k hst; exact h1.own id s k (by rw [e] at hst; exact hst)
  · intro id s k hst hE
    have := h1.slotEx id s k (by rw [e] at hst; exact hst) (by rintro (x | x); exact hE x; cases x)
    rw [e]; exact this
  · rw [e]; exact h1.nodup
  · intro id hs; rw [e]; exact h1.subp id (by rw [e] at hs; exact hs)
  · intro id hs; rw [e]; exact h1.disj id (by rw [e] at hs; exact hs)

/-- a stream is dropped (or has ended): it leaves the stream table together with its channel -/
theorem Inv.endStream {E : Task → Prop} {w : World} (h : Inv E w) (id : Nat) :
    Inv E { w with streams := w.streams.filter (· ≠ id), chans := eraseFirst id w.chans } := by
  refine ⟨h.hasCtx, fun t ht hE => ?_, h.own, h.slotEx, h.nodup, ?_, ?_⟩
  · have h0 := h.ok t ht hE
    cases t with
    | ctx => exact h0.ctx_congr rfl rfl rfl rfl rfl rfl (by simp [senders])
    | op id' => exact h0.op_congr rfl rfl rfl
    | st id' =>
      intro hs' ch' hch'
      have hs2 : id' ∈ w.streams.filter (· ≠ id) := hs'
      have hne : id' ≠ id := by simpa using (List.mem_filter.mp hs2).2
      have e' : lookupFirst id' (eraseFirst id w.chans) = some ch' := hch'
      rw [lookupFirst_eraseFirst_ne _ _ _ hne] at e'
      exact h0 (List.mem_filter.mp hs2).1 ch' e'
  · intro id' hsub
    obtain ⟨a, b⟩ := h.subp id' hsub
    exact ⟨fun hm => a (List.mem_filter.mp hm).1, b⟩
  · intro id' hid hm
    exact h.disj id' hid (List.mem_filter.mp hm).1

/-- a SUBACK response is dropped without taking its stream -/
theorem Inv.dropRsp {E : Task → Prop} {w : World} (h : Inv E w) (id : Nat) (hid : id ∈ w.rsps) :
    Inv E (({ w with rsps := w.rsps.filter (· ≠ id) } : World).dropChanRx id) := by
  have hns : id ∉ w.streams := h.disj id hid
  have h1 : Inv E ({ w with rsps := w.rsps.filter (· ≠ id) } : World) := by
    refine ⟨h.hasCtx, fun t ht hE => ?_, h.own, h.slotEx, h.nodup, ?_, ?_⟩
    · have h0 := h.ok t ht hE
      cases t with
      | ctx => exact h0.ctx_congr rfl rfl rfl rfl rfl rfl (by simp [senders])
      | op id' => exact h0.op_congr rfl rfl rfl
      | st id' => exact h0.st_congr rfl rfl
    · intro id' hsub
      obtain ⟨a, b⟩ := h.subp id' hsub
      exact ⟨a, fun hm => b (List.mem_filter.mp hm).1⟩
    · intro id' hid' ; exact h.disj id' (List.mem_filter.mp hid').1
  exact h1.dropChanRx id hns

/-- the stream of a SUBACK response is taken: it is flagged -/
theorem Inv.takeStream {w : World} (h : Inv NoE w) (id : Nat) (hid : id ∈ w.rsps) :
    Inv NoE (({ w with rsps := w.rsps.filter (· ≠ id), streams := w.streams ++ [id] } : World).wake (.st id)) := by
  refine ⟨by simpa using h.hasCtx, fun t ht hE => ?_, ?_, ?_, by simpa using h.nodup, ?_, ?_⟩
  · have ht' : t ∉ w.woken := fun hm => ht (mem_wake_of_mem _ _ _ hm)
    have h0 := h.ok t ht' hE
    cases t with
    | ctx => exact h0.ctx_congr (by simp) (by simp) (by simp) (by simp) (by simp) (by simp) (by simp [senders])
    | op id' => exact h0.op_congr (by simp) (by simp) (by simp)
    | st id' =>
      by_cases hne : id' = id
      · subst hne; exact absurd (mem_wake_self _ _) ht
      · intro hs' ch' hch'
        have hs2 : id' ∈ w.streams ++ [id] := by simpa using hs'
        have hs3 : id' ∈ w.streams := by
          rcases List.mem_append.mp hs2 with x | x
          · exact x
          · simp at x; exact absurd x hne
        exact h0 hs3 ch' (by simpa [chan] using hch')
  · intro id' s k hst; exact h.own id' s k (by simpa [opSt] using hst)
  · intro id' s k hst hE; simpa [slot] using h.slotEx id' s k (by simpa [opSt] using hst) hE
  · intro id' hsub
    obtain ⟨a, b⟩ := h.subp id' (by simpa [opSt] using hsub)
    have hne : id' ≠ id := fun e => b (e ▸ hid)
    simp only [wake_streams, wake_rsps]
    exact ⟨by simp [a, hne], fun hm => b (List.mem_filter.mp hm).1⟩
  · intro id' hid' hm
    simp only [wake_rsps] at hid'
    simp only [wake_streams] at hm
    obtain ⟨x1, x2⟩ := List.mem_filter.mp hid'
    have hne : id' ≠ id := by simpa using x2
    rcases List.mem_append.mp hm with y | y
    · exact h.disj id' x1 y
    · simp at y; exact hne y

theorem Inv.flushRaw {E : Task → Prop} {w : World} (h : Inv E w) : Inv E w.flushRaw := by
  unfold World.flushRaw
  split
  · exact h
  · exact h.frame (fun _ x => x) rfl rfl rfl rfl rfl rfl h.hasCtx
      (Or.inr (Or.inr ⟨rfl, rfl, rfl, rfl, rfl, rfl, rfl⟩))

theorem flushRaw_task (w : World) : w.flushRaw.task = w.task := by
  unfold World.flushRaw; split <;> rfl

/-! ## every script event -/

theorem Inv.apply {w : World} (h : Inv NoE w) (hr : Reach w.rx) (e : Ev) (hev : evOk w e = true) :
    Inv NoE (w.apply e) := by
  cases e with
  | setup =>
    simp only [World.apply]
    split
    · exact h.badScript
    · rename_i hc
      have htask : w.task = .none := by
        by_cases ht : w.task = .none
        · exact ht
        · exact absurd (Or.inl ht) hc
      split
      · split
        · exact h.badScript
        · exact h.taskNone (fun _ x => x) rfl rfl rfl rfl rfl rfl htask
      · have h1 := h.flushRaw
        exact h1.taskNone (fun _ x => x) rfl rfl rfl rfl rfl rfl ((flushRaw_task w).trans htask)
  | connect t =>
    simp only [World.apply]; split
    · exact h.badScript
    · rename_i hc
      exact h.startCtx (by cases hh : w.hasCtx <;> simp_all) _
  | authorize a =>
    simp only [World.apply]; split
    · exact h.badScript
    · rename_i hc
      exact h.startCtx (by cases hh : w.hasCtx <;> simp_all) _
  | run =>
    simp only [World.apply]; split
    · exact h.badScript
    · rename_i hc
      exact h.startCtx (by cases hh : w.hasCtx <;> simp_all) _
  | dropFut => exact h.taskNone (fun _ x => x) rfl rfl rfl rfl rfl rfl rfl
  | dropCtx =>
    cases hc : w.hasCtx with
    | false =>
      simp only [World.apply, hc]
      exact h.taskNone (fun _ x => x) rfl rfl rfl rfl rfl rfl rfl
    | true =>
      rw [apply_dropCtx w hc]
      have h0 : Inv NoE (dropCtxStart w) := h.taskNone (fun _ x => x) rfl rfl rfl rfl rfl rfl rfl
      have h1 : Inv NoE (dropCtxClosed w) := Inv.closes (closes_dropCtxClosed w) h0
      have ht : (dropCtxClosed w).task = .none := (closes_inv (closes_dropCtxClosed w)).task_eq
      exact h1.taskNone (fun _ x => x) rfl rfl rfl rfl rfl rfl ht
  | markDisc secs =>
    simp only [World.apply]; split
    · exact h.badScript
    · exact h.setC _
  | snap =>
    simp only [World.apply]; split
    · exact h.badScript
    · exact h.emit _
  | feed chunks =>
    simp only [World.apply]; split
    · exact h.badScript
    · exact h.feedEvents _
  | feedEof =>
    simp only [World.apply]; split
    · exact h.badScript
    · exact h.feedEvents _
  | feedErr =>
    simp only [World.apply]; split
    · exact h.badScript
    · exact h.feedEvents _
  | op id hh req =>
    simp only [World.apply]; split
    · exact h.badScript
    · rename_i hc
      have hop : w.opSt id = none := by
        cases hx : w.opSt id with
        | none => rfl
        | some v => exact absurd (Or.inr (by simp [hx])) hc
      refine h.addOp id hh req hop ?_
      intro t ht
      subst ht
      simpa [evOk] using hev
  | poll t =>
    simp only [World.apply]; split
    · exact h.pollTask hr t
    · exact h
  | hold t =>
    simp only [World.apply]; split
    · exact h
    · exact h.setHeld _
  | release t => exact h.setHeld _
  | drop t =>
    cases t with
    | ctx => exact h
    | op id =>
      simp only [World.apply]
      obtain ⟨a, b⟩ := (h.mono (E' := fun u => u = .op id) (fun _ x => False.elim x)).dropOp id rfl
      refine a.close ?_ ?_
      · rintro u rfl
        exact Or.inr (fun st hst => by rw [b] at hst; cases hst)
      · rintro id' s k hu hst
        cases hu
        rw [b] at hst; cases hst
    | st id =>
      simp only [World.apply]; split
      · exact h.endStream id
      · exact h
  | dropRsp id =>
    simp only [World.apply]; split
    · rename_i hc; exact h.dropRsp id hc
    · exact h
  | stream id =>
    simp only [World.apply]; split
    · exact h.badScript
    · rename_i hc
      exact h.takeStream id (by simpa using hc)
  | clone hh h2 =>
    simp only [World.apply]; split
    · exact h.badScript
    · refine ⟨h.hasCtx, fun t ht hE => ?_, h.own, h.slotEx, h.nodup, h.subp, h.disj⟩
      have h0 := h.ok t ht hE
      cases t with
      | ctx => exact h0.ctx_congr rfl rfl rfl rfl rfl rfl (by simp [senders])
      | op id' => exact h0.op_congr rfl rfl rfl
      | st id' => exact h0.st_congr rfl rfl
  | dropHandle hh =>
    simp only [World.apply]; split
    · exact h.badScript
    · refine h.senderGoneOf ?_ rfl rfl rfl rfl rfl rfl rfl rfl
      exact (h.mono (fun _ x => Or.inl x)).frame (fun _ x => x) rfl rfl rfl rfl rfl rfl h.hasCtx
        (Or.inr (Or.inl (Or.inr rfl)))

/-! ## the executor and a whole step -/

theorem Inv.drain (f : Nat) {w : World} (h : Inv NoE w) (hr : Reach w.rx) :
    Inv NoE (World.drain f w) ∧ Reach (World.drain f w).rx := by
  induction f generalizing w with
  | zero => exact ⟨h, hr⟩
  | succ f ih =>
    simp only [World.drain]
    split
    · exact ⟨h, hr⟩
    · rename_i t _
      exact ih (h.pollTask hr t) (pollTask_safe w t hr).1

theorem Inv.sweep {w : World} (h : Inv NoE w) (hr : Reach w.rx) : Inv NoE w.sweep := by
  rw [sweep_eq_self w h]; exact h

/-- **one script step preserves the invariant** (and the reachability of the framing state) -/
theorem Inv.step {w : World} (h : Inv NoE w) (hr : Reach w.rx) (e : Ev) (hev : evOk w e = true) :
    Inv NoE (w.step e) ∧ Reach (w.step e).rx := by
  refine ⟨?_, (step_safe w e hr).1⟩
  unfold World.step
  split
  · exact h
  · have h1 : Inv NoE ((w.emit (.ev e)).apply e) := (h.emit _).apply (by simpa using hr) e (by
      cases e <;> first | rfl | (rename_i id hh req; cases req <;> first | rfl | simpa [evOk] using hev))
    have hr1 : Reach ((w.emit (.ev e)).apply e).rx := (apply_safe _ e (by simpa using hr)).1
    generalize (w.emit (.ev e)).apply e = w1 at h1 hr1 ⊢
    simp only
    split
    · exact h1
    · obtain ⟨h2, hr2⟩ := h1.drain w1.drainFuel hr1
      generalize World.drain w1.drainFuel w1 = w2 at h2 hr2 ⊢
      have h3 : Inv NoE (if w2.cfg.sweep = true then World.drain w2.sweep.drainFuel w2.sweep else w2) := by
        split
        · exact ((h2.sweep hr2).drain _ (sweep_safe w2 hr2).1).1
        · exact h2
      generalize (if w2.cfg.sweep = true then World.drain w2.sweep.drainFuel w2.sweep else w2) = w3 at h3 ⊢
      split
      · exact h3.emit _
      · exact h3

end World
end Poster
