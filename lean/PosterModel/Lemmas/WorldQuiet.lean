/-
  Lemmas/WorldQuiet.lean — quiescence and full registration compose over whole scripts:
  `Quiesced` worlds are fixed points of spurious polls and of sweeps; a script step with the sweep phase equals
  the step without it (`step_eq_stepN`); runs with `sweep := true` and `sweep := false` stay equal up to the
  configuration (`steps_sweep_irrelevant`); a spurious poll inserted in a script only inserts its own
  observation (`step_poll_spurious`, `steps_tweak_out`).
  The invariant itself is in WorldQuietInv / WorldQuietCtx / WorldQuietUser / WorldQuietStep, the commutation of
  every primitive with the (configuration switch, transcript prefix) in WorldTweak.
-/
import PosterModel.Lemmas.WorldQuietStep
import PosterModel.Lemmas.WorldTweak

set_option linter.unusedVariables false
set_option linter.unusedSimpArgs false

namespace Poster
open Framing
namespace World

/-! ## quiescence -/

/-- the executor has nothing left to poll (`pick = none`: every flagged task is dead or held), and every live
    task that is not flagged is parked with all its wake sources registered (`Inv`, whose `ok` field gives
    `TaskOk` for each such task); the framing state is one the library can reach -/
structure Quiesced (w : World) : Prop where
  idle : w.pick = none
  inv : Inv NoE w
  reach : Reach w.rx

theorem minNat_eq_noneQ : ∀ (l : List Nat), minNat l = none → l = []
  | [], _ => rfl
  | a :: t, h => by
    simp only [minNat] at h
    split at h <;> cases h

/-- with an idle executor a live task that is not held is not flagged -/
theorem not_woken_of_idle (w : World) (t : Task) (h : w.pick = none) (hl : w.taskLive t = true)
    (hh : t ∉ w.held) : t ∉ w.woken := by
  intro hw
  have hready : t ∈ w.woken.filter (fun t => w.taskLive t ∧ t ∉ w.held) := by
    simp [List.mem_filter, hw, hl, hh]
  unfold World.pick at h
  simp only at h
  generalize w.woken.filter (fun t => w.taskLive t ∧ t ∉ w.held) = ready at h hready
  split at h
  · cases h
  · rename_i hc
    split at h
    · cases h
    · rename_i ho
      split at h
      · cases h
      · rename_i hs
        have ho' := minNat_eq_noneQ _ ho
        have hs' := minNat_eq_noneQ _ hs
        cases t with
        | ctx => exact hc hready
        | op n =>
          have := (List.filterMap_eq_nil_iff.mp ho') _ hready
          cases this
        | st n =>
          have := (List.filterMap_eq_nil_iff.mp hs') _ hready
          cases this

/-- what `Quiesced` says about a live task that is not flagged, spelled out: the context future has nothing
    to read, an idle framing machine, the transport waker registered (and for `run()`: nothing queued, the queue
    waker registered, a sender alive); an operation waits on an empty oneshot whose waker is registered; a stream
    has an empty channel with a live sender and its waker registered -/
theorem Quiesced.registered {w : World} (hq : Quiesced w) (t : Task) (hw : t ∉ w.woken) : TaskOk w t :=
  hq.inv.ok t hw (fun x => x)

/-- **1(b)** a spurious `poll` event of a task that is not flagged leaves a world satisfying the invariant
    unchanged — exactly, every field -/
theorem apply_poll_eq_self {w : World} (hi : Inv NoE w) (t : Task) (hw : t ∉ w.woken) :
    w.apply (.poll t) = w := by
  simp only [World.apply]
  split
  · rename_i hl
    exact pollTask_eq_self w t hl hw (hi.ok t hw (fun x => x))
  · rfl

/-- **1(b)**, in a quiesced world, for every live task that is not held -/
theorem Quiesced.poll_eq_self {w : World} (hq : Quiesced w) (t : Task) (hl : w.taskLive t = true)
    (hh : t ∉ w.held) : w.apply (.poll t) = w :=
  apply_poll_eq_self hq.inv t (not_woken_of_idle w t hq.idle hl hh)

theorem drain_of_idle (f : Nat) (w : World) (h : w.pick = none) : World.drain f w = w := by
  cases f with
  | zero => rfl
  | succ f => simp [World.drain, h]

/-- **1(a)** the sweep phase of a step (sweep, then drain) leaves a quiesced world unchanged — exactly -/
theorem Quiesced.sweep_eq_self {w : World} (hq : Quiesced w) :
    w.sweep = w ∧ World.drain w.sweep.drainFuel w.sweep = w := by
  have e := World.sweep_eq_self w hq.inv
  rw [e]
  exact ⟨rfl, drain_of_idle _ w hq.idle⟩

/-! ## the side conditions, executable -/

/-- a script step is fine: the event satisfies `evOk`, and the drain fuel sufficed (after the drain no flagged
    live task that is not held is left) -/
def stepOk (w : World) (e : Ev) : Bool :=
  evOk w e &&
    (w.bad || ((w.emit (.ev e)).apply e).bad ||
      (World.drain ((w.emit (.ev e)).apply e).drainFuel ((w.emit (.ev e)).apply e)).pick.isNone)

/-- every step of the script is fine -/
def stepsOk : World → List Ev → Bool
  | _, [] => true
  | w, e :: es => stepOk w e && stepsOk (w.step e) es

/-- every event of the script satisfies `evOk` in the world it is applied to -/
def evsOk : World → List Ev → Bool
  | _, [] => true
  | w, e :: es => evOk w e && evsOk (w.step e) es

def runOk (cfg : Cfg) (evs : List Ev) : Bool := stepsOk { cfg := cfg } evs

theorem evsOk_of_stepsOk : ∀ (evs : List Ev) (w : World), stepsOk w evs = true → evsOk w evs = true
  | [], _, _ => rfl
  | e :: es, w, h => by
    simp only [stepsOk, stepOk, Bool.and_eq_true] at h
    simp only [evsOk, Bool.and_eq_true]
    exact ⟨h.1.1, evsOk_of_stepsOk es _ h.2⟩

/-! ## the invariant along a script -/

theorem Inv.steps : ∀ (evs : List Ev) {w : World}, Inv NoE w → Reach w.rx → evsOk w evs = true →
    Inv NoE (evs.foldl World.step w) ∧ Reach (evs.foldl World.step w).rx
  | [], _, h, hr, _ => ⟨h, hr⟩
  | e :: es, w, h, hr, hok => by
    simp only [evsOk, Bool.and_eq_true] at hok
    obtain ⟨h1, hr1⟩ := h.step hr e hok.1
    exact Inv.steps es h1 hr1 hok.2

theorem Inv.steps_init (cfg : Cfg) (evs : List Ev) (hok : evsOk { cfg := cfg } evs = true) :
    Inv NoE (evs.foldl World.step { cfg := cfg }) ∧ Reach (evs.foldl World.step { cfg := cfg }).rx :=
  Inv.steps evs (Inv.init cfg) Reach.init hok

/-! ## a step with the sweep phase equals the step without it -/

theorem pick_emitQ (w : World) (o : Obs) : (w.emit o).pick = w.pick := rfl

/-- **the sweep phase is the identity**: whatever the `sweep` switch says, a fine step from a world satisfying
    the invariant is the step without sweep -/
theorem step_eq_stepN {w : World} (hi : Inv NoE w) (hr : Reach w.rx) (e : Ev) (hok : stepOk w e = true) :
    w.step e = stepN w e := by
  simp only [stepOk, Bool.and_eq_true, Bool.or_eq_true, Option.isNone_iff_eq_none] at hok
  obtain ⟨hev, hok⟩ := hok
  unfold World.step stepN
  by_cases hb : w.bad = true
  · simp [hb]
  · simp only [hb, Bool.false_eq_true, ↓reduceIte]
    have h1 : Inv NoE ((w.emit (.ev e)).apply e) := (hi.emit _).apply (by simpa using hr) e (by
      cases e <;> first | rfl | (rename_i id hh req; cases req <;> first | rfl | simpa [evOk] using hev))
    have hr1 : Reach ((w.emit (.ev e)).apply e).rx := (apply_safe _ e (by simpa using hr)).1
    generalize (w.emit (.ev e)).apply e = w1 at h1 hr1 hok ⊢
    by_cases hb1 : w1.bad = true
    · simp [hb1]
    · simp only [hb1, Bool.false_eq_true, ↓reduceIte]
      have hidle : (World.drain w1.drainFuel w1).pick = none := by
        rcases hok with (hok | hok) | hok
        · exact absurd hok hb
        · exact absurd hok hb1
        · exact hok
      obtain ⟨h2, hr2⟩ := h1.drain w1.drainFuel hr1
      generalize World.drain w1.drainFuel w1 = w2 at h2 hr2 hidle ⊢
      have e3 : (if w2.cfg.sweep = true then World.drain w2.sweep.drainFuel w2.sweep else w2) = w2 := by
        split
        · exact (Quiesced.sweep_eq_self ⟨hidle, h2, hr2⟩).2
        · rfl
      rw [e3]

/-- after a fine step from a world satisfying the invariant the world is quiesced (unless the script went bad) -/
theorem quiesced_step {w : World} (hi : Inv NoE w) (hr : Reach w.rx) (e : Ev) (hok : stepOk w e = true)
    (hb : (w.step e).bad = false) (hb0 : w.bad = false) : Quiesced (w.step e) := by
  have hev : evOk w e = true := by
    simp only [stepOk, Bool.and_eq_true] at hok; exact hok.1
  obtain ⟨h1, hr1⟩ := hi.step hr e hev
  refine ⟨?_, h1, hr1⟩
  rw [step_eq_stepN hi hr e hok] at hb ⊢
  simp only [stepOk, Bool.and_eq_true, Bool.or_eq_true, Option.isNone_iff_eq_none] at hok
  obtain ⟨_, hok⟩ := hok
  unfold stepN at hb ⊢
  simp only [hb0, Bool.false_eq_true, ↓reduceIte] at hb ⊢
  generalize (w.emit (.ev e)).apply e = w1 at hok hb ⊢
  by_cases hb1 : w1.bad = true
  · simp only [hb1, ↓reduceIte] at hb; cases hb
  · simp only [hb1, Bool.false_eq_true, ↓reduceIte] at hb ⊢
    have hidle : (World.drain w1.drainFuel w1).pick = none := by
      rcases hok with (hok | hok) | hok
      · rw [hb0] at hok; cases hok
      · exact absurd hok hb1
      · exact hok
    split
    · rw [pick_emitQ]; exact hidle
    · exact hidle

theorem step_of_bad (w : World) (e : Ev) (h : w.bad = true) : w.step e = w := by simp [World.step, h]

/-- **quiescence is reached after every fine step**: along a fine script every world (that has not gone `bad`)
    is quiesced -/
theorem steps_quiesced : ∀ (evs : List Ev) (w : World), Inv NoE w → Reach w.rx → (w.bad = false → w.pick = none) →
    stepsOk w evs = true → (evs.foldl World.step w).bad = false → Quiesced (evs.foldl World.step w)
  | [], w, hi, hr, hp, _, hb => ⟨hp hb, hi, hr⟩
  | e :: es, w, hi, hr, hp, hok, hb => by
    simp only [stepsOk, Bool.and_eq_true] at hok
    simp only [List.foldl_cons] at hb ⊢
    have hev : evOk w e = true := by
      have := hok.1; simp only [stepOk, Bool.and_eq_true] at this; exact this.1
    obtain ⟨hi1, hr1⟩ := hi.step hr e hev
    refine steps_quiesced es (w.step e) hi1 hr1 ?_ hok.2 hb
    intro hb1
    have hb0 : w.bad = false := by
      cases h : w.bad with
      | false => rfl
      | true => rw [step_of_bad w e h] at hb1; rw [h] at hb1; cases hb1
    exact (quiesced_step hi hr e hok.1 hb1 hb0).idle

/-! ## `sweep := true` against `sweep := false` -/

theorem Inv.tweak {E : Task → Prop} {w : World} (h : Inv E w) (b : Bool) (p : List Obs) : Inv E (tweak b p w) :=
  h.frame (fun _ x => x) rfl rfl rfl rfl rfl rfl h.hasCtx (Or.inr (Or.inr ⟨rfl, rfl, rfl, rfl, rfl, rfl, rfl⟩))

theorem evOk_tweak (b : Bool) (p : List Obs) (w : World) (e : Ev) : evOk (tweak b p w) e = evOk w e := by
  cases e <;> first | rfl | (rename_i id hh req; cases req <;> rfl)

theorem stepOk_tweak (b : Bool) (p : List Obs) (w : World) (e : Ev) : stepOk (tweak b p w) e = stepOk w e := by
  simp only [stepOk, evOk_tweak, tweak_bad, emit_tweak, apply_tweak, drainFuel_tweak, drain_tweak, pick_tweak]

theorem step_cfg_sweep_of_nosweep (w : World) (e : Ev) (h : w.cfg.sweep = false) : (w.step e).cfg.sweep = false := by
  rw [step_eq_stepN_of_nosweep w e h, stepN_cfg]; exact h

/-- **2, world level**: running a fine script from `w` with the sweep switch on gives exactly the world that
    running it with the switch off gives, except for the switch itself -/
theorem steps_sweep_irrelevant : ∀ (evs : List Ev) (w : World), w.cfg.sweep = false → Inv NoE w → Reach w.rx →
    stepsOk w evs = true → evs.foldl World.step (tweak true [] w) = tweak true [] (evs.foldl World.step w)
  | [], _, _, _, _, _ => rfl
  | e :: es, w, hs, hi, hr, hok => by
    simp only [stepsOk, Bool.and_eq_true] at hok
    simp only [List.foldl_cons]
    have e1 : (tweak true [] w).step e = tweak true [] (w.step e) := by
      rw [step_eq_stepN (hi.tweak true []) (by simpa using hr) e (by rw [stepOk_tweak]; exact hok.1),
        stepN_tweak, step_eq_stepN_of_nosweep w e hs]
    rw [e1]
    have hev : evOk w e = true := by
      have := hok.1; simp only [stepOk, Bool.and_eq_true] at this; exact this.1
    obtain ⟨hi1, hr1⟩ := hi.step hr e hev
    exact steps_sweep_irrelevant es (w.step e) (step_cfg_sweep_of_nosweep w e hs) hi1 hr1 hok.2

/-! ## a spurious poll inserted in a script -/

/-- the observations of a spurious `poll t` step: the event itself, and the stall marker again if the context
    future is stalled (alive with unread input, e.g. because it is held) -/
def pollSeg (w : World) (t : Task) : List Obs :=
  if w.bad then [] else
    [Obs.ev (.poll t)] ++ (if w.task ≠ .none ∧ w.reader ≠ [] then [Obs.stall] else [])

/-- **3, one step**: in a world satisfying the invariant whose executor is idle, the whole step `poll t` of a
    task that is not flagged changes nothing but the transcript, to which it appends `pollSeg` -/
theorem step_poll_spurious {w : World} (hi : Inv NoE w) (hr : Reach w.rx) (hidle : w.pick = none) (t : Task)
    (hw : t ∉ w.woken) : w.step (.poll t) = { w with out := w.out ++ pollSeg w t } := by
  unfold World.step pollSeg
  by_cases hb : w.bad = true
  · rw [if_pos hb, if_pos hb, List.append_nil]
  · rw [if_neg hb, if_neg hb]
    simp only []
    have e1 : (w.emit (.ev (.poll t))).apply (.poll t) = w.emit (.ev (.poll t)) :=
      apply_poll_eq_self (hi.emit _) t hw
    rw [e1]
    have hb' : ¬ (w.emit (.ev (.poll t))).bad = true := hb
    rw [if_neg hb']
    have e2 : World.drain (w.emit (.ev (.poll t))).drainFuel (w.emit (.ev (.poll t))) = w.emit (.ev (.poll t)) :=
      drain_of_idle _ _ hidle
    rw [e2]
    have e3 : (if (w.emit (.ev (.poll t))).cfg.sweep = true then
        World.drain (w.emit (.ev (.poll t))).sweep.drainFuel (w.emit (.ev (.poll t))).sweep
        else w.emit (.ev (.poll t))) = w.emit (.ev (.poll t)) := by
      split
      · exact (Quiesced.sweep_eq_self (w := w.emit (.ev (.poll t))) ⟨hidle, hi.emit _, hr⟩).2
      · rfl
    rw [e3]
    simp only [emit_task, emit_reader]
    by_cases hst : w.task ≠ .none ∧ w.reader ≠ []
    · rw [if_pos hst, if_pos hst]
      simp [World.emit]
    · rw [if_neg hst, if_neg hst]
      simp [World.emit]

/-- a whole step commutes with putting observations in front of the transcript -/
theorem step_tweak_out (w : World) (p : List Obs) (e : Ev) :
    (tweak w.cfg.sweep p w).step e = tweak w.cfg.sweep p (w.step e) := by
  unfold World.step
  simp only [tweak_bad, emit_tweak, apply_tweak, drainFuel_tweak, drain_tweak, tweak_cfg_sweep]
  by_cases hb : w.bad = true
  · simp only [hb, ↓reduceIte]
  · simp only [hb, Bool.false_eq_true, ↓reduceIte]
    by_cases hb1 : ((w.emit (.ev e)).apply e).bad = true
    · simp only [hb1, ↓reduceIte]
    · simp only [hb1, Bool.false_eq_true, ↓reduceIte]
      have hs : (World.drain ((w.emit (.ev e)).apply e).drainFuel ((w.emit (.ev e)).apply e)).cfg.sweep = w.cfg.sweep := by
        rw [drain_cfg_sweep, apply_cfg_sweep]; rfl
      generalize World.drain ((w.emit (.ev e)).apply e).drainFuel ((w.emit (.ev e)).apply e) = w2 at hs ⊢
      rw [hs]
      by_cases hsw : w.cfg.sweep = true
      · simp only [hsw, ↓reduceIte, sweep_tweak, drainFuel_tweak, drain_tweak, tweak_task, tweak_reader]
        split
        · rw [emit_tweak]
        · rfl
      · simp only [hsw, Bool.false_eq_true, ↓reduceIte, tweak_task, tweak_reader]
        split
        · rw [emit_tweak]
        · rfl

theorem step_cfg_sweep (w : World) (e : Ev) : (w.step e).cfg.sweep = w.cfg.sweep := by
  have h := step_tweak_out w [] e
  rw [tweak_self] at h
  have := congrArg (fun x => x.cfg.sweep) h
  simp only [tweak_cfg_sweep] at this
  exact this

theorem steps_tweak_out : ∀ (evs : List Ev) (w : World) (p : List Obs),
    evs.foldl World.step (tweak w.cfg.sweep p w) = tweak w.cfg.sweep p (evs.foldl World.step w)
  | [], _, _ => rfl
  | e :: es, w, p => by
    simp only [List.foldl_cons]
    rw [step_tweak_out]
    have := steps_tweak_out es (w.step e) p
    rw [step_cfg_sweep] at this
    exact this

theorem eq_tweak_reset (w : World) (p : List Obs) :
    ({ w with out := p } : World) = tweak w.cfg.sweep p { w with out := [] } := by
  cases w; simp [tweak]

end World
end Poster
