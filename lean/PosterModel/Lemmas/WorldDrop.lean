/-
  Lemmas/WorldDrop.lean — dropping the `Context`: every sender the context owns (oneshots of queued messages
  and of `awaiting_ack`, subscription senders of queued SUBSCRIBEs and of `subscriptions`) is dropped.
  `Closes w w'` = `w'` is `w` after some sequence of `dropSlotTx` / `dropChanTx`; `closes_inv` collects what
  such a sequence preserves.
-/
import PosterModel.Lemmas.World

set_option linter.unusedVariables false
set_option linter.unusedSimpArgs false

namespace Poster
open Framing
namespace World

/-! ## one sender dropped -/

theorem dropSlotTx_eq (w : World) (s : Nat) :
    w.dropSlotTx s =
      if w.slot s = some .empty then
        { w with slots := setAssoc s .closed w.slots,
                 slotReg := if s ∈ w.slotReg then w.slotReg.filter (· ≠ s) else w.slotReg,
                 woken := if s ∈ w.slotReg then (w.wake (.op (s / 2))).woken else w.woken }
      else w := by
  by_cases he : w.slot s = some .empty
  · by_cases hr : s ∈ w.slotReg <;> simp [dropSlotTx, he, hr, setSlot, wake_eq]
  · have : dropSlotTx w s = w := by
      unfold dropSlotTx
      split
      · rename_i h; exact absurd h he
      · rfl
    simp [this, he]

theorem dropSlotTx_slot (w : World) (s s' : Nat) :
    (w.dropSlotTx s').slot s = if s = s' ∧ w.slot s = some .empty then some .closed else w.slot s := by
  rw [dropSlotTx_eq]
  by_cases he : w.slot s' = some .empty
  · simp only [he, ↓reduceIte, slot_mk_slots]
    by_cases hs : s = s'
    · subst hs
      have he' : lookupFirst s w.slots = some .empty := he
      simp [slot, lookupFirst_setAssoc_self, he']
    · simp [lookupFirst_setAssoc_ne _ _ _ _ hs, hs, slot]
  · simp only [he, ↓reduceIte]
    by_cases hs : s = s'
    · subst hs; simp [he]
    · simp [hs]

theorem dropSlotTx_slotReg_ne (w : World) (s s' : Nat) (h : s ≠ s') :
    s ∈ (w.dropSlotTx s').slotReg ↔ s ∈ w.slotReg := by
  rw [dropSlotTx_eq]
  split
  · simp only; split <;> simp [h]
  · rfl

theorem dropSlotTx_woken_mono (w : World) (s : Nat) (t : Task) (h : t ∈ w.woken) : t ∈ (w.dropSlotTx s).woken := by
  rw [dropSlotTx_eq]
  split
  · simp only; split
    · exact mem_wake_of_mem _ _ _ h
    · exact h
  · exact h

/-- dropping the sender of an empty oneshot whose receiver has registered wakes that operation -/
theorem dropSlotTx_wakes' (w : World) (s : Nat) (he : w.slot s = some .empty) (hr : s ∈ w.slotReg) :
    .op (s / 2) ∈ (w.dropSlotTx s).woken := by
  rw [dropSlotTx_eq]; simp only [he, hr, ↓reduceIte]; exact mem_wake_self _ _

theorem dropChanTx_eq (w : World) (c : Nat) :
    w.dropChanTx c =
      match w.chan c with
      | some ch => { w with chans := setAssoc c { ch with txAlive := false, reg := false } w.chans,
                            woken := if ch.reg then (w.wake (.st c)).woken else w.woken }
      | none => w := by
  cases h : w.chan c with
  | none => simp [dropChanTx, h]
  | some ch => by_cases hr : ch.reg = true <;> simp [dropChanTx, h, hr, setChan, wake_eq]

theorem dropChanTx_chan (w : World) (c c' : Nat) :
    (w.dropChanTx c').chan c =
      if c = c' then (w.chan c).map (fun ch => { ch with txAlive := false, reg := false }) else w.chan c := by
  rw [dropChanTx_eq]
  cases h : w.chan c' with
  | none =>
    simp only
    by_cases hc : c = c'
    · subst hc; simp [h]
    · simp [hc]
  | some ch =>
    simp only
    by_cases hc : c = c'
    · subst hc; simp [chan, lookupFirst_setAssoc_self] at h ⊢; simp [h]
    · simp [chan, lookupFirst_setAssoc_ne _ _ _ _ hc, hc]

theorem dropChanTx_woken_mono (w : World) (c : Nat) (t : Task) (h : t ∈ w.woken) : t ∈ (w.dropChanTx c).woken := by
  rw [dropChanTx_eq]
  split
  · simp only; split
    · exact mem_wake_of_mem _ _ _ h
    · exact h
  · exact h

/-- dropping the sender of a channel whose stream has registered wakes that stream -/
theorem dropChanTx_wakes' (w : World) (c : Nat) (ch : Chan) (hc : w.chan c = some ch) (hr : ch.reg = true) :
    .st c ∈ (w.dropChanTx c).woken := by
  rw [dropChanTx_eq]; simp only [hc, hr, ↓reduceIte]; exact mem_wake_self _ _

/-! ## a sequence of dropped senders -/

inductive Closes : World → World → Prop
  | refl (w : World) : Closes w w
  | slot {w w' : World} (s : Nat) : Closes w w' → Closes w (w'.dropSlotTx s)
  | chan {w w' : World} (c : Nat) : Closes w w' → Closes w (w'.dropChanTx c)

theorem closes_trans {a b c : World} (h1 : Closes a b) (h2 : Closes b c) : Closes a c := by
  induction h2 with
  | refl => exact h1
  | slot s _ ih => exact .slot s ih
  | chan ch _ ih => exact .chan ch ih

theorem closes_foldl {α} (step : World → α → World) (hstep : ∀ w x, Closes w (step w x)) (l : List α)
    (w : World) : Closes w (l.foldl step w) := by
  induction l generalizing w with
  | nil => exact .refl w
  | cons x t ih => exact closes_trans (hstep w x) (ih _)

/-- what a sequence of dropped senders preserves -/
structure CloseInv (w w' : World) : Prop where
  frame : w' = { w with slots := w'.slots, slotReg := w'.slotReg, chans := w'.chans, woken := w'.woken }
  slotNone : ∀ s, w.slot s = none → w'.slot s = none
  slotFull : ∀ s v, w.slot s = some (.full v) → w'.slot s = some (.full v)
  slotClosed : ∀ s, w.slot s = some .closed → w'.slot s = some .closed
  slotEmpty : ∀ s, w.slot s = some .empty → w'.slot s = some .empty ∨ w'.slot s = some .closed
  chanNone : ∀ c, w.chan c = none → w'.chan c = none
  chanSome : ∀ c c0, w.chan c = some c0 → ∃ c1, w'.chan c = some c1 ∧ c1.buf = c0.buf ∧
    c1.rxAlive = c0.rxAlive ∧ (c0.txAlive = false → c1.txAlive = false) ∧ (c0.reg = false → c1.reg = false) ∧
    (c1.txAlive = true → c1 = c0)
  wokenMono : ∀ t, t ∈ w.woken → t ∈ w'.woken
  slotWake : ∀ s, w.slot s = some .empty → s ∈ w.slotReg →
    (w'.slot s = some .empty ∧ s ∈ w'.slotReg) ∨ .op (s / 2) ∈ w'.woken
  chanWake : ∀ c c0, w.chan c = some c0 → c0.reg = true →
    (∃ c1, w'.chan c = some c1 ∧ c1.reg = true) ∨ .st c ∈ w'.woken

theorem CloseInv.cfg_eq {w w' : World} (h : CloseInv w w') : w'.cfg = w.cfg := by rw [h.frame]
theorem CloseInv.hasCtx_eq {w w' : World} (h : CloseInv w w') : w'.hasCtx = w.hasCtx := by rw [h.frame]
theorem CloseInv.ctxDropped_eq {w w' : World} (h : CloseInv w w') : w'.ctxDropped = w.ctxDropped := by rw [h.frame]
theorem CloseInv.task_eq {w w' : World} (h : CloseInv w w') : w'.task = w.task := by rw [h.frame]
theorem CloseInv.rx_eq {w w' : World} (h : CloseInv w w') : w'.rx = w.rx := by rw [h.frame]
theorem CloseInv.reader_eq {w w' : World} (h : CloseInv w w') : w'.reader = w.reader := by rw [h.frame]
theorem CloseInv.readerReg_eq {w w' : World} (h : CloseInv w w') : w'.readerReg = w.readerReg := by rw [h.frame]
theorem CloseInv.queue_eq {w w' : World} (h : CloseInv w w') : w'.queue = w.queue := by rw [h.frame]
theorem CloseInv.queueReg_eq {w w' : World} (h : CloseInv w w') : w'.queueReg = w.queueReg := by rw [h.frame]
theorem CloseInv.handles_eq {w w' : World} (h : CloseInv w w') : w'.handles = w.handles := by rw [h.frame]
theorem CloseInv.ops_eq {w w' : World} (h : CloseInv w w') : w'.ops = w.ops := by rw [h.frame]
theorem CloseInv.rsps_eq {w w' : World} (h : CloseInv w w') : w'.rsps = w.rsps := by rw [h.frame]
theorem CloseInv.streams_eq {w w' : World} (h : CloseInv w w') : w'.streams = w.streams := by rw [h.frame]
theorem CloseInv.pidCtr_eq {w w' : World} (h : CloseInv w w') : w'.pidCtr = w.pidCtr := by rw [h.frame]
theorem CloseInv.subCtr_eq {w w' : World} (h : CloseInv w w') : w'.subCtr = w.subCtr := by rw [h.frame]
theorem CloseInv.held_eq {w w' : World} (h : CloseInv w w') : w'.held = w.held := by rw [h.frame]
theorem CloseInv.written_eq {w w' : World} (h : CloseInv w w') : w'.written = w.written := by rw [h.frame]
theorem CloseInv.wirePend_eq {w w' : World} (h : CloseInv w w') : w'.wirePend = w.wirePend := by rw [h.frame]
theorem CloseInv.out_eq {w w' : World} (h : CloseInv w w') : w'.out = w.out := by rw [h.frame]
theorem CloseInv.bad_eq {w w' : World} (h : CloseInv w w') : w'.bad = w.bad := by rw [h.frame]

theorem closeInv_refl (w : World) : CloseInv w w where
  frame := rfl
  slotNone := fun _ h => h
  slotFull := fun _ _ h => h
  slotClosed := fun _ h => h
  slotEmpty := fun _ h => Or.inl h
  chanNone := fun _ h => h
  chanSome := fun _ c0 h => ⟨c0, h, rfl, rfl, id, id, fun _ => rfl⟩
  wokenMono := fun _ h => h
  slotWake := fun _ h1 h2 => Or.inl ⟨h1, h2⟩
  chanWake := fun _ c0 h1 h2 => Or.inl ⟨c0, h1, h2⟩

theorem closeInv_slot {w w' : World} (s' : Nat) (h : CloseInv w w') : CloseInv w (w'.dropSlotTx s') where
  frame := by
    have e := h.frame
    rw [dropSlotTx_eq]
    split
    · cases w; cases w'; simp only [World.mk.injEq] at e ⊢; simp [e]
    · exact e
  slotNone := fun s hs => by rw [dropSlotTx_slot, h.slotNone s hs]; simp
  slotFull := fun s v hs => by rw [dropSlotTx_slot, h.slotFull s v hs]; simp
  slotClosed := fun s hs => by rw [dropSlotTx_slot, h.slotClosed s hs]; simp
  slotEmpty := fun s hs => by
    rw [dropSlotTx_slot]
    rcases h.slotEmpty s hs with h1 | h1 <;> rw [h1] <;> by_cases hss : s = s' <;> simp [hss]
  chanNone := fun c hc => by simpa using h.chanNone c hc
  chanSome := fun c c0 hc => by simpa using h.chanSome c c0 hc
  wokenMono := fun t ht => dropSlotTx_woken_mono _ _ _ (h.wokenMono t ht)
  slotWake := fun s h1 h2 => by
    rcases h.slotWake s h1 h2 with ⟨a, b⟩ | a
    · by_cases hss : s = s'
      · subst hss; exact Or.inr (dropSlotTx_wakes' _ _ a b)
      · left; rw [dropSlotTx_slot, dropSlotTx_slotReg_ne _ _ _ hss]; simp [hss, a, b]
    · exact Or.inr (dropSlotTx_woken_mono _ _ _ a)
  chanWake := fun c c0 h1 h2 => by
    rcases h.chanWake c c0 h1 h2 with ⟨c1, a, b⟩ | a
    · exact Or.inl ⟨c1, by simpa using a, b⟩
    · exact Or.inr (dropSlotTx_woken_mono _ _ _ a)

theorem closeInv_chan {w w' : World} (c' : Nat) (h : CloseInv w w') : CloseInv w (w'.dropChanTx c') where
  frame := by
    have e := h.frame
    rw [dropChanTx_eq]
    split
    · cases w; cases w'; simp only [World.mk.injEq] at e ⊢; simp [e]
    · exact e
  slotNone := fun s hs => by simpa using h.slotNone s hs
  slotFull := fun s v hs => by simpa using h.slotFull s v hs
  slotClosed := fun s hs => by simpa using h.slotClosed s hs
  slotEmpty := fun s hs => by simpa using h.slotEmpty s hs
  chanNone := fun c hc => by rw [dropChanTx_chan, h.chanNone c hc]; simp
  chanSome := fun c c0 hc => by
    obtain ⟨c1, a1, a2, a3, a4, a5, a6⟩ := h.chanSome c c0 hc
    rw [dropChanTx_chan, a1]
    by_cases hcc : c = c'
    · simp only [hcc, ↓reduceIte, Option.map_some, Option.some.injEq, exists_eq_left']
      exact ⟨a2, a3, fun _ => trivial, fun _ => trivial, fun h => by cases h⟩
    · simp only [hcc, ↓reduceIte, Option.some.injEq, exists_eq_left']
      exact ⟨a2, a3, a4, a5, a6⟩
  wokenMono := fun t ht => dropChanTx_woken_mono _ _ _ (h.wokenMono t ht)
  slotWake := fun s h1 h2 => by
    rcases h.slotWake s h1 h2 with ⟨a, b⟩ | a
    · exact Or.inl ⟨by simpa using a, by simpa using b⟩
    · exact Or.inr (dropChanTx_woken_mono _ _ _ a)
  chanWake := fun c c0 h1 h2 => by
    rcases h.chanWake c c0 h1 h2 with ⟨c1, a, b⟩ | a
    · by_cases hcc : c = c'
      · subst hcc; exact Or.inr (dropChanTx_wakes' _ _ c1 a b)
      · left; rw [dropChanTx_chan]; simp only [hcc, ↓reduceIte]; exact ⟨c1, a, b⟩
    · exact Or.inr (dropChanTx_woken_mono _ _ _ a)

theorem closes_inv {w w' : World} (h : Closes w w') : CloseInv w w' := by
  induction h with
  | refl => exact closeInv_refl _
  | slot s _ ih => exact closeInv_slot s ih
  | chan c _ ih => exact closeInv_chan c ih

/-! ## `DROPCTX` -/

def closeMsg (w : World) (m : Msg) : World :=
  match m with
  | .ff _ s => w.dropSlotTx s
  | .awaitAck _ _ s => w.dropSlotTx s
  | .subscribe _ _ _ s ch => (w.dropSlotTx s).dropChanTx ch

def dropCtxStart (w : World) : World :=
  { w with task := .none, hasCtx := false, ctxDropped := true, reader := [] }

/-- every sender the context owns is dropped: queued messages, `awaiting_ack`, `subscriptions` -/
def dropCtxClosed (w : World) : World :=
  w.c.subs.foldl (fun (w : World) (e : Nat × Nat) => w.dropChanTx e.2)
    (w.c.awaiting.foldl (fun (w : World) (e : Nat × Nat) => w.dropSlotTx e.2)
      (w.queue.foldl closeMsg (dropCtxStart w)))

theorem closes_closeMsg (w : World) (m : Msg) : Closes w (closeMsg w m) := by
  cases m with
  | ff _ s => exact .slot s (.refl w)
  | awaitAck _ _ s => exact .slot s (.refl w)
  | subscribe _ _ _ s ch => exact .chan ch (.slot s (.refl w))

theorem CloseInv.c_eq {w w' : World} (h : CloseInv w w') : w'.c = w.c := by rw [h.frame]

theorem foldl_congr' {α β} (f g : β → α → β) (h : ∀ b a, f b a = g b a) (l : List α) (b : β) :
    l.foldl f b = l.foldl g b := by
  induction l generalizing b with
  | nil => rfl
  | cons x t ih => simp [List.foldl, h, ih]

theorem dropCtx_shape (F1 : World → Msg → World) (F2 F3 : World → Nat × Nat → World)
    (h1 : ∀ w m, F1 w m = closeMsg w m) (h2 : ∀ w e, F2 w e = w.dropSlotTx e.2)
    (h3 : ∀ w e, F3 w e = w.dropChanTx e.2) (w : World) :
    (List.foldl F3
      (List.foldl F2 (List.foldl F1 (dropCtxStart w) w.queue) (List.foldl F1 (dropCtxStart w) w.queue).c.awaiting)
      (List.foldl F2 (List.foldl F1 (dropCtxStart w) w.queue)
        (List.foldl F1 (dropCtxStart w) w.queue).c.awaiting).c.subs) = dropCtxClosed w := by
  rw [foldl_congr' F1 closeMsg h1]
  have h2' := closes_foldl _ closes_closeMsg w.queue (dropCtxStart w)
  have hc2 : (w.queue.foldl closeMsg (dropCtxStart w)).c = w.c := (closes_inv h2').c_eq
  rw [hc2, foldl_congr' F2 _ h2]
  have h3' : Closes (w.queue.foldl closeMsg (dropCtxStart w))
      (w.c.awaiting.foldl (fun (w : World) (e : Nat × Nat) => w.dropSlotTx e.2)
        (w.queue.foldl closeMsg (dropCtxStart w))) :=
    closes_foldl _ (fun w (e : Nat × Nat) => Closes.slot e.2 (.refl w)) _ _
  rw [(closes_inv h3').c_eq, hc2, foldl_congr' F3 _ h3]
  rfl

theorem apply_dropCtx (w : World) (h : w.hasCtx = true) :
    w.apply .dropCtx = { dropCtxClosed w with queue := [], c := {} } := by
  simp only [World.apply, h, Bool.not_true, Bool.false_eq_true, ↓reduceIte]
  rw [← dropCtx_shape _ _ _ (fun w m => by cases m <;> rfl) (fun _ _ => rfl) (fun _ _ => rfl) w]
  rfl

theorem closes_dropCtxClosed (w : World) : Closes (dropCtxStart w) (dropCtxClosed w) := by
  unfold dropCtxClosed
  have h1 := closes_foldl closeMsg closes_closeMsg w.queue (dropCtxStart w)
  have h2 := closes_foldl _ (fun w (e : Nat × Nat) => Closes.slot e.2 (.refl w)) w.c.awaiting
    (w.queue.foldl closeMsg (dropCtxStart w))
  have h3 := closes_foldl _ (fun w (e : Nat × Nat) => Closes.chan e.2 (.refl w)) w.c.subs
    (w.c.awaiting.foldl (fun (w : World) (e : Nat × Nat) => w.dropSlotTx e.2)
      (w.queue.foldl closeMsg (dropCtxStart w)))
  exact closes_trans (closes_trans h1 h2) h3

theorem closes_slot_ne_empty {a b : World} (h : Closes a b) (s : Nat) (hs : a.slot s ≠ some .empty) :
    b.slot s ≠ some .empty := by
  have inv := closes_inv h
  cases hv : a.slot s with
  | none => rw [inv.slotNone s hv]; simp
  | some v =>
    cases v with
    | empty => exact absurd hv hs
    | full x => rw [inv.slotFull s x hv]; simp
    | closed => rw [inv.slotClosed s hv]; simp

theorem dropSlotTx_slot_ne_empty (w : World) (s : Nat) : (w.dropSlotTx s).slot s ≠ some .empty := by
  rw [dropSlotTx_slot]
  by_cases h : w.slot s = some .empty
  · simp [h]
  · simp [h]

theorem foldl_slot_target {α} (step : World → α → World) (g : α → Nat)
    (hstep : ∀ w x, Closes (w.dropSlotTx (g x)) (step w x)) (l : List α) (w : World) (s : Nat)
    (hs : s ∈ l.map g) : (l.foldl step w).slot s ≠ some .empty := by
  have hstep' : ∀ w x, Closes w (step w x) := fun w x => closes_trans (.slot (g x) (.refl w)) (hstep w x)
  induction l generalizing w with
  | nil => simp at hs
  | cons x t ih =>
    simp only [List.map_cons, List.mem_cons] at hs
    simp only [List.foldl_cons]
    by_cases hx : s = g x
    · refine closes_slot_ne_empty (closes_foldl step hstep' t _) s ?_
      refine closes_slot_ne_empty (hstep w x) s ?_
      rw [hx]; exact dropSlotTx_slot_ne_empty _ _
    · rcases hs with hs | hs
      · exact absurd hs hx
      · exact ih _ hs

/-- the sending half of channel `ch` is gone (or the channel no longer exists) and nobody is registered -/
def ChanShut (w : World) (ch : Nat) : Prop := ∀ c1, w.chan ch = some c1 → c1.txAlive = false ∧ c1.reg = false

theorem closes_chanShut {a b : World} (h : Closes a b) (ch : Nat) (hs : ChanShut a ch) : ChanShut b ch := by
  have inv := closes_inv h
  intro c1 hc1
  cases hv : a.chan ch with
  | none => rw [inv.chanNone ch hv] at hc1; cases hc1
  | some c0 =>
    obtain ⟨c1', e1, _, _, e4, e5, _⟩ := inv.chanSome ch c0 hv
    rw [e1] at hc1; cases hc1
    obtain ⟨x, y⟩ := hs c0 hv
    exact ⟨e4 x, e5 y⟩

theorem dropChanTx_chanShut (w : World) (ch : Nat) : ChanShut (w.dropChanTx ch) ch := by
  intro c1 hc1
  rw [dropChanTx_chan] at hc1
  simp only [↓reduceIte] at hc1
  cases hv : w.chan ch with
  | none => rw [hv] at hc1; cases hc1
  | some c0 => rw [hv] at hc1; simp at hc1; subst hc1; exact ⟨rfl, rfl⟩

theorem foldl_chan_target {α} (step : World → α → World) (g : α → Option Nat)
    (hstep' : ∀ w x, Closes w (step w x))
    (hstep : ∀ w x ch, g x = some ch → ∃ w1, step w x = World.dropChanTx w1 ch) (l : List α) (w : World)
    (ch : Nat) (hs : ∃ x ∈ l, g x = some ch) : ChanShut (l.foldl step w) ch := by
  induction l generalizing w with
  | nil => obtain ⟨x, hx, _⟩ := hs; simp at hx
  | cons x t ih =>
    simp only [List.foldl_cons]
    obtain ⟨y, hy, hg⟩ := hs
    simp only [List.mem_cons] at hy
    by_cases hx : g x = some ch
    · refine closes_chanShut (closes_foldl step hstep' t _) ch ?_
      obtain ⟨w1, e⟩ := hstep w x ch hx
      rw [e]; exact dropChanTx_chanShut _ _
    · rcases hy with hy | hy
      · subst hy; exact absurd hg hx
      · exact ih _ ⟨y, hy, hg⟩

/-- the oneshot `s` belongs to a queued message or to an entry of `awaiting_ack` -/
def OwnsSlot (w : World) (s : Nat) : Prop := (∃ m ∈ w.queue, m.slot = s) ∨ (∃ e ∈ w.c.awaiting, e.2 = s)

/-- the channel `ch` belongs to a queued SUBSCRIBE or to an entry of `subscriptions` -/
def OwnsChan (w : World) (ch : Nat) : Prop :=
  (∃ aid sid pkt s, Msg.subscribe aid sid pkt s ch ∈ w.queue) ∨ (∃ e ∈ w.c.subs, e.2 = ch)

theorem dropCtxClosed_slot (w : World) (s : Nat) (h : OwnsSlot w s) : (dropCtxClosed w).slot s ≠ some .empty := by
  unfold dropCtxClosed
  rcases h with ⟨m, hm, rfl⟩ | ⟨e, he, rfl⟩
  · refine closes_slot_ne_empty (closes_foldl _ (fun w (e : Nat × Nat) => Closes.chan e.2 (.refl w)) _ _) _ ?_
    refine closes_slot_ne_empty (closes_foldl _ (fun w (e : Nat × Nat) => Closes.slot e.2 (.refl w)) _ _) _ ?_
    refine foldl_slot_target closeMsg Msg.slot ?_ _ _ _ (List.mem_map.mpr ⟨m, hm, rfl⟩)
    intro w m
    cases m with
    | ff _ s => exact .refl _
    | awaitAck _ _ s => exact .refl _
    | subscribe _ _ _ s ch => exact .chan ch (.refl _)
  · refine closes_slot_ne_empty (closes_foldl _ (fun w (e : Nat × Nat) => Closes.chan e.2 (.refl w)) _ _) _ ?_
    exact foldl_slot_target _ (fun e : Nat × Nat => e.2) (fun w x => .refl _) _ _ _
      (List.mem_map.mpr ⟨e, he, rfl⟩)

theorem dropCtxClosed_chan (w : World) (ch : Nat) (h : OwnsChan w ch) : ChanShut (dropCtxClosed w) ch := by
  unfold dropCtxClosed
  rcases h with ⟨aid, sid, pkt, s, hm⟩ | ⟨e, he, rfl⟩
  · refine closes_chanShut (closes_foldl _ (fun w (e : Nat × Nat) => Closes.chan e.2 (.refl w)) _ _) _ ?_
    refine closes_chanShut (closes_foldl _ (fun w (e : Nat × Nat) => Closes.slot e.2 (.refl w)) _ _) _ ?_
    refine foldl_chan_target closeMsg
      (fun m => match m with | .subscribe _ _ _ _ c => some c | _ => none) closes_closeMsg ?_ _ _ _
      ⟨_, hm, rfl⟩
    intro w m c hg
    cases m with
    | ff _ s => cases hg
    | awaitAck _ _ s => cases hg
    | subscribe _ _ _ s c' => simp only [Option.some.injEq] at hg; subst hg; exact ⟨_, rfl⟩
  · exact foldl_chan_target _ (fun e : Nat × Nat => some e.2)
      (fun w (e : Nat × Nat) => Closes.chan e.2 (.refl w)) (fun w x c hg => by
        simp only [Option.some.injEq] at hg; subst hg; exact ⟨w, rfl⟩) _ _ _ ⟨e, he, rfl⟩

/-- `poll_next` called `n` times on the stream `id` -/
def pollStreamTimes (id : Nat) : Nat → World → World
  | 0, w => w
  | n + 1, w => pollStreamTimes id n (w.pollStream id)

end World
end Poster
