/-
  Lemmas/WorldCancelK1.lean — the known finding K1 as formal statements: a QoS 2 publish whose future is dropped between
  its two phases never sends its PUBREL (that step is driven by the caller's future), and its flow-control slot stays
  taken until the broker itself completes the exchange.
-/
import PosterModel.Lemmas.WorldCancelScript
import PosterModel.Lemmas.CtxQuota
import PosterModel.Lemmas.UserCtx
import PosterModel.Properties.C10

set_option linter.unusedVariables false
set_option linter.unusedSimpArgs false

namespace Poster
open Framing
namespace World
namespace W11
open W7

/-! ## no PUBREL for `pid`, for ever -/

/-- the message is not the PUBREL for packet identifier `pid` -/
def NotPubrelMsg (pid : Nat) (m : Msg) : Prop := ∀ s, m ≠ pubrelMsg pid s

/-- the entry of the retransmit queue is not the PUBREL for `pid` -/
def NotPubrelEntry (pid : Nat) (x : Nat × Bytes) : Prop := x ≠ (actionId 7 pid, ackBytes 0x62 pid)

/-- **the context holds no PUBREL for `pid`**: none is queued, none is kept for retransmission -/
abbrev NoPubrel (pid : Nat) (w : World) : Prop := Held (NotPubrelMsg pid) (NotPubrelEntry pid) w

/-- no handle future is about to send the PUBREL for `pid`: no QoS 2 publish future waiting for its PUBREC has a
    successful PUBREC for `pid` in its oneshot -/
def NoPubrecSeen (pid : Nat) (w : World) : Prop :=
  ∀ id s a, w.opSt id = some (.wait s .pubrec) → w.slot s = some (.full (.pkt (.pubrec a))) → a.reason < 128 →
    a.packetId ≠ pid

theorem actionId_inj (k p q : Nat) (h : actionId k p = actionId k q) : p = q := by
  unfold actionId at h; omega

theorem pubrelMsg_inj {p q s t : Nat} (h : pubrelMsg p s = pubrelMsg q t) : p = q := by
  unfold pubrelMsg at h
  simp only [Msg.awaitAck.injEq] at h
  exact actionId_inj 7 p q h.1

/-- **one elementary transition keeps the context free of the PUBREL for `pid`**, as long as no future is about to
    send it: a PUBREL enters the queue only through a QoS 2 publish future resumed with a successful PUBREC, and the
    retransmit queue only from the queue -/
theorem noPubrel_micro {pid : Nat} {w w' : World} (hm : Micro w w') (hq : QosOk w) (hi : NoPubrel pid w)
    (hs : NoPubrecSeen pid w) : NoPubrel pid w' := by
  refine held_micro hm hq hi ?_ ?_ ?_
  · intro aid pkt s hQ h6 e
    simp only [Prod.mk.injEq] at e
    exact hQ s (by rw [e.1, e.2]; rfl)
  · intro m hne s e
    rw [e] at hne
    exact hne (by simp [pubrelMsg, Msg.pkt, User.pktType_ackBytes])
  · intro id s a h1 h2 h3 s' e
    exact hs id s a h1 h2 h3 (pubrelMsg_inj e)

/-- a sequence of elementary transitions through worlds satisfying `P` -/
inductive ReachesP (P : World → Prop) : World → World → Prop
  | refl (w : World) : ReachesP P w w
  | tail {a b c : World} : ReachesP P a b → P b → Micro b c → ReachesP P a c

/-- **K1, the invariant**: along any continuation of the execution in which no handle future is ever about to send the
    PUBREL for `pid` (the future that was waiting for that PUBREC is gone, and no later publish is answered with a
    successful PUBREC carrying the same identifier), the context never holds a PUBREL for `pid` — neither queued nor
    in the retransmit queue — so it never writes one and never re-sends one -/
theorem noPubrel_persists {pid : Nat} {a b : World} (hr : ReachesP (fun w => QosOk w ∧ NoPubrecSeen pid w) a b)
    (hi : NoPubrel pid a) : NoPubrel pid b := by
  induction hr with
  | refl => exact hi
  | tail _ hp hm ih => exact noPubrel_micro hm hp.1 ih hp.2

/-- what the context writes while holding no PUBREL for `pid`: a handled request writes nothing or its own packet,
    which is not that PUBREL; a handled inbound packet never causes a PUBREL to be written -/
theorem noPubrel_writes {pid : Nat} {w : World} (hi : NoPubrel pid w) (hf : PubrelForm w) :
    (∀ m ∈ w.queue, ∀ wok, ∀ b ∈ writesOf (w.c.handleMsg m wok).2.1, b ≠ ackBytes 0x62 pid ∨ pktType m.pkt ≠ 6 ∨
      ∃ pid' s, m = pubrelMsg pid' s ∧ pid' ≠ pid) ∧
    (∀ alive p wok, ∀ b ∈ writesOf (w.c.handlePkt alive p wok).2.1, pktType b ≠ 6) := by
  refine ⟨fun m hm wok b hb => ?_, fun alive p wok b hb => handlePkt_never_writes_pubrel w.c alive p wok b hb⟩
  by_cases h6 : pktType m.pkt = 6
  · obtain ⟨pid', s, e⟩ := hf.queue m hm h6
    refine Or.inr (Or.inr ⟨pid', s, e, ?_⟩)
    intro hp
    subst hp
    exact hi.queue m hm s e
  · exact Or.inr (Or.inl h6)

/-! ## the slot stays taken -/

/-- the input completes the QoS 2 exchange of `pid` from the broker's side: its PUBCOMP, or a PUBREC carrying an error -/
def completesQ2 (pid : Nat) : CIn → Prop
  | .pkt (.pubcomp a) _ _ => a.packetId = pid
  | .pkt (.pubrec a) _ _ => a.packetId = pid ∧ a.reason ≥ 128
  | _ => False

/-- follow the send-quota monitor through a history, giving up when it rejects the history or the history leaves the
    monitor's domain (an acknowledgement that completes nothing outstanding) -/
def follow (m : QMon) : List CObs → Option QMon
  | [] => some m
  | o :: t =>
    match m.next o with
    | some (m', true) => follow m' t
    | _ => none

/-- one monitor step keeps `(pid, 2)` outstanding unless the observation is the completion of that exchange -/
theorem next_keeps (pid : Nat) (c : Ctx) (m m' : QMon) (i : CIn) (hp : (pid, 2) ∈ m.out) (hn : ¬ completesQ2 pid i)
    (h : m.next (c.stepIn i).2 = some (m', true)) : (pid, 2) ∈ m'.out := by
  cases i with
  | msg msg wok =>
    simp only [Ctx.stepIn] at h
    cases msg with
    | ff pkt slot =>
      simp only [QMon.next] at h
      split at h
      · cases h
      · simp only [Option.some.injEq, Prod.mk.injEq, and_true] at h; subst h; exact hp
    | subscribe aid sid pkt slot chan =>
      simp only [QMon.next] at h
      split at h
      · cases h
      · simp only [Option.some.injEq, Prod.mk.injEq, and_true] at h; subst h; exact hp
    | awaitAck aid pkt slot =>
      simp only [QMon.next] at h
      repeat' split at h
      all_goals (cases h <;> first | exact hp | exact List.mem_append_left _ hp)
  | pkt p dead wok =>
    simp only [Ctx.stepIn] at h
    cases p with
    | puback a =>
      simp only [QMon.next] at h
      split at h
      · simp only [Option.some.injEq, Prod.mk.injEq, and_true] at h; subst h
        exact (List.mem_erase_of_ne (by intro e; cases (Prod.mk.inj e).2)).mpr hp
      · simp at h
    | pubcomp a =>
      have hne : a.packetId ≠ pid := hn
      simp only [QMon.next] at h
      split at h
      · simp only [Option.some.injEq, Prod.mk.injEq, and_true] at h; subst h
        exact (List.mem_erase_of_ne (by intro e; exact hne (Prod.mk.inj e).1.symm)).mpr hp
      · simp at h
    | pubrec a =>
      simp only [QMon.next] at h
      split at h
      · rename_i hr
        have hne : a.packetId ≠ pid := fun e => hn ⟨e, hr⟩
        split at h
        · simp only [Option.some.injEq, Prod.mk.injEq, and_true] at h; subst h
          exact (List.mem_erase_of_ne (by intro e; exact hne (Prod.mk.inj e).1.symm)).mpr hp
        · simp at h
      · simp only [Option.some.injEq, Prod.mk.injEq, and_true] at h; subst h; exact hp
    | _ =>
      simp only [QMon.next, Option.some.injEq, Prod.mk.injEq, and_true] at h; subst h; exact hp

/-- **K1, the slot**: start from a context whose books agree with the monitor (`QRel`: free slots + outstanding
    publishes = Receive Maximum) with the QoS 2 exchange of `pid` outstanding. Serve ANY history that contains neither
    the PUBCOMP for `pid` nor a failing PUBREC for `pid`, and along which the broker stays conformant (the monitor can
    be followed: it neither rejects the history nor meets an acknowledgement that completes nothing outstanding).
    Then the books still agree and the exchange of `pid` is still outstanding — -/
theorem follow_keeps (pid : Nat) (c : Ctx) (m : QMon) (is : List CIn) (h : QRel c m) (hp : (pid, 2) ∈ m.out)
    (hn : ∀ i ∈ is, ¬ completesQ2 pid i) :
    ∀ m', follow m (c.serve is).2 = some m' → QRel (c.serve is).1 m' ∧ (pid, 2) ∈ m'.out := by
  induction is generalizing c m with
  | nil =>
    intro m' hf
    simp only [Ctx.serve_nil, follow, Option.some.injEq] at hf
    subst hf
    exact ⟨h, hp⟩
  | cons i is ih =>
    intro m' hf
    obtain ⟨m1, b, hnx, hrel⟩ := step_sim c m i h
    rw [Ctx.serve_cons] at hf ⊢
    split at hf
    · rename_i hc
      simp only [hc, ↓reduceIte]
      simp only [follow, hnx] at hf
      cases b with
      | false => simp at hf
      | true =>
        simp only at hf
        exact ih _ m1 (hrel rfl) (next_keeps pid c m m1 i hp (hn i List.mem_cons_self) hnx)
          (fun j hj => hn j (List.mem_cons_of_mem _ hj)) m' hf
    · rename_i hc
      simp only [hc, ↓reduceIte]
      simp only [follow, hnx] at hf
      cases b with
      | false => simp at hf
      | true =>
        simp only [Option.some.injEq] at hf
        subst hf
        exact ⟨hrel rfl, next_keeps pid c m m1 i hp (hn i List.mem_cons_self) hnx⟩

/-- — so the send quota stays at least one below Receive Maximum: the slot of the abandoned QoS 2 publish is not given
    back before the broker completes the exchange itself -/
theorem quota_below_max_while_outstanding (pid : Nat) (c : Ctx) (m : QMon) (h : QRel c m) (hp : (pid, 2) ∈ m.out) :
    c.quota < c.recvMax := by
  have := List.length_pos_of_mem hp
  have := h.1
  omega

end W11
end World
end Poster
