/-
  WorldFuelCodec.lean — every subscription identifier of a decoded PUBLISH costs at least two bytes of
  its frame (one identifier byte and at least one byte of variable byte integer).
-/
import PosterModel.Rx

namespace Poster

/-! ## primitives -/

theorem decVarAux_len_pos : ∀ (bs : Bytes) (idx mult acc v l : Nat),
    decVarAux idx mult acc bs = .ok v l → idx + 1 ≤ l := by
  intro bs
  induction bs with
  | nil => intro idx mult acc v l h; simp [decVarAux] at h
  | cons b rest ih =>
    intro idx mult acc v l h
    unfold decVarAux at h
    split at h
    · cases h
    · split at h
      · split at h
        · cases h; exact Nat.le_refl _
        · cases h
      · have := ih _ _ _ _ _ h
        omega

theorem decVarR_len_pos {bs : Bytes} {v l : Nat} (h : decVarR bs = .ok (v, l)) : 1 ≤ l := by
  unfold decVarR at h
  split at h
  · rename_i v' l' hd
    cases h
    have := decVarAux_len_pos _ _ _ _ _ _ hd
    omega
  · cases h

theorem tryDec_ok_wfc {α} {dec : Bytes → Res α} {len : α → Nat} {d : Bytes} {v : α} {r : Bytes}
    (h : tryDec dec len d = .ok (v, r)) : dec d = .ok v ∧ len v ≤ d.length ∧ r = d.drop (len v) := by
  unfold tryDec at h
  split at h
  · rename_i v' hd
    split at h
    · cases h; exact ⟨hd, by assumption, rfl⟩
    · cases h
  · cases h
  · cases h

theorem tryDec_len_le_wfc {α} {dec : Bytes → Res α} {len : α → Nat} {d : Bytes} {v : α} {r : Bytes}
    (h : tryDec dec len d = .ok (v, r)) : r.length ≤ d.length := by
  obtain ⟨_, _, hr⟩ := tryDec_ok_wfc h
  subst hr
  simp [List.length_drop]

theorem res_map_ok_wfc {α β} {f : α → β} {r : Res α} {b : β} (h : r.map f = .ok b) : ∃ a, r = .ok a ∧ f a = b := by
  cases r with
  | ok a => exact ⟨a, rfl, by simpa [Res.map, Res.bind] using h⟩
  | err => simp [Res.map, Res.bind] at h
  | panic => simp [Res.map, Res.bind] at h

theorem res_bind_ok_wfc {α β} {f : α → Res β} {r : Res α} {b : β} (h : r.bind f = .ok b) : ∃ a, r = .ok a ∧ f a = .ok b := by
  cases r with
  | ok a => exact ⟨a, rfl, h⟩
  | err => simp [Res.bind] at h
  | panic => simp [Res.bind] at h

/-! ## properties -/

/-- a variable-byte-integer value produced by `dVal` carries a positive encoded length -/
theorem dVal_var_len_pos {k : PKind} {d r : Bytes} {v l : Nat} (h : dVal k d = .ok (.var v l, r)) : 1 ≤ l := by
  cases k <;> simp only [dVal] at h <;> obtain ⟨a, ha, he⟩ := res_map_ok_wfc h <;> obtain ⟨x, y⟩ := a <;>
    simp only [Prod.mk.injEq] at he <;> obtain ⟨he, _⟩ := he <;> try (cases he; done)
  -- the `.var` case
  obtain ⟨x1, x2⟩ := x
  cases he
  obtain ⟨hd, _, _⟩ := tryDec_ok_wfc (dec := decNzVar) ha
  exact decVarR_len_pos hd

theorem decProp_var_len_pos {bs : Bytes} {p : Property} {v l : Nat} (h : decProp bs = .ok p)
    (hv : p.val = .var v l) : 1 ≤ l := by
  unfold decProp at h
  obtain ⟨⟨id, r⟩, _, h⟩ := res_bind_ok_wfc h
  simp only at h
  split at h
  · obtain ⟨⟨pv, r'⟩, hd, he⟩ := res_map_ok_wfc h
    simp only at he
    subst he
    simp only at hv
    subst hv
    exact dVal_var_len_pos hd
  · cases h

theorem propLen_pos_wfc (p : Property) : 1 ≤ propLen p := by
  unfold propLen; split <;> omega

/-- `dProp` consumes `propLen p` bytes; a subscription identifier consumes at least two -/
theorem dProp_ok_wfc {bs r : Bytes} {p : Property} (h : dProp bs = .ok (p, r)) :
    r.length + propLen p = bs.length ∧ (∀ v l, p.id = 11 → p.val = .var v l → 2 ≤ propLen p) := by
  obtain ⟨hd, hl, hr⟩ := tryDec_ok_wfc (dec := decProp) h
  subst hr
  refine ⟨by simp [List.length_drop]; omega, ?_⟩
  intro v l hid hv
  have := decProp_var_len_pos hd hv
  simp [propLen, hid, hv, propKind, valLen]
  omega

theorem PublishRx.step_subIds {b b' : PublishRx} {p : Property} (h : PublishRx.step b p = some b') :
    b'.subIds = b.subIds ∨ ∃ v l, p.id = 11 ∧ p.val = .var v l ∧ b'.subIds = b.subIds ++ [v] := by
  unfold PublishRx.step at h
  split at h <;> simp only [Option.some.injEq, reduceCtorEq] at h <;> subst h
  all_goals first
    | exact Or.inl rfl
    | exact Or.inr ⟨_, _, ‹_›, ‹_›, rfl⟩

theorem foldProps_subIds_len : ∀ (f : Nat) (bs : Bytes) (b b' : PublishRx),
    foldProps PublishRx.step f bs b = .ok b' → 2 * b'.subIds.length ≤ 2 * b.subIds.length + bs.length := by
  intro f
  induction f with
  | zero =>
    intro bs b b' h
    cases bs with
    | nil => simp [foldProps] at h; subst h; omega
    | cons x xs => simp [foldProps] at h
  | succ f ih =>
    intro bs b b' h
    cases bs with
    | nil => simp [foldProps] at h; subst h; omega
    | cons x xs =>
      unfold foldProps at h
      split at h
      · rename_i p r hd
        split at h
        · rename_i b1 hs
          have h1 := ih _ _ _ h
          obtain ⟨hlen, hsub⟩ := dProp_ok_wfc hd
          have hpos := propLen_pos_wfc p
          rcases PublishRx.step_subIds hs with he | ⟨v, l, hid, hv, he⟩
          · rw [he] at h1; omega
          · have := hsub v l hid hv
            rw [he] at h1
            simp only [List.length_append, List.length_singleton] at h1
            omega
        · cases h
      · cases h
      · cases h

/-! ## PUBLISH -/

theorem decPublish_subIds_len (fr : Bytes) (pb : PublishRx) (h : decPublish fr = .ok pb) :
    2 * pb.subIds.length ≤ fr.length := by
  unfold decPublish at h
  obtain ⟨⟨hdr, d0⟩, h0, h⟩ := res_bind_ok_wfc h
  simp only at h
  split at h
  · cases h
  split at h
  · cases h
  obtain ⟨⟨rl, d1⟩, h1, h⟩ := res_bind_ok_wfc h
  simp only at h
  split at h
  · cases h
  obtain ⟨⟨topic, d2⟩, h2, h⟩ := res_bind_ok_wfc h
  simp only at h
  obtain ⟨⟨pid, d3⟩, h3, h⟩ := res_bind_ok_wfc h
  simp only at h
  obtain ⟨⟨pl, d4⟩, h4, h⟩ := res_bind_ok_wfc h
  simp only at h
  split at h
  · cases h
  obtain ⟨c, h5, h⟩ := res_bind_ok_wfc h
  obtain ⟨d5, _, h⟩ := res_bind_ok_wfc h
  cases h
  have l0 := tryDec_len_le_wfc (dec := decU8) h0
  have l1 := tryDec_len_le_wfc (dec := decVarR) h1
  have l2 := tryDec_len_le_wfc (dec := decStr) h2
  have l4 := tryDec_len_le_wfc (dec := decVarR) h4
  have l3 : d3.length ≤ d2.length := by
    split at h3
    · cases h3; exact Nat.le_refl _
    · obtain ⟨⟨p, d'⟩, hp, he⟩ := res_map_ok_wfc h3
      cases he
      exact tryDec_len_le_wfc (dec := decNzU16) hp
  have l5 := foldProps_subIds_len _ _ _ _ h5
  simp only [List.length_nil, List.length_take] at l5
  simp only
  omega

theorem decodeRx_publish_subIds_len (fr : Bytes) (pb : PublishRx) (h : decodeRx fr = .ok (.publish pb)) :
    2 * pb.subIds.length ≤ fr.length := by
  unfold decodeRx at h
  split at h
  · cases h
  · split at h
    case h_2 =>
      obtain ⟨a, ha, he⟩ := res_map_ok_wfc h
      cases he
      exact decPublish_subIds_len _ _ ha
    case h_9 =>
      obtain ⟨⟨hh, _⟩, _, h⟩ := res_bind_ok_wfc h
      simp only at h
      split at h <;> cases h
    case h_12 => cases h
    all_goals
      obtain ⟨a, ha, he⟩ := res_map_ok_wfc h
      cases he

end Poster

#print axioms Poster.decPublish_subIds_len
#print axioms Poster.decodeRx_publish_subIds_len
