/-
  Lemmas/CodecPrim.lean — the model's primitive encoders and property encoder against the standard-shaped
  parsers of `Spec/Client.lean`: one round-trip lemma per primitive, one per property, and ONE generic lemma for
  "items until the block is used up" (`pMany`), instantiated for property blocks.
-/
import PosterModel.Spec.ClientOf

namespace Poster
open Spec

/-! ## primitives -/

theorem pU8_enc (n : Nat) (h : n < 256) (r : Bytes) : pU8 (encU8 n ++ r) = some (n, r) := by
  simp [encU8, pU8]; omega

theorem pU16_enc (n : Nat) (h : n < 65536) (r : Bytes) : pU16 (encU16 n ++ r) = some (n, r) := by
  simp [encU16, pU16]; omega

theorem pU32_enc (n : Nat) (h : n < 4294967296) (r : Bytes) : pU32 (encU32 n ++ r) = some (n, r) := by
  simp [encU32, pU32]; omega

theorem pBin_enc (s : Bytes) (h : s.length < 65536) (r : Bytes) : pBin (encStr s ++ r) = some (s, r) := by
  simp [encStr, pBin, List.append_assoc, pU16_enc _ h]

theorem pStr_enc (s : Bytes) (h : s.length < 65536) (r : Bytes) : Spec.pStr (encStr s ++ r) = some (s, r) :=
  pBin_enc s h r

theorem pVar_enc (n : Nat) (h : n < 268435456) (r : Bytes) : pVar (encVar n ++ r) = some (n, r) := by
  unfold encVar
  split
  · have : n % 256 < 128 := by omega
    simp [pVar, pVarAux, this]; omega
  · split
    · have h1 : ¬ (n % 128 + 128) % 256 < 128 := by omega
      have h2 : n / 128 % 128 % 256 < 128 := by omega
      have h3 : ¬ n / 128 % 128 % 256 = 0 := by omega
      simp [pVar, pVarAux, h1, h2, h3]; omega
    · split
      · have h1 : ¬ (n % 128 + 128) % 256 < 128 := by omega
        have h2 : ¬ (n / 128 % 128 + 128) % 256 < 128 := by omega
        have h3 : n / 16384 % 128 % 256 < 128 := by omega
        have h4 : ¬ n / 16384 % 128 % 256 = 0 := by omega
        simp [pVar, pVarAux, h1, h2, h3, h4]; omega
      · have h1 : ¬ (n % 128 + 128) % 256 < 128 := by omega
        have h2 : ¬ (n / 128 % 128 + 128) % 256 < 128 := by omega
        have h3 : ¬ (n / 16384 % 128 + 128) % 256 < 128 := by omega
        have h4 : n / 2097152 % 128 % 256 < 128 := by omega
        have h5 : ¬ n / 2097152 % 128 % 256 = 0 := by omega
        simp [pVar, pVarAux, h1, h2, h3, h4, h5]; omega

/-- a one-byte Variable Byte Integer (every property identifier is one) -/
theorem pVar_byte (b : UInt8) (h : b.toNat < 128) (r : Bytes) : pVar (b :: r) = some (b.toNat, r) := by
  simp [pVar, pVarAux, h]

/-- `VarSizeInt::len()` is the number of bytes `encode` writes -/
theorem varLen_eq (n : Nat) : varLen n = (encVar n).length := by
  unfold varLen encVar
  repeat' split
  all_goals rfl

theorem varLen_eq_varSize (n : Nat) : varLen n = varSize n := by
  unfold varLen varSize
  repeat' split
  all_goals omega

/-! ## "items until the block is used up" -/

/-- ONE induction for every repeated structure (property blocks, topic filter lists): if each item's encoding
    is non-empty and parses back to the item (with anything after it), the concatenation parses to the list. -/
theorem pManyAux_enc {α β} (p : P α) (enc : β → Bytes) (g : β → α) (xs : List β)
    (hp : ∀ x ∈ xs, ∀ r, p (enc x ++ r) = some (g x, r)) (hpos : ∀ x ∈ xs, 0 < (enc x).length)
    (f : Nat) (hf : ((xs.map enc).flatten).length ≤ f) :
    pManyAux p f ((xs.map enc).flatten) = some (xs.map g) := by
  induction xs generalizing f with
  | nil => cases f <;> simp [pManyAux]
  | cons x xs ih =>
    have hx := hpos x (by simp)
    simp only [List.map_cons, List.flatten_cons, List.length_append] at hf ⊢
    cases f with
    | zero => omega
    | succ f =>
      cases he : enc x with
      | nil => simp [he] at hx
      | cons b t =>
        have hpx := hp x (by simp) ((xs.map enc).flatten)
        rw [he] at hpx
        simp only [List.cons_append] at hpx ⊢
        simp only [pManyAux, hpx]
        rw [ih (fun y hy => hp y (by simp [hy])) (fun y hy => hpos y (by simp [hy])) f
          (by simp only [he, List.length_cons] at hf; omega)]
        rfl

theorem pMany_enc {α β} (p : P α) (enc : β → Bytes) (g : β → α) (xs : List β)
    (hp : ∀ x ∈ xs, ∀ r, p (enc x ++ r) = some (g x, r)) (hpos : ∀ x ∈ xs, 0 < (enc x).length) :
    pMany p ((xs.map enc).flatten) = some (xs.map g) :=
  pManyAux_enc p enc g xs hp hpos _ (Nat.le_refl _)

/-! ## properties -/

/-! the two tables, evaluated at each identifier (so that `simp` never has to unfold the 27-way matches) -/
@[simp] theorem propType_1 : propType 1 = some .byte := rfl
@[simp] theorem propType_2 : propType 2 = some .u32 := rfl
@[simp] theorem propType_3 : propType 3 = some .str := rfl
@[simp] theorem propType_8 : propType 8 = some .str := rfl
@[simp] theorem propType_9 : propType 9 = some .bin := rfl
@[simp] theorem propType_11 : propType 11 = some .varint := rfl
@[simp] theorem propType_17 : propType 17 = some .u32 := rfl
@[simp] theorem propType_18 : propType 18 = some .str := rfl
@[simp] theorem propType_19 : propType 19 = some .u16 := rfl
@[simp] theorem propType_21 : propType 21 = some .str := rfl
@[simp] theorem propType_22 : propType 22 = some .bin := rfl
@[simp] theorem propType_23 : propType 23 = some .byte := rfl
@[simp] theorem propType_24 : propType 24 = some .u32 := rfl
@[simp] theorem propType_25 : propType 25 = some .byte := rfl
@[simp] theorem propType_26 : propType 26 = some .str := rfl
@[simp] theorem propType_28 : propType 28 = some .str := rfl
@[simp] theorem propType_31 : propType 31 = some .str := rfl
@[simp] theorem propType_33 : propType 33 = some .u16 := rfl
@[simp] theorem propType_34 : propType 34 = some .u16 := rfl
@[simp] theorem propType_35 : propType 35 = some .u16 := rfl
@[simp] theorem propType_36 : propType 36 = some .byte := rfl
@[simp] theorem propType_37 : propType 37 = some .byte := rfl
@[simp] theorem propType_38 : propType 38 = some .pair := rfl
@[simp] theorem propType_39 : propType 39 = some .u32 := rfl
@[simp] theorem propType_40 : propType 40 = some .byte := rfl
@[simp] theorem propType_41 : propType 41 = some .byte := rfl
@[simp] theorem propType_42 : propType 42 = some .byte := rfl
@[simp] theorem propKind_1 : propKind 1 = some .bool := rfl
@[simp] theorem propKind_2 : propKind 2 = some .u32 := rfl
@[simp] theorem propKind_3 : propKind 3 = some .str := rfl
@[simp] theorem propKind_8 : propKind 8 = some .str := rfl
@[simp] theorem propKind_9 : propKind 9 = some .bin := rfl
@[simp] theorem propKind_11 : propKind 11 = some .var := rfl
@[simp] theorem propKind_17 : propKind 17 = some .u32 := rfl
@[simp] theorem propKind_18 : propKind 18 = some .str := rfl
@[simp] theorem propKind_19 : propKind 19 = some .u16 := rfl
@[simp] theorem propKind_21 : propKind 21 = some .str := rfl
@[simp] theorem propKind_22 : propKind 22 = some .bin := rfl
@[simp] theorem propKind_23 : propKind 23 = some .bool := rfl
@[simp] theorem propKind_24 : propKind 24 = some .u32 := rfl
@[simp] theorem propKind_25 : propKind 25 = some .bool := rfl
@[simp] theorem propKind_26 : propKind 26 = some .str := rfl
@[simp] theorem propKind_28 : propKind 28 = some .str := rfl
@[simp] theorem propKind_31 : propKind 31 = some .str := rfl
@[simp] theorem propKind_33 : propKind 33 = some .nzu16 := rfl
@[simp] theorem propKind_34 : propKind 34 = some .u16 := rfl
@[simp] theorem propKind_35 : propKind 35 = some .nzu16 := rfl
@[simp] theorem propKind_36 : propKind 36 = some .qos := rfl
@[simp] theorem propKind_37 : propKind 37 = some .bool := rfl
@[simp] theorem propKind_38 : propKind 38 = some .pair := rfl
@[simp] theorem propKind_39 : propKind 39 = some .nzu32 := rfl
@[simp] theorem propKind_40 : propKind 40 = some .bool := rfl
@[simp] theorem propKind_41 : propKind 41 = some .bool := rfl
@[simp] theorem propKind_42 : propKind 42 = some .bool := rfl

/-- a property value the standard can represent: the value has the type of table 2-4 and is in range
    (flags are booleans, the four "must not be zero" properties are not zero, sizes fit) -/
def PropWF (p : Property) : Prop :=
  match propType p.id, p.val with
  | some .byte, .bool _ => p.id ≠ 36
  | some .byte, .num n => p.id = 36 ∧ n ≤ 1
  | some .u16, .num n => n < 65536 ∧ (nonZeroProp p.id = true → n ≠ 0)
  | some .u32, .num n => n < 4294967296 ∧ (nonZeroProp p.id = true → n ≠ 0)
  | some .varint, .var v l => v < 268435456 ∧ l = varSize v ∧ (nonZeroProp p.id = true → v ≠ 0)
  | some .str, .bytes s => s.length < 65536
  | some .bin, .bytes s => s.length < 65536
  | some .pair, .pair k v => k.length < 65536 ∧ v.length < 65536
  | _, _ => False

theorem propType_cases {id : Nat} (h : propType id ≠ none) :
    id = 1 ∨ id = 2 ∨ id = 3 ∨ id = 8 ∨ id = 9 ∨ id = 11 ∨ id = 17 ∨ id = 18 ∨ id = 19 ∨ id = 21 ∨ id = 22
    ∨ id = 23 ∨ id = 24 ∨ id = 25 ∨ id = 26 ∨ id = 28 ∨ id = 31 ∨ id = 33 ∨ id = 34 ∨ id = 35 ∨ id = 36
    ∨ id = 37 ∨ id = 38 ∨ id = 39 ∨ id = 40 ∨ id = 41 ∨ id = 42 := by
  unfold propType at h
  split at h <;> simp at h ⊢

theorem PropWF.type_ne_none {p : Property} (h : PropWF p) : propType p.id ≠ none := by
  intro hn
  unfold PropWF at h
  rw [hn] at h
  simp at h

set_option hygiene false in
/-- case analysis on the identifier of a well-formed property, then `simp` on the hypothesis -/
local macro "prop_ids" h:ident : tactic => `(tactic|
  (have hid := propType_cases (PropWF.type_ne_none $h)
   simp only at hid
   rcases hid with rfl | rfl | rfl | rfl | rfl | rfl | rfl | rfl | rfl | rfl | rfl | rfl | rfl | rfl | rfl
     | rfl | rfl | rfl | rfl | rfl | rfl | rfl | rfl | rfl | rfl | rfl | rfl <;>
   simp [PropWF, nonZeroProp] at $h:ident))

set_option linter.unusedSimpArgs false

theorem pProp_enc_bool (id : Nat) (b : Bool) (h : PropWF ⟨id, .bool b⟩) (r : Bytes) :
    pProp (encProp ⟨id, .bool b⟩ ++ r) = some (⟨id, .bool b⟩, r) := by
  prop_ids h <;> cases b <;>
  simp [encProp, encVal, encU8, b2n, pProp, pVar_byte, pU8]

theorem pProp_enc_num (id n : Nat) (h : PropWF ⟨id, .num n⟩) (r : Bytes) :
    pProp (encProp ⟨id, .num n⟩ ++ r) = some (⟨id, .num n⟩, r) := by
  prop_ids h <;>
  simp [encProp, encVal, encU8, pProp, pVar_byte, nonZeroProp, pU8, pU16_enc, pU32_enc, h] <;>
  omega

theorem pProp_enc_var (id v l : Nat) (h : PropWF ⟨id, .var v l⟩) (r : Bytes) :
    pProp (encProp ⟨id, .var v l⟩ ++ r) = some (⟨id, .var v l⟩, r) := by
  prop_ids h <;>
  simp [encProp, encVal, encU8, pProp, pVar_byte, nonZeroProp, pVar_enc, h]

theorem pProp_enc_bytes (id : Nat) (s : Bytes) (h : PropWF ⟨id, .bytes s⟩) (r : Bytes) :
    pProp (encProp ⟨id, .bytes s⟩ ++ r) = some (⟨id, .bytes s⟩, r) := by
  prop_ids h <;>
  simp [encProp, encVal, encU8, pProp, pVar_byte, pStr_enc, pBin_enc, h]

theorem pProp_enc_pair (id : Nat) (k v : Bytes) (h : PropWF ⟨id, .pair k v⟩) (r : Bytes) :
    pProp (encProp ⟨id, .pair k v⟩ ++ r) = some (⟨id, .pair k v⟩, r) := by
  prop_ids h <;>
  simp [encProp, encVal, encU8, encPair, pProp, pVar_byte, pStr_enc, List.append_assoc, h]

/-- the model's property encoder writes what the standard's property parser reads back -/
theorem pProp_enc (p : Property) (h : PropWF p) (r : Bytes) : pProp (encProp p ++ r) = some (p, r) := by
  obtain ⟨id, val⟩ := p
  cases val with
  | bool b => exact pProp_enc_bool id b h r
  | num n => exact pProp_enc_num id n h r
  | var v l => exact pProp_enc_var id v l h r
  | bytes s => exact pProp_enc_bytes id s h r
  | pair k v => exact pProp_enc_pair id k v h r

end Poster
