/-
  Lemmas/TxStream.lean — helper lemmas about `write_all` over a writer oracle (TxStream.lean).
-/
import PosterModel.TxStream

namespace Poster.TxStream
open Poster

def WEv.isAccept : WEv → Bool
  | .accept _ => true
  | _ => false

def WEv.isFault : WEv → Bool
  | .err => true
  | .zero => true
  | _ => false

@[simp] theorem pollWriteAll_nil_buf (evs : List WEv) : pollWriteAll [] evs = ⟨[], [], evs, .done, 0⟩ := by
  cases evs <;> simp [pollWriteAll]

@[simp] theorem writeAll_nil_buf (evs : List WEv) : writeAll [] evs = (⟨[], [], evs, .done, 0⟩, 1) := by
  cases evs <;> simp [writeAll]

theorem pollWriteAll_conserves_aux (evs : List WEv) : ∀ buf : Bytes,
    (pollWriteAll buf evs).acc ++ (pollWriteAll buf evs).rest = buf := by
  induction evs with
  | nil => intro buf; by_cases h : buf = [] <;> simp [pollWriteAll, h]
  | cons ev evs ih =>
    intro buf
    by_cases h : buf = []
    · simp [pollWriteAll, h]
    · cases ev with
      | accept n =>
        simp only [pollWriteAll, h, if_false, List.append_assoc]
        rw [ih (buf.drop (n + 1)), List.take_append_drop]
      | pending => simp [pollWriteAll, h]
      | err => simp [pollWriteAll, h]
      | zero => simp [pollWriteAll, h]

theorem pollWriteAll_done_aux (evs : List WEv) : ∀ buf : Bytes,
    (pollWriteAll buf evs).out = .done → (pollWriteAll buf evs).rest = [] := by
  induction evs with
  | nil => intro buf; by_cases h : buf = [] <;> simp [pollWriteAll, h]
  | cons ev evs ih =>
    intro buf
    by_cases h : buf = []
    · simp [pollWriteAll, h]
    · cases ev with
      | accept n => simp only [pollWriteAll, h, if_false]; exact ih _
      | pending => simp [pollWriteAll, h]
      | err => simp [pollWriteAll, h]
      | zero => simp [pollWriteAll, h]

theorem pollWriteAll_notdone_aux (evs : List WEv) : ∀ buf : Bytes,
    (pollWriteAll buf evs).out ≠ .done → (pollWriteAll buf evs).rest ≠ [] := by
  induction evs with
  | nil => intro buf; by_cases h : buf = [] <;> simp [pollWriteAll, h]
  | cons ev evs ih =>
    intro buf
    by_cases h : buf = []
    · simp [pollWriteAll, h]
    · cases ev with
      | accept n => simp only [pollWriteAll, h, if_false]; exact ih _
      | pending => simp [pollWriteAll, h]
      | err => simp [pollWriteAll, h]
      | zero => simp [pollWriteAll, h]

theorem pollWriteAll_calls_aux (evs : List WEv) : ∀ buf : Bytes,
    (pollWriteAll buf evs).calls ≤ buf.length := by
  induction evs with
  | nil =>
    intro buf
    cases buf with
    | nil => simp [pollWriteAll]
    | cons b bs => simp [pollWriteAll]
  | cons ev evs ih =>
    intro buf
    cases buf with
    | nil => simp [pollWriteAll]
    | cons b bs =>
      cases ev with
      | accept n =>
        simp only [pollWriteAll, reduceCtorEq, if_false]
        have := ih ((b :: bs).drop (n + 1))
        simp only [List.length_drop, List.length_cons] at this ⊢
        omega
      | pending => simp [pollWriteAll]
      | err => simp [pollWriteAll]
      | zero => simp [pollWriteAll]

/-- where a `Pending` of one poll comes from: the transport took bytes (`accept`) and then answered `Pending`, or has no
    further answer -/
theorem pollWriteAll_pending_aux (evs : List WEv) : ∀ buf : Bytes,
    (pollWriteAll buf evs).out = .pending →
    ∃ pre, (∀ e ∈ pre, e.isAccept = true) ∧
      (evs = pre ++ WEv.pending :: (pollWriteAll buf evs).evs ∨ (evs = pre ∧ (pollWriteAll buf evs).evs = [])) := by
  induction evs with
  | nil => intro buf _; exact ⟨[], by simp, Or.inr ⟨rfl, by by_cases h : buf = [] <;> simp [pollWriteAll, h]⟩⟩
  | cons ev evs ih =>
    intro buf
    by_cases h : buf = []
    · simp [pollWriteAll, h]
    · cases ev with
      | accept n =>
        simp only [pollWriteAll, h, if_false]
        intro hp
        obtain ⟨pre, h1, h2⟩ := ih _ hp
        refine ⟨.accept n :: pre, ?_, ?_⟩
        · intro e he
          rcases List.mem_cons.1 he with rfl | he
          · rfl
          · exact h1 e he
        · rcases h2 with h2 | ⟨h2, h3⟩
          · left; rw [List.cons_append, ← h2]
          · right; exact ⟨by rw [h2], h3⟩
      | pending => intro _; exact ⟨[], by simp, Or.inl (by simp [pollWriteAll, h])⟩
      | err => simp [pollWriteAll, h]
      | zero => simp [pollWriteAll, h]

/-! ### `writeAll`: the future polled to the end -/

theorem writeAll_conserves_aux (evs : List WEv) : ∀ buf : Bytes,
    (writeAll buf evs).1.acc ++ (writeAll buf evs).1.rest = buf := by
  induction evs with
  | nil => intro buf; simpa [writeAll] using pollWriteAll_conserves_aux [] buf
  | cons ev evs ih =>
    intro buf
    by_cases h : buf = []
    · simp [h]
    · cases ev with
      | accept n =>
        simp only [writeAll, h, if_false, List.append_assoc]
        rw [ih (buf.drop (n + 1)), List.take_append_drop]
      | pending => simp only [writeAll, h, if_false]; exact ih buf
      | err => simp [writeAll, h]
      | zero => simp [writeAll, h]

theorem writeAll_done_aux (evs : List WEv) : ∀ buf : Bytes,
    (writeAll buf evs).1.out = .done → (writeAll buf evs).1.rest = [] := by
  induction evs with
  | nil => intro buf; simpa [writeAll] using pollWriteAll_done_aux [] buf
  | cons ev evs ih =>
    intro buf
    by_cases h : buf = []
    · simp [h]
    · cases ev with
      | accept n => simp only [writeAll, h, if_false]; exact ih _
      | pending => simp only [writeAll, h, if_false]; exact ih buf
      | err => simp [writeAll, h]
      | zero => simp [writeAll, h]

theorem writeAll_notdone_aux (evs : List WEv) : ∀ buf : Bytes,
    (writeAll buf evs).1.out ≠ .done → (writeAll buf evs).1.rest ≠ [] := by
  induction evs with
  | nil => intro buf; simpa [writeAll] using pollWriteAll_notdone_aux [] buf
  | cons ev evs ih =>
    intro buf
    by_cases h : buf = []
    · simp [h]
    · cases ev with
      | accept n => simp only [writeAll, h, if_false]; exact ih _
      | pending => simp only [writeAll, h, if_false]; exact ih buf
      | err => simp [writeAll, h]
      | zero => simp [writeAll, h]

theorem writeAll_err_aux (evs : List WEv) : ∀ buf : Bytes,
    (writeAll buf evs).1.out = .err → ∃ e ∈ evs, e.isFault = true := by
  induction evs with
  | nil => intro buf; by_cases h : buf = [] <;> simp [writeAll, pollWriteAll, h]
  | cons ev evs ih =>
    intro buf
    by_cases h : buf = []
    · simp [h]
    · cases ev with
      | accept n =>
        simp only [writeAll, h, if_false]
        intro he
        obtain ⟨e, h1, h2⟩ := ih _ he
        exact ⟨e, by simp [h1], h2⟩
      | pending =>
        simp only [writeAll, h, if_false]
        intro he
        obtain ⟨e, h1, h2⟩ := ih _ he
        exact ⟨e, by simp [h1], h2⟩
      | err => intro _; exact ⟨.err, by simp, rfl⟩
      | zero => intro _; exact ⟨.zero, by simp, rfl⟩

/-- a transport without faults that answers `accept` at least once per byte lets every `write_all` complete -/
theorem writeAll_completes_aux (evs : List WEv) : ∀ buf : Bytes,
    (∀ e ∈ evs, e.isFault = false) → buf.length ≤ (evs.filter WEv.isAccept).length →
    (writeAll buf evs).1.out = .done := by
  induction evs with
  | nil =>
    intro buf _ hl
    have : buf = [] := by simpa using hl
    simp [this]
  | cons ev evs ih =>
    intro buf hf hl
    by_cases h : buf = []
    · simp [h]
    · have hf' : ∀ e ∈ evs, e.isFault = false := fun e he => hf e (by simp [he])
      cases ev with
      | accept n =>
        simp only [writeAll, h, if_false]
        apply ih _ hf'
        simp only [List.filter_cons, WEv.isAccept, if_true, List.length_cons] at hl
        have : 0 < buf.length := List.length_pos_iff.2 h
        simp only [List.length_drop]
        omega
      | pending =>
        simp only [writeAll, h, if_false]
        apply ih _ hf'
        simpa [List.filter_cons, WEv.isAccept] using hl
      | err => have := hf .err (by simp); simp [WEv.isFault] at this
      | zero => have := hf .zero (by simp); simp [WEv.isFault] at this

/-- `Pending` answers delay, they change nothing else -/
theorem writeAll_delays_aux (evs : List WEv) : ∀ buf : Bytes,
    (writeAll buf evs).1.acc = (writeAll buf (evs.filter (· ≠ WEv.pending))).1.acc ∧
    (writeAll buf evs).1.rest = (writeAll buf (evs.filter (· ≠ WEv.pending))).1.rest ∧
    (writeAll buf evs).1.out = (writeAll buf (evs.filter (· ≠ WEv.pending))).1.out := by
  induction evs with
  | nil => intro buf; simp
  | cons ev evs ih =>
    intro buf
    by_cases h : buf = []
    · simp [h]
    · cases ev with
      | accept n =>
        have := ih (buf.drop (n + 1))
        simp only [ne_eq, reduceCtorEq, not_false_eq_true, decide_true, List.filter_cons_of_pos, writeAll, h, if_false]
        exact ⟨by rw [this.1], this.2.1, this.2.2⟩
      | pending =>
        have := ih buf
        simp only [ne_eq, not_true_eq_false, decide_false, Bool.false_eq_true, not_false_eq_true,
          List.filter_cons_of_neg, writeAll, h, if_false]
        exact this
      | err => simp [writeAll, h]
      | zero => simp [writeAll, h]

/-! ### a sequence of packets -/

theorem writeSeq_shape (pkts : List Bytes) : ∀ evs : List WEv,
    (writeSeq pkts evs).completed ≤ pkts.length ∧
    ∃ pre, (writeSeq pkts evs).wire = (pkts.take (writeSeq pkts evs).completed).flatten ++ pre ∧
      ((writeSeq pkts evs).out = .done → (writeSeq pkts evs).completed = pkts.length ∧ pre = []) ∧
      ((writeSeq pkts evs).out ≠ .done →
        ∃ p, pkts[(writeSeq pkts evs).completed]? = some p ∧ pre <+: p ∧ pre.length < p.length) := by
  induction pkts with
  | nil => intro evs; exact ⟨by simp [writeSeq], [], by simp [writeSeq], by simp [writeSeq], by simp [writeSeq]⟩
  | cons p ps ih =>
    intro evs
    have hc := writeAll_conserves_aux evs p
    by_cases hd : (writeAll p evs).1.out = .done
    · have hr := writeAll_done_aux evs p hd
      rw [hr, List.append_nil] at hc
      obtain ⟨h1, pre, h2, h3, h4⟩ := ih (writeAll p evs).1.evs
      have e : writeSeq (p :: ps) evs =
          { writeSeq ps (writeAll p evs).1.evs with
            wire := (writeAll p evs).1.acc ++ (writeSeq ps (writeAll p evs).1.evs).wire,
            completed := (writeSeq ps (writeAll p evs).1.evs).completed + 1 } := by
        simp only [writeSeq, hd]
      rw [e]
      refine ⟨by simp; omega, pre, ?_, ?_, ?_⟩
      · simp only [List.take_succ_cons, List.flatten_cons, List.append_assoc]
        rw [hc, h2]
      · intro ho
        obtain ⟨a, b⟩ := h3 ho
        exact ⟨by simp [a], b⟩
      · intro ho
        obtain ⟨q, a, b, c⟩ := h4 ho
        exact ⟨q, by simpa using a, b, c⟩
    · have hr := writeAll_notdone_aux evs p hd
      have e : writeSeq (p :: ps) evs = ⟨(writeAll p evs).1.acc, 0, (writeAll p evs).1.out⟩ := by
        cases ho : (writeAll p evs).1.out with
        | done => exact absurd ho hd
        | pending => simp only [writeSeq, ho]
        | err => simp only [writeSeq, ho]
      rw [e]
      refine ⟨by simp, (writeAll p evs).1.acc, by simp, ?_, ?_⟩
      · intro ho; exact absurd ho hd
      · intro _
        refine ⟨p, by simp, ⟨_, hc⟩, ?_⟩
        have := congrArg List.length hc
        have hpos : 0 < (writeAll p evs).1.rest.length := List.length_pos_iff.2 hr
        simp only [List.length_append] at this
        omega

theorem mockEvs_noFault (one pend : Bool) (len : Nat) : ∀ e ∈ mockEvs one pend len, e.isFault = false := by
  intro e he
  simp only [mockEvs, List.mem_flatten, List.mem_replicate] at he
  obtain ⟨l, ⟨_, rfl⟩, he⟩ := he
  cases one <;> cases pend <;> simp at he <;> rcases he with rfl | rfl <;> rfl

theorem filter_flatten_replicate_len (k : Nat) (u : List WEv) :
    ((List.replicate k u).flatten.filter WEv.isAccept).length = k * (u.filter WEv.isAccept).length := by
  induction k with
  | zero => simp
  | succ k ih => simp [List.replicate_succ, Nat.succ_mul, Nat.add_comm]

theorem mockEvs_accepts (one pend : Bool) (len : Nat) : len ≤ ((mockEvs one pend len).filter WEv.isAccept).length := by
  unfold mockEvs
  simp only []
  rw [filter_flatten_replicate_len]
  cases one <;> cases pend <;> simp [List.filter_cons, WEv.isAccept]

end Poster.TxStream
