/-
  Lemmas/WorldOps.lean — the bookkeeping of handle operations (`World.ops`, their oneshots `World.slots`, the
  messages the context owns in `World.queue` / `Ctx.awaiting`) along whole scripts.

  Every primitive of `World` is decomposed into *elementary moves* (`Move tag`): three moves that are not steps of
  a handle future (tag `none` — `cmsg`: a queued message is handled, `cpkt`: an inbound acknowledgement completes
  a waiter, `drop`: nothing relevant happens or senders are dropped) and two moves of the future of operation `id`
  (tag `some id` — `finish`: the operation leaves `ops`, `send`: the operation enqueues a message and waits on a
  fresh oneshot). `Moves A` is the reflexive transitive closure over moves whose tag satisfies `A`
  (`pollCtx_moves`, `pollOp_one`, `pollTask_moves`, `apply_decomp`, `step_decomp`). An invariant preserved by the
  five moves (and by the accepted `op` script event, `AddOp`) holds in every reachable world (`Moves.inv`).

  Invariants proved this way:
  * `OpsInv` — distinct operation ids, the oneshot an operation waits on is `2 * id` / `2 * id + 1` and exists;
  * `CountInv` — `DONE id` lines (+ 1 if `id` is still in the table) ≤ logged `op id` events;
  * `KInv U` / `NoUnr` / `Good U` — for scripts that do not reuse an id the context still works for (`Clean`, in
    particular pairwise distinct ids): the oneshots the context owns are pairwise distinct, belong to the
    operation that created them, carry that operation's kind, a filled oneshot holds an accepted well-formed
    packet, and no handle future has hit its `unreachable!()`.
  Also: who logs `DONE` (`Move.doneCount_other`, `Move.doneCount_own`, `pollOp_out_cases`) and how a oneshot gets
  filled with a packet (`Moves.filled`).
-/
import PosterModel.Lemmas.WorldReach
import PosterModel.Lemmas.ScriptIds
import PosterModel.Lemmas.CtxDecodeWf
import PosterModel.Properties.C05

set_option linter.unusedVariables false
set_option linter.unusedSimpArgs false

namespace Poster
open Framing
namespace World

/-! ## vocabulary -/

/-- the packet-identifier counter is in its range 1..=65535 -/
def PidOk (n : Nat) : Prop := 1 ≤ n ∧ n ≤ 65535

/-- an observation that is neither the completion of an operation nor a panic of a handle future -/
def Neutral (o : Obs) : Prop := (∀ id r, o ≠ .done id r) ∧ (∀ id c, o ≠ .panic (.op id) c)

theorem neutral_wire (bs : Bytes) : Neutral (.wire bs) ∧ Neutral (.wraw bs) :=
  ⟨⟨nofun, nofun⟩, ⟨nofun, nofun⟩⟩

theorem outExtP_neutral_of_outExt {a b : World} (h : OutExt a b) : OutExtP Neutral a b :=
  outExtP_of_outExt h neutral_wire

/-- how the oneshots change when the context acts: a oneshot changes only from empty to closed or to full,
    and a value `v` put into oneshot `s` satisfies `P s v` -/
def SlotRel (P : Nat → SlotVal → Prop) (w w' : World) : Prop :=
  ∀ s, w'.slot s = w.slot s ∨
    (w.slot s = some .empty ∧ (w'.slot s = some .closed ∨ ∃ v, w'.slot s = some (.full v) ∧ P s v))

theorem slotRel_of_eq {P : Nat → SlotVal → Prop} {w w' : World} (h : ∀ s, w'.slot s = w.slot s) : SlotRel P w w' :=
  fun s => Or.inl (h s)

theorem slotRel_refl (P : Nat → SlotVal → Prop) (w : World) : SlotRel P w w := fun _ => Or.inl rfl

theorem slotRel_mono {P Q : Nat → SlotVal → Prop} {w w' : World} (h : SlotRel P w w')
    (hpq : ∀ s v, P s v → Q s v) : SlotRel Q w w' := by
  intro s
  rcases h s with h | ⟨h1, h2 | ⟨v, h2, h3⟩⟩
  · exact Or.inl h
  · exact Or.inr ⟨h1, Or.inl h2⟩
  · exact Or.inr ⟨h1, Or.inr ⟨v, h2, hpq s v h3⟩⟩

theorem slotRel_trans {P : Nat → SlotVal → Prop} {a b c : World} (h1 : SlotRel P a b) (h2 : SlotRel P b c) :
    SlotRel P a c := by
  intro s
  rcases h2 s with e2 | ⟨e2, r2⟩
  · rcases h1 s with e1 | ⟨e1, r1⟩
    · exact Or.inl (e2.trans e1)
    · exact Or.inr ⟨e1, by rw [e2]; exact r1⟩
  · rcases h1 s with e1 | ⟨e1, r1 | ⟨v, r1, _⟩⟩
    · exact Or.inr ⟨by rw [← e1]; exact e2, r2⟩
    · rw [e2] at r1; cases r1
    · rw [e2] at r1; cases r1

/-- the oneshots the context owns: of the queued messages, then of `awaiting_ack` -/
def ctxSlots (w : World) : List Nat := w.queue.map Msg.slot ++ w.c.awaiting.map (·.2)

/-- the packet type of the acknowledgement a suspended future waits for (`none`: it waits for "written") -/
def Wait.code : Wait → Option Nat
  | .ff => none
  | .puback => some 4
  | .pubrec => some 5
  | .pubcomp => some 7
  | .suback => some 9
  | .unsuback => some 11
  | .pingresp => some 13

/-- the action identifier `aid` is the one of an acknowledgement of the kind `k` waits for -/
def AidOk (aid : Nat) (k : Wait) : Prop := ∃ c pid, Wait.code k = some c ∧ pid < 65536 ∧ aid = actionId c pid

/-- the message `m` is one a future waiting for `k` sends: fire-and-forget for `ff`, otherwise registered under
    an action identifier of the kind of `k` -/
def MsgOk (m : Msg) (k : Wait) : Prop :=
  match m.aid with
  | none => k = .ff
  | some aid => AidOk aid k

/-- **kind matching**: a well-formed acknowledgement addressed to an action identifier of the kind of `k` is a
    packet the future accepts -/
theorem accepts_of_aidOk {aid : Nat} {k : Wait} {p : RxPacket} (h : AidOk aid k) (hp : rxActionId p = some aid)
    (hwf : p.wf) : Wait.accepts k p = true := by
  obtain ⟨c, pid, hc, hpid, rfl⟩ := h
  cases k <;> cases hc <;>
    cases p <;> simp only [rxActionId, Option.some.injEq, RxPacket.wf] at hp hwf <;>
    first
    | rfl
    | (exfalso; unfold actionId at hp; omega)
    | cases hp

/-! ## the elementary moves -/

inductive Move : Option Nat → World → World → Prop
  /-- the context handles the first queued message `m`: it leaves the queue; its waiter may be registered;
      only its own oneshot can be completed, and never with a packet -/
  | cmsg {w w' : World} (m : Msg) (q : List Msg) (hq : w.queue = m :: q) (queue : w'.queue = q)
      (ops : w'.ops = w.ops) (pid : w'.pidCtr = w.pidCtr) (out : OutExtP Neutral w w')
      (aw : w'.c.awaiting = w.c.awaiting ∨ ∃ aid, m.aid = some aid ∧ w'.c.awaiting = w.c.awaiting ++ [(aid, m.slot)])
      (slots : SlotRel (fun s v => s = m.slot ∧ ∀ p, v ≠ .pkt p) w w') : Move none w w'
  /-- the context handles the well-formed acknowledgement `p`: the first waiter registered under its action
      identifier leaves `awaiting` and its oneshot receives `p` -/
  | cpkt {w w' : World} (p : RxPacket) (aid slot : Nat) (pre post : List (Nat × Nat)) (wf : p.wf)
      (haid : rxActionId p = some aid) (haw : w.c.awaiting = pre ++ (aid, slot) :: post)
      (hpre : aid ∉ pre.map (·.1))
      (aw : w'.c.awaiting = pre ++ post) (queue : w'.queue = w.queue)
      (ops : w'.ops = w.ops) (pid : w'.pidCtr = w.pidCtr) (out : OutExtP Neutral w w')
      (slots : SlotRel (fun s v => s = slot ∧ v = .pkt p) w w') : Move none w w'
  /-- nothing the context owns is gained: messages and waiters can only disappear, oneshots can only be closed -/
  | drop {w w' : World} (queue : w'.queue.Sublist w.queue) (aw : w'.c.awaiting.Sublist w.c.awaiting)
      (ops : w'.ops = w.ops) (pid : w'.pidCtr = w.pidCtr) (out : OutExtP Neutral w w')
      (slots : SlotRel (fun _ _ => False) w w') : Move none w w'
  /-- the operation `id` leaves `ops` (completed, failed, panicked or dropped); oneshots other than its own are
      untouched; at most one line is logged -/
  | finish {w w' : World} (id : Nat) (st : OpSt) (hst : w.opSt id = some st)
      (ops : w'.ops = eraseFirst id w.ops) (queue : w'.queue = w.queue) (aw : w'.c.awaiting = w.c.awaiting)
      (pid : PidOk w.pidCtr → PidOk w'.pidCtr)
      (slots : ∀ s', (∀ k0, st ≠ .wait s' k0) → w'.slot s' = w.slot s')
      (out : w'.out = w.out ∨ (∃ r, w'.out = w.out ++ [.done id r]) ∨
        (w'.out = w.out ++ [.panic (.op id) "unreachable"] ∧
          ∃ s k p, st = .wait s k ∧ w.slot s = some (.full (.pkt p)) ∧ Wait.accepts k p = false)) : Move (some id) w w'
  /-- the operation `id` enqueues the message `m` carrying the new, empty oneshot `s` and waits on it for `k`:
      either it is first polled (`s = 2 * id`), or it is a QoS 2 publish that received its PUBREC on `s0` and
      now sends the PUBREL (`s = s0 + 1`) -/
  | send {w w' : World} (id : Nat) (st : OpSt) (m : Msg) (s : Nat) (k : Wait) (hst : w.opSt id = some st)
      (shape : (∃ h r, st = .fresh h r ∧ s = 2 * id ∧ k ≠ .pubcomp) ∨
        (∃ s0, st = .wait s0 .pubrec ∧ s = s0 + 1 ∧ k = .pubcomp))
      (ops : w'.ops = setAssoc id (.wait s k) w.ops) (queue : w'.queue = w.queue ++ [m]) (mslot : m.slot = s)
      (aw : w'.c.awaiting = w.c.awaiting) (pid : PidOk w.pidCtr → PidOk w'.pidCtr)
      (slotNew : w'.slot s = some .empty)
      (slots : ∀ s', s' ≠ s → (∀ k0, st ≠ .wait s' k0) → w'.slot s' = w.slot s')
      (out : w'.out = w.out)
      (msgok : PidOk w.pidCtr →
        (∀ s0 k0 p, st = .wait s0 k0 → w.slot s0 = some (.full (.pkt p)) → p.wf) → MsgOk m k) : Move (some id) w w'

/-- nothing relevant changes (wakers, transport, channels, counters of the framing layer …) -/
theorem Move.quiet {w w' : World} (ops : w'.ops = w.ops) (slots : ∀ s, w'.slot s = w.slot s)
    (queue : w'.queue = w.queue) (aw : w'.c.awaiting = w.c.awaiting) (pid : w'.pidCtr = w.pidCtr)
    (out : OutExtP Neutral w w') : Move none w w' :=
  .drop (queue ▸ List.Sublist.refl _) (aw ▸ List.Sublist.refl _) ops pid out (slotRel_of_eq slots)

/-- the tags of moves allowed in a sequence: `none` = a move that is not a step of a handle future,
    `some id` = a `finish` / `send` move of operation `id` -/
abbrev AnyTag : Option Nat → Prop := fun _ => True
abbrev CtxTag : Option Nat → Prop := fun t => t = none
abbrev OpTag (id : Nat) : Option Nat → Prop := fun t => t = none ∨ t = some id
abbrev TaskTag : Task → Option Nat → Prop
  | .op id => OpTag id
  | _ => CtxTag

/-- zero or more moves whose tags satisfy `A` -/
inductive Moves (A : Option Nat → Prop) : World → World → Prop
  | refl (w : World) : Moves A w w
  | cons {t : Option Nat} {a b c : World} : A t → Move t a b → Moves A b c → Moves A a c

theorem Moves.step {A : Option Nat → Prop} {t : Option Nat} {a b c : World} (h : Move t a b) (h2 : Moves A b c)
    (ht : A t := by first | exact rfl | exact Or.inl rfl | exact Or.inr rfl | exact True.intro) : Moves A a c :=
  .cons ht h h2

theorem Moves.one {A : Option Nat → Prop} {t : Option Nat} {a b : World} (h : Move t a b)
    (ht : A t := by first | exact rfl | exact Or.inl rfl | exact Or.inr rfl | exact True.intro) : Moves A a b :=
  .cons ht h (.refl b)

theorem Moves.trans {A : Option Nat → Prop} {a b c : World} (h1 : Moves A a b) (h2 : Moves A b c) : Moves A a c := by
  induction h1 with
  | refl => exact h2
  | cons ht hm _ ih => exact .cons ht hm (ih h2)

theorem Moves.mono {A B : Option Nat → Prop} {a b : World} (h : Moves A a b) (hab : ∀ t, A t → B t) :
    Moves B a b := by
  induction h with
  | refl => exact .refl _
  | cons ht hm _ ih => exact .cons (hab _ ht) hm ih

theorem Moves.any {A : Option Nat → Prop} {a b : World} (h : Moves A a b) : Moves AnyTag a b :=
  h.mono fun _ _ => True.intro

/-- an invariant of the moves is an invariant of their closure -/
theorem Moves.inv {A : Option Nat → Prop} {I : World → Prop} (hI : ∀ t w w', I w → Move t w w' → I w')
    {a b : World} (h : Moves A a b) (ha : I a) : I b := by
  induction h with
  | refl => exact ha
  | cons _ hm _ ih => exact ih (hI _ _ _ ha hm)

/-! ## oneshots under the effects of a handler -/

theorem sendSlot_slot (w : World) (s s' : Nat) (v : SlotVal) :
    (w.sendSlot s v).slot s' = if s' = s ∧ w.slot s = some .empty then some (.full v) else w.slot s' := by
  by_cases he : w.slot s = some .empty
  · obtain ⟨wk, sr, e⟩ := User.sendSlot_shape w s v he
    rw [e]
    show lookupFirst s' (setAssoc s (.full v) w.slots) = _
    by_cases hs : s' = s
    · subst hs; simp [lookupFirst_setAssoc_self, he]
    · simp [lookupFirst_setAssoc_ne _ _ _ _ hs, hs, slot]
  · rw [User.sendSlot_noop w s v he]; simp [he]

theorem mem_sendsOf_cons (e : Eff) (t : List Eff) (s : Nat) (v : SlotVal) :
    (s, v) ∈ sendsOf (e :: t) ↔ e = .send s v ∨ (s, v) ∈ sendsOf t := by
  cases e <;> simp [sendsOf, List.filterMap_cons, eq_comm]

theorem applyEff_slotRel (w : World) (e : Eff) : SlotRel (fun s v => e = .send s v) w (w.applyEff e) := by
  intro s'
  cases e with
  | write bs => left; simp [applyEff]
  | send s v =>
    simp only [applyEff, sendSlot_slot]
    by_cases h : s' = s ∧ w.slot s = some .empty
    · obtain ⟨rfl, he⟩ := h
      right; exact ⟨he, Or.inr ⟨v, by simp [he], rfl⟩⟩
    · left; simp [h]
  | dropSlot s =>
    simp only [applyEff, dropSlotTx_slot]
    by_cases h : s' = s ∧ w.slot s' = some .empty
    · right; exact ⟨h.2, Or.inl (by rw [if_pos h])⟩
    · left; simp [h]
  | deliver c p => left; simp [applyEff]
  | dropChan c => left; simp [applyEff]

theorem applyEffs_slotRel (w : World) (es : List Eff) :
    SlotRel (fun s v => (s, v) ∈ sendsOf es) w (w.applyEffs es) := by
  unfold applyEffs
  induction es generalizing w with
  | nil => exact slotRel_refl _ _
  | cons e t ih =>
    simp only [List.foldl_cons]
    refine slotRel_trans (slotRel_mono (applyEff_slotRel w e) ?_) (slotRel_mono (ih _) ?_)
    · intro s v h; exact (mem_sendsOf_cons e t s v).2 (Or.inl h)
    · intro s v h; exact (mem_sendsOf_cons e t s v).2 (Or.inr h)

/-- what running a handler does to the fields the operations depend on -/
theorem runHandler_rel (w : World) (h : Bool → Ctx × List Eff × Flow) :
    ∃ b, (w.runHandler h).1.c = (h b).1 ∧ (w.runHandler h).2 = (h b).2.2 ∧
      SlotRel (fun s v => (s, v) ∈ sendsOf (h b).2.1) w (w.runHandler h).1 ∧
      (w.runHandler h).1.ops = w.ops ∧ (w.runHandler h).1.queue = w.queue ∧
      (w.runHandler h).1.pidCtr = w.pidCtr ∧ OutExtP Neutral w (w.runHandler h).1 := by
  refine ⟨w.canWrite (writeNeed (h true).2.1), ?_, ?_, ?_, by simp, by simp, by simp,
    outExtP_neutral_of_outExt (runHandler_outExt w h)⟩
  · rw [runHandler_eq]; simp
  · rw [runHandler_eq]
  · rw [runHandler_eq]
    exact applyEffs_slotRel ({ w with c := _ }) _

/-- **a queued message is handled** -/
theorem handleMsg_move (w : World) (m : Msg) (q : List Msg) (hq : w.queue = m :: q) :
    Move none w (({ w with queue := q }).runHandler (fun wok => w.c.handleMsg m wok)).1 := by
  obtain ⟨b, hc, _, hs, ho, hqu, hp, hout⟩ := runHandler_rel ({ w with queue := q }) (fun wok => w.c.handleMsg m wok)
  refine .cmsg m q hq hqu ho hp hout ?_ ?_
  · rw [hc]; exact handleMsg_awaiting_cases w.c m b
  · refine slotRel_mono hs ?_
    intro s v hm
    obtain ⟨h1, h2, _⟩ := msg_replies_only_to_its_own_slot w.c m b s v hm
    refine ⟨h1, ?_⟩
    intro p hp
    rcases h2 with h | h | h <;> rw [h] at hp <;> cases hp

/-- **an inbound packet is handled** -/
theorem handlePkt_move (w : World) (rx' : Rx) (rd' : List ReadEv) (p : RxPacket) (hwf : p.wf) :
    Move none w (({ w with rx := rx', reader := rd' }).runHandler (fun wok => w.c.handlePkt w.chanRxAlive p wok)).1 := by
  obtain ⟨b, hc, _, hs, ho, hqu, hp, hout⟩ :=
    runHandler_rel ({ w with rx := rx', reader := rd' }) (fun wok => w.c.handlePkt w.chanRxAlive p wok)
  rcases ack_completion_cases w.c w.chanRxAlive p b with ⟨h1, h2, _⟩ | ⟨aid, slot, rest, hid, hr, h1, h2⟩
  · refine .drop (by rw [hqu]; exact List.Sublist.refl _) (by rw [hc, h2]; exact List.Sublist.refl _) ho hp hout ?_
    refine slotRel_mono hs ?_
    intro s v hm
    simp only [h1] at hm
    cases hm
  · obtain ⟨pre, post, e1, e2, e3⟩ := (User.removeFirst_some_iff _ _ _ _).1 hr
    refine .cpkt p aid slot pre post hwf hid e1 e2 (by rw [hc, h2, e3]) hqu ho hp hout ?_
    refine slotRel_mono hs ?_
    intro s v hm
    simp only [h1, List.mem_singleton, Prod.mk.injEq] at hm
    exact hm

/-! ## the context task is a sequence of moves -/

theorem neutral_ret (call : Call) (r : RetRes) : Neutral (.ret call r) := ⟨nofun, nofun⟩
theorem neutral_panic_ctx (cls : String) : Neutral (.panic .ctx cls) := ⟨nofun, nofun⟩

theorem move_finish (w : World) (call : Call) (r : RetRes) : Move none w (w.finish call r) :=
  .quiet rfl (fun _ => rfl) rfl rfl rfl (outExtP_one _ rfl (neutral_ret call r))

theorem runCont_move {w w1 : World} (h : RunCont w w1) : Move none w w1 := by
  cases h with
  | msg m q w1 hq hr =>
    have e : w1 = (World.runHandler { w with queue := q } (fun wok => w.c.handleMsg m wok)).1 := by rw [hr]
    subst e; exact handleMsg_move w m q hq
  | pkt rx' rd' fr p w1 hq hs hp hd hr =>
    have e : w1 = (World.runHandler { w with rx := rx', reader := rd' }
        (fun wok => w.c.handlePkt w.chanRxAlive p wok)).1 := by rw [hr]
    subst e; exact handlePkt_move w rx' rd' p (decodeRx_wf_aux fr p hd)

theorem serve_moves {w wm : World} (h : Serve w wm) : Moves CtxTag w wm := by
  induction h with
  | refl w => exact .refl w
  | step hc _ ih => exact .step (runCont_move hc) ih

theorem runEnd_moves {w r : World} (h : RunEnd w r) : Moves CtxTag w r := by
  cases h with
  | msgExit m q w1 fl hq hr hne =>
    have e : w1 = (World.runHandler { w with queue := q } (fun wok => w.c.handleMsg m wok)).1 := by rw [hr]
    subst e
    exact .step (handleMsg_move w m q hq) (.one (move_finish _ _ _))
  | closed hq hs => exact .one (move_finish _ _ _)
  | pktExit rx' rd' fr p w1 fl hq hs hp hd hr hne =>
    have e : w1 = (World.runHandler { w with rx := rx', reader := rd' }
        (fun wok => w.c.handlePkt w.chanRxAlive p wok)).1 := by rw [hr]
    subst e
    exact .step (handlePkt_move w rx' rd' p (decodeRx_wf_aux fr p hd)) (.one (move_finish _ _ _))
  | codec rx' rd' fr hq hs hp hd =>
    exact .one (.quiet rfl (fun _ => rfl) rfl rfl rfl (outExtP_one _ rfl (neutral_ret _ _)))
  | panic rx' rd' fr hq hs hp hd =>
    exact .one (.quiet rfl (fun _ => rfl) rfl rfl rfl (outExtP_one _ rfl (neutral_panic_ctx _)))
  | sock rx' rd' hq hs hp =>
    exact .one (.quiet rfl (fun _ => rfl) rfl rfl rfl (outExtP_one _ rfl (neutral_ret _ _)))
  | pending rx' rd' hq hs hp =>
    by_cases hrd : rd' = []
    · rw [if_pos hrd]
      exact .one (.quiet rfl (fun _ => rfl) rfl rfl rfl (outExtP_of_eq rfl))
    · rw [if_neg hrd]
      exact .one (.quiet (by simp) (fun _ => by simp [slot]) (by simp) (by simp) (by simp) (outExtP_of_eq (by simp)))

theorem runLoop_moves (f : Nat) (w : World) : Moves CtxTag w (runLoop f w) := by
  obtain ⟨wm, hs, he⟩ := runLoop_decomp f w
  rcases he with he | he
  · rw [he]; exact serve_moves hs
  · exact (serve_moves hs).trans (runEnd_moves he)

theorem resume_facts (c : Ctx) :
    (c.resume).1.awaiting.Sublist c.awaiting ∧ sendsOf (c.resume).2.1 = [] := by
  unfold Ctx.resume
  cases c.disc with
  | none => exact ⟨List.Sublist.refl _, rfl⟩
  | some el =>
    simp only
    by_cases h : c.sessionExpired el = true
    · simp only [h, ↓reduceIte, Ctx.resetSession]
      refine ⟨List.nil_sublist _, ?_⟩
      unfold sendsOf
      rw [List.filterMap_eq_nil_iff]
      intro e he
      simp only [List.mem_append, List.mem_map] at he
      rcases he with ⟨x, _, rfl⟩ | ⟨x, _, rfl⟩ <;> rfl
    · simp only [h, Bool.false_eq_true, ↓reduceIte]
      exact ⟨List.Sublist.refl _, rfl⟩

theorem writeBytes_move (w : World) (bs : Bytes) : Move none w (w.writeBytes bs) :=
  .quiet (by simp) (fun _ => by simp) (by simp) (by simp) (by simp)
    (outExtP_neutral_of_outExt (writeBytes_outExt w bs))

theorem foldl_writeBytes_pidCtr (pkts : List Bytes) (w : World) :
    (pkts.foldl (fun w p => w.writeBytes p) w).pidCtr = w.pidCtr := by
  induction pkts generalizing w with
  | nil => rfl
  | cons p t ih => simp only [List.foldl_cons, ih]; simp

theorem pollRun_moves (w : World) (started : Bool) : Moves CtxTag w (w.pollRun started) := by
  cases started with
  | true => simp only [pollRun, ↓reduceIte]; exact runLoop_moves _ w
  | false =>
    simp only [pollRun, Bool.false_eq_true, ↓reduceIte]
    obtain ⟨hsub, hsend⟩ := resume_facts w.c
    have h1 : Move none w (({ w with c := (w.c.resume).1, task := .running true } : World).applyEffs (w.c.resume).2.1) := by
      refine .drop (by simp) (by simpa using hsub) (by simp) (by simp)
        (outExtP_neutral_of_outExt (outExt_trans (outExt_of_eq rfl) (applyEffs_outExt _ _))) ?_
      have := applyEffs_slotRel ({ w with c := (w.c.resume).1, task := .running true } : World) (w.c.resume).2.1
      refine slotRel_mono this ?_
      intro s v hm
      rw [hsend] at hm; cases hm
    refine .step h1 ?_
    split
    · obtain ⟨_, _, a3, _, a5, _, a7, _, _, _, a11, _, _, _, a15⟩ := foldl_writeBytes_frame (w.c.resume).2.2
        (({ w with c := (w.c.resume).1, task := .running true } : World).applyEffs (w.c.resume).2.1)
      refine .step (.quiet a5 (fun s => by simp only [slot, a11]) a3 (by rw [a7]) ?_
        (outExtP_neutral_of_outExt a15)) (runLoop_moves _ _)
      · exact foldl_writeBytes_pidCtr _ _
    · exact .step (writeBytes_move _ _) (.one (move_finish _ _ _))

theorem handleConnack_awaiting (c : Ctx) (k : ConnackRx) : (c.handleConnack k).awaiting = c.awaiting := by
  unfold Ctx.handleConnack
  cases k.sessionExpiry <;> cases k.maxPacketSize <;> rfl

theorem firstEnd_move {w : World} {call : Call} {t : ConnectTx} {a : AuthTx} {r : World}
    (h : FirstEnd w call t a r) : Move none w r := by
  cases h with
  | connack rx' rd' fr k hp hd hk hs =>
    exact .quiet rfl (fun _ => rfl) rfl (handleConnack_awaiting _ _) rfl (outExtP_one _ rfl (neutral_ret _ _))
  | refused rx' rd' fr k hp hd hk =>
    exact .quiet rfl (fun _ => rfl) rfl (handleConnack_awaiting _ _) rfl (outExtP_one _ rfl (neutral_ret _ _))
  | assertSubId rx' rd' fr k hp hd hk hs =>
    exact .quiet rfl (fun _ => rfl) rfl (handleConnack_awaiting _ _) rfl (outExtP_one _ rfl (neutral_panic_ctx _))
  | auth rx' rd' fr au hp hd => exact .quiet rfl (fun _ => rfl) rfl rfl rfl (outExtP_one _ rfl (neutral_ret _ _))
  | unexpected rx' rd' fr p hp hd h1 h2 =>
    exact .quiet rfl (fun _ => rfl) rfl rfl rfl (outExtP_one _ rfl (neutral_ret _ _))
  | codec rx' rd' fr hp hd => exact .quiet rfl (fun _ => rfl) rfl rfl rfl (outExtP_one _ rfl (neutral_ret _ _))
  | panic rx' rd' fr hp hd => exact .quiet rfl (fun _ => rfl) rfl rfl rfl (outExtP_one _ rfl (neutral_panic_ctx _))
  | sock rx' rd' hp => exact .quiet rfl (fun _ => rfl) rfl rfl rfl (outExtP_one _ rfl (neutral_ret _ _))
  | pending rx' rd' hp =>
    by_cases hrd : rd' = []
    · rw [if_pos hrd]; exact .quiet rfl (fun _ => rfl) rfl rfl rfl (outExtP_of_eq rfl)
    · rw [if_neg hrd]
      exact .quiet (by simp) (fun _ => by simp [slot]) (by simp) (by simp) (by simp) (outExtP_of_eq (by simp))

theorem pollConnect_moves (w : World) (call : Call) (t : ConnectTx) (a : AuthTx) (started : Bool) :
    Moves CtxTag w (w.pollConnect call t a started) := by
  cases started with
  | true => simp only [pollConnect, ↓reduceIte]; exact .one (firstEnd_move (awaitFirst_spec w call t a))
  | false =>
    have key : ∀ (w0 : World) (pkt : Bytes) (v : Bool), Move none w w0 →
        Moves CtxTag w (if !v then w.finish call (.err .codecError) else
          if w0.canWrite pkt.length then (w0.writeBytes pkt).awaitFirst call t a
          else (w0.writeBytes pkt).finish call (.err .socketClosed)) := by
      intro w0 pkt v h0
      cases v with
      | false => exact .one (move_finish _ _ _)
      | true =>
        simp only [Bool.not_true, Bool.false_eq_true, ↓reduceIte]
        split
        · exact .step h0 (.step (writeBytes_move _ _) (.one (firstEnd_move (awaitFirst_spec _ call t a))))
        · exact .step h0 (.step (writeBytes_move _ _) (.one (move_finish _ _ _)))
    have hq : ∀ w0 : World, w0 = w → Move none w w0 := fun w0 e =>
      e ▸ .quiet rfl (fun _ => rfl) rfl rfl rfl (outExtP_of_eq rfl)
    cases call with
    | connect =>
      simp only [pollConnect, Bool.false_eq_true, ↓reduceIte]
      exact key _ _ _ (.quiet rfl (fun _ => rfl) rfl rfl rfl (outExtP_of_eq rfl))
    | authorize =>
      simp only [pollConnect, Bool.false_eq_true, ↓reduceIte]
      exact key _ _ _ (hq w rfl)
    | run =>
      simp only [pollConnect, Bool.false_eq_true, ↓reduceIte]
      exact key _ _ _ (hq w rfl)

theorem pollCtx_moves (w : World) : Moves CtxTag w w.pollCtx := by
  unfold pollCtx
  split
  · exact .refl w
  · exact pollConnect_moves w _ _ _ _
  · exact pollRun_moves w _

/-! ## a poll of a handle future is one move -/

theorem allocPid_pidOk (w : World) (h : PidOk w.pidCtr) : PidOk (w.allocPid.2).pidCtr := by
  unfold PidOk at *
  simp only [allocPid]
  split <;> omega

theorem clearSlot_slot_ne (w : World) (s s' : Nat) (h : s' ≠ s) : (w.clearSlot s).slot s' = w.slot s' := by
  show lookupFirst s' (eraseFirst s w.slots) = _
  exact lookupFirst_eraseFirst_ne _ _ _ h

/-- the operation ends with a `DONE` line, from an intermediate world `w` that differs from `w0` only in
    irrelevant fields and in the operation's own oneshot -/
theorem finishOp_move (w0 w : World) (id : Nat) (st : OpSt) (r : DoneRes) (hst : w0.opSt id = some st)
    (hops : w.ops = w0.ops) (hq : w.queue = w0.queue) (haw : w.c.awaiting = w0.c.awaiting)
    (hpid : PidOk w0.pidCtr → PidOk w.pidCtr)
    (hslots : ∀ s', (∀ k0, st ≠ .wait s' k0) → w.slot s' = w0.slot s') (hout : w.out = w0.out) :
    Move (some id) w0 (w.finishOp id r) :=
  .finish id st hst (by simp [hops]) (by simp [hq]) (by simp [haw]) (by simpa using hpid)
    (fun s' h => by simpa using hslots s' h) (Or.inr (Or.inl ⟨r, by simp [hout]⟩))

/-- the common tail of a handle method: enqueue the message and wait, or fail because the context is gone -/
theorem sendAwait_move (w0 w : World) (id : Nat) (st : OpSt) (m : Msg) (s : Nat) (k : Wait)
    (hst : w0.opSt id = some st)
    (shape : (∃ h r, st = .fresh h r ∧ s = 2 * id ∧ k ≠ .pubcomp) ∨
      (∃ s0, st = .wait s0 .pubrec ∧ s = s0 + 1 ∧ k = .pubcomp))
    (hops : w.ops = w0.ops) (hq : w.queue = w0.queue) (haw : w.c.awaiting = w0.c.awaiting)
    (hpid : PidOk w0.pidCtr → PidOk w.pidCtr)
    (hslots : ∀ s', (∀ k0, st ≠ .wait s' k0) → w.slot s' = w0.slot s') (hout : w.out = w0.out)
    (hm : m.slot = s)
    (msgok : PidOk w0.pidCtr →
      (∀ s0 k0 p, st = .wait s0 k0 → w0.slot s0 = some (.full (.pkt p)) → p.wf) → MsgOk m k) :
    Move (some id) w0 (w.sendAwait m id s k) := by
  by_cases hc : w.hasCtx = true
  · obtain ⟨wk, qr, e⟩ := User.sendAwait_ctx w m id s k hc
    rw [e]
    refine .send id st m s k hst shape (by simp [hops]) (by simp [hq]) hm (by simp [haw]) (by simpa using hpid)
      ?_ ?_ (by simp [hout]) msgok
    · show lookupFirst s (setAssoc s Slot.empty w.slots) = _
      exact lookupFirst_setAssoc_self _ _ _
    · intro s' h1 h2
      show lookupFirst s' (setAssoc s Slot.empty w.slots) = _
      rw [lookupFirst_setAssoc_ne _ _ _ _ h1]
      exact hslots s' h2
  · rw [User.sendAwait_no_ctx w m id s k (by simpa using hc)]
    exact finishOp_move w0 w id st _ hst hops hq haw hpid hslots hout

theorem msgOk_ff (pkt : Bytes) (s : Nat) : MsgOk (.ff pkt s) .ff := rfl

theorem msgOk_awaitAck (c pid : Nat) (pkt : Bytes) (s : Nat) (k : Wait) (hk : Wait.code k = some c)
    (hpid : pid < 65536) : MsgOk (.awaitAck (actionId c pid) pkt s) k := ⟨c, pid, hk, hpid, rfl⟩

/-- **first poll of a handle future** -/
theorem startOp_move (w : World) (id h : Nat) (req : Req) (hst : w.opSt id = some (.fresh h req)) :
    Move (some id) w (w.startOp id req) := by
  have hsl : ∀ (w1 : World), (∀ s', w1.slot s' = w.slot s') →
      ∀ s', (∀ k0, OpSt.fresh h req ≠ .wait s' k0) → w1.slot s' = w.slot s' := fun w1 h1 s' _ => h1 s'
  cases req with
  | publish t =>
    by_cases hq : t.qos = 0
    · rw [User.startOp_publish0 w id t hq]
      split
      · exact finishOp_move w w id _ _ hst rfl rfl rfl (fun hp => hp) (hsl w fun _ => rfl) rfl
      · exact sendAwait_move w w id _ _ _ _ hst (Or.inl ⟨h, _, rfl, rfl, nofun⟩) rfl rfl rfl (fun hp => hp)
          (hsl w fun _ => rfl) rfl rfl (fun _ _ => msgOk_ff _ _)
    · rw [User.startOp_publish12 w id t hq]
      split
      · exact finishOp_move w _ id _ _ hst rfl rfl rfl (allocPid_pidOk w) (hsl _ fun _ => rfl) rfl
      · refine sendAwait_move w _ id _ _ _ _ hst (Or.inl ⟨h, _, rfl, rfl, ?_⟩) rfl rfl rfl (allocPid_pidOk w)
          (hsl _ fun _ => rfl) rfl rfl (fun hp _ => ?_)
        · split <;> nofun
        · by_cases h1 : t.qos = 1
          · simp only [h1, ↓reduceIte]; exact msgOk_awaitAck 4 _ _ _ _ rfl (by unfold PidOk at hp; omega)
          · simp only [h1, ↓reduceIte]; exact msgOk_awaitAck 5 _ _ _ _ rfl (by unfold PidOk at hp; omega)
  | subscribe t =>
    rw [User.startOp_subscribe]
    simp only
    generalize hw1 : (w.allocPid.2).allocSub.2 = w1
    have f1 : w1.ops = w.ops ∧ w1.queue = w.queue ∧ w1.c = w.c ∧ w1.slots = w.slots ∧ w1.out = w.out ∧
        (PidOk w.pidCtr → PidOk w1.pidCtr) := by
      subst hw1; exact ⟨rfl, rfl, rfl, rfl, rfl, fun hp => allocPid_pidOk w hp⟩
    obtain ⟨f1a, f1b, f1c, f1d, f1e, f1f⟩ := f1
    split
    · exact finishOp_move w w1 id _ _ hst f1a f1b (by rw [f1c]) f1f (hsl _ fun _ => by simp only [slot, f1d]) f1e
    · generalize hw2 : w1.setChan id {} = w2
      have f2 : w2.ops = w.ops ∧ w2.queue = w.queue ∧ w2.c = w.c ∧ w2.slots = w.slots ∧ w2.out = w.out ∧
          (PidOk w.pidCtr → PidOk w2.pidCtr) := by
        subst hw2; exact ⟨f1a, f1b, f1c, f1d, f1e, f1f⟩
      obtain ⟨f2a, f2b, f2c, f2d, f2e, f2f⟩ := f2
      cases hm : World.sendMsg _ _ with
      | none =>
        exact finishOp_move w (w2.dropChanRx id) id _ _ hst f2a f2b (by simp only [dropChanRx_c, f2c]) f2f
          (hsl _ fun _ => by rw [dropChanRx_slot]; simp only [slot, f2d]) f2e
      | some w3 =>
        simp only
        have e : w2.sendAwait
            (.subscribe (actionId 9 w.pidCtr) w.subCtr
              ({ t with packetId := w.pidCtr, subId := some w.subCtr } : SubscribeTx).encode (2 * id) id)
            id (2 * id) .suback = w3.awaitSlot id (2 * id) .suback := by
          simp only [sendAwait, hm]
        rw [← e]
        exact sendAwait_move w w2 id _ _ _ _ hst (Or.inl ⟨h, _, rfl, rfl, nofun⟩) f2a f2b (by rw [f2c]) f2f
          (hsl _ fun _ => by simp only [slot, f2d]) f2e rfl
          (fun hp _ => ⟨9, w.pidCtr, rfl, by unfold PidOk at hp; omega, rfl⟩)
  | unsubscribe t =>
    rw [User.startOp_unsubscribe]
    split
    · exact finishOp_move w _ id _ _ hst rfl rfl rfl (allocPid_pidOk w) (hsl _ fun _ => rfl) rfl
    · exact sendAwait_move w _ id _ _ _ _ hst (Or.inl ⟨h, _, rfl, rfl, nofun⟩) rfl rfl rfl (allocPid_pidOk w)
        (hsl _ fun _ => rfl) rfl rfl
        (fun hp _ => msgOk_awaitAck 11 _ _ _ _ rfl (by unfold PidOk at hp; omega))
  | ping =>
    rw [User.startOp_ping]
    exact sendAwait_move w w id _ _ _ _ hst (Or.inl ⟨h, _, rfl, rfl, nofun⟩) rfl rfl rfl (fun hp => hp)
      (hsl w fun _ => rfl) rfl rfl (fun _ _ => msgOk_awaitAck 13 0 _ _ _ rfl (by omega))
  | disconnect t =>
    rw [User.startOp_disconnect]
    exact sendAwait_move w w id _ _ _ _ hst (Or.inl ⟨h, _, rfl, rfl, nofun⟩) rfl rfl rfl (fun hp => hp)
      (hsl w fun _ => rfl) rfl rfl (fun _ _ => msgOk_ff _ _)

theorem resumeOp_mismatch (w : World) (id s : Nat) (k : Wait) (p : RxPacket) (h : Wait.accepts k p = false) :
    w.resumeOp id s k (.pkt p) =
      (({ (w.clearSlot s) with ops := eraseFirst id (w.clearSlot s).ops }).emit
        (.panic (.op id) "unreachable")).senderGone := by
  cases k <;> cases p <;> simp [Wait.accepts] at h <;> rfl

/-- **a handle future resumed with the value of its oneshot** -/
theorem resumeOp_move (w : World) (id s : Nat) (k : Wait) (v : SlotVal) (hst : w.opSt id = some (.wait s k))
    (hs : w.slot s = some (.full v)) : Move (some id) w (w.resumeOp id s k v) := by
  have hsl : ∀ (w1 : World), (∀ s', s' ≠ s → w1.slot s' = w.slot s') →
      ∀ s', (∀ k0, OpSt.wait s k ≠ .wait s' k0) → w1.slot s' = w.slot s' := by
    intro w1 h1 s' h2
    refine h1 s' ?_
    intro e; subst e; exact h2 k rfl
  have hcl : ∀ s', s' ≠ s → (w.clearSlot s).slot s' = w.slot s' := fun s' h => clearSlot_slot_ne w s s' h
  have fin : ∀ r, Move (some id) w ((w.clearSlot s).finishOp id r) := fun r =>
    finishOp_move w _ id _ r hst rfl rfl rfl (fun hp => hp) (hsl _ hcl) rfl
  cases v with
  | errSize => exact fin _
  | errQuota => exact fin _
  | unit => simp only [resumeOp]; split <;> exact fin _
  | pkt p =>
    cases ha : Wait.accepts k p with
    | false =>
      rw [resumeOp_mismatch w id s k p ha]
      refine .finish id _ hst (by simp) (by simp) (by simp) (by simp) ?_
        (Or.inr (Or.inr ⟨by simp, s, k, p, rfl, hs, ha⟩))
      intro s' h2
      rw [senderGone_slot, emit_slot]
      exact hsl _ hcl s' h2
    | true =>
      cases k <;> cases p <;> simp [Wait.accepts] at ha <;> simp only [resumeOp]
      · split <;> exact fin _
      · rename_i a
        split
        · exact fin _
        · exact sendAwait_move w (w.clearSlot s) id _ _ _ _ hst (Or.inr ⟨s, rfl, rfl, rfl⟩) rfl rfl rfl (fun hp => hp)
            (hsl _ hcl) rfl rfl (fun _ hwf => by
              have := hwf s .pubrec (.pubrec a) rfl hs
              exact msgOk_awaitAck 7 _ _ _ _ rfl this.2)
      · split <;> exact fin _
      · exact finishOp_move w _ id _ _ hst rfl rfl rfl (fun hp => hp) (hsl _ hcl) rfl
      · exact fin _
      · exact fin _

/-- **one poll of a handle future** is at most one move -/
theorem pollOp_one (w : World) (id : Nat) :
    w.pollOp id = w ∨ Move none w (w.pollOp id) ∨ Move (some id) w (w.pollOp id) := by
  unfold pollOp
  cases hop : w.opSt id with
  | none => exact Or.inl rfl
  | some st =>
    cases st with
    | fresh h req => exact Or.inr (Or.inr (startOp_move w id h req hop))
    | wait s k =>
      simp only
      cases hs : w.slot s with
      | none => exact Or.inr (Or.inl (.quiet rfl (fun _ => rfl) rfl rfl rfl (outExtP_of_eq rfl)))
      | some sl =>
        cases sl with
        | empty => exact Or.inr (Or.inl (.quiet rfl (fun _ => rfl) rfl rfl rfl (outExtP_of_eq rfl)))
        | full v => exact Or.inr (Or.inr (resumeOp_move w id s k v hop hs))
        | closed =>
          refine Or.inr (Or.inr (finishOp_move w _ id _ _ hop rfl rfl rfl (fun hp => hp) ?_ rfl))
          intro s' h2
          refine clearSlot_slot_ne w s s' ?_
          intro e; subst e; exact h2 k rfl

theorem pollOp_moves (w : World) (id : Nat) : Moves (OpTag id) w (w.pollOp id) := by
  rcases pollOp_one w id with h | h | h
  · rw [h]; exact .refl w
  · exact .one h
  · exact .one h

/-- **a handle future is dropped** -/
theorem dropOp_moves (w : World) (id : Nat) : Moves (OpTag id) w (w.dropOp id) := by
  unfold dropOp
  cases hop : w.opSt id with
  | none => exact .refl w
  | some st =>
    cases st with
    | fresh h req =>
      exact .one (.finish id _ hop (by simp) (by simp) (by simp) (by simp) (fun s' _ => by simp [slot]) (Or.inl (by simp)))
    | wait s k =>
      simp only
      refine .one (.finish id _ hop ?_ ?_ ?_ ?_ ?_ (Or.inl ?_))
      · cases k <;> simp [clearSlot, dropChanRx]
      · cases k <;> simp [clearSlot, dropChanRx]
      · cases k <;> simp [clearSlot, dropChanRx]
      · cases k <;> simp [clearSlot, dropChanRx]
      · intro s' h2
        have hne : s' ≠ s := by intro e; subst e; exact h2 k rfl
        have := clearSlot_slot_ne w s s' hne
        cases k <;> simpa [slot, dropChanRx] using this
      · cases k <;> simp [clearSlot, dropChanRx]

theorem neutral_item (id : Nat) (p : PublishRx) : Neutral (.item id p) := ⟨nofun, nofun⟩
theorem neutral_endStream (id : Nat) : Neutral (.endStream id) := ⟨nofun, nofun⟩

theorem pollStream_moves (w : World) (id : Nat) : Moves CtxTag w (w.pollStream id) := by
  unfold pollStream
  split
  · exact .refl w
  · split
    · exact .refl w
    · split
      · rename_i p rest _
        exact .one (.quiet (by simp) (fun _ => by simp) (by simp) (by simp) (by simp)
          (outExtP_one (.item id p) (by simp) (neutral_item _ _)))
      · split
        · exact .one (.quiet (by simp) (fun _ => by simp) (by simp) (by simp) (by simp) (outExtP_of_eq (by simp)))
        · exact .one (.quiet (by simp [dropChanRx]) (fun _ => by simp [slot, dropChanRx]) (by simp [dropChanRx])
            (by simp [dropChanRx]) (by simp [dropChanRx])
            (outExtP_one (.endStream id) (by simp [dropChanRx]) (neutral_endStream _)))

/-- **one poll of any task** -/
theorem pollTask_moves (w : World) (t : Task) : Moves (TaskTag t) w (w.pollTask t) := by
  have h0 : Move none w (w.unwake t) := .quiet (by simp) (fun _ => by simp) (by simp) (by simp) (by simp)
    (outExtP_of_eq (by simp))
  cases t with
  | ctx => exact .step h0 (pollCtx_moves _)
  | op id => exact .step h0 (pollOp_moves _ id)
  | st id => exact .step h0 (pollStream_moves _ id)

/-! ## script events, the executor, whole steps -/

/-- the script event `op id h req` accepted: a fresh future appears in `ops`; nothing else relevant changes -/
structure AddOp (id h : Nat) (req : Req) (w w' : World) : Prop where
  fresh : w.opSt id = none
  ops : w'.ops = w.ops ++ [(id, .fresh h req)]
  slots : ∀ s, w'.slot s = w.slot s
  queue : w'.queue = w.queue
  aw : w'.c.awaiting = w.c.awaiting
  pid : w'.pidCtr = w.pidCtr
  out : w'.out = w.out

theorem neutral_badscript : Neutral .badscript := ⟨nofun, nofun⟩
theorem neutral_ev (e : Ev) : Neutral (.ev e) := ⟨nofun, nofun⟩

theorem badScript_move (w : World) : Move none w w.badScript :=
  .quiet rfl (fun _ => rfl) rfl rfl rfl (outExtP_one .badscript rfl neutral_badscript)

theorem flushRaw_move (w : World) : Move none w w.flushRaw := by
  unfold flushRaw
  split
  · exact .quiet rfl (fun _ => rfl) rfl rfl rfl (outExtP_of_eq rfl)
  · exact .quiet rfl (fun _ => rfl) rfl rfl rfl (outExtP_one (.wraw w.wirePend) rfl (neutral_wire _).2)

theorem feedEvents_move (w : World) (evs : List ReadEv) : Move none w (w.feedEvents evs) := by
  unfold feedEvents
  simp only
  split
  · exact .quiet (by simp) (fun _ => by simp [slot]) (by simp) (by simp) (by simp) (outExtP_of_eq (by simp))
  · exact .quiet rfl (fun _ => rfl) rfl rfl rfl (outExtP_of_eq rfl)

theorem senderGone_move (w : World) : Move none w w.senderGone :=
  .quiet (by simp) (fun _ => by simp) (by simp) (by simp) (by simp) (outExtP_of_eq (by simp))

theorem dropCtx_move (w : World) : Move none w (w.apply .dropCtx) := by
  cases hc : w.hasCtx with
  | false =>
    simp only [apply, hc, Bool.not_false, ↓reduceIte]
    exact .quiet rfl (fun _ => rfl) rfl rfl rfl (outExtP_of_eq rfl)
  | true =>
    rw [apply_dropCtx w hc]
    have inv := closes_inv (closes_dropCtxClosed w)
    refine .drop (List.nil_sublist _) (List.nil_sublist _) inv.ops_eq inv.pidCtr_eq (outExtP_of_eq inv.out_eq) ?_
    intro s
    show (dropCtxClosed w).slot s = _ ∨ _
    have e0 : (dropCtxStart w).slot s = w.slot s := rfl
    cases hv : w.slot s with
    | none => left; exact inv.slotNone s (e0.trans hv)
    | some sl =>
      cases sl with
      | empty =>
        rcases inv.slotEmpty s (e0.trans hv) with h | h
        · left; exact h
        · right; exact ⟨rfl, Or.inl h⟩
      | full v => left; exact inv.slotFull s v (e0.trans hv)
      | closed => left; exact inv.slotClosed s (e0.trans hv)

/-- the handle future a script event can advance: the polled one, or the dropped one -/
abbrev EvTag : Ev → Option Nat → Prop
  | .poll t => TaskTag t
  | .drop (.op id) => OpTag id
  | _ => CtxTag

/-- every script event other than an accepted `op` is a sequence of moves -/
theorem apply_decomp (w : World) (e : Ev) :
    (∃ id h req, e = .op id h req ∧ AddOp id h req w (w.apply e)) ∨ Moves (EvTag e) w (w.apply e) := by
  have q : ∀ (w' : World), w'.ops = w.ops → (∀ s, w'.slot s = w.slot s) →
      w'.queue = w.queue →
      w'.c.awaiting = w.c.awaiting → w'.pidCtr = w.pidCtr → w'.out = w.out → Moves CtxTag w w' :=
    fun w' a b c d e f => .one (.quiet a b c d e (outExtP_of_eq f))
  cases e with
  | setup =>
    right
    simp only [apply]
    split
    · exact .one (badScript_move w)
    · split
      · split
        · exact .one (badScript_move w)
        · exact .one (.drop (List.Sublist.refl _) (List.nil_sublist _) rfl rfl (outExtP_of_eq rfl)
            (slotRel_of_eq fun _ => rfl))
      · exact .step (flushRaw_move w) (.one (.quiet rfl (fun _ => rfl) rfl rfl rfl (outExtP_of_eq rfl)))
  | connect t =>
    right; simp only [apply]; split
    · exact .one (badScript_move w)
    · exact q _ (by simp) (fun _ => by simp [slot]) (by simp) (by simp) (by simp) (by simp)
  | authorize a =>
    right; simp only [apply]; split
    · exact .one (badScript_move w)
    · exact q _ (by simp) (fun _ => by simp [slot]) (by simp) (by simp) (by simp) (by simp)
  | run =>
    right; simp only [apply]; split
    · exact .one (badScript_move w)
    · exact q _ (by simp) (fun _ => by simp [slot]) (by simp) (by simp) (by simp) (by simp)
  | dropFut => right; exact q _ rfl (fun _ => rfl) rfl rfl rfl rfl
  | dropCtx => right; exact .one (dropCtx_move w)
  | markDisc secs =>
    right; simp only [apply]; split
    · exact .one (badScript_move w)
    · exact q _ rfl (fun _ => rfl) rfl rfl rfl rfl
  | snap =>
    right; simp only [apply]; split
    · exact .one (badScript_move w)
    · exact .one (.quiet rfl (fun _ => rfl) rfl rfl rfl (outExtP_one (.state w.c) rfl ⟨nofun, nofun⟩))
  | feed chunks =>
    right; simp only [apply]; split
    · exact .one (badScript_move w)
    · exact .one (feedEvents_move w _)
  | feedEof =>
    right; simp only [apply]; split
    · exact .one (badScript_move w)
    · exact .one (feedEvents_move w _)
  | feedErr =>
    right; simp only [apply]; split
    · exact .one (badScript_move w)
    · exact .one (feedEvents_move w _)
  | op id h req =>
    simp only [apply]
    split
    · right; exact .one (badScript_move w)
    · rename_i hc
      left
      refine ⟨id, h, req, rfl, ?_, by simp, fun _ => by simp [slot], by simp, by simp, by simp, by simp⟩
      cases ho : w.opSt id with
      | none => rfl
      | some st => exact absurd (Or.inr (by simp [ho])) hc
  | poll t =>
    right; simp only [apply]; split
    · exact pollTask_moves w t
    · exact .refl w
  | hold t =>
    right; simp only [apply]; split
    · exact .refl w
    · exact q _ rfl (fun _ => rfl) rfl rfl rfl rfl
  | release t => right; exact q _ rfl (fun _ => rfl) rfl rfl rfl rfl
  | drop t =>
    right
    cases t with
    | ctx => exact .refl w
    | op id => exact dropOp_moves w id
    | st id =>
      simp only [apply]; split
      · exact q _ rfl (fun _ => rfl) rfl rfl rfl rfl
      · exact .refl w
  | dropRsp id =>
    right; simp only [apply]; split
    · exact q _ rfl (fun _ => rfl) rfl rfl rfl rfl
    · exact .refl w
  | stream id =>
    right; simp only [apply]; split
    · exact .one (badScript_move w)
    · exact q _ (by simp) (fun _ => by simp [slot]) (by simp) (by simp) (by simp) (by simp)
  | clone h h2 =>
    right; simp only [apply]; split
    · exact .one (badScript_move w)
    · exact q _ rfl (fun _ => rfl) rfl rfl rfl rfl
  | dropHandle h =>
    right; simp only [apply]; split
    · exact .one (badScript_move w)
    · exact (q { w with handles := w.handles.filter (· ≠ h) } rfl (fun _ => rfl) rfl rfl rfl rfl).trans
        (.one (senderGone_move _))

theorem drain_moves (f : Nat) (w : World) : Moves AnyTag w (drain f w) := by
  induction f generalizing w with
  | zero => exact .refl w
  | succ f ih =>
    simp only [drain]
    split
    · exact .refl w
    · rename_i t _
      exact (pollTask_moves w t).any.trans (ih _)

theorem sweep_moves (w : World) : Moves AnyTag w w.sweep := by
  unfold sweep
  simp only
  generalize ([Task.ctx] ++ List.map Task.op (sortNat (List.map (fun x => x.1) w.ops)) ++
    List.map Task.st (sortNat w.streams)) = tasks
  suffices h : ∀ (l : List Task) (w0 : World),
      Moves AnyTag w0 (l.foldl (fun w t => if w.taskLive t ∧ t ∉ w.woken ∧ t ∉ w.held then w.pollTask t else w) w0) from
    h tasks w
  intro l
  induction l with
  | nil => intro w0; exact .refl w0
  | cons t rest ih =>
    intro w0
    simp only [List.foldl_cons]
    split
    · exact (pollTask_moves w0 t).any.trans (ih _)
    · exact ih _

/-- what follows the script event inside `step`: drain, (sweep, drain), stall check -/
theorem step_tail_moves (w1 : World) :
    Moves AnyTag w1 (let w := drain w1.drainFuel w1
      let w := if w.cfg.sweep then (let w := w.sweep; drain w.drainFuel w) else w
      if w.task ≠ .none ∧ w.reader ≠ [] then w.emit .stall else w) := by
  simp only
  have h2 : Moves AnyTag w1 (drain w1.drainFuel w1) := drain_moves _ _
  generalize drain w1.drainFuel w1 = w2 at h2 ⊢
  have h3 : Moves AnyTag w1 (if w2.cfg.sweep = true then drain w2.sweep.drainFuel w2.sweep else w2) := by
    split
    · exact h2.trans ((sweep_moves w2).trans (drain_moves _ _))
    · exact h2
  generalize (if w2.cfg.sweep = true then drain w2.sweep.drainFuel w2.sweep else w2) = w3 at h3 ⊢
  split
  · exact h3.trans (.one (.quiet rfl (fun _ => rfl) rfl rfl rfl (outExtP_one .stall rfl ⟨nofun, nofun⟩)))
  · exact h3

/-- **one script step**: nothing (the script already went wrong), or the logged event followed by moves, where an
    accepted `op` event first adds its fresh future -/
theorem step_decomp (w : World) (e : Ev) :
    w.step e = w ∨
    (∃ id h req w1, e = .op id h req ∧ AddOp id h req (w.emit (.ev e)) w1 ∧ Moves AnyTag w1 (w.step e)) ∨
    Moves AnyTag (w.emit (.ev e)) (w.step e) := by
  unfold step
  split
  · exact Or.inl rfl
  · right
    rcases apply_decomp (w.emit (.ev e)) e with ⟨id, h, req, he, ha⟩ | hm
    · left
      refine ⟨id, h, req, _, he, ha, ?_⟩
      simp only
      split
      · exact .refl _
      · exact step_tail_moves _
    · right
      replace hm := hm.any
      simp only
      split
      · exact hm
      · exact hm.trans (step_tail_moves _)

theorem emit_ev_move (w : World) (e : Ev) : Move none w (w.emit (.ev e)) :=
  .quiet rfl (fun _ => rfl) rfl rfl rfl (outExtP_one _ rfl (neutral_ev e))

/-! ## association-list facts used by the invariants -/

theorem lookupFirst_of_mem_nodupO {β} (k : Nat) (v : β) (l : List (Nat × β)) (hn : (l.map (·.1)).Nodup)
    (h : (k, v) ∈ l) : lookupFirst k l = some v := by
  induction l with
  | nil => cases h
  | cons x t ih =>
    obtain ⟨a, b⟩ := x
    simp only [List.map_cons, List.nodup_cons] at hn
    simp only [List.mem_cons, Prod.mk.injEq] at h
    simp only [lookupFirst]
    rcases h with ⟨rfl, rfl⟩ | h
    · simp
    · have : a ≠ k := by
        intro e; subst e
        exact hn.1 (List.mem_map.2 ⟨_, h, rfl⟩)
      simp [this, ih hn.2 h]

theorem setAssoc_keys_of_lookup {β} (k : Nat) (v v0 : β) (l : List (Nat × β)) (h : lookupFirst k l = some v0) :
    (setAssoc k v l).map (·.1) = l.map (·.1) := by
  induction l with
  | nil => simp [lookupFirst] at h
  | cons x t ih =>
    obtain ⟨a, b⟩ := x
    simp only [lookupFirst] at h
    simp only [setAssoc]
    split
    · rename_i hak; subst hak; simp
    · rename_i hak; simp only [hak, ↓reduceIte] at h; simp [ih h]

theorem mem_eraseFirst_ne {β} (k j : Nat) (v : β) (l : List (Nat × β)) (hn : (l.map (·.1)).Nodup)
    (h : (j, v) ∈ eraseFirst k l) : j ≠ k ∧ (j, v) ∈ l := by
  refine ⟨?_, (User.eraseFirst_sublist k l).subset h⟩
  intro e; subst e
  have h0 := lookupFirst_eraseFirst_self j l hn
  rw [User.lookupFirst_none_iff] at h0
  exact h0 (List.mem_map.2 ⟨_, h, rfl⟩)

theorem eraseFirst_keys_nodup {β} (k : Nat) (l : List (Nat × β)) (hn : (l.map (·.1)).Nodup) :
    ((eraseFirst k l).map (·.1)).Nodup :=
  ((User.eraseFirst_sublist k l).map _).nodup hn

/-- in a key-distinct list, after `setAssoc k v` the entries are `(k, v)` and the old entries of other keys -/
theorem mem_setAssoc_nodup {β} (k j : Nat) (v v0 x : β) (l : List (Nat × β)) (hn : (l.map (·.1)).Nodup)
    (hl : lookupFirst k l = some v0) (h : (j, x) ∈ setAssoc k v l) :
    (j = k ∧ x = v) ∨ (j ≠ k ∧ (j, x) ∈ l) := by
  by_cases hj : j = k
  · subst hj
    left
    have hn' : ((setAssoc j v l).map (·.1)).Nodup := by rw [setAssoc_keys_of_lookup j v v0 l hl]; exact hn
    have h1 := lookupFirst_of_mem_nodupO j x _ hn' h
    rw [lookupFirst_setAssoc_self] at h1
    exact ⟨rfl, (Option.some.inj h1).symm⟩
  · right
    rcases User.mem_setAssoc h with h | h
    · simp only [Prod.mk.injEq] at h; exact absurd h.1 hj
    · exact ⟨hj, h⟩

theorem mem_setAssoc_self {β} (k : Nat) (v : β) (l : List (Nat × β)) : (k, v) ∈ setAssoc k v l := by
  induction l with
  | nil => simp [setAssoc]
  | cons x t ih =>
    obtain ⟨a, b⟩ := x
    simp only [setAssoc]
    split
    · simp
    · simp [ih]

theorem mem_of_opSt {w : World} {id : Nat} {st : OpSt} (h : w.opSt id = some st) : (id, st) ∈ w.ops :=
  User.lookupFirst_mem id st w.ops h

theorem slotRel_isSome {P : Nat → SlotVal → Prop} {w w' : World} (h : SlotRel P w w') (s : Nat)
    (hs : (w.slot s).isSome) : (w'.slot s).isSome := by
  rcases h s with e | ⟨_, e | ⟨v, e, _⟩⟩
  · rw [e]; exact hs
  · rw [e]; rfl
  · rw [e]; rfl

/-! ## the structural invariant -/

/-- **structure of the operation table**: operation ids are pairwise distinct; a waiting operation `id` waits on
    oneshot `2 * id` (every wait but the one for PUBCOMP) or `2 * id + 1` (the wait for PUBCOMP of a QoS 2
    publish) and that oneshot exists; the packet-identifier counter is in 1..=65535 -/
structure OpsInv (w : World) : Prop where
  nodup : (w.ops.map (·.1)).Nodup
  shape : ∀ id s k, (id, OpSt.wait s k) ∈ w.ops →
    (s = 2 * id ∧ k ≠ .pubcomp ∨ s = 2 * id + 1 ∧ k = .pubcomp) ∧ (w.slot s).isSome
  pid : PidOk w.pidCtr

theorem OpsInv.owner {w : World} (h : OpsInv w) {id s : Nat} {k : Wait} (hm : (id, OpSt.wait s k) ∈ w.ops) :
    s / 2 = id := by
  have := (h.shape id s k hm).1
  omega

/-- the oneshot of an operation that stays is not the oneshot of the operation that leaves / moves on -/
theorem OpsInv.other_slot {w : World} (h : OpsInv w) {id j s : Nat} {st : OpSt} {k : Wait}
    (hst : w.opSt id = some st) (hj : j ≠ id) (hm : (j, OpSt.wait s k) ∈ w.ops) : ∀ k0, st ≠ .wait s k0 := by
  intro k0 e
  subst e
  have h1 := h.owner (mem_of_opSt hst)
  have h2 := h.owner hm
  omega

theorem OpsInv.init (cfg : Cfg) : OpsInv { cfg := cfg } := by
  refine ⟨by simp, ?_, ⟨Nat.le_refl 1, (by decide : (1 : Nat) ≤ 65535)⟩⟩
  intro id s k h
  cases h

theorem OpsInv.move {t : Option Nat} {w w' : World} (h : OpsInv w) (m : Move t w w') : OpsInv w' := by
  cases m with
  | cmsg m q hq queue ops pid out aw slots =>
    refine ⟨by rw [ops]; exact h.nodup, ?_, by rw [pid]; exact h.pid⟩
    intro id s k hm
    rw [ops] at hm
    exact ⟨(h.shape id s k hm).1, slotRel_isSome slots s (h.shape id s k hm).2⟩
  | cpkt p aid slot pre post wf haid haw hpre aw queue ops pid out slots =>
    refine ⟨by rw [ops]; exact h.nodup, ?_, by rw [pid]; exact h.pid⟩
    intro id s k hm
    rw [ops] at hm
    exact ⟨(h.shape id s k hm).1, slotRel_isSome slots s (h.shape id s k hm).2⟩
  | drop queue aw ops pid out slots =>
    refine ⟨by rw [ops]; exact h.nodup, ?_, by rw [pid]; exact h.pid⟩
    intro id s k hm
    rw [ops] at hm
    exact ⟨(h.shape id s k hm).1, slotRel_isSome slots s (h.shape id s k hm).2⟩
  | finish id st hst ops queue aw pid slots out =>
    refine ⟨by rw [ops]; exact eraseFirst_keys_nodup _ _ h.nodup, ?_, pid h.pid⟩
    intro j s k hm
    rw [ops] at hm
    obtain ⟨hj, hm⟩ := mem_eraseFirst_ne _ _ _ _ h.nodup hm
    refine ⟨(h.shape j s k hm).1, ?_⟩
    rw [slots s (h.other_slot hst hj hm)]
    exact (h.shape j s k hm).2
  | send id st m s k hst shape ops queue mslot aw pid slotNew slots out msgok =>
    have hs2 : s = 2 * id ∧ k ≠ .pubcomp ∨ s = 2 * id + 1 ∧ k = .pubcomp := by
      rcases shape with ⟨hh, r, rfl, e1, e2⟩ | ⟨s0, rfl, e1, e2⟩
      · exact Or.inl ⟨e1, e2⟩
      · have := (h.shape id s0 .pubrec (mem_of_opSt hst)).1
        right
        refine ⟨?_, e2⟩
        rcases this with ⟨a, _⟩ | ⟨_, b⟩
        · omega
        · cases b
    refine ⟨by rw [ops, setAssoc_keys_of_lookup id _ st _ hst]; exact h.nodup, ?_, pid h.pid⟩
    intro j s' k' hm
    rw [ops] at hm
    rcases mem_setAssoc_nodup id j _ st _ _ h.nodup hst hm with ⟨rfl, e⟩ | ⟨hj, hm⟩
    · cases e
      exact ⟨hs2, by rw [slotNew]; rfl⟩
    · refine ⟨(h.shape j s' k' hm).1, ?_⟩
      have hne : s' ≠ s := by
        have := h.owner hm
        omega
      rw [slots s' hne (h.other_slot hst hj hm)]
      exact (h.shape j s' k' hm).2

theorem OpsInv.moves {A : Option Nat → Prop} {w w' : World} (h : OpsInv w) (m : Moves A w w') : OpsInv w' :=
  Moves.inv (fun _ _ _ hi hm => OpsInv.move hi hm) m h

theorem OpsInv.addOp {w w' : World} {id hd : Nat} {req : Req} (h : OpsInv w) (a : AddOp id hd req w w') :
    OpsInv w' := by
  refine ⟨?_, ?_, by rw [a.pid]; exact h.pid⟩
  · rw [a.ops, List.map_append, List.nodup_append]
    refine ⟨h.nodup, by simp, ?_⟩
    intro x hx y hy
    simp only [List.map_cons, List.map_nil, List.mem_singleton] at hy
    subst hy
    intro e; subst e
    have := a.fresh
    unfold opSt at this
    rw [User.lookupFirst_none_iff] at this
    exact this hx
  · intro j s k hm
    rw [a.ops] at hm
    simp only [List.mem_append, List.mem_singleton, Prod.mk.injEq] at hm
    rcases hm with hm | ⟨_, hm⟩
    · rw [a.slots]; exact h.shape j s k hm
    · cases hm

theorem OpsInv.step {w : World} (h : OpsInv w) (e : Ev) : OpsInv (w.step e) := by
  rcases step_decomp w e with h0 | ⟨id, hd, req, w1, _, ha, hm⟩ | hm
  · rw [h0]; exact h
  · exact ((h.move (emit_ev_move w e)).addOp ha).moves hm
  · exact (h.move (emit_ev_move w e)).moves hm

theorem OpsInv.steps {w : World} (h : OpsInv w) (evs : List Ev) : OpsInv (evs.foldl World.step w) := by
  induction evs generalizing w with
  | nil => exact h
  | cons e t ih => exact ih (h.step e)

/-! ## at most one completion per issued operation -/

/-- `DONE id _` -/
def isDone (id : Nat) : Obs → Bool
  | .done i _ => i == id
  | _ => false

/-- the script event `op id _ _` as logged -/
def isOpEv (id : Nat) : Obs → Bool
  | .ev (.op i _ _) => i == id
  | _ => false

/-- number of `DONE id _` lines -/
def doneCount (id : Nat) (out : List Obs) : Nat := out.countP (isDone id)
/-- number of logged `op id _ _` events -/
def opCount (id : Nat) (out : List Obs) : Nat := out.countP (isOpEv id)

/-- operation `id` is in the table -/
def live (w : World) (id : Nat) : Nat := if id ∈ w.ops.map (·.1) then 1 else 0

/-- **completions are bounded by issues**: for every id, the completions logged so far plus the operation
    still in the table (if any) do not exceed the `op` events logged for that id -/
def CountInv (w : World) : Prop := ∀ id, doneCount id w.out + live w id ≤ opCount id w.out

theorem doneCount_neutral {w w' : World} (h : OutExtP Neutral w w') (id : Nat) :
    doneCount id w'.out = doneCount id w.out ∧ opCount id w.out ≤ opCount id w'.out := by
  obtain ⟨added, e, hn⟩ := h
  rw [e]
  unfold doneCount opCount
  rw [List.countP_append, List.countP_append]
  refine ⟨?_, Nat.le_add_right _ _⟩
  have : List.countP (isDone id) added = 0 := by
    rw [List.countP_eq_zero]
    intro o ho
    have := (hn o ho).1
    cases o <;> simp [isDone]
    rename_i i r
    exact absurd rfl (this i r)
  omega

theorem live_of_ops_eq {w w' : World} (h : w'.ops = w.ops) (id : Nat) : live w' id = live w id := by
  unfold live; rw [h]

theorem CountInv.of_neutral {w w' : World} (h : CountInv w) (ops : w'.ops = w.ops) (out : OutExtP Neutral w w') :
    CountInv w' := by
  intro id
  obtain ⟨a, b⟩ := doneCount_neutral out id
  have := h id
  rw [a, live_of_ops_eq ops]
  omega

theorem CountInv.move {t : Option Nat} {w w' : World} (h : CountInv w) (hi : OpsInv w) (m : Move t w w') : CountInv w' := by
  cases m with
  | cmsg m q hq queue ops pid out aw slots => exact h.of_neutral ops out
  | cpkt p aid slot pre post wf haid haw hpre aw queue ops pid out slots => exact h.of_neutral ops out
  | drop queue aw ops pid out slots => exact h.of_neutral ops out
  | finish id st hst ops queue aw pid slots out =>
    intro j
    have hj := h j
    have hlive : live w id = 1 := by
      unfold live
      rw [if_pos (List.mem_map.2 ⟨_, mem_of_opSt hst, rfl⟩)]
    have hdead : live w' id = 0 := by
      unfold live
      rw [if_neg]
      rw [ops]
      intro hm
      obtain ⟨⟨a, b⟩, hab, rfl⟩ := List.mem_map.1 hm
      exact (mem_eraseFirst_ne _ _ _ _ hi.nodup hab).1 rfl
    have hmono : live w' j ≤ live w j := by
      unfold live
      split
      · rename_i hm
        rw [ops] at hm
        rw [if_pos (((User.eraseFirst_sublist id w.ops).map _).subset hm)]
        exact Nat.le_refl _
      · split <;> omega
    have hop : ∀ l : List Obs, w'.out = w.out ++ l → (∀ o ∈ l, isOpEv j o = false) →
        opCount j w'.out = opCount j w.out := by
      intro l e hl
      unfold opCount
      rw [e, List.countP_append]
      have : List.countP (isOpEv j) l = 0 := by
        rw [List.countP_eq_zero]; intro o ho; simp [hl o ho]
      omega
    rcases out with e | ⟨r, e⟩ | ⟨e, _⟩
    · rw [e]; omega
    · have h1 := hop _ e (by intro o ho; simp only [List.mem_singleton] at ho; subst ho; rfl)
      have h2 : doneCount j w'.out = doneCount j w.out + (if id = j then 1 else 0) := by
        unfold doneCount
        rw [e, List.countP_append]
        simp [isDone, List.countP_cons]
      rw [h1, h2]
      by_cases hij : id = j
      · subst hij; simp only [↓reduceIte]; omega
      · simp only [hij, ↓reduceIte]; omega
    · have h1 := hop _ e (by intro o ho; simp only [List.mem_singleton] at ho; subst ho; rfl)
      have h2 : doneCount j w'.out = doneCount j w.out := by
        unfold doneCount
        rw [e, List.countP_append]
        simp [isDone, List.countP_cons]
      rw [h1, h2]; omega
  | send id st m s k hst shape ops queue mslot aw pid slotNew slots out msgok =>
    intro j
    have hj := h j
    have : live w' j = live w j := by
      unfold live
      rw [ops, setAssoc_keys_of_lookup id _ st _ hst]
    rw [out, this]; exact hj

/-- the `op` event is logged and the fresh future enters the table -/
theorem CountInv.addOp {w w' : World} {id hd : Nat} {req : Req} (h : CountInv w)
    (a : AddOp id hd req (w.emit (.ev (.op id hd req))) w') : CountInv w' := by
  intro j
  have hj := h j
  have ho : w'.out = w.out ++ [.ev (.op id hd req)] := by rw [a.out]; rfl
  have h1 : doneCount j w'.out = doneCount j w.out := by
    unfold doneCount; rw [ho, List.countP_append]; simp [isDone, List.countP_cons]
  have h2 : opCount j w'.out = opCount j w.out + (if id = j then 1 else 0) := by
    unfold opCount; rw [ho, List.countP_append]; simp [isOpEv, List.countP_cons]
  have h3 : live w' j ≤ live w j + (if id = j then 1 else 0) := by
    unfold live
    rw [a.ops]
    simp only [emit_ops, List.map_append, List.map_cons, List.map_nil, List.mem_append, List.mem_singleton]
    by_cases hij : id = j
    · subst hij; simp only [↓reduceIte]; split <;> split <;> omega
    · have : ¬ j = id := fun e => hij e.symm
      simp only [this, or_false, hij, ↓reduceIte]; omega
  rw [h1, h2]; omega

theorem CountInv.init (cfg : Cfg) : CountInv { cfg := cfg } := by
  intro id; simp [doneCount, opCount, live]

theorem CountInv.step {w : World} (h : CountInv w) (hi : OpsInv w) (e : Ev) : CountInv (w.step e) := by
  have key : ∀ {a b : World}, Moves AnyTag a b → OpsInv a → CountInv a → CountInv b := by
    intro a b hm
    induction hm with
    | refl => intro _ hc; exact hc
    | cons _ hmv _ ih => intro hi hc; exact ih (hi.move hmv) (hc.move hi hmv)
  rcases step_decomp w e with h0 | ⟨id, hd, req, w1, he, ha, hm⟩ | hm
  · rw [h0]; exact h
  · subst he
    exact key hm ((hi.move (emit_ev_move w _)).addOp ha) (h.addOp ha)
  · exact key hm (hi.move (emit_ev_move w e)) (h.move hi (emit_ev_move w e))

theorem CountInv.steps {w : World} (h : CountInv w) (hi : OpsInv w) (evs : List Ev) :
    CountInv (evs.foldl World.step w) := by
  induction evs generalizing w with
  | nil => exact h
  | cons e t ih => exact ih (h.step hi e) (hi.step e)

/-! ## kind matching: what the context owns belongs to the operation that created it -/

/-- **ownership and kinds**, relative to the set `U` of operation ids issued so far (the script issues every id at
    most once). Every oneshot `s` the context owns (queued message or `awaiting_ack` entry) was created by the
    issued operation `s / 2`; if that operation is still in the table it waits on `s` or on a later oneshot.
    No two messages / waiters share a oneshot. A queued message or waiter whose oneshot a waiting operation waits
    on has the kind that operation waits for; a packet stored in such a oneshot is well formed and accepted. -/
structure KInv (U : Nat → Prop) (w : World) : Prop where
  own : ∀ s ∈ ctxSlots w, U (s / 2) ∧ ∀ st, (s / 2, st) ∈ w.ops → ∃ s' k, st = .wait s' k ∧ s ≤ s'
  nodup : (ctxSlots w).Nodup
  qmsg : ∀ m ∈ w.queue, ∀ id k, (id, OpSt.wait m.slot k) ∈ w.ops → MsgOk m k
  awt : ∀ aid s, (aid, s) ∈ w.c.awaiting → ∀ id k, (id, OpSt.wait s k) ∈ w.ops → AidOk aid k
  full : ∀ id s k p, (id, OpSt.wait s k) ∈ w.ops → w.slot s = some (.full (.pkt p)) →
    Wait.accepts k p = true ∧ p.wf
  used : ∀ id st, (id, st) ∈ w.ops → U id

theorem KInv.mono {U V : Nat → Prop} {w : World} (h : KInv U w) (huv : ∀ x, U x → V x) : KInv V w :=
  ⟨fun s hs => ⟨huv _ (h.own s hs).1, (h.own s hs).2⟩, h.nodup, h.qmsg, h.awt, h.full,
    fun id st hm => huv _ (h.used id st hm)⟩

theorem KInv.init (U : Nat → Prop) (cfg : Cfg) : KInv U { cfg := cfg } := by
  refine ⟨?_, by simp [ctxSlots], ?_, ?_, ?_, ?_⟩
  · intro s hs; simp [ctxSlots] at hs
  · intro m hm; cases hm
  · intro aid s hm; cases hm
  · intro id s k p hm; cases hm
  · intro id st hm; cases hm

theorem mem_ctxSlots {w : World} {s : Nat} :
    s ∈ ctxSlots w ↔ (∃ m ∈ w.queue, m.slot = s) ∨ (∃ aid, (aid, s) ∈ w.c.awaiting) := by
  unfold ctxSlots
  simp only [List.mem_append, List.mem_map]
  constructor
  · rintro (⟨m, hm, rfl⟩ | ⟨⟨a, b⟩, hm, rfl⟩)
    · exact Or.inl ⟨m, hm, rfl⟩
    · exact Or.inr ⟨a, hm⟩
  · rintro (⟨m, hm, rfl⟩ | ⟨a, hm⟩)
    · exact Or.inl ⟨m, hm, rfl⟩
    · exact Or.inr ⟨(a, s), hm, rfl⟩

theorem ctxSlots_sublist {w w' : World} (hq : w'.queue.Sublist w.queue) (ha : w'.c.awaiting.Sublist w.c.awaiting) :
    (ctxSlots w').Sublist (ctxSlots w) :=
  List.Sublist.append (hq.map _) (ha.map _)

/-- the context only loses messages / waiters and stores no packet -/
theorem KInv.shrink {U : Nat → Prop} {w w' : World} (h : KInv U w) (ops : w'.ops = w.ops)
    (hq : w'.queue.Sublist w.queue) (ha : w'.c.awaiting.Sublist w.c.awaiting)
    (slots : SlotRel (fun _ v => ∀ p, v ≠ .pkt p) w w') : KInv U w' := by
  have hsub := ctxSlots_sublist hq ha
  refine ⟨?_, hsub.nodup h.nodup, ?_, ?_, ?_, by rw [ops]; exact h.used⟩
  · intro s hs; rw [ops]; exact h.own s (hsub.subset hs)
  · intro m hm; rw [ops]; exact h.qmsg m (hq.subset hm)
  · intro aid s hm; rw [ops]; exact h.awt aid s (ha.subset hm)
  · intro id s k p hm hs
    rw [ops] at hm
    rcases slots s with e | ⟨_, e | ⟨v, e, hv⟩⟩
    · rw [e] at hs; exact h.full id s k p hm hs
    · rw [e] at hs; cases hs
    · rw [e] at hs
      simp only [Option.some.injEq, Slot.full.injEq] at hs
      exact absurd hs (hv p)

theorem KInv.move {U : Nat → Prop} {t : Option Nat} {w w' : World} (h : KInv U w) (hi : OpsInv w) (m : Move t w w') : KInv U w' := by
  cases m with
  | cmsg m q hq queue ops pid out aw slots =>
    have hslots : SlotRel (fun _ v => ∀ p, v ≠ .pkt p) w w' := slotRel_mono slots fun s v hv => hv.2
    rcases aw with aw | ⟨aid, haid, aw⟩
    · exact h.shrink ops (by rw [queue, hq]; exact List.sublist_cons_self _ _) (by rw [aw]; exact List.Sublist.refl _)
        hslots
    · -- the message's waiter is registered: its oneshot moves from the queue to `awaiting`
      have hperm : (ctxSlots w').Perm (ctxSlots w) := by
        unfold ctxSlots
        rw [queue, aw, hq, List.map_cons, List.map_append, List.map_cons, List.map_nil, ← List.append_assoc]
        exact List.perm_append_singleton _ _
      have hmem : ∀ s, s ∈ ctxSlots w' → s ∈ ctxSlots w := fun s hs => hperm.subset hs
      refine ⟨?_, hperm.nodup_iff.2 h.nodup, ?_, ?_, ?_, by rw [ops]; exact h.used⟩
      · intro s hs; rw [ops]; exact h.own s (hmem s hs)
      · intro m' hm'; rw [ops]; exact h.qmsg m' (by rw [hq]; exact List.mem_cons_of_mem _ (queue ▸ hm'))
      · intro aid' s hm id k hop
        rw [ops] at hop
        rw [aw] at hm
        simp only [List.mem_append, List.mem_singleton, Prod.mk.injEq] at hm
        rcases hm with hm | ⟨rfl, rfl⟩
        · exact h.awt aid' s hm id k hop
        · have := h.qmsg m (by rw [hq]; exact List.mem_cons_self) id k hop
          unfold MsgOk at this
          rw [haid] at this
          exact this
      · intro id s k p hm hs
        rw [ops] at hm
        rcases hslots s with e | ⟨_, e | ⟨v, e, hv⟩⟩
        · rw [e] at hs; exact h.full id s k p hm hs
        · rw [e] at hs; cases hs
        · rw [e] at hs
          simp only [Option.some.injEq, Slot.full.injEq] at hs
          exact absurd hs (hv p)
  | cpkt p aid slot pre post wf haid haw hpre aw queue ops pid out slots =>
    have hq : w'.queue.Sublist w.queue := by rw [queue]; exact List.Sublist.refl _
    have ha : w'.c.awaiting.Sublist w.c.awaiting := by
      rw [aw, haw]; exact List.Sublist.append (List.Sublist.refl _) (List.sublist_cons_self _ _)
    have hsub := ctxSlots_sublist hq ha
    refine ⟨?_, hsub.nodup h.nodup, ?_, ?_, ?_, by rw [ops]; exact h.used⟩
    · intro s hs; rw [ops]; exact h.own s (hsub.subset hs)
    · intro m hm; rw [ops]; exact h.qmsg m (hq.subset hm)
    · intro aid' s hm; rw [ops]; exact h.awt aid' s (ha.subset hm)
    · intro id s k p' hm hs
      rw [ops] at hm
      rcases slots s with e | ⟨_, e | ⟨v, e, rfl, rfl⟩⟩
      · rw [e] at hs; exact h.full id s k p' hm hs
      · rw [e] at hs; cases hs
      · rw [e] at hs
        simp only [Option.some.injEq, Slot.full.injEq, SlotVal.pkt.injEq] at hs
        subst hs
        have hreg : (aid, s) ∈ w.c.awaiting := by rw [haw]; simp
        exact ⟨accepts_of_aidOk (h.awt aid s hreg id k hm) haid wf, wf⟩
  | drop queue aw ops pid out slots =>
    exact h.shrink ops queue aw (slotRel_mono slots fun _ _ hf => hf.elim)
  | finish id st hst ops queue aw pid slots out =>
    have hcs : ctxSlots w' = ctxSlots w := by unfold ctxSlots; rw [queue, aw]
    have hsub : ∀ x, x ∈ w'.ops → x ∈ w.ops := fun x hx => (User.eraseFirst_sublist id w.ops).subset (ops ▸ hx)
    refine ⟨?_, by rw [hcs]; exact h.nodup, ?_, ?_, ?_, fun j st' hm => h.used j st' (hsub _ hm)⟩
    · intro s hs
      rw [hcs] at hs
      exact ⟨(h.own s hs).1, fun st' hm => (h.own s hs).2 st' (hsub _ hm)⟩
    · intro m hm j k hop; rw [queue] at hm; exact h.qmsg m hm j k (hsub _ hop)
    · intro aid s hm j k hop; rw [aw] at hm; exact h.awt aid s hm j k (hsub _ hop)
    · intro j s k p hm hs
      rw [ops] at hm
      obtain ⟨hj, hm⟩ := mem_eraseFirst_ne _ _ _ _ hi.nodup hm
      rw [slots s (hi.other_slot hst hj hm)] at hs
      exact h.full j s k p hm hs
  | send id st m s k hst shape ops queue mslot aw pid slotNew slots out msgok =>
    have hmem := mem_of_opSt hst
    -- the new oneshot is `2 * id` or `2 * id + 1`
    have hs2 : s / 2 = id := by
      rcases shape with ⟨hh, r, rfl, e1, e2⟩ | ⟨s0, rfl, e1, e2⟩
      · omega
      · have := (hi.shape id s0 .pubrec hmem).1
        rcases this with ⟨a, _⟩ | ⟨_, b⟩
        · omega
        · cases b
    -- the context owns nothing with the new oneshot
    have hfresh : s ∉ ctxSlots w := by
      intro hs
      obtain ⟨s', k', e, hle⟩ := (h.own s hs).2 st (hs2 ▸ hmem)
      rcases shape with ⟨hh, r, rfl, e1, e2⟩ | ⟨s0, rfl, e1, e2⟩
      · cases e
      · cases e; omega
    have hcs : (ctxSlots w').Perm (s :: ctxSlots w) := by
      unfold ctxSlots
      rw [queue, aw, List.map_append, List.map_cons, List.map_nil, mslot, List.append_assoc]
      exact List.perm_middle
    have hmemcs : ∀ t, t ∈ ctxSlots w' ↔ t = s ∨ t ∈ ctxSlots w := fun t => by
      rw [hcs.mem_iff, List.mem_cons]
    have hnew : ∀ j st', (j, st') ∈ w'.ops → (j = id ∧ st' = .wait s k) ∨ (j ≠ id ∧ (j, st') ∈ w.ops) := by
      intro j st' hm
      rw [ops] at hm
      exact mem_setAssoc_nodup id j _ st _ _ hi.nodup hst hm
    refine ⟨?_, ?_, ?_, ?_, ?_, ?_⟩
    · intro t ht
      rcases (hmemcs t).1 ht with rfl | ht
      · refine ⟨hs2 ▸ h.used id st hmem, ?_⟩
        intro st' hm
        rcases hnew _ _ hm with ⟨_, rfl⟩ | ⟨hne, _⟩
        · exact ⟨t, k, rfl, Nat.le_refl _⟩
        · exact absurd hs2 hne
      · refine ⟨(h.own t ht).1, ?_⟩
        intro st' hm
        rcases hnew _ _ hm with ⟨hj, rfl⟩ | ⟨_, hm⟩
        · refine ⟨s, k, rfl, ?_⟩
          obtain ⟨s', k', e, hle⟩ := (h.own t ht).2 st (hj ▸ hmem)
          rcases shape with ⟨hh, r, rfl, e1, e2⟩ | ⟨s0, rfl, e1, e2⟩
          · cases e
          · cases e; omega
        · exact (h.own t ht).2 st' hm
    · exact hcs.nodup_iff.2 (List.nodup_cons.2 ⟨hfresh, h.nodup⟩)
    · intro m' hm' j k' hop
      rw [queue] at hm'
      simp only [List.mem_append, List.mem_singleton] at hm'
      rcases hnew _ _ hop with ⟨rfl, e⟩ | ⟨hne, hop⟩
      · simp only [OpSt.wait.injEq] at e
        obtain ⟨e1, rfl⟩ := e
        rcases hm' with hm' | rfl
        · exact absurd (mem_ctxSlots.2 (Or.inl ⟨m', hm', e1⟩)) hfresh
        · exact msgok hi.pid (fun s0 k0 p e hs => by subst e; exact (h.full j s0 k0 p hmem hs).2)
      · rcases hm' with hm' | rfl
        · exact h.qmsg m' hm' j k' hop
        · have := hi.owner hop
          rw [mslot] at this
          exact absurd (this.symm.trans hs2) hne
    · intro aid t hm j k' hop
      rw [aw] at hm
      rcases hnew _ _ hop with ⟨rfl, e⟩ | ⟨hne, hop⟩
      · simp only [OpSt.wait.injEq] at e
        obtain ⟨rfl, rfl⟩ := e
        exact absurd (mem_ctxSlots.2 (Or.inr ⟨aid, hm⟩)) hfresh
      · exact h.awt aid t hm j k' hop
    · intro j t k' p hop hs
      rcases hnew _ _ hop with ⟨rfl, e⟩ | ⟨hne, hop⟩
      · simp only [OpSt.wait.injEq] at e
        obtain ⟨rfl, rfl⟩ := e
        rw [slotNew] at hs; cases hs
      · have hne2 : t ≠ s := by
          have := hi.owner hop
          intro e; subst e; exact hne (this.symm.trans hs2)
        rw [slots t hne2 (hi.other_slot hst hne hop)] at hs
        exact h.full j t k' p hop hs
    · intro j st' hm
      rcases hnew _ _ hm with ⟨rfl, _⟩ | ⟨_, hm⟩
      · exact h.used j st hmem
      · exact h.used j st' hm

/-- an `op` event with an id that was never issued before -/
theorem KInv.addOp {U : Nat → Prop} {w w' : World} {id hd : Nat} {req : Req} (h : KInv U w)
    (a : AddOp id hd req w w') (hu : ¬ U id) : KInv (fun x => U x ∨ x = id) w' := by
  have hcs : ctxSlots w' = ctxSlots w := by unfold ctxSlots; rw [a.queue, a.aw]
  have hold : ∀ j s k, (j, OpSt.wait s k) ∈ w'.ops → (j, OpSt.wait s k) ∈ w.ops := by
    intro j s k hm
    rw [a.ops] at hm
    simp only [List.mem_append, List.mem_singleton, Prod.mk.injEq] at hm
    rcases hm with hm | ⟨_, hm⟩
    · exact hm
    · cases hm
  refine ⟨?_, by rw [hcs]; exact h.nodup, ?_, ?_, ?_, ?_⟩
  · intro s hs
    rw [hcs] at hs
    refine ⟨Or.inl (h.own s hs).1, ?_⟩
    intro st hm
    rw [a.ops] at hm
    simp only [List.mem_append, List.mem_singleton, Prod.mk.injEq] at hm
    rcases hm with hm | ⟨e, _⟩
    · exact (h.own s hs).2 st hm
    · exact absurd (e ▸ (h.own s hs).1) hu
  · intro m hm j k hop; rw [a.queue] at hm; exact h.qmsg m hm j k (hold _ _ _ hop)
  · intro aid s hm j k hop; rw [a.aw] at hm; exact h.awt aid s hm j k (hold _ _ _ hop)
  · intro j s k p hop hs; rw [a.slots] at hs; exact h.full j s k p (hold _ _ _ hop) hs
  · intro j st hm
    rw [a.ops] at hm
    simp only [List.mem_append, List.mem_singleton, Prod.mk.injEq] at hm
    rcases hm with hm | ⟨e, _⟩
    · exact Or.inl (h.used j st hm)
    · exact Or.inr e

/-! ## the `unreachable!()` of the handle futures is dead -/

/-- no handle future has hit its `unreachable!()` -/
def NoUnr (w : World) : Prop := ∀ id, Obs.panic (.op id) "unreachable" ∉ w.out

theorem NoUnr.of_neutral {w w' : World} (h : NoUnr w) (out : OutExtP Neutral w w') : NoUnr w' := by
  obtain ⟨added, e, hn⟩ := out
  intro id hm
  rw [e] at hm
  rcases List.mem_append.1 hm with hm | hm
  · exact h id hm
  · exact (hn _ hm).2 id _ rfl

theorem NoUnr.move {U : Nat → Prop} {t : Option Nat} {w w' : World} (h : NoUnr w) (hk : KInv U w)
    (m : Move t w w') : NoUnr w' := by
  cases m with
  | cmsg m q hq queue ops pid out aw slots => exact h.of_neutral out
  | cpkt p aid slot pre post wf haid haw hpre aw queue ops pid out slots => exact h.of_neutral out
  | drop queue aw ops pid out slots => exact h.of_neutral out
  | finish id st hst ops queue aw pid slots out =>
    rcases out with e | ⟨r, e⟩ | ⟨e, s, k, p, rfl, hs, ha⟩
    · intro j; rw [e]; exact h j
    · intro j hm
      rw [e] at hm
      rcases List.mem_append.1 hm with hm | hm
      · exact h j hm
      · simp at hm
    · have := (hk.full id s k p (mem_of_opSt hst) hs).1
      rw [ha] at this; cases this
  | send id st m s k hst shape ops queue mslot aw pid slotNew slots out msgok =>
    intro j; rw [out]; exact h j

/-- everything that is invariant when the script issues every operation id at most once -/
structure Good (U : Nat → Prop) (w : World) : Prop where
  ops : OpsInv w
  kind : KInv U w
  noUnr : NoUnr w

theorem Good.init (U : Nat → Prop) (cfg : Cfg) : Good U { cfg := cfg } :=
  ⟨OpsInv.init cfg, KInv.init U cfg, fun id hm => by cases hm⟩

theorem Good.move {U : Nat → Prop} {t : Option Nat} {w w' : World} (h : Good U w) (m : Move t w w') : Good U w' :=
  ⟨h.ops.move m, h.kind.move h.ops m, h.noUnr.move h.kind m⟩

theorem Good.moves {U : Nat → Prop} {A : Option Nat → Prop} {w w' : World} (h : Good U w) (m : Moves A w w') :
    Good U w' :=
  Moves.inv (fun _ _ _ hi hm => Good.move hi hm) m h

theorem Good.mono {U V : Nat → Prop} {w : World} (h : Good U w) (huv : ∀ x, U x → V x) : Good V w :=
  ⟨h.ops, h.kind.mono huv, h.noUnr⟩

/-- the operation id a script event issues -/


theorem Good.step {U : Nat → Prop} {w : World} (h : Good U w) (e : Ev) (hu : ∀ id, evOpId e = some id → ¬ U id) :
    Good (fun x => U x ∨ evOpId e = some x) (w.step e) := by
  rcases step_decomp w e with h0 | ⟨id, hd, req, w1, he, ha, hm⟩ | hm
  · rw [h0]; exact h.mono fun _ hx => Or.inl hx
  · subst he
    have h1 := h.move (emit_ev_move w (.op id hd req))
    have h2 : Good (fun x => U x ∨ x = id) w1 :=
      ⟨h1.ops.addOp ha, h1.kind.addOp ha (hu id rfl), fun j => by rw [ha.out]; exact h1.noUnr j⟩
    refine (h2.moves hm).mono ?_
    rintro x (hx | rfl)
    · exact Or.inl hx
    · exact Or.inr rfl
  · exact ((h.move (emit_ev_move w e)).moves hm).mono fun _ hx => Or.inl hx

theorem Good.steps {U : Nat → Prop} {w : World} (h : Good U w) (evs : List Ev) (hn : (opIds evs).Nodup)
    (hu : ∀ id ∈ opIds evs, ¬ U id) : Good (fun x => U x ∨ x ∈ opIds evs) (evs.foldl World.step w) := by
  induction evs generalizing w U with
  | nil => exact h.mono fun _ hx => Or.inl hx
  | cons e t ih =>
    simp only [List.foldl_cons]
    have hcons : opIds (e :: t) = (match evOpId e with | some id => id :: opIds t | none => opIds t) := by
      unfold opIds; rw [List.filterMap_cons]; cases evOpId e <;> rfl
    have h1 := h.step e (fun id hid => hu id (by rw [hcons, hid]; exact List.mem_cons_self))
    have hn' : (opIds t).Nodup := by
      rw [hcons] at hn
      cases he : evOpId e with
      | none => rw [he] at hn; exact hn
      | some id => rw [he] at hn; exact (List.nodup_cons.1 hn).2
    have hu' : ∀ id ∈ opIds t, ¬ (U id ∨ evOpId e = some id) := by
      intro id hid hor
      rcases hor with hor | hor
      · refine hu id ?_ hor
        rw [hcons]; cases evOpId e with
        | none => exact hid
        | some j => exact List.mem_cons_of_mem _ hid
      · rw [hcons, hor] at hn
        exact (List.nodup_cons.1 hn).1 hid
    refine (ih h1 hn' hu').mono ?_
    rintro x ((hx | hx) | hx)
    · exact Or.inl hx
    · right; rw [hcons, hx]; exact List.mem_cons_self
    · right; rw [hcons]; cases evOpId e with
      | none => exact hx
      | some j => exact List.mem_cons_of_mem _ hx

/-! ## who logs a `DONE` line -/

theorem Move.doneCount_other {t : Option Nat} {w w' : World} (m : Move t w w') (id : Nat) (h : t ≠ some id) :
    doneCount id w'.out = doneCount id w.out := by
  have one : ∀ o : Obs, isDone id o = false → w'.out = w.out ++ [o] → doneCount id w'.out = doneCount id w.out := by
    intro o ho e
    unfold doneCount
    rw [e, List.countP_append]
    simp [List.countP_cons, ho]
  cases m with
  | cmsg m q hq queue ops pid out aw slots => exact (doneCount_neutral out id).1
  | cpkt p aid slot pre post wf haid haw hpre aw queue ops pid out slots => exact (doneCount_neutral out id).1
  | drop queue aw ops pid out slots => exact (doneCount_neutral out id).1
  | finish j st hst ops queue aw pid slots out =>
    have hj : j ≠ id := fun e => h (by rw [e])
    rcases out with e | ⟨r, e⟩ | ⟨e, _⟩
    · rw [e]
    · exact one _ (by simp [isDone, hj]) e
    · exact one _ rfl e
  | send j st m s k hst shape ops queue mslot aw pid slotNew slots out msgok => rw [out]

theorem Moves.doneCount_other {A : Option Nat → Prop} {w w' : World} (m : Moves A w w') (id : Nat)
    (h : ¬ A (some id)) : doneCount id w'.out = doneCount id w.out := by
  induction m with
  | refl => rfl
  | cons ht hm _ ih => rw [ih, hm.doneCount_other id (fun e => h (e ▸ ht))]

/-- a move of operation `id` logs at most one `DONE id`, and then the operation was in the table and has left it -/
theorem Move.doneCount_own {w w' : World} {id : Nat} (m : Move (some id) w w') (hi : OpsInv w) :
    doneCount id w'.out = doneCount id w.out ∨
    (doneCount id w'.out = doneCount id w.out + 1 ∧ (w.opSt id).isSome ∧ w'.opSt id = none) := by
  cases m with
  | finish _ st hst ops queue aw pid slots out =>
    rcases out with e | ⟨r, e⟩ | ⟨e, _⟩
    · left; rw [e]
    · right
      refine ⟨?_, by rw [hst]; rfl, ?_⟩
      · unfold doneCount
        rw [e, List.countP_append]
        simp [List.countP_cons, isDone]
      · unfold opSt; rw [ops]; exact lookupFirst_eraseFirst_self id w.ops hi.nodup
    · left
      unfold doneCount
      rw [e, List.countP_append]
      simp [List.countP_cons, isDone]
  | send _ st m s k hst shape ops queue mslot aw pid slotNew slots out msgok => left; rw [out]

/-! ## what a poll of a handle future logs -/

theorem sendAwait_out (w : World) (m : Msg) (id s : Nat) (k : Wait) :
    (w.sendAwait m id s k).out = w.out ∨ (w.sendAwait m id s k).out = w.out ++ [.done id (.err .contextExited)] := by
  by_cases hc : w.hasCtx = true
  · obtain ⟨wk, qr, e⟩ := User.sendAwait_ctx w m id s k hc
    left; rw [e]
  · right; rw [User.sendAwait_no_ctx w m id s k (by simpa using hc)]; simp

/-- the first poll of a future logs nothing (the message is queued) or a failure -/
theorem startOp_out (w : World) (id : Nat) (req : Req) :
    (w.startOp id req).out = w.out ∨ ∃ k, (w.startOp id req).out = w.out ++ [.done id (.err k)] := by
  have hsa : ∀ (w0 : World) (m : Msg) (s : Nat) (k : Wait), w0.out = w.out →
      (w0.sendAwait m id s k).out = w.out ∨ ∃ k', (w0.sendAwait m id s k).out = w.out ++ [.done id (.err k')] := by
    intro w0 m s k h0
    rcases sendAwait_out w0 m id s k with h | h
    · left; rw [h, h0]
    · right; exact ⟨_, by rw [h, h0]⟩
  cases req with
  | publish t =>
    by_cases hq : t.qos = 0
    · rw [User.startOp_publish0 w id t hq]
      split
      · right; exact ⟨.codecError, by simp⟩
      · exact hsa _ _ _ _ rfl
    · rw [User.startOp_publish12 w id t hq]
      split
      · right; exact ⟨.codecError, by simp [allocPid]⟩
      · exact hsa _ _ _ _ rfl
  | subscribe t =>
    rw [User.startOp_subscribe]
    simp only
    split
    · right; exact ⟨.codecError, by simp [allocPid, allocSub]⟩
    · cases hm : World.sendMsg _ _ with
      | none => right; exact ⟨.contextExited, by simp [allocPid, allocSub, dropChanRx, setChan]⟩
      | some w3 => left; simp [(sendMsg_out hm).1, allocPid, allocSub, setChan]
  | unsubscribe t =>
    rw [User.startOp_unsubscribe]
    split
    · right; exact ⟨.codecError, by simp [allocPid]⟩
    · exact hsa _ _ _ _ rfl
  | ping => rw [User.startOp_ping]; exact hsa _ _ _ _ rfl
  | disconnect t => rw [User.startOp_disconnect]; exact hsa _ _ _ _ rfl

/-- **what one poll of a handle future can log**: nothing; or a failure (`DONE id (err _)`); or it is resumed with
    the value `v` found in its oneshot, where `v` is "written" for a fire-and-forget operation or a packet the
    operation accepts; or (packet of the wrong type) the `unreachable` panic -/
theorem pollOp_out_cases (w : World) (id : Nat) :
    (w.pollOp id).out = w.out ∨ (∃ k, (w.pollOp id).out = w.out ++ [.done id (.err k)]) ∨
    (∃ s k v, w.opSt id = some (.wait s k) ∧ w.slot s = some (.full v) ∧ w.pollOp id = w.resumeOp id s k v ∧
      ((v = .unit ∧ k = .ff) ∨ ∃ p, v = .pkt p ∧ Wait.accepts k p = true)) ∨
    (w.pollOp id).out = w.out ++ [.panic (.op id) "unreachable"] := by
  unfold pollOp
  cases hop : w.opSt id with
  | none => exact Or.inl rfl
  | some st =>
    cases st with
    | fresh h req =>
      rcases startOp_out w id req with h | h
      · exact Or.inl h
      · exact Or.inr (Or.inl h)
    | wait s k =>
      simp only
      cases hs : w.slot s with
      | none => exact Or.inl rfl
      | some sl =>
        cases sl with
        | empty => exact Or.inl rfl
        | closed => exact Or.inr (Or.inl ⟨.contextExited, by simp [clearSlot]⟩)
        | full v =>
          simp only
          cases v with
          | errSize => exact Or.inr (Or.inl ⟨.maximumPacketSizeExceeded, by simp [resumeOp, clearSlot]⟩)
          | errQuota => exact Or.inr (Or.inl ⟨.quotaExceeded, by simp [resumeOp, clearSlot]⟩)
          | unit =>
            by_cases hk : k = .ff
            · exact Or.inr (Or.inr (Or.inl ⟨s, k, _, rfl, hs, rfl, Or.inl ⟨rfl, hk⟩⟩))
            · refine Or.inr (Or.inl ⟨.internalError, ?_⟩)
              cases k <;> first | exact absurd rfl hk | simp [resumeOp, clearSlot]
          | pkt p =>
            cases ha : Wait.accepts k p with
            | true => exact Or.inr (Or.inr (Or.inl ⟨s, k, _, rfl, hs, rfl, Or.inr ⟨p, rfl, ha⟩⟩))
            | false => exact Or.inr (Or.inr (Or.inr (resumeOp_panic w id s k p ha).1))

/-! ## a oneshot is filled with a packet only while registered under the packet's own action identifier -/

/-- moves that are not steps of a handle future change a oneshot only while it is empty -/
theorem Move.slot_stable {w w' : World} (m : Move none w w') (s : Nat) (x : Slot) (hx : x ≠ .empty)
    (hs : w.slot s = some x) : w'.slot s = some x := by
  have key : ∀ P, SlotRel P w w' → w'.slot s = some x := by
    intro P h
    rcases h s with e | ⟨e, _⟩
    · rw [e]; exact hs
    · rw [hs] at e; simp only [Option.some.injEq] at e; exact absurd e hx
  cases m with
  | cmsg m q hq queue ops pid out aw slots => exact key _ slots
  | cpkt p aid slot pre post wf haid haw hpre aw queue ops pid out slots => exact key _ slots
  | drop queue aw ops pid out slots => exact key _ slots

theorem Moves.slot_stable {A : Option Nat → Prop} (hA : ∀ t, A t → t = none) {w w' : World} (m : Moves A w w')
    (s : Nat) (x : Slot) (hx : x ≠ .empty) (hs : w.slot s = some x) : w'.slot s = some x := by
  induction m with
  | refl => exact hs
  | cons ht hm _ ih =>
    have := hA _ ht; subst this
    exact ih (hm.slot_stable s x hx hs)

/-- **Only its own acknowledgement fills an operation's oneshot.** If, during moves that are not steps of a handle
    future (a poll of the context task, a script event), the empty oneshot `s` comes to hold the packet `p`, then
    at that moment `p` was a well-formed acknowledgement just handled by the context, `s` was registered in
    `awaiting_ack` under `p`'s own action identifier `aid` (its type and packet identifier), and it was the first
    waiter registered under `aid`. -/
theorem Moves.filled {A : Option Nat → Prop} (hA : ∀ t, A t → t = none) {w w' : World} (m : Moves A w w')
    (s : Nat) (p : RxPacket) (hs : w.slot s = some .empty) (hs' : w'.slot s = some (.full (.pkt p))) :
    ∃ w1 aid pre post, Moves A w w1 ∧ p.wf ∧ rxActionId p = some aid ∧
      w1.c.awaiting = pre ++ (aid, s) :: post ∧ aid ∉ pre.map (·.1) ∧ w1.slot s = some .empty := by
  induction m with
  | refl => rw [hs] at hs'; cases hs'
  | @cons t a b c ht hm hrest ih =>
    have := hA _ ht; subst this
    -- does this move change the oneshot?
    cases hb : b.slot s with
    | none =>
      exfalso
      cases hm with
      | cmsg m q hq queue ops pid out aw slots =>
        rcases slots s with e | ⟨_, e | ⟨v, e, _⟩⟩ <;> rw [hb] at e
        · rw [hs] at e; cases e
        · cases e
        · cases e
      | cpkt p0 aid slot pre post wf haid haw hpre aw queue ops pid out slots =>
        rcases slots s with e | ⟨_, e | ⟨v, e, _⟩⟩ <;> rw [hb] at e
        · rw [hs] at e; cases e
        · cases e
        · cases e
      | drop queue aw ops pid out slots =>
        rcases slots s with e | ⟨_, e | ⟨v, e, _⟩⟩ <;> rw [hb] at e
        · rw [hs] at e; cases e
        · cases e
        · cases e
    | some x =>
      cases x with
      | empty =>
        obtain ⟨w1, aid, pre, post, h1, h2, h3, h4, h5, h6⟩ := ih hb hs'
        exact ⟨w1, aid, pre, post, .cons ht hm h1, h2, h3, h4, h5, h6⟩
      | closed =>
        have := Moves.slot_stable hA hrest s .closed (by intro e; cases e) hb
        rw [this] at hs'; cases hs'
      | full v =>
        have := Moves.slot_stable hA hrest s (.full v) (by intro e; cases e) hb
        rw [this] at hs'
        simp only [Option.some.injEq, Slot.full.injEq] at hs'
        subst hs'
        cases hm with
        | cmsg m q hq queue ops pid out aw slots =>
          rcases slots s with e | ⟨_, e | ⟨v, e, _, hv⟩⟩ <;> rw [hb] at e
          · rw [hs] at e; cases e
          · cases e
          · simp only [Option.some.injEq, Slot.full.injEq] at e
            exact absurd e.symm (hv p)
        | cpkt p0 aid slot pre post wf haid haw hpre aw queue ops pid out slots =>
          rcases slots s with e | ⟨_, e | ⟨v, e, rfl, rfl⟩⟩ <;> rw [hb] at e
          · rw [hs] at e; cases e
          · cases e
          · simp only [Option.some.injEq, Slot.full.injEq, SlotVal.pkt.injEq] at e
            subst e
            exact ⟨a, aid, pre, post, .refl a, wf, haid, haw, hpre, hs⟩
        | drop queue aw ops pid out slots =>
          rcases slots s with e | ⟨_, e | ⟨v, e, hf⟩⟩ <;> rw [hb] at e
          · rw [hs] at e; cases e
          · cases e
          · exact hf.elim

/-! ## reusing an operation id once the context owns nothing of its earlier use -/

/-- an `op` event whose id may have been used before, provided the context owns no oneshot of that id any more -/
theorem KInv.addOp_clean {U : Nat → Prop} {w w' : World} {id hd : Nat} {req : Req} (h : KInv U w)
    (a : AddOp id hd req w w') (h0 : 2 * id ∉ ctxSlots w) (h1 : 2 * id + 1 ∉ ctxSlots w) :
    KInv (fun _ => True) w' := by
  have hcs : ctxSlots w' = ctxSlots w := by unfold ctxSlots; rw [a.queue, a.aw]
  have hold : ∀ j s k, (j, OpSt.wait s k) ∈ w'.ops → (j, OpSt.wait s k) ∈ w.ops := by
    intro j s k hm
    rw [a.ops] at hm
    simp only [List.mem_append, List.mem_singleton, Prod.mk.injEq] at hm
    rcases hm with hm | ⟨_, hm⟩
    · exact hm
    · cases hm
  refine ⟨?_, by rw [hcs]; exact h.nodup, ?_, ?_, ?_, fun _ _ _ => True.intro⟩
  · intro s hs
    rw [hcs] at hs
    refine ⟨True.intro, ?_⟩
    intro st hm
    rw [a.ops] at hm
    simp only [List.mem_append, List.mem_singleton, Prod.mk.injEq] at hm
    rcases hm with hm | ⟨e, _⟩
    · exact (h.own s hs).2 st hm
    · exfalso
      have : s = 2 * id ∨ s = 2 * id + 1 := by omega
      rcases this with rfl | rfl
      · exact h0 hs
      · exact h1 hs
  · intro m hm j k hop; rw [a.queue] at hm; exact h.qmsg m hm j k (hold _ _ _ hop)
  · intro aid s hm j k hop; rw [a.aw] at hm; exact h.awt aid s hm j k (hold _ _ _ hop)
  · intro j s k p hop hs; rw [a.slots] at hs; exact h.full j s k p (hold _ _ _ hop) hs

/-- the script event `e` does not issue an operation id while the context still owns a oneshot of that id -/
def CleanAt (w : World) (e : Ev) : Prop :=
  ∀ id, evOpId e = some id → 2 * id ∉ ctxSlots w ∧ 2 * id + 1 ∉ ctxSlots w

/-- the script, run from `w`, never issues an operation id while the context still owns a oneshot of an earlier
    use of that id (ids may be reused once nothing of the earlier use is queued or awaiting acknowledgement) -/
def Clean (w : World) : List Ev → Prop
  | [] => True
  | e :: t => CleanAt w e ∧ Clean (w.step e) t

theorem Good.step_clean {w : World} (h : Good (fun _ => True) w) (e : Ev) (hc : CleanAt w e) :
    Good (fun _ => True) (w.step e) := by
  rcases step_decomp w e with h0 | ⟨id, hd, req, w1, he, ha, hm⟩ | hm
  · rw [h0]; exact h
  · subst he
    have h1 := h.move (emit_ev_move w (.op id hd req))
    have hcs : ctxSlots (w.emit (.ev (.op id hd req))) = ctxSlots w := rfl
    obtain ⟨c0, c1⟩ := hc id rfl
    have h2 : Good (fun _ => True) w1 :=
      ⟨h1.ops.addOp ha, h1.kind.addOp_clean ha (hcs ▸ c0) (hcs ▸ c1), fun j => by rw [ha.out]; exact h1.noUnr j⟩
    exact h2.moves hm
  · exact (h.move (emit_ev_move w e)).moves hm

theorem Good.steps_clean {w : World} (h : Good (fun _ => True) w) (evs : List Ev) (hc : Clean w evs) :
    Good (fun _ => True) (evs.foldl World.step w) := by
  induction evs generalizing w with
  | nil => exact h
  | cons e t ih => exact ih (h.step_clean e hc.1) hc.2

/-- a script that issues every id at most once is clean -/
theorem clean_of_nodup {U : Nat → Prop} {w : World} (h : Good U w) (evs : List Ev) (hn : (opIds evs).Nodup)
    (hu : ∀ id ∈ opIds evs, ¬ U id) : Clean w evs := by
  induction evs generalizing w U with
  | nil => exact True.intro
  | cons e t ih =>
    have hcons : opIds (e :: t) = (match evOpId e with | some id => id :: opIds t | none => opIds t) := by
      unfold opIds; rw [List.filterMap_cons]; cases evOpId e <;> rfl
    have hfirst : ∀ id, evOpId e = some id → ¬ U id := fun id hid =>
      hu id (by rw [hcons, hid]; exact List.mem_cons_self)
    refine ⟨?_, ?_⟩
    · intro id hid
      have hnu := hfirst id hid
      constructor
      · intro hs
        have := (h.kind.own _ hs).1
        rw [show 2 * id / 2 = id by omega] at this
        exact hnu this
      · intro hs
        have := (h.kind.own _ hs).1
        rw [show (2 * id + 1) / 2 = id by omega] at this
        exact hnu this
    · have h1 := h.step e hfirst
      refine ih h1 ?_ ?_
      · rw [hcons] at hn
        cases he : evOpId e with
        | none => rw [he] at hn; exact hn
        | some id => rw [he] at hn; exact (List.nodup_cons.1 hn).2
      · intro id hid hor
        rcases hor with hor | hor
        · refine hu id ?_ hor
          rw [hcons]; cases evOpId e with
          | none => exact hid
          | some j => exact List.mem_cons_of_mem _ hid
        · rw [hcons, hor] at hn
          exact (List.nodup_cons.1 hn).1 hid

theorem cleanAt_iff (w : World) (e : Ev) :
    CleanAt w e ↔ (match evOpId e with
      | none => True
      | some id => 2 * id ∉ ctxSlots w ∧ 2 * id + 1 ∉ ctxSlots w) := by
  unfold CleanAt
  cases evOpId e with
  | none => simp
  | some id =>
    constructor
    · intro h; exact h id rfl
    · intro h j hj; cases hj; exact h

instance (w : World) (e : Ev) : Decidable (CleanAt w e) :=
  have : Decidable (match evOpId e with
      | none => True
      | some id => 2 * id ∉ ctxSlots w ∧ 2 * id + 1 ∉ ctxSlots w) := by
    cases evOpId e with
    | none => exact isTrue True.intro
    | some id => exact inferInstanceAs (Decidable (2 * id ∉ ctxSlots w ∧ 2 * id + 1 ∉ ctxSlots w))
  decidable_of_iff _ (cleanAt_iff w e).symm

instance instDecidableClean : (w : World) → (evs : List Ev) → Decidable (Clean w evs)
  | _, [] => isTrue True.intro
  | w, e :: t =>
    have := instDecidableClean (w.step e) t
    inferInstanceAs (Decidable (CleanAt w e ∧ Clean (w.step e) t))

end World
end Poster
