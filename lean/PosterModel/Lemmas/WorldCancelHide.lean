/-
  Lemmas/WorldCancelHide.lean — `hide id w` is the world `w` with everything that is private to the handle future of
  operation `id` erased: its entry in the operation table, its two oneshots (`2*id`, `2*id+1`) with their waker
  registrations, the `woken` / `held` flags of task `op id`, and the lines of the transcript that belong to that task.
  Every state-transforming function of `World` that does not act on behalf of task `op id` commutes with `hide id`
  (as long as a handle is alive, so that the sender counts never reach zero): for everybody else, the private
  state of the future of `id` does not exist.
-/
import PosterModel.Lemmas.WorldCancel

set_option linter.unusedVariables false
set_option linter.unusedSimpArgs false

namespace Poster
open Framing
namespace World
namespace W11

/-! ## what is private to operation `id` -/

/-- the script events that address task `op id` -/
def mineEv (id : Nat) : Ev → Bool
  | .op i _ _ => i == id
  | .poll (.op i) => i == id
  | .hold (.op i) => i == id
  | .release (.op i) => i == id
  | .drop (.op i) => i == id
  | _ => false

/-- the transcript lines of task `op id`: the markers of the events that address it, its completion, its panic -/
def mine (id : Nat) : Obs → Bool
  | .ev e => mineEv id e
  | .done i _ => i == id
  | .panic (.op i) _ => i == id
  | _ => false

/-- the transcript without the lines of task `op id` -/
def others (id : Nat) (out : List Obs) : List Obs := out.filter (fun o => !mine id o)

/-- the keys of the operation table, the oneshots and the tasks that do not belong to operation `id` -/
def keepK (id k : Nat) : Bool := decide (k ≠ id)
def keepS (id s : Nat) : Bool := decide (s / 2 ≠ id)
def keepT (id : Nat) (t : Task) : Bool := decide (t ≠ .op id)

@[simp] theorem keepK_true (id k : Nat) : keepK id k = true ↔ k ≠ id := by simp [keepK]
@[simp] theorem keepS_true (id s : Nat) : keepS id s = true ↔ s / 2 ≠ id := by simp [keepS]
@[simp] theorem keepT_true (id : Nat) (t : Task) : keepT id t = true ↔ t ≠ .op id := by simp [keepT]
@[simp] theorem keepK_false (id k : Nat) : keepK id k = false ↔ k = id := by simp [keepK]
@[simp] theorem keepS_false (id s : Nat) : keepS id s = false ↔ s / 2 = id := by simp [keepS]
@[simp] theorem keepT_false (id : Nat) (t : Task) : keepT id t = false ↔ t = .op id := by simp [keepT]

/-- `w` without the private state of the handle future of operation `id` -/
def hide (id : Nat) (w : World) : World :=
  { w with ops := w.ops.filter (fun x => keepK id x.1),
           slots := w.slots.filter (fun x => keepS id x.1),
           slotReg := w.slotReg.filter (keepS id),
           woken := w.woken.filter (keepT id),
           held := w.held.filter (keepT id),
           out := others id w.out }

/-! ## association lists and filters on keys -/

theorem lookupFirst_filter {β} (P : Nat → Bool) (k : Nat) (l : List (Nat × β)) (h : P k = true) :
    lookupFirst k (l.filter (fun x => P x.1)) = lookupFirst k l := by
  induction l with
  | nil => rfl
  | cons x t ih =>
    obtain ⟨a, b⟩ := x
    by_cases hp : P a = true
    · simp only [List.filter_cons, hp, ↓reduceIte, lookupFirst, ih]
    · have hne : a ≠ k := by intro e; subst e; exact hp h
      simp only [List.filter_cons, hp, Bool.false_eq_true, ↓reduceIte, lookupFirst, hne, ih]

theorem lookupFirst_filter_not {β} (P : Nat → Bool) (k : Nat) (l : List (Nat × β)) (h : P k = false) :
    lookupFirst k (l.filter (fun x => P x.1)) = none := by
  rw [User.lookupFirst_none_iff]
  intro hm
  obtain ⟨x, hx, rfl⟩ := List.mem_map.mp hm
  have := (List.mem_filter.mp hx).2
  rw [h] at this; cases this

theorem setAssoc_filter {β} (P : Nat → Bool) (k : Nat) (v : β) (l : List (Nat × β)) (h : P k = true) :
    setAssoc k v (l.filter (fun x => P x.1)) = (setAssoc k v l).filter (fun x => P x.1) := by
  induction l with
  | nil => simp [setAssoc, h]
  | cons x t ih =>
    obtain ⟨a, b⟩ := x
    by_cases hk : a = k
    · subst hk
      simp [setAssoc, List.filter_cons, h]
    · by_cases hp : P a = true
      · simp [setAssoc, List.filter_cons, hk, hp, ih]
      · simp [setAssoc, List.filter_cons, hk, hp, ih]

theorem setAssoc_filter_not {β} (P : Nat → Bool) (k : Nat) (v : β) (l : List (Nat × β)) (h : P k = false) :
    (setAssoc k v l).filter (fun x => P x.1) = l.filter (fun x => P x.1) := by
  induction l with
  | nil => simp [setAssoc, h]
  | cons x t ih =>
    obtain ⟨a, b⟩ := x
    by_cases hk : a = k
    · subst hk
      simp [setAssoc, List.filter_cons, h]
    · simp [setAssoc, List.filter_cons, hk, ih]

theorem eraseFirst_filter {β} (P : Nat → Bool) (k : Nat) (l : List (Nat × β)) (h : P k = true) :
    eraseFirst k (l.filter (fun x => P x.1)) = (eraseFirst k l).filter (fun x => P x.1) := by
  induction l with
  | nil => rfl
  | cons x t ih =>
    obtain ⟨a, b⟩ := x
    by_cases hk : a = k
    · subst hk
      simp [eraseFirst_cons, List.filter_cons, h]
    · by_cases hp : P a = true
      · simp [eraseFirst_cons, List.filter_cons, hk, hp, ih]
      · simp [eraseFirst_cons, List.filter_cons, hk, hp, ih]

theorem eraseFirst_filter_not {β} (P : Nat → Bool) (k : Nat) (l : List (Nat × β)) (h : P k = false) :
    (eraseFirst k l).filter (fun x => P x.1) = l.filter (fun x => P x.1) := by
  induction l with
  | nil => rfl
  | cons x t ih =>
    obtain ⟨a, b⟩ := x
    by_cases hk : a = k
    · subst hk
      simp [eraseFirst_cons, List.filter_cons, h]
    · simp [eraseFirst_cons, List.filter_cons, hk, ih]

theorem filter_snoc_keep {α} (p : α → Bool) (l : List α) (a : α) (h : p a = true) :
    (l ++ [a]).filter p = l.filter p ++ [a] := by simp [List.filter_append, h]

theorem filter_snoc_drop {α} (p : α → Bool) (l : List α) (a : α) (h : p a = false) :
    (l ++ [a]).filter p = l.filter p := by simp [List.filter_append, h]

theorem filter_filter_comm {α} (p q : α → Bool) (l : List α) :
    (l.filter p).filter q = (l.filter q).filter p := by
  simp only [List.filter_filter]
  apply List.filter_congr
  intro x _
  exact Bool.and_comm _ _

/-! ## projections -/

@[simp] theorem hide_cfg (id) (w : World) : (hide id w).cfg = w.cfg := rfl
@[simp] theorem hide_hasCtx (id) (w : World) : (hide id w).hasCtx = w.hasCtx := rfl
@[simp] theorem hide_ctxDropped (id) (w : World) : (hide id w).ctxDropped = w.ctxDropped := rfl
@[simp] theorem hide_task (id) (w : World) : (hide id w).task = w.task := rfl
@[simp] theorem hide_c (id) (w : World) : (hide id w).c = w.c := rfl
@[simp] theorem hide_rx (id) (w : World) : (hide id w).rx = w.rx := rfl
@[simp] theorem hide_reader (id) (w : World) : (hide id w).reader = w.reader := rfl
@[simp] theorem hide_readerReg (id) (w : World) : (hide id w).readerReg = w.readerReg := rfl
@[simp] theorem hide_queue (id) (w : World) : (hide id w).queue = w.queue := rfl
@[simp] theorem hide_queueReg (id) (w : World) : (hide id w).queueReg = w.queueReg := rfl
@[simp] theorem hide_handles (id) (w : World) : (hide id w).handles = w.handles := rfl
@[simp] theorem hide_ops (id) (w : World) : (hide id w).ops = w.ops.filter (fun x => keepK id x.1) := rfl
@[simp] theorem hide_slots (id) (w : World) :
    (hide id w).slots = w.slots.filter (fun x => keepS id x.1) := rfl
@[simp] theorem hide_slotReg (id) (w : World) :
    (hide id w).slotReg = w.slotReg.filter (keepS id) := rfl
@[simp] theorem hide_chans (id) (w : World) : (hide id w).chans = w.chans := rfl
@[simp] theorem hide_rsps (id) (w : World) : (hide id w).rsps = w.rsps := rfl
@[simp] theorem hide_streams (id) (w : World) : (hide id w).streams = w.streams := rfl
@[simp] theorem hide_pidCtr (id) (w : World) : (hide id w).pidCtr = w.pidCtr := rfl
@[simp] theorem hide_subCtr (id) (w : World) : (hide id w).subCtr = w.subCtr := rfl
@[simp] theorem hide_woken (id) (w : World) :
    (hide id w).woken = w.woken.filter (keepT id) := rfl
@[simp] theorem hide_held (id) (w : World) :
    (hide id w).held = w.held.filter (keepT id) := rfl
@[simp] theorem hide_written (id) (w : World) : (hide id w).written = w.written := rfl
@[simp] theorem hide_wirePend (id) (w : World) : (hide id w).wirePend = w.wirePend := rfl
@[simp] theorem hide_out (id) (w : World) : (hide id w).out = others id w.out := rfl
@[simp] theorem hide_bad (id) (w : World) : (hide id w).bad = w.bad := rfl

/-- a record built over the hidden lists is the `hide` of the record built over the full lists -/
theorem mk_hide (id : Nat) (cfg hasCtx ctxDropped task c rx reader readerReg queue queueReg handles)
    (ops : List (Nat × OpSt)) (slots : List (Nat × Slot)) (slotReg : List Nat) (chans rsps streams pidCtr subCtr)
    (woken held : List Task) (written wirePend) (out : List Obs) (bad) :
    (⟨cfg, hasCtx, ctxDropped, task, c, rx, reader, readerReg, queue, queueReg, handles,
      ops.filter (fun x => keepK id x.1), slots.filter (fun x => keepS id x.1),
      slotReg.filter (keepS id), chans, rsps, streams, pidCtr, subCtr,
      woken.filter (keepT id), held.filter (keepT id), written, wirePend,
      others id out, bad⟩ : World) =
    hide id ⟨cfg, hasCtx, ctxDropped, task, c, rx, reader, readerReg, queue, queueReg, handles, ops, slots,
      slotReg, chans, rsps, streams, pidCtr, subCtr, woken, held, written, wirePend, out, bad⟩ := rfl

/-! ## derived readers -/

@[simp] theorem chan_hide (id) (w : World) (c : Nat) : (hide id w).chan c = w.chan c := rfl
@[simp] theorem canWrite_hide (id) (w : World) (n : Nat) : (hide id w).canWrite n = w.canWrite n := rfl
@[simp] theorem chanRxAlive_hide (id) (w : World) (c : Nat) : (hide id w).chanRxAlive c = w.chanRxAlive c := rfl
@[simp] theorem chanRxAlive_hide' (id) (w : World) : (hide id w).chanRxAlive = w.chanRxAlive := rfl
@[simp] theorem loopFuel_hide (id) (w : World) : (hide id w).loopFuel = w.loopFuel := rfl

theorem slot_hide (id) (w : World) (s : Nat) (h : s / 2 ≠ id) : (hide id w).slot s = w.slot s :=
  lookupFirst_filter (keepS id) s w.slots (by simpa using h)

theorem slot_hide_mine (id) (w : World) (s : Nat) (h : s / 2 = id) : (hide id w).slot s = none :=
  lookupFirst_filter_not (keepS id) s w.slots (by simpa using h)

theorem opSt_hide (id) (w : World) (j : Nat) (h : j ≠ id) : (hide id w).opSt j = w.opSt j :=
  lookupFirst_filter (keepK id) j w.ops (by simpa using h)

theorem opSt_hide_mine (id) (w : World) : (hide id w).opSt id = none :=
  lookupFirst_filter_not (keepK id) id w.ops (by simp)

theorem mem_slotReg_hide (id) (w : World) (s : Nat) (h : s / 2 ≠ id) : s ∈ (hide id w).slotReg ↔ s ∈ w.slotReg := by
  simp [h]

theorem mem_woken_hide (id) (w : World) (t : Task) (h : t ≠ .op id) : t ∈ (hide id w).woken ↔ t ∈ w.woken := by
  simp [h]

theorem mem_held_hide (id) (w : World) (t : Task) (h : t ≠ .op id) : t ∈ (hide id w).held ↔ t ∈ w.held := by
  simp [h]

theorem senders_ne_zero_hide (id) (w : World) (h : w.handles ≠ []) : (hide id w).senders ≠ 0 :=
  senders_ne_zero_of_handles (w := hide id w) h

/-! ## transcripts -/

theorem others_append (id) (a b : List Obs) : others id (a ++ b) = others id a ++ others id b := by
  simp [others, List.filter_append]

theorem others_keep (id) (l : List Obs) (h : ∀ o ∈ l, mine id o = false) : others id l = l := by
  unfold others
  rw [List.filter_eq_self]
  intro o ho
  simp [h o ho]

theorem others_snoc_keep (id) (l : List Obs) (o : Obs) (h : mine id o = false) :
    others id (l ++ [o]) = others id l ++ [o] := by
  rw [others_append, others_keep id [o] (by simpa using h)]

theorem others_snoc_mine (id) (l : List Obs) (o : Obs) (h : mine id o = true) : others id (l ++ [o]) = others id l := by
  simp [others, List.filter_append, h]

theorem others_idem (id) (l : List Obs) : others id (others id l) = others id l := by
  simp [others, List.filter_filter]

/-- extensionality for `World` -/
theorem world_ext (a b : World) (h1 : a.cfg = b.cfg) (h2 : a.hasCtx = b.hasCtx) (h3 : a.ctxDropped = b.ctxDropped)
    (h4 : a.task = b.task) (h5 : a.c = b.c) (h6 : a.rx = b.rx) (h7 : a.reader = b.reader)
    (h8 : a.readerReg = b.readerReg) (h9 : a.queue = b.queue) (h10 : a.queueReg = b.queueReg)
    (h11 : a.handles = b.handles) (h12 : a.ops = b.ops) (h13 : a.slots = b.slots) (h14 : a.slotReg = b.slotReg)
    (h15 : a.chans = b.chans) (h16 : a.rsps = b.rsps) (h17 : a.streams = b.streams) (h18 : a.pidCtr = b.pidCtr)
    (h19 : a.subCtr = b.subCtr) (h20 : a.woken = b.woken) (h21 : a.held = b.held) (h22 : a.written = b.written)
    (h23 : a.wirePend = b.wirePend) (h24 : a.out = b.out) (h25 : a.bad = b.bad) : a = b := by
  cases a; cases b; simp_all

/-! ## primitives -/

theorem emit_hide (id) (w : World) (o : Obs) (h : mine id o = false) : (hide id w).emit o = hide id (w.emit o) := by
  simp only [emit, hide, others_snoc_keep id _ o h]

theorem emit_hide_mine (id) (w : World) (o : Obs) (h : mine id o = true) : hide id (w.emit o) = hide id w := by
  simp only [emit, hide, others_snoc_mine id _ o h]

theorem wake_hide (id) (w : World) (t : Task) (h : t ≠ .op id) : (hide id w).wake t = hide id (w.wake t) := by
  by_cases hm : t ∈ w.woken
  · have hm' : t ∈ (hide id w).woken := (mem_woken_hide id w t h).mpr hm
    rw [wake_of_mem _ _ hm, wake_of_mem _ _ hm']
  · have hm' : t ∉ (hide id w).woken := fun x => hm ((mem_woken_hide id w t h).mp x)
    rw [wake_eq, wake_eq]
    simp only [hm, hm', ↓reduceIte]
    apply world_ext <;> simp [List.filter_append, h]

theorem wake_hide_mine (id) (w : World) : hide id (w.wake (.op id)) = hide id w := by
  by_cases hm : Task.op id ∈ w.woken
  · rw [wake_of_mem _ _ hm]
  · rw [wake_eq]
    simp only [hm, ↓reduceIte]
    apply world_ext <;> simp [List.filter_append]

theorem unwake_hide (id) (w : World) (t : Task) : (hide id w).unwake t = hide id (w.unwake t) := by
  simp only [unwake, hide, filter_filter_comm]

theorem setSlot_hide (id) (w : World) (s : Nat) (v : Slot) (h : s / 2 ≠ id) :
    (hide id w).setSlot s v = hide id (w.setSlot s v) := by
  simp only [setSlot, hide]
  rw [setAssoc_filter (keepS id) s v w.slots (by simpa using h)]

theorem setSlot_hide_mine (id) (w : World) (s : Nat) (v : Slot) (h : s / 2 = id) :
    hide id (w.setSlot s v) = hide id w := by
  simp only [setSlot, hide]
  rw [setAssoc_filter_not (keepS id) s v w.slots (by simpa using h)]

theorem setChan_hide (id) (w : World) (c : Nat) (v : Chan) : (hide id w).setChan c v = hide id (w.setChan c v) := rfl

theorem dropChanRx_hide (id) (w : World) (c : Nat) : (hide id w).dropChanRx c = hide id (w.dropChanRx c) := rfl

theorem filter_ne_hide (id s : Nat) (l : List Nat) :
    (l.filter (keepS id)).filter (fun x => decide (x ≠ s)) =
      (l.filter (fun x => decide (x ≠ s))).filter (keepS id) :=
  filter_filter_comm _ _ _

theorem filter_ne_mine (id s : Nat) (l : List Nat) (h : s / 2 = id) :
    (l.filter (fun x => decide (x ≠ s))).filter (keepS id) =
      l.filter (keepS id) := by
  simp only [List.filter_filter]
  apply List.filter_congr
  intro x _
  by_cases hx : x = s
  · subst hx; simp [h]
  · simp [hx]

theorem clearSlot_hide (id) (w : World) (s : Nat) (h : s / 2 ≠ id) :
    (hide id w).clearSlot s = hide id (w.clearSlot s) := by
  simp only [clearSlot, hide]
  rw [eraseFirst_filter (keepS id) s w.slots (by simpa using h), filter_ne_hide]

theorem clearSlot_hide_mine (id) (w : World) (s : Nat) (h : s / 2 = id) :
    hide id (w.clearSlot s) = hide id w := by
  simp only [clearSlot, hide]
  rw [eraseFirst_filter_not (keepS id) s w.slots (by simpa using h), filter_ne_mine id s _ h]

theorem senderGone_of_handles (w : World) (h : w.handles ≠ []) : w.senderGone = w :=
  senderGone_of_pos w (senders_ne_zero_of_handles h)

theorem allocPid_hide_snd (id) (w : World) : (hide id w).allocPid.2 = hide id w.allocPid.2 := rfl
theorem allocSub_hide_snd (id) (w : World) : (hide id w).allocSub.2 = hide id w.allocSub.2 := rfl

theorem others_wire (id) (ps : List Bytes) : others id (ps.map Obs.wire) = ps.map Obs.wire :=
  others_keep id _ (by intro o ho; obtain ⟨b, _, rfl⟩ := List.mem_map.mp ho; rfl)

theorem flushWire_hide (id) (w : World) : (hide id w).flushWire = hide id w.flushWire := by
  unfold flushWire
  simp only [hide_wirePend]
  cases h : frames w.wirePend with
  | none =>
    simp only [hide, others_snoc_keep id _ (Obs.wraw w.wirePend) rfl]
  | some r =>
    obtain ⟨ps, tl⟩ := r
    simp only [hide, others_append, others_wire]

theorem writeBytes_hide (id) (w : World) (bs : Bytes) : (hide id w).writeBytes bs = hide id (w.writeBytes bs) := by
  cases h : w.canWrite bs.length
  · simp only [writeBytes, canWrite_hide, h, Bool.false_eq_true, ↓reduceIte]
    exact flushWire_hide id
      { w with written := w.written + (w.cfg.wlimit.getD 0 - w.written),
               wirePend := w.wirePend ++ bs.take (w.cfg.wlimit.getD 0 - w.written) }
  · simp only [writeBytes, canWrite_hide, h, ↓reduceIte]
    exact flushWire_hide id { w with written := w.written + bs.length, wirePend := w.wirePend ++ bs }

/-! ## channel effects -/

/-- a oneshot that is empty receives its final state `x` (a value, or "sender dropped"); the registered waker of
    the receiving future, if any, is consumed and the future flagged -/
def fillSlot (w : World) (s : Nat) (x : Slot) : World :=
  { w with slots := setAssoc s x w.slots,
           slotReg := if s ∈ w.slotReg then w.slotReg.filter (fun y => decide (y ≠ s)) else w.slotReg,
           woken := if s ∈ w.slotReg then (if Task.op (s / 2) ∈ w.woken then w.woken else w.woken ++ [.op (s / 2)])
                    else w.woken }

theorem sendSlot_eq (w : World) (s : Nat) (v : SlotVal) :
    w.sendSlot s v = if w.slot s = some .empty then fillSlot w s (.full v) else w := by
  by_cases he : w.slot s = some .empty
  · by_cases hr : s ∈ w.slotReg <;> simp [sendSlot, he, hr, setSlot, wake_eq, fillSlot]
  · have : sendSlot w s v = w := by
      unfold sendSlot
      split
      · rename_i h; exact absurd h he
      · rfl
    simp [this, he]

theorem dropSlotTx_eq' (w : World) (s : Nat) :
    w.dropSlotTx s = if w.slot s = some .empty then fillSlot w s .closed else w := by
  by_cases he : w.slot s = some .empty
  · by_cases hr : s ∈ w.slotReg <;> simp [dropSlotTx, he, hr, setSlot, wake_eq, fillSlot]
  · have : dropSlotTx w s = w := by
      unfold dropSlotTx
      split
      · rename_i h; exact absurd h he
      · rfl
    simp [this, he]

theorem fillSlot_hide (id) (w : World) (s : Nat) (x : Slot) (h : s / 2 ≠ id) :
    fillSlot (hide id w) s x = hide id (fillSlot w s x) := by
  have hop : Task.op (s / 2) ≠ Task.op id := by intro e; cases e; exact h rfl
  have hmem : s ∈ w.slotReg.filter (keepS id) ↔ s ∈ w.slotReg := by simp [h]
  have hwk : Task.op (s / 2) ∈ w.woken.filter (keepT id) ↔ Task.op (s / 2) ∈ w.woken := by simp [hop]
  apply world_ext <;> simp only [fillSlot, hide_cfg, hide_hasCtx, hide_ctxDropped, hide_task, hide_c, hide_rx,
    hide_reader, hide_readerReg, hide_queue, hide_queueReg, hide_handles, hide_ops, hide_slots, hide_slotReg,
    hide_chans, hide_rsps, hide_streams, hide_pidCtr, hide_subCtr, hide_woken, hide_held, hide_written,
    hide_wirePend, hide_out, hide_bad, hmem, hwk]
  · exact setAssoc_filter (keepS id) s x w.slots (by simpa using h)
  · by_cases hr : s ∈ w.slotReg
    · simp only [hr, ↓reduceIte]
      exact filter_ne_hide id s _
    · simp only [hr, ↓reduceIte]
  · by_cases hr : s ∈ w.slotReg
    · simp only [hr, ↓reduceIte]
      by_cases hm : Task.op (s / 2) ∈ w.woken
      · simp only [hm, ↓reduceIte]
      · simp only [hm, ↓reduceIte]
        exact (filter_snoc_keep _ _ _ (by simpa using hop)).symm
    · simp only [hr, ↓reduceIte]

theorem fillSlot_hide_mine (id) (w : World) (s : Nat) (x : Slot) (h : s / 2 = id) :
    hide id (fillSlot w s x) = hide id w := by
  apply world_ext <;> simp only [fillSlot, hide_cfg, hide_hasCtx, hide_ctxDropped, hide_task, hide_c, hide_rx,
    hide_reader, hide_readerReg, hide_queue, hide_queueReg, hide_handles, hide_ops, hide_slots, hide_slotReg,
    hide_chans, hide_rsps, hide_streams, hide_pidCtr, hide_subCtr, hide_woken, hide_held, hide_written,
    hide_wirePend, hide_out, hide_bad]
  · exact setAssoc_filter_not (keepS id) s x w.slots (by simpa using h)
  · split
    · exact filter_ne_mine id s _ h
    · rfl
  · split
    · split
      · rfl
      · rw [h]; exact filter_snoc_drop _ _ _ (by simp)
    · rfl

/-- **completing a oneshot commutes with hiding — whoever owns it**: for a oneshot of another operation both sides
    do the same; for a oneshot of operation `id` the hidden world has no such oneshot (nothing happens), and whatever
    happens in the full world (the slot is filled, task `op id` is flagged) is hidden -/
theorem sendSlot_hide (id) (w : World) (s : Nat) (v : SlotVal) :
    (hide id w).sendSlot s v = hide id (w.sendSlot s v) := by
  rw [sendSlot_eq, sendSlot_eq]
  by_cases hs : s / 2 = id
  · rw [slot_hide_mine id w s hs]
    simp only [reduceCtorEq, ↓reduceIte]
    split
    · exact (fillSlot_hide_mine id w s _ hs).symm
    · rfl
  · rw [slot_hide id w s hs]
    split
    · exact fillSlot_hide id w s _ hs
    · rfl

/-- the same for a oneshot whose sender is dropped -/
theorem dropSlotTx_hide (id) (w : World) (s : Nat) : (hide id w).dropSlotTx s = hide id (w.dropSlotTx s) := by
  rw [dropSlotTx_eq', dropSlotTx_eq']
  by_cases hs : s / 2 = id
  · rw [slot_hide_mine id w s hs]
    simp only [reduceCtorEq, ↓reduceIte]
    split
    · exact (fillSlot_hide_mine id w s _ hs).symm
    · rfl
  · rw [slot_hide id w s hs]
    split
    · exact fillSlot_hide id w s _ hs
    · rfl

theorem deliver_hide (id) (w : World) (c : Nat) (x : PublishRx) :
    (hide id w).deliver c x = hide id (w.deliver c x) := by
  unfold deliver
  rw [chan_hide]
  cases h : w.chan c with
  | none => rfl
  | some ch =>
    cases hr : ch.reg
    · simp only [setChan_hide, hr, Bool.false_eq_true, ↓reduceIte]
    · simp only [setChan_hide, hr, ↓reduceIte]
      exact wake_hide id _ _ (by simp)

theorem dropChanTx_hide (id) (w : World) (c : Nat) : (hide id w).dropChanTx c = hide id (w.dropChanTx c) := by
  unfold dropChanTx
  rw [chan_hide]
  cases h : w.chan c with
  | none => rfl
  | some ch =>
    cases hr : ch.reg
    · simp only [setChan_hide, hr, Bool.false_eq_true, ↓reduceIte]
    · simp only [setChan_hide, hr, ↓reduceIte]
      exact wake_hide id _ _ (by simp)

theorem applyEff_hide (id) (w : World) (e : Eff) : (hide id w).applyEff e = hide id (w.applyEff e) := by
  cases e with
  | write bs => exact writeBytes_hide id w bs
  | send s v => exact sendSlot_hide id w s v
  | dropSlot s => exact dropSlotTx_hide id w s
  | deliver c x => exact deliver_hide id w c x
  | dropChan c => exact dropChanTx_hide id w c

theorem applyEffs_hide (id) (w : World) (es : List Eff) : (hide id w).applyEffs es = hide id (w.applyEffs es) := by
  unfold applyEffs
  induction es generalizing w with
  | nil => rfl
  | cons e t ih => simp only [List.foldl_cons, applyEff_hide, ih]

/-- **the handlers never see the hidden state**: running a handler of the context commutes with hiding -/
theorem runHandler_hide (id) (w : World) (h : Bool → Ctx × List Eff × Flow) :
    (hide id w).runHandler h = (hide id (w.runHandler h).1, (w.runHandler h).2) := by
  rw [runHandler_eq, runHandler_eq]
  simp only [canWrite_hide]
  generalize h (w.canWrite (writeNeed (h true).2.1)) = r
  exact congrArg (fun x => (x, r.2.2)) (applyEffs_hide id { w with c := r.1 } r.2.1)

/-! ## the context task -/

theorem finish_hide (id) (w : World) (call : Call) (r : RetRes) :
    (hide id w).finish call r = hide id (w.finish call r) := by
  unfold finish
  exact emit_hide id { w with task := .none } _ rfl

/-- normalise the projections of `hide id w` (also inside record literals) -/
syntax "w11_hdn" (Lean.Parser.Tactic.location)? : tactic
macro_rules
  | `(tactic| w11_hdn $[$loc]?) => `(tactic| simp only [hide_cfg, hide_hasCtx, hide_ctxDropped, hide_task, hide_c, hide_rx,
      hide_reader, hide_readerReg, hide_queue, hide_queueReg, hide_handles, hide_ops, hide_slots, hide_slotReg,
      hide_chans, hide_rsps, hide_streams, hide_pidCtr, hide_subCtr, hide_woken, hide_held, hide_written,
      hide_wirePend, hide_out, hide_bad, chan_hide, canWrite_hide, chanRxAlive_hide, chanRxAlive_hide',
      loopFuel_hide] $[$loc]?)

/-- **one iteration of the `select!` loop of `run()` commutes with hiding** (a handle being alive) -/
theorem runIter_hide (id) (w : World) (hh : w.handles ≠ []) :
    runIter (hide id w) =
      match runIter w with
      | .inl x => .inl (hide id x)
      | .inr x => .inr (hide id x) := by
  have hs : w.senders ≠ 0 := senders_ne_zero_of_handles hh
  have hs' : (hide id w).senders ≠ 0 := senders_ne_zero_hide id w hh
  unfold runIter
  simp only [hs, hs', ↓reduceIte]
  w11_hdn
  cases hq : w.queue with
  | cons m q =>
    simp only [mk_hide, runHandler_hide]
    generalize World.runHandler _ _ = r
    obtain ⟨w1, fl⟩ := r
    cases fl <;> simp only [finish_hide]
  | nil =>
    simp only
    generalize pollNext w.rx w.reader = r
    obtain ⟨rx', rd', res⟩ := r
    cases res with
    | none => simp only [mk_hide, finish_hide]
    | pending =>
      by_cases hr : rd' = []
      · simp only [hr, ↓reduceIte, mk_hide]
      · simp only [hr, ↓reduceIte, mk_hide]
        exact congrArg Sum.inr (wake_hide id _ _ (by simp))
    | item fr =>
      simp only [mk_hide]
      cases hd : decodeRx fr with
      | err => simp only [finish_hide]
      | panic => exact congrArg Sum.inr (emit_hide id _ _ rfl)
      | ok pk =>
        simp only [hide_c, chanRxAlive_hide', runHandler_hide]
        generalize World.runHandler _ _ = r
        obtain ⟨w1, fl⟩ := r
        cases fl <;> simp only [finish_hide]

theorem runIter_handles {w x : World} (h : runIter w = .inl x) : x.handles = w.handles :=
  (runCont_frame (runIter_inl h)).2.1

theorem runLoop_hide (id) (f : Nat) (w : World) (hh : w.handles ≠ []) :
    runLoop f (hide id w) = hide id (runLoop f w) := by
  induction f generalizing w with
  | zero => rfl
  | succ f ih =>
    rw [runLoop_succ, runLoop_succ, runIter_hide id w hh]
    cases h : runIter w with
    | inl x => exact ih x (by rw [runIter_handles h]; exact hh)
    | inr x => rfl

theorem foldl_writeBytes_hide (id) (pkts : List Bytes) (w : World) :
    pkts.foldl (fun w x => w.writeBytes x) (hide id w) = hide id (pkts.foldl (fun w x => w.writeBytes x) w) := by
  induction pkts generalizing w with
  | nil => rfl
  | cons x t ih => simp only [List.foldl_cons, writeBytes_hide, ih]

theorem pollRun_hide (id) (w : World) (started : Bool) (hh : w.handles ≠ []) :
    (hide id w).pollRun started = hide id (w.pollRun started) := by
  cases started with
  | true => simp only [pollRun, ↓reduceIte, loopFuel_hide, runLoop_hide id _ w hh]
  | false =>
    simp only [pollRun, Bool.false_eq_true, ↓reduceIte]
    w11_hdn
    simp only [mk_hide, applyEffs_hide, canWrite_hide]
    split
    · simp only [foldl_writeBytes_hide, loopFuel_hide]
      exact runLoop_hide id _ _ (by rw [(foldl_writeBytes_frame _ _).2.2.2.1]; simpa using hh)
    · simp only [writeBytes_hide, finish_hide]

theorem awaitFirst_hide (id) (w : World) (call : Call) (t : ConnectTx) (a : AuthTx) :
    (hide id w).awaitFirst call t a = hide id (w.awaitFirst call t a) := by
  unfold awaitFirst
  w11_hdn
  generalize pollNext w.rx w.reader = r
  obtain ⟨rx', rd', res⟩ := r
  cases res with
  | none => simp only [mk_hide, finish_hide]
  | pending =>
    by_cases hr : rd' = []
    · simp only [hr, ↓reduceIte, mk_hide]
    · simp only [hr, ↓reduceIte, mk_hide]
      exact wake_hide id _ _ (by simp)
  | item fr =>
    simp only [mk_hide]
    cases hd : decodeRx fr with
    | err => simp only [finish_hide]
    | panic => exact emit_hide id _ _ rfl
    | ok pk =>
      cases pk <;> simp only [finish_hide]
      case connack k =>
        by_cases h1 : k.reason ≥ 128
        · simp only [h1, ↓reduceIte]
        · by_cases h2 : (!k.subIdAvail) = true
          · simp only [h1, h2, ↓reduceIte]
            exact emit_hide id _ _ rfl
          · simp only [h1, h2, Bool.false_eq_true, ↓reduceIte]

theorem hide_ite (id) (c : Prop) [Decidable c] (x y : World) :
    hide id (if c then x else y) = if c then hide id x else hide id y := apply_ite _ _ _ _

theorem pollConnect_hide (id) (w : World) (call : Call) (t : ConnectTx) (a : AuthTx) (started : Bool) :
    (hide id w).pollConnect call t a started = hide id (w.pollConnect call t a started) := by
  cases started with
  | true => simp only [pollConnect, ↓reduceIte, awaitFirst_hide]
  | false =>
    cases call <;>
    · simp only [pollConnect, Bool.false_eq_true, ↓reduceIte]
      w11_hdn
      simp only [mk_hide, canWrite_hide, writeBytes_hide, awaitFirst_hide, finish_hide, hide_ite]

/-- **a poll of the context task commutes with hiding**: `connect()`, `authorize()` and `run()` — the loop, the
    handlers, everything they write, complete and deliver — do not depend on the hidden state -/
theorem pollCtx_hide (id) (w : World) (hh : w.handles ≠ []) : (hide id w).pollCtx = hide id w.pollCtx := by
  unfold pollCtx
  w11_hdn
  cases w.task with
  | none => rfl
  | connecting call t a started => exact pollConnect_hide id w call t a started
  | running started => exact pollRun_hide id w started hh

/-! ## handle futures of the other operations -/

theorem setOps_hide_erase (id j : Nat) (w : World) (h : j ≠ id) :
    ({ hide id w with ops := eraseFirst j (hide id w).ops } : World) = hide id { w with ops := eraseFirst j w.ops } := by
  apply world_ext <;> simp
  exact eraseFirst_filter (keepK id) j w.ops (by simpa using h)

theorem finishOp_hide (id) (w : World) (j : Nat) (r : DoneRes) (h : j ≠ id) (hh : w.handles ≠ []) :
    (hide id w).finishOp j r = hide id (w.finishOp j r) := by
  unfold finishOp
  rw [senderGone_of_handles _ (by simpa using hh), senderGone_of_handles _ (by simpa using hh),
    setOps_hide_erase id j w h]
  exact emit_hide id _ _ (by simpa [mine] using h)

theorem sendMsg_hide (id) (w : World) (m : Msg) : (hide id w).sendMsg m = (w.sendMsg m).map (hide id) := by
  rw [sendMsg_eq, sendMsg_eq]
  by_cases h : w.hasCtx = true
  · simp only [hide_hasCtx, h, ↓reduceIte, Option.map_some, Option.some.injEq]
    apply world_ext <;> simp only [hide_cfg, hide_hasCtx, hide_ctxDropped, hide_task, hide_c, hide_rx,
      hide_reader, hide_readerReg, hide_queue, hide_queueReg, hide_handles, hide_ops, hide_slots, hide_slotReg,
      hide_chans, hide_rsps, hide_streams, hide_pidCtr, hide_subCtr, hide_woken, hide_held, hide_written,
      hide_wirePend, hide_out, hide_bad]
    rw [wake_hide id w .ctx (by simp)]
    by_cases hq : w.queueReg = true
    · simp only [hq, ↓reduceIte, hide_woken]
    · simp only [hq, Bool.false_eq_true, ↓reduceIte]
  · simp only [hide_hasCtx, h, Bool.false_eq_true, ↓reduceIte, Option.map_none]

theorem awaitSlot_hide (id) (w : World) (j s : Nat) (k : Wait) (h : j ≠ id) (hs : s / 2 ≠ id) :
    (hide id w).awaitSlot j s k = hide id (w.awaitSlot j s k) := by
  apply world_ext <;> simp [awaitSlot]
  · exact setAssoc_filter (keepK id) j _ w.ops (by simpa using h)
  · exact setAssoc_filter (keepS id) s _ w.slots (by simpa using hs)
  · by_cases hm : s ∈ w.slotReg
    · simp [hm, hs]
    · simp [hm, hs, List.filter_append]

theorem sendAwait_hide (id) (w : World) (m : Msg) (j s : Nat) (k : Wait) (h : j ≠ id) (hs : s / 2 ≠ id)
    (hh : w.handles ≠ []) : (hide id w).sendAwait m j s k = hide id (w.sendAwait m j s k) := by
  unfold sendAwait
  rw [sendMsg_hide]
  cases hm : w.sendMsg m with
  | none => exact finishOp_hide id w j _ h hh
  | some w1 => exact awaitSlot_hide id w1 j s k h hs

theorem two_mul_div (j : Nat) : 2 * j / 2 = j := by omega

theorem startOp_hide (id) (w : World) (j : Nat) (req : Req) (h : j ≠ id) (hh : w.handles ≠ []) :
    (hide id w).startOp j req = hide id (w.startOp j req) := by
  have hs : 2 * j / 2 ≠ id := by rw [two_mul_div]; exact h
  cases req with
  | publish t =>
    by_cases hq : t.qos = 0
    · rw [User.startOp_publish0 _ _ _ hq, User.startOp_publish0 _ _ _ hq]
      simp only [finishOp_hide id w j _ h hh, sendAwait_hide id w _ j _ _ h hs hh, hide_ite]
    · rw [User.startOp_publish12 _ _ _ hq, User.startOp_publish12 _ _ _ hq]
      simp only [allocPid_hide_snd, hide_pidCtr, finishOp_hide id w.allocPid.2 j _ h hh,
        sendAwait_hide id w.allocPid.2 _ j _ _ h hs hh, hide_ite]
  | subscribe t =>
    rw [User.startOp_subscribe, User.startOp_subscribe]
    simp only [allocPid_hide_snd, allocSub_hide_snd, hide_pidCtr, hide_subCtr, setChan_hide, sendMsg_hide,
      dropChanRx_hide]
    split
    · exact finishOp_hide id _ j _ h hh
    · cases hm : World.sendMsg _ _ with
      | none => exact finishOp_hide id _ j _ h hh
      | some w1 => exact awaitSlot_hide id w1 j _ _ h hs
  | unsubscribe t =>
    rw [User.startOp_unsubscribe, User.startOp_unsubscribe]
    simp only [allocPid_hide_snd, hide_pidCtr, finishOp_hide id w.allocPid.2 j _ h hh,
      sendAwait_hide id w.allocPid.2 _ j _ _ h hs hh, hide_ite]
  | ping =>
    rw [User.startOp_ping, User.startOp_ping]; exact sendAwait_hide id w _ j _ _ h hs hh
  | disconnect t =>
    rw [User.startOp_disconnect, User.startOp_disconnect]; exact sendAwait_hide id w _ j _ _ h hs hh

theorem resumeOp_pubrec_eq (w : World) (j s : Nat) (a : AckRx) (hr : ¬ a.reason ≥ 128) :
    w.resumeOp j s .pubrec (.pkt (.pubrec a)) =
      (w.clearSlot s).sendAwait (.awaitAck (actionId 7 a.packetId) (ackBytes 0x62 a.packetId) (s + 1))
        j (s + 1) .pubcomp := by
  simp only [resumeOp, hr, if_false]; rfl

theorem panicOp_hide (id) (w : World) (j : Nat) (h : j ≠ id) (hh : w.handles ≠ []) :
    (({ hide id w with ops := eraseFirst j (hide id w).ops }).emit (.panic (.op j) "unreachable")).senderGone =
      hide id (({ w with ops := eraseFirst j w.ops }).emit (.panic (.op j) "unreachable")).senderGone := by
  rw [senderGone_of_handles _ (by simpa using hh), senderGone_of_handles _ (by simpa using hh),
    setOps_hide_erase id j w h]
  exact emit_hide id _ _ (by simpa [mine] using h)

theorem resumeOp_hide (id) (w : World) (j s : Nat) (k : Wait) (v : SlotVal) (h : j ≠ id) (hs : s / 2 ≠ id)
    (hs1 : k = .pubrec → (s + 1) / 2 ≠ id) (hh : w.handles ≠ []) :
    (hide id w).resumeOp j s k v = hide id (w.resumeOp j s k v) := by
  have hc : (w.clearSlot s).handles ≠ [] := by simpa using hh
  have fin : ∀ r, ((hide id w).clearSlot s).finishOp j r = hide id ((w.clearSlot s).finishOp j r) := by
    intro r; rw [clearSlot_hide id w s hs]; exact finishOp_hide id _ j r h hc
  have pan : ((({ (hide id w).clearSlot s with ops := eraseFirst j ((hide id w).clearSlot s).ops }).emit
        (.panic (.op j) "unreachable")).senderGone) =
      hide id ((({ w.clearSlot s with ops := eraseFirst j (w.clearSlot s).ops }).emit
        (.panic (.op j) "unreachable")).senderGone) := by
    rw [clearSlot_hide id w s hs]; exact panicOp_hide id _ j h hc
  cases v with
  | errSize => simp only [resumeOp, fin]
  | errQuota => simp only [resumeOp, fin]
  | unit => cases k <;> simp only [resumeOp, fin]
  | pkt x =>
    cases k <;> cases x
    all_goals first
      | exact pan
      | (simp only [resumeOp, fin, hide_ite]; done)
      | skip
    case pubrec.pubrec a =>
      by_cases hr : a.reason ≥ 128
      · simp only [resumeOp, hr, ↓reduceIte, fin]
      · rw [resumeOp_pubrec_eq _ _ _ _ hr, resumeOp_pubrec_eq _ _ _ _ hr, clearSlot_hide id w s hs]
        exact sendAwait_hide id _ _ j _ _ h (hs1 rfl) hc
    case suback.suback a =>
      simp only [resumeOp]
      rw [clearSlot_hide id w s hs]
      exact finishOp_hide id { w.clearSlot s with rsps := (w.clearSlot s).rsps ++ [j] } j _ h hc

/-- **a poll of the future of another operation commutes with hiding** (its oneshots are its own) -/
theorem pollOp_hide (id) (w : World) (j : Nat) (h : j ≠ id) (hh : w.handles ≠ [])
    (hown : ∀ s k, w.opSt j = some (.wait s k) → s / 2 ≠ id ∧ (k = .pubrec → (s + 1) / 2 ≠ id)) :
    (hide id w).pollOp j = hide id (w.pollOp j) := by
  unfold pollOp
  rw [opSt_hide id w j h]
  cases hst : w.opSt j with
  | none => rfl
  | some st =>
    cases st with
    | fresh hd req => exact startOp_hide id w j req h hh
    | wait s k =>
      obtain ⟨hs, hs1⟩ := hown s k hst
      simp only [slot_hide id w s hs]
      cases hsl : w.slot s with
      | none =>
        simp only
        apply world_ext <;> simp
        by_cases hm : s ∈ w.slotReg
        · simp [hm, hs]
        · simp [hm, hs, List.filter_append]
      | some sl =>
        cases sl with
        | empty =>
          simp only
          apply world_ext <;> simp
          by_cases hm : s ∈ w.slotReg
          · simp [hm, hs]
          · simp [hm, hs, List.filter_append]
        | full v => exact resumeOp_hide id w j s k v h hs hs1 hh
        | closed =>
          simp only
          rw [clearSlot_hide id w s hs]
          exact finishOp_hide id _ j _ h (by simpa using hh)

theorem dropOp_hide (id) (w : World) (j : Nat) (h : j ≠ id) (hh : w.handles ≠ [])
    (hown : ∀ s k, w.opSt j = some (.wait s k) → s / 2 ≠ id) :
    (hide id w).dropOp j = hide id (w.dropOp j) := by
  unfold dropOp
  rw [opSt_hide id w j h]
  cases hst : w.opSt j with
  | none => rfl
  | some st =>
    cases st with
    | fresh hd req =>
      simp only
      rw [senderGone_of_handles _ (by simpa using hh), senderGone_of_handles _ (by simpa using hh)]
      exact setOps_hide_erase id j w h
    | wait s k =>
      have hs := hown s k hst
      simp only
      rw [senderGone_of_handles _ (by cases k <;> simpa [clearSlot, dropChanRx] using hh),
        senderGone_of_handles _ (by cases k <;> simpa [clearSlot, dropChanRx] using hh), clearSlot_hide id w s hs]
      cases k <;> first
        | exact setOps_hide_erase id j _ h
        | (simp only [dropChanRx_hide]; exact setOps_hide_erase id j _ h)

/-! ## subscription streams, the executor -/

theorem pollStream_hide (id) (w : World) (j : Nat) : (hide id w).pollStream j = hide id (w.pollStream j) := by
  unfold pollStream
  by_cases hs : j ∈ w.streams
  · simp only [hide_streams, hs, not_true_eq_false, ↓reduceIte, chan_hide]
    cases w.chan j with
    | none => rfl
    | some ch =>
      obtain ⟨buf, tx, rxa, reg⟩ := ch
      cases buf with
      | cons x rest =>
        simp only [setChan_hide]
        rw [emit_hide id _ (.item j x) rfl, wake_hide id _ _ (by simp)]
      | nil =>
        cases tx with
        | true => rfl
        | false =>
          simp only [Bool.false_eq_true, ↓reduceIte]
          exact emit_hide id
            (({ w with streams := List.filter (fun x => decide (x ≠ j)) w.streams } : World).dropChanRx j)
            (.endStream j) rfl
  · simp only [hide_streams, hs, not_false_eq_true, ↓reduceIte]

/-- task `op id` is never polled by the executor: its future is gone, or the script holds it -/
def Frozen (id : Nat) (w : World) : Prop := Task.op id ∈ w.held ∨ w.opSt id = none

theorem taskLive_hide (id) (w : World) (t : Task) (h : t ≠ .op id) : (hide id w).taskLive t = w.taskLive t := by
  cases t with
  | ctx => rfl
  | op n =>
    have : n ≠ id := by intro e; subst e; exact h rfl
    simp only [taskLive, opSt_hide id w n this]
  | st n => rfl

/-- **the executor's choice does not depend on the hidden state** while task `op id` is frozen -/
theorem pick_hide (id) (w : World) (hf : Frozen id w) : (hide id w).pick = w.pick := by
  have key : (hide id w).woken.filter (fun t => (hide id w).taskLive t ∧ t ∉ (hide id w).held) =
      w.woken.filter (fun t => w.taskLive t ∧ t ∉ w.held) := by
    simp only [hide_woken, List.filter_filter]
    apply List.filter_congr
    intro t _
    by_cases ht : t = .op id
    · subst ht
      rcases hf with hf | hf
      · simp [hf]
      · simp [taskLive, hf]
    · simp [taskLive_hide id w t ht, ht]
  unfold pick
  simp only [key]

end W11
end World
end Poster
