/-
  Lemmas/WorldOwnEx.lean — concrete scripts and worlds used by the non-vacuity examples of Properties/C14World.
-/
import PosterModel.Lemmas.WorldOwnIds

set_option linter.unusedVariables false
set_option linter.unusedSimpArgs false

namespace Poster
open Framing World
namespace Ex

/-- a QoS 1 publish is started (its message is queued, its oneshot registered), then the context is dropped -/
def scrDrop : List Ev := [.setup, .op 1 0 (.publish { topic := some [0x61], qos := 1 }), .dropCtx]

/-- the same with the executor held back: after the drop the operation is still there (`no_op_hangs_after_drop`
    applies to it), its oneshot is closed, it is flagged, held, and the executor is quiescent -/
def scrHeld : List Ev :=
  [.setup, .op 1 0 (.publish { topic := some [0x61], qos := 1 }), .hold (.op 1), .dropCtx]

/-- `no_op_left_after_drop`, evaluated: three operations pending (a QoS 1 publish waiting for its PUBACK, a
    subscribe, a ping not yet polled and held), then the drop; the two the executor may poll complete with
    `ContextExited`, the held one remains, flagged; released, it completes in the next step -/
def scrThree : List Ev :=
  [.setup, .op 1 0 (.publish { topic := some [0x61], qos := 1 }),
   .op 2 0 (.subscribe { packetId := 0, filters := [([0x61], {})] }), .hold (.op 3), .op 3 0 .ping, .dropCtx]

/-- the client after `SETUP; RUN; OP 1 subscribe; FEED suback; STREAM 1` (as evaluated by `#eval`; the kernel
    cannot evaluate the framing machine, defined by well-founded recursion, so the world is written out):
    stream 1 is asleep, registered on its empty channel, whose sender sits in `subscriptions` -/
def wSub : World :=
  { hasCtx := true, handles := [0], task := .running true, c := { subs := [(1, 1)] },
    chans := [(1, { buf := [], reg := true })], streams := [1], pidCtr := 2, subCtr := 2, written := 11,
    queueReg := true, readerReg := true }

/-- both invariants hold in `wSub` (so the hypotheses of `streams_flagged_after_drop_from` are satisfiable by a
    world with a live, sleeping stream) -/
theorem wSub_both : World.Both wSub where
  own := {
    dropped := by decide
    nodup := by decide
    chanNodup := by decide
    freshWoken := fun id hd req hop => by simp [wSub, opSt, lookupFirst] at hop
    slotOf := fun id s k hop => by simp [wSub, opSt, lookupFirst] at hop
    slotSome := fun id s k hop => by simp [wSub, opSt, lookupFirst] at hop
    waitReg := fun id s k hop => by simp [wSub, opSt, lookupFirst] at hop
    waitOwn := fun id s k hop => by simp [wSub, opSt, lookupFirst] at hop
    waitDone := fun id s k hop => by simp [wSub, opSt, lookupFirst] at hop
    chanOwn := fun ch c0 hc ht => by
      refine ⟨rfl, Or.inr ⟨(1, 1), by simp [wSub], ?_⟩⟩
      simp only [wSub, chan, lookupFirst] at hc
      split at hc
      · rename_i e; exact e
      · cases hc
    noTask := fun h => by simp [wSub] at h }
  str := {
    disjR := fun id h => by simp [wSub] at h
    disjS := fun id h => by simp [wSub, opSt, lookupFirst]
    chanEx := fun id h => by
      rcases h with h | ⟨s, h⟩
      · simp [wSub] at h
      · simp [wSub, opSt, lookupFirst] at h
    strOk := fun id h => by
      have : id = 1 := by simpa [wSub] using h
      subst this
      exact ⟨{ buf := [], reg := true }, by decide, Or.inr ⟨rfl, rfl, rfl⟩⟩ }

end Ex
end Poster
