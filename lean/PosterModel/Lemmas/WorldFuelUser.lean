/-
  Lemmas/WorldFuelUser.lean — the user side of the potential argument (C04, quiescence of the drain): every poll
  of a flagged stream and every poll of a flagged handle future strictly decreases the potential `W5.phi`.
-/
import PosterModel.Lemmas.WorldFuelRun

set_option linter.unusedVariables false
set_option linter.unusedSimpArgs false

namespace Poster
open Framing
namespace World
namespace W5

/-! ## association lists -/

theorem lookupFirst_of_mem_nodup {β} (k : Nat) (v : β) (l : List (Nat × β)) (hn : (l.map (·.1)).Nodup)
    (h : (k, v) ∈ l) : lookupFirst k l = some v := by
  induction l with
  | nil => cases h
  | cons x t ih =>
    obtain ⟨a, b⟩ := x
    simp only [List.map_cons, List.nodup_cons] at hn
    simp only [lookupFirst]
    rcases List.mem_cons.mp h with h | h
    · cases h; simp
    · have : a ≠ k := by
        intro e; subst e
        exact hn.1 (List.mem_map.mpr ⟨(a, v), h, rfl⟩)
      simp only [this, ↓reduceIte]
      exact ih hn.2 h

theorem length_setAssoc_of_lookup {β} (k : Nat) (v v0 : β) (l : List (Nat × β)) (h : lookupFirst k l = some v0) :
    (setAssoc k v l).length = l.length := by
  induction l with
  | nil => simp [lookupFirst] at h
  | cons x t ih =>
    obtain ⟨a, b⟩ := x
    simp only [lookupFirst] at h
    simp only [setAssoc]
    split
    · simp
    · rename_i hk; simp only [hk, ↓reduceIte] at h; simp [ih h]

/-! ## a poll of a stream -/

theorem stSum_le_gap {w w' : World} (hst : w'.streams = w.streams) (hheld : w'.held = w.held)
    (h : ∀ n, n ∈ w.streams → stCost w.held w'.woken w'.chans n ≤ stCost w.held w.woken w.chans n)
    (id : Nat) (hid : id ∈ w.streams) (d : Nat)
    (hd : stCost w.held w'.woken w'.chans id + d ≤ stCost w.held w.woken w.chans id) : stSum w' + d ≤ stSum w := by
  unfold stSum
  rw [hst, hheld]
  exact sum_map_le_gap _ _ _ (fun n hn => h n ((mem_uniq n _).mp hn)) id ((mem_uniq id _).mpr hid) d hd

/-- the parts of `phi` a poll of a stream cannot increase -/
theorem phi_lt_of_stream {w w' : World} (ht : w'.task = w.task) (hrx : w'.rx = w.rx) (hrd : w'.reader = w.reader)
    (hh : w'.handles = w.handles) (hops : w'.ops = w.ops) (hheld : w'.held = w.held) (hsl : w'.slots = w.slots)
    (hw : ∀ t, t ∈ w'.woken → t ∈ w.woken) (hs : stPot w' + 1 ≤ stPot w) : phi w' < phi w := by
  have h1 : ctxFlag w' ≤ ctxFlag w := ctxFlag_le (by rw [ht]; exact id) (fun _ h => hw _ h)
  have h2 : ctxZ w' ≤ ctxZ w := ctxZ_le (by rw [ht]; exact id) (by
    show w'.handles.length + w'.ops.length ≠ 0 → _
    rw [hh, hops]; exact id)
  have h3 : opsPot w' ≤ opsPot w := opsPot_le_of_woken hops hheld hsl (fun id h => hw _ h)
  unfold phi phiU
  rw [hrx, hrd]
  omega

theorem pollStream_phi (w : World) (id : Nat) (hw : Task.st id ∈ w.woken) (hl : id ∈ w.streams)
    (hh : Task.st id ∉ w.held) : phi ((w.unwake (.st id)).pollStream id) < phi w := by
  have hu : ∀ t, t ∈ (w.unwake (.st id)).woken → t ∈ w.woken := fun t ht => (List.mem_filter.mp ht).1
  have hnf : Task.st id ∉ (w.unwake (.st id)).woken := by
    intro h; have := (List.mem_filter.mp h).2; simp at this
  have hother : ∀ n, n ≠ id → (Task.st n ∈ (w.unwake (.st id)).woken ↔ Task.st n ∈ w.woken) := by
    intro n hn
    constructor
    · exact hu _
    · intro h; exact List.mem_filter.mpr ⟨h, by simpa using hn⟩
  have hs1 : id ∈ (w.unwake (.st id)).streams := hl
  cases hch : w.chan id with
  | none =>
    rw [User.pollStream_noop _ _ (Or.inr (by simpa using hch))]
    refine phi_lt_of_stream rfl rfl rfl rfl rfl rfl rfl hu ?_
    have hc : lookupFirst id w.chans = none := hch
    have := stSum_le_gap (w := w) (w' := w.unwake (.st id)) rfl rfl (fun n _ => by
      by_cases hn : n = id
      · subst hn
        unfold stCost
        simp only [unwake_chans, hc, hnf, hw, hh, ↓reduceIte]; omega
      · exact Nat.le_of_eq (stCost_woken_congr _ _ _ _ _ (hother n hn))) id hl 1 (by
        unfold stCost
        simp only [unwake_chans, hc, hnf, hw, hh, ↓reduceIte]; omega)
    have hb : bufSum (w.unwake (.st id)) = bufSum w := rfl
    unfold stPot; omega
  | some ch =>
    have hc : lookupFirst id w.chans = some ch := hch
    have hch1 : (w.unwake (.st id)).chan id = some ch := by simpa using hch
    cases hb : ch.buf with
    | cons p rest =>
      have e : (w.unwake (.st id)).pollStream id =
          (((w.unwake (.st id)).setChan id { ch with buf := rest }).emit (.item id p)).wake (.st id) := by
        simp [pollStream, hl, hs1, hch1, hb]
      rw [e]
      refine phi_lt_of_stream (by simp) (by simp) (by simp) (by simp) (by simp) (by simp) (by simp) (fun t ht => ?_) ?_
      · rcases (mem_wake_iff _ _ _).mp ht with h | h
        · subst h; exact hw
        · exact hu _ h
      · have hbuf : bufSum ((((w.unwake (.st id)).setChan id { ch with buf := rest }).emit (.item id p)).wake
            (.st id)) + 1 = bufSum w := by
          simp only [bufSum, wake_chans, emit_chans, setChan_chans', unwake_chans]
          exact bufs_setAssoc_tail id ch p rest w.chans hch hb
        have hsum : stSum ((((w.unwake (.st id)).setChan id { ch with buf := rest }).emit (.item id p)).wake
            (.st id)) ≤ stSum w := by
          refine stSum_le (by simp) (by simp) (fun n _ => ?_)
          by_cases hn : n = id
          · subst hn
            unfold stCost
            simp only [wake_chans, emit_chans, setChan_chans', unwake_chans, lookupFirst_setAssoc_self, hc,
              mem_wake_self, hw, hh, ↓reduceIte, true_or]
            omega
          · unfold stCost
            simp only [wake_chans, emit_chans, setChan_chans', unwake_chans,
              lookupFirst_setAssoc_ne _ _ _ _ hn]
            have : Task.st n ∈ ((((w.unwake (.st id)).setChan id { ch with buf := rest }).emit
                (.item id p)).wake (.st id)).woken ↔ Task.st n ∈ w.woken := by
              rw [mem_wake_iff]
              simp only [Task.st.injEq, hn, false_or, emit_woken, setChan_woken]
              exact hother n hn
            simp only [this]; omega
        unfold stPot; omega
    | nil =>
      cases htx : ch.txAlive with
      | true =>
        rw [User.pollStream_pending _ id ch hs1 hch1 hb htx]
        have key : ∀ W' : World, W'.streams = w.streams → W'.held = w.held →
            W'.woken = (w.unwake (.st id)).woken → W'.chans = setAssoc id { ch with reg := true } w.chans →
            stPot W' + 1 ≤ stPot w := by
          intro W' e1 e2 e3 e4
          have hsum := stSum_le_gap (w := w) (w' := W') e1 e2 (fun n _ => by
              rw [e3, e4]
              by_cases hn : n = id
              · subst hn
                unfold stCost
                simp only [lookupFirst_setAssoc_self, hc, hnf, hw, hh, htx, ↓reduceIte, true_or]
                simp
              · unfold stCost
                simp only [lookupFirst_setAssoc_ne _ _ _ _ hn, hother n hn]; omega) id hl 1 (by
              rw [e3, e4]
              unfold stCost
              simp only [lookupFirst_setAssoc_self, hc, hnf, hw, hh, htx, ↓reduceIte, true_or]
              simp)
          have hbuf : bufSum W' = bufSum w := by
            simp only [bufSum, e4]
            exact bufs_setAssoc_same id ch _ w.chans hch rfl
          unfold stPot; omega
        exact phi_lt_of_stream rfl rfl rfl rfl rfl rfl rfl hu (key _ rfl rfl rfl rfl)
      | false =>
        rw [User.pollStream_end _ id ch hs1 hch1 hb htx]
        have key : ∀ W' : World, W'.streams = w.streams.filter (fun x => decide (x ≠ id)) → W'.held = w.held →
            W'.woken = (w.unwake (.st id)).woken → W'.chans = eraseFirst id w.chans →
            stPot W' + 1 ≤ stPot w := by
          intro W' e1 e2 e3 e4
          have hbuf : bufSum W' ≤ bufSum w := by
            simp only [bufSum, e4]
            exact bufs_eraseFirst_le id w.chans
          have hcost : 2 ≤ stCost w.held w.woken w.chans id := by
            unfold stCost
            simp only [hc, hw, hh, ↓reduceIte, true_or]; omega
          have hsum : stSum W' + 2 ≤ stSum w := by
            unfold stSum
            rw [e1, e2, e3, e4, uniq_filter]
            have h1 : (((uniq w.streams).filter (fun x => decide (x ≠ id))).map
                (stCost w.held (w.unwake (.st id)).woken (eraseFirst id w.chans))).sum ≤
                (((uniq w.streams).filter (fun x => decide (x ≠ id))).map (stCost w.held w.woken w.chans)).sum := by
              refine sum_map_le _ _ _ (fun n hn => ?_)
              have hne : n ≠ id := by simpa using (List.mem_filter.mp hn).2
              unfold stCost
              simp only [lookupFirst_eraseFirst_ne _ _ _ hne, hother n hne]; omega
            have h2 := sum_map_filter_gap (stCost w.held w.woken w.chans) id (uniq w.streams)
              ((mem_uniq id _).mpr hl)
            omega
          unfold stPot; omega
        exact phi_lt_of_stream rfl rfl rfl rfl rfl rfl rfl hu (key _ rfl rfl rfl rfl)

end W5
end World
end Poster
