/-
  Lemmas/WorldIdsEx.lean — work package W10: a concrete script, evaluated stage by stage, in which the broker announces
  Maximum Packet Size 4 in its CONNACK and a QoS 1 publish is then refused for its size. Used by the non-vacuity examples
  of Properties/C12World.lean. (`Framing.pollNext` is opaque to `decide`; the lemmas below peel one poll at a time, as in
  Lemmas/WorldOpsEx.lean.)
-/
import PosterModel.Lemmas.WorldIdsMax
import PosterModel.Lemmas.WorldOpsEx

set_option linter.unusedVariables false
set_option linter.unusedSimpArgs false

namespace Poster
open Framing World World.W7 World.W10
namespace C12Ex

/-- CONNACK, reason 0, Maximum Packet Size = 4 -/
def connackMax4 : Bytes := [0x20, 8, 0, 0, 5, 0x27, 0, 0, 0, 4]
def kMax4 : ConnackRx := { sessionPresent := false, reason := 0, maxPacketSize := some 4 }
theorem dec_connackMax4 : decodeRx connackMax4 = .ok (.connack kMax4) := by decide
theorem pn_connackMax4 : pollNext {} [.data connackMax4] = ({}, [], .item connackMax4) :=
  Ex.pollNext_whole _ (by decide) (by decide) (by decide)

theorem awaitFirst_pending (w : World) (call : Call) (t : ConnectTx) (a : AuthTx) (hrx : w.rx = {}) (hrd : w.reader = []) :
    w.awaitFirst call t a = { w with rx := {}, reader := [], task := .connecting call t a true, readerReg := true } := by
  unfold awaitFirst
  rw [hrx, hrd, pn_nil]
  simp

theorem awaitFirst_connack (w : World) (call : Call) (t : ConnectTx) (a : AuthTx) (fr : Bytes) (k : ConnackRx)
    (hpn : pollNext w.rx w.reader = ({}, [], .item fr)) (hd : decodeRx fr = .ok (.connack k)) (hk : k.reason < 128)
    (hs : k.subIdAvail = true) :
    w.awaitFirst call t a = ({ w with rx := {}, reader := [], c := w.c.handleConnack k } : World).finish call (.connack k) := by
  unfold awaitFirst
  rw [hpn]
  simp only [hd]
  have : ¬ k.reason ≥ 128 := by omega
  simp [this, hs]

def connectBytes : Bytes := [16, 13, 0, 4, 77, 81, 84, 84, 5, 0, 0, 0, 0, 0, 0]
def pubBig : Req := .publish { topic := some [0x61], qos := 1, payload := some [1, 2, 3] }

def scrBig : List Ev := [.setup, .connect {}, .feed [connackMax4], .run, .op 1 0 pubBig]

def l2 : World :=
  { World.s1 with task := .connecting .connect {} {} true, readerReg := true, written := 15,
                  out := World.s1.out ++ [.ev (.connect {}), .wire connectBytes] }
def l3 : World :=
  { l2 with task := .none, c := { maxPkt := some 4 }, readerReg := false,
            out := l2.out ++ [.ev (.feed [connackMax4]), .ret .connect (.connack kMax4)] }
def l4 : World := { l3 with task := .running true, readerReg := true, queueReg := true, out := l3.out ++ [.ev .run] }
def l5 : World :=
  { l4 with pidCtr := 2, out := l4.out ++ [.ev (.op 1 0 pubBig), .done 1 (.err .maximumPacketSizeExceeded)] }

theorem pollTask_ctx_connect_first (w : World) (t : ConnectTx) (a : AuthTx)
    (h : (w.unwake .ctx).task = .connecting .connect t a false) (hv : t.valid = true) (hw : w.cfg.wlimit = none)
    (hrx : w.rx = {}) (hrd : w.reader = []) :
    w.pollTask .ctx =
      { (({ w.unwake .ctx with c := { w.c with sei := t.sessionExpiry.getD 0 } } : World).writeBytes t.encode) with
        rx := {}, reader := [], task := .connecting .connect t a true, readerReg := true } := by
  show (w.unwake .ctx).pollCtx = _
  have hcw : ∀ n, ({ w.unwake .ctx with c := { (w.unwake .ctx).c with sei := t.sessionExpiry.getD 0 } } : World).canWrite n
      = true := fun n => by simp [canWrite, hw]
  unfold pollCtx
  rw [h]
  simp only [pollConnect, Bool.false_eq_true, ↓reduceIte, hv, Bool.not_true, hcw]
  rw [awaitFirst_pending _ _ _ _ (by simp [hrx]) (by simp [hrd])]
  rfl

theorem pollTask_ctx_connect_resp (w : World) (call : Call) (t : ConnectTx) (a : AuthTx) (fr : Bytes) (k : ConnackRx)
    (h : (w.unwake .ctx).task = .connecting call t a true)
    (hpn : pollNext w.rx w.reader = ({}, [], .item fr)) (hd : decodeRx fr = .ok (.connack k)) (hk : k.reason < 128)
    (hs : k.subIdAvail = true) :
    w.pollTask .ctx =
      ({ w.unwake .ctx with rx := {}, reader := [], c := w.c.handleConnack k } : World).finish call (.connack k) := by
  show (w.unwake .ctx).pollCtx = _
  unfold pollCtx
  rw [h]
  simp only [pollConnect, ↓reduceIte]
  exact awaitFirst_connack _ call t a fr k hpn hd hk hs

theorem lstage2 : World.s1.step (.connect {}) = l2 := by
  refine step_eq World.s1 _ l2 (by decide) (by decide) ?_ (by decide) (by decide)
  rw [drain_pick _ _ .ctx (by decide) (by decide),
    pollTask_ctx_connect_first _ {} {} (by decide) (by decide) (by decide) (by decide) (by decide)]
  rw [drain_none _ _ (by decide)]
  decide

theorem lstage3 : l2.step (.feed [connackMax4]) = l3 := by
  refine step_eq l2 _ l3 (by decide) (by decide) ?_ (by decide) (by decide)
  rw [drain_pick _ _ .ctx (by decide) (by decide),
    pollTask_ctx_connect_resp _ .connect {} {} connackMax4 kMax4 (by decide) pn_connackMax4 dec_connackMax4 (by decide)
      (by decide)]
  rw [drain_none _ _ (by decide)]
  decide

theorem lstage4 : l3.step .run = l4 := by
  refine step_eq l3 .run l4 (by decide) (by decide) ?_ (by decide) (by decide)
  rw [drain_pick _ _ .ctx (by decide) (by decide),
    pollTask_ctx_start _ (by decide) (by decide) (by decide),
    runLoop_idle _ _ (by decide) (by decide) (by decide) (by decide) (by decide)]
  rw [drain_none _ _ (by decide)]
  decide

theorem lstage5 : l4.step (.op 1 0 pubBig) = l5 := by
  refine step_eq l4 _ l5 (by decide) (by decide) ?_ (by decide) (by decide)
  rw [drain_pick _ _ (.op 1) (by decide) (by decide), drain_pick _ _ .ctx (by decide) (by decide),
    pollTask_ctx_running _ (by decide),
    runLoop_msg _ _ (.awaitAck (actionId 4 1) [50, 9, 0, 1, 97, 0, 1, 0, 1, 2, 3] 2) [] (by decide) (by decide) (by decide),
    runLoop_idle _ _ (by decide) (by decide) (by decide) (by decide) (by decide),
    drain_pick _ _ (.op 1) (by decide) (by decide)]
  rw [drain_none _ _ (by decide)]
  decide

theorem scrBig_foldl : scrBig.foldl World.step {} = l5 := by
  simp only [scrBig, List.foldl_cons, List.foldl_nil]
  rw [World.stage1, lstage2, lstage3, lstage4, lstage5]

/-- the transcript of `scrBig` -/
theorem scrBig_run : World.run {} scrBig = l5.out := by
  unfold World.run
  rw [scrBig_foldl]
  decide


/-- a serving world with the limit `M = 4` in force, a 5-byte request at the head of the queue (oneshot 2, operation 1
    waiting on it) -/
def wBig : World :=
  { hasCtx := true, task := .running true, handles := [0], c := { maxPkt := some 4 },
    queue := [.ff [0xC0, 3, 0, 0, 0] 2], ops := [(1, .wait 2 .ff)], slots := [(2, .empty)] }


/-- a script without inbound traffic: a QoS 1 publish and a DISCONNECT issued before `run()`; no limit is ever announced, the transcript
    has no `assert-subid` panic (hypothesis of `limit_in_force_is_last_announced_script`), and the PUBLISH is written whole -/
def scrNoLimit : List Ev :=
  [.setup, .op 1 0 (.publish { topic := some [0x61], qos := 1, payload := some [1, 2, 3] }), .op 2 0 (.disconnect {}),
   .run]


end C12Ex

namespace C11Ex

/-- three identifier-taking operations from two clones of the handle (handles 0 and 7), a ping in between -/
def scrIds : List Ev :=
  [.setup, .clone 0 7, .op 1 0 (.publish { topic := some [0x61], qos := 1 }), .op 2 7 .ping,
   .op 3 7 (.subscribe { packetId := 0, filters := [([0x61], {})] }),
   .op 4 0 (.publish { topic := some [0x62], qos := 2 })]


/-- a world whose counter stands at 65535 with the identifier 1 still outstanding (queued), and an UNSUBSCRIBE future not
    yet polled -/
def wWrap : World :=
  { hasCtx := true, handles := [0], pidCtr := 65535, queue := [.awaitAck (actionId 4 1) [0x32, 0] 2],
    ops := [(1, .wait 2 .puback), (9, .fresh 0 (.unsubscribe { packetId := 0, filters := [[0x61]] }))],
    slots := [(2, .empty)] }


/-- a QoS 2 publish between PUBREC and PUBREL -/
def wGap : World :=
  { hasCtx := true, handles := [0], pidCtr := 8, ops := [(1, .wait 2 .pubrec)],
    slots := [(2, .full (.pkt (.pubrec { packetId := 7 })))] }


end C11Ex
end Poster
