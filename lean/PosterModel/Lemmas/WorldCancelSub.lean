/-
  Lemmas/WorldCancelSub.lean — the context's side of a dropped receiver (a `subscribe()` future dropped while it waits
  for its SUBACK, a dropped response, a dropped stream): the dispatch loop of the PUBLISH arm unregisters the dead
  receiver instead of buffering for it. This affects the registration and the effects of that one channel only.
-/
import PosterModel.Lemmas.WorldCancelHide
import PosterModel.Lemmas.CtxBasic

set_option linter.unusedVariables false
set_option linter.unusedSimpArgs false

namespace Poster
open Framing
namespace World
namespace W11

/-- the effect does not concern subscription channel `ch` (it is not a delivery into `ch`, nor the drop of its sender) -/
def offCh (ch : Nat) : Eff → Bool
  | .deliver c _ => decide (c ≠ ch)
  | .dropChan c => decide (c ≠ ch)
  | _ => true

/-- the subscription table without the registrations of channel `ch` -/
def subsOff (ch : Nat) (subs : List (Nat × Nat)) : List (Nat × Nat) := subs.filter (fun x => decide (x.2 ≠ ch))

theorem subsOff_cons (ch a b : Nat) (t : List (Nat × Nat)) :
    subsOff ch ((a, b) :: t) = if b ≠ ch then (a, b) :: subsOff ch t else subsOff ch t := by
  unfold subsOff
  by_cases h : b = ch <;> simp [List.filter_cons, h]

theorem subsOff_keys_subset (ch sid : Nat) (t : List (Nat × Nat)) (h : sid ∈ (subsOff ch t).map (·.1)) :
    sid ∈ t.map (·.1) := by
  obtain ⟨x, hx, rfl⟩ := List.mem_map.mp h
  exact List.mem_map.mpr ⟨x, (List.mem_filter.mp hx).1, rfl⟩

theorem subsOff_nodup (ch : Nat) (t : List (Nat × Nat)) (h : (t.map (·.1)).Nodup) : ((subsOff ch t).map (·.1)).Nodup :=
  (List.Sublist.map _ List.filter_sublist).nodup h

theorem subsOff_no_ch (ch : Nat) (t : List (Nat × Nat)) : ∀ x ∈ subsOff ch t, x.2 ≠ ch := by
  intro x hx
  simpa using (List.mem_filter.mp hx).2

/-- looking a subscription identifier up in the table without `ch`: the same answer, unless the answer was `ch` -/
theorem lookupFirst_subsOff (ch sid : Nat) (subs : List (Nat × Nat)) (hn : (subs.map (·.1)).Nodup) :
    lookupFirst sid (subsOff ch subs) =
      match lookupFirst sid subs with
      | some x => if x = ch then none else some x
      | none => none := by
  induction subs with
  | nil => rfl
  | cons e t ih =>
    obtain ⟨a, b⟩ := e
    simp only [List.map_cons, List.nodup_cons] at hn
    rw [subsOff_cons]
    by_cases ha : a = sid
    · subst ha
      simp only [lookupFirst, ↓reduceIte]
      by_cases hb : b = ch
      · simp only [hb, ne_eq, not_true_eq_false, ↓reduceIte]
        rw [User.lookupFirst_none_iff]
        exact fun hm => hn.1 (subsOff_keys_subset ch a t hm)
      · simp [hb, lookupFirst]
    · by_cases hb : b = ch
      · simp only [hb, ne_eq, not_true_eq_false, ↓reduceIte, lookupFirst, ha]
        exact ih hn.2
      · simp only [hb, ne_eq, not_false_eq_true, ↓reduceIte, lookupFirst, ha]
        exact ih hn.2

/-- removing the registration of `sid`: invisible in the table without `ch` if it was a registration of `ch` -/
theorem subsOff_eraseFirst (ch sid : Nat) (subs : List (Nat × Nat)) :
    subsOff ch (eraseFirst sid subs) =
      if lookupFirst sid subs = some ch then subsOff ch subs else eraseFirst sid (subsOff ch subs) := by
  induction subs with
  | nil => simp [subsOff, eraseFirst_nil, lookupFirst]
  | cons e t ih =>
    obtain ⟨a, b⟩ := e
    rw [eraseFirst_cons]
    by_cases ha : a = sid
    · subst ha
      simp only [↓reduceIte, lookupFirst, Option.some.injEq, subsOff_cons]
      by_cases hb : b = ch
      · simp [hb]
      · simp [hb, eraseFirst_cons]
    · simp only [ha, ↓reduceIte, lookupFirst, subsOff_cons, ih]
      by_cases hl : lookupFirst sid t = some ch
      · simp [hl]
      · by_cases hb : b = ch
        · simp [hl, hb]
        · simp [hl, hb, eraseFirst_cons, ha]

theorem eraseFirst_nodup {β} (k : Nat) (l : List (Nat × β)) (h : (l.map (·.1)).Nodup) :
    ((eraseFirst k l).map (·.1)).Nodup :=
  (List.Sublist.map _ (User.eraseFirst_sublist k l)).nodup h

/-- **the dispatch loop, seen without channel `ch`**: the registrations of the other channels it leaves, and the
    effects on the other channels it produces, are those of the dispatch loop run on the table without `ch` — whether
    the receiver of `ch` is alive (messages are buffered for it) or dead (it is unregistered) -/
theorem dispatch_off (ch : Nat) (alive : Nat → Bool) (p : PublishRx) (sids : List Nat) (subs : List (Nat × Nat))
    (hn : (subs.map (·.1)).Nodup) :
    subsOff ch (Ctx.dispatch alive p sids subs).1 = (Ctx.dispatch alive p sids (subsOff ch subs)).1 ∧
    (Ctx.dispatch alive p sids subs).2.filter (offCh ch) = (Ctx.dispatch alive p sids (subsOff ch subs)).2 ∧
    (((Ctx.dispatch alive p sids subs).1).map (·.1)).Nodup := by
  induction sids generalizing subs with
  | nil => exact ⟨rfl, rfl, hn⟩
  | cons sid rest ih =>
    have hl := lookupFirst_subsOff ch sid subs hn
    simp only [Ctx.dispatch]
    cases h : lookupFirst sid subs with
    | none =>
      rw [h] at hl
      simp only [hl]
      exact ih subs hn
    | some x =>
      rw [h] at hl
      by_cases hx : x = ch
      · subst hx
        simp only [↓reduceIte] at hl
        simp only [hl]
        by_cases ha : alive x = true
        · simp only [ha, ↓reduceIte]
          obtain ⟨i1, i2, i3⟩ := ih subs hn
          refine ⟨i1, ?_, i3⟩
          simp only [List.filter_cons, offCh, ne_eq, not_true_eq_false, decide_false, Bool.false_eq_true,
            ↓reduceIte]
          exact i2
        · simp only [ha, Bool.false_eq_true, ↓reduceIte]
          obtain ⟨i1, i2, i3⟩ := ih (eraseFirst sid subs) (eraseFirst_nodup sid subs hn)
          rw [subsOff_eraseFirst, if_pos h] at i1 i2
          refine ⟨i1, ?_, i3⟩
          simp only [List.filter_cons, offCh, ne_eq, not_true_eq_false, decide_false, Bool.false_eq_true,
            ↓reduceIte]
          exact i2
      · simp only [hx, ↓reduceIte] at hl
        simp only [hl]
        by_cases ha : alive x = true
        · simp only [ha, ↓reduceIte]
          obtain ⟨i1, i2, i3⟩ := ih subs hn
          refine ⟨i1, ?_, i3⟩
          simp only [List.filter_cons, offCh, ne_eq, hx, not_false_eq_true, decide_true, ↓reduceIte, i2]
        · simp only [ha, Bool.false_eq_true, ↓reduceIte]
          obtain ⟨i1, i2, i3⟩ := ih (eraseFirst sid subs) (eraseFirst_nodup sid subs hn)
          have hne : lookupFirst sid subs ≠ some ch := by rw [h]; intro e; cases e; exact hx rfl
          rw [subsOff_eraseFirst, if_neg hne] at i1 i2
          refine ⟨i1, ?_, i3⟩
          simp only [List.filter_cons, offCh, ne_eq, hx, not_false_eq_true, decide_true, ↓reduceIte, i2]

/-- on a table without `ch`, the dispatch loop never asks whether the receiver of `ch` is alive -/
theorem dispatch_congr_off (ch : Nat) (alive alive' : Nat → Bool) (hag : ∀ x, x ≠ ch → alive x = alive' x)
    (p : PublishRx) (sids : List Nat) (subs : List (Nat × Nat)) (hno : ∀ x ∈ subs, x.2 ≠ ch) :
    Ctx.dispatch alive p sids subs = Ctx.dispatch alive' p sids subs := by
  induction sids generalizing subs with
  | nil => rfl
  | cons sid rest ih =>
    simp only [Ctx.dispatch]
    cases h : lookupFirst sid subs with
    | none => exact ih subs hno
    | some x =>
      have hx : x ≠ ch := hno (sid, x) (User.lookupFirst_mem _ _ _ h)
      simp only [hag x hx, ih subs hno, ih (eraseFirst sid subs)
        (fun y hy => hno y ((User.eraseFirst_sublist sid subs).subset hy))]

/-- **two dispatch loops that differ only in channel `ch`**: the receiver of `ch` alive in one and dead in the other,
    the registration of `ch` present in one table and (already) removed from the other. The registrations of all other
    channels afterwards, and all effects on other channels — which messages are delivered into which channel, in
    which order, which senders are dropped — are the same. -/
theorem dispatch_sim (ch : Nat) (alive alive' : Nat → Bool) (hag : ∀ x, x ≠ ch → alive x = alive' x)
    (p : PublishRx) (sids : List Nat) (subs subs' : List (Nat × Nat)) (hn : (subs.map (·.1)).Nodup)
    (hn' : (subs'.map (·.1)).Nodup) (hf : subsOff ch subs = subsOff ch subs') :
    subsOff ch (Ctx.dispatch alive p sids subs).1 = subsOff ch (Ctx.dispatch alive' p sids subs').1 ∧
    (Ctx.dispatch alive p sids subs).2.filter (offCh ch) = (Ctx.dispatch alive' p sids subs').2.filter (offCh ch) ∧
    (((Ctx.dispatch alive p sids subs).1).map (·.1)).Nodup ∧
    (((Ctx.dispatch alive' p sids subs').1).map (·.1)).Nodup := by
  obtain ⟨a1, a2, a3⟩ := dispatch_off ch alive p sids subs hn
  obtain ⟨b1, b2, b3⟩ := dispatch_off ch alive' p sids subs' hn'
  have e := dispatch_congr_off ch alive alive' hag p sids (subsOff ch subs') (subsOff_no_ch ch subs')
  rw [hf, e] at a1 a2
  exact ⟨a1.trans b1.symm, a2.trans b2.symm, a3, b3⟩

/-- the session without its subscription table -/
def noSubs (c : Ctx) : Ctx := { c with subs := [] }

theorem filter_offCh_append (ch : Nat) (a b : List Eff) :
    (a ++ b).filter (offCh ch) = a.filter (offCh ch) ++ b.filter (offCh ch) := List.filter_append ..

/-- the QoS 2 arm of `handle_packet`, whether or not the packet carries an identifier -/
theorem handlePkt_publish_q2 (c : Ctx) (alive : Nat → Bool) (pb : PublishRx) (wok : Bool) (hq : pb.qos = 2) :
    c.handlePkt alive (.publish pb) wok =
      if pb.packetId.getD 0 ∈ c.inQos2 then
        (c, (match pb.packetId with | none => [] | some pid => [.write (ackBytes 0x50 pid)]),
          (match pb.packetId with | none => .cont | some _ => if wok then .cont else .exitSocket))
      else
        ({ c with inQos2 := c.inQos2 ++ [pb.packetId.getD 0], subs := (Ctx.dispatch alive pb pb.subIds c.subs).1 },
          (Ctx.dispatch alive pb pb.subIds c.subs).2 ++
            (match pb.packetId with | none => [] | some pid => [.write (ackBytes 0x50 pid)]),
          (match pb.packetId with | none => .cont | some _ => if wok then .cont else .exitSocket)) := by
  cases hp : pb.packetId <;> by_cases hin : pb.packetId.getD 0 ∈ c.inQos2 <;>
    simp_all [Ctx.handlePkt]

/-- **one inbound packet handled by two sessions that differ only in the registrations of channel `ch`**, the receiver
    of `ch` being alive for one and dead for the other (`alive` / `alive'` agree on every other channel): `run()` does
    the same next (`Flow`), the sessions afterwards agree again on everything but the registrations of `ch` — quota,
    waiters, retransmit queue, inbound QoS 2 identifiers —, and the effects are the same except those on channel `ch`
    itself: the same acknowledgement is written, the same oneshots are completed, the same messages are delivered into
    the same other channels in the same order. -/
theorem handlePkt_sim (ch : Nat) (c : Ctx) (s' : List (Nat × Nat)) (alive alive' : Nat → Bool)
    (hag : ∀ x, x ≠ ch → alive x = alive' x) (hn : (c.subs.map (·.1)).Nodup) (hn' : (s'.map (·.1)).Nodup)
    (hf : subsOff ch c.subs = subsOff ch s') (p : RxPacket) (wok : Bool) :
    (c.handlePkt alive p wok).2.2 = (({ c with subs := s' } : Ctx).handlePkt alive' p wok).2.2 ∧
    (c.handlePkt alive p wok).2.1.filter (offCh ch) =
      (({ c with subs := s' } : Ctx).handlePkt alive' p wok).2.1.filter (offCh ch) ∧
    noSubs (c.handlePkt alive p wok).1 = noSubs (({ c with subs := s' } : Ctx).handlePkt alive' p wok).1 ∧
    subsOff ch (c.handlePkt alive p wok).1.subs =
      subsOff ch (({ c with subs := s' } : Ctx).handlePkt alive' p wok).1.subs ∧
    (((c.handlePkt alive p wok).1.subs).map (·.1)).Nodup ∧
    (((({ c with subs := s' } : Ctx).handlePkt alive' p wok).1.subs).map (·.1)).Nodup := by
  cases p with
  | publish pb =>
    obtain ⟨d1, d2, d3, d4⟩ := dispatch_sim ch alive alive' hag pb pb.subIds c.subs s' hn hn' hf
    by_cases hq : pb.qos = 2
    · rw [handlePkt_publish_q2 c alive pb wok hq, handlePkt_publish_q2 _ alive' pb wok hq]
      by_cases hin : pb.packetId.getD 0 ∈ c.inQos2
      · have hin' : pb.packetId.getD 0 ∈ ({ c with subs := s' } : Ctx).inQos2 := hin
        rw [if_pos hin, if_pos hin']
        exact ⟨rfl, rfl, rfl, hf, hn, hn'⟩
      · have hin' : pb.packetId.getD 0 ∉ ({ c with subs := s' } : Ctx).inQos2 := hin
        rw [if_neg hin, if_neg hin']
        refine ⟨rfl, ?_, rfl, d1, d3, d4⟩
        simp only
        rw [filter_offCh_append, filter_offCh_append, d2]
    · rw [Ctx.handlePkt_publish_other c alive pb wok hq, Ctx.handlePkt_publish_other _ alive' pb wok hq]
      cases hp : pb.packetId with
      | none => exact ⟨rfl, d2, rfl, d1, d3, d4⟩
      | some pid =>
        refine ⟨rfl, ?_, rfl, d1, d3, d4⟩
        simp only
        rw [filter_offCh_append, filter_offCh_append, d2]
  | puback a =>
    simp only [Ctx.handlePkt, Ctx.complete, Ctx.bump]
    (repeat' split) <;> simp_all [noSubs]
  | pubrec a =>
    simp only [Ctx.handlePkt, Ctx.complete, Ctx.bump]
    (repeat' split) <;> simp_all [noSubs]
  | pubcomp a =>
    simp only [Ctx.handlePkt, Ctx.complete, Ctx.bump]
    (repeat' split) <;> simp_all [noSubs]
  | suback a =>
    simp only [Ctx.handlePkt, Ctx.complete]
    (repeat' split) <;> simp_all [noSubs]
  | unsuback a =>
    simp only [Ctx.handlePkt, Ctx.complete]
    (repeat' split) <;> simp_all [noSubs]
  | pingresp =>
    simp only [Ctx.handlePkt, Ctx.complete]
    (repeat' split) <;> simp_all [noSubs]
  | pubrel a => simp [Ctx.handlePkt, noSubs, hf, hn, hn']
  | disconnect d => simp [Ctx.handlePkt, noSubs, hf, hn, hn']
  | connack k => simp [Ctx.handlePkt, noSubs, hf, hn, hn']
  | auth au => simp [Ctx.handlePkt, noSubs, hf, hn, hn']

/-- a request from a handle never consults the subscription table: handled by two sessions that differ only in the
    registrations of `ch`, it has the same effects and the same flow, and the sessions agree afterwards as before
    (a SUBSCRIBE request registers the same new entry in both) -/
theorem handleMsg_sim (ch : Nat) (c : Ctx) (s' : List (Nat × Nat)) (hf : subsOff ch c.subs = subsOff ch s')
    (m : Msg) (wok : Bool) :
    (c.handleMsg m wok).2 = (({ c with subs := s' } : Ctx).handleMsg m wok).2 ∧
    noSubs (c.handleMsg m wok).1 = noSubs (({ c with subs := s' } : Ctx).handleMsg m wok).1 ∧
    subsOff ch (c.handleMsg m wok).1.subs = subsOff ch (({ c with subs := s' } : Ctx).handleMsg m wok).1.subs := by
  have e : ∀ pkt, ({ c with subs := s' } : Ctx).sizeOk pkt = c.sizeOk pkt := fun _ => rfl
  cases m with
  | ff pkt slot =>
    simp only [Ctx.handleMsg, e]
    cases c.sizeOk pkt <;> cases wok <;> simp [noSubs, hf]
  | awaitAck aid pkt slot =>
    simp only [Ctx.handleMsg, e]
    cases c.sizeOk pkt <;> cases wok <;> by_cases h3 : pktType pkt = 3 <;> by_cases h6 : pktType pkt = 6 <;>
      by_cases hq : c.quota = 0 <;> simp [noSubs, hf, h3, h6, hq]
  | subscribe aid sid pkt slot chan =>
    simp only [Ctx.handleMsg, e]
    cases c.sizeOk pkt <;> cases wok <;> simp [noSubs, hf, subsOff, List.filter_append] <;>
      simpa [subsOff] using hf

/-- **an effect on channel `ch` touches nothing but that channel and the flag of its stream**: a delivery into `ch`, or
    the drop of its sender, changes the entry of `ch` in the channel table and may flag task `st ch` — every other
    channel, every other flag and every other field of the world is as before -/
theorem applyEff_on_ch (w : World) (ch : Nat) (e : Eff) (h : offCh ch e = false) :
    ∃ chs wk, w.applyEff e = { w with chans := chs, woken := wk } ∧
      (∀ x, x ≠ ch → lookupFirst x chs = w.chan x) ∧ (∀ t, t ≠ .st ch → (t ∈ wk ↔ t ∈ w.woken)) := by
  have wake_mem : ∀ (w0 : World) (t : Task), t ≠ .st ch → (t ∈ (w0.wake (.st ch)).woken ↔ t ∈ w0.woken) := by
    intro w0 t ht
    rw [mem_wake_iff]
    exact ⟨fun h => h.resolve_left ht, Or.inr⟩
  cases e with
  | write bs => cases h
  | send s v => cases h
  | dropSlot s => cases h
  | deliver c p =>
    have hc : c = ch := by simpa [offCh] using h
    subst hc
    simp only [applyEff]
    cases hch : w.chan c with
    | none => rw [User.deliver_none w c p hch]; exact ⟨w.chans, w.woken, rfl, fun _ _ => rfl, fun _ _ => Iff.rfl⟩
    | some c0 =>
      unfold deliver
      simp only [hch]
      split
      · refine ⟨setAssoc c { c0 with buf := c0.buf ++ [p], reg := false } w.chans,
          ((w.setChan c { c0 with buf := c0.buf ++ [p], reg := false }).wake (.st c)).woken, ?_, ?_, ?_⟩
        · rw [wake_eq]; rfl
        · intro x hx; exact lookupFirst_setAssoc_ne _ _ _ _ hx
        · intro t ht
          exact wake_mem (w.setChan c { c0 with buf := c0.buf ++ [p], reg := false }) t ht
      · exact ⟨_, w.woken, rfl, fun x hx => lookupFirst_setAssoc_ne _ _ _ _ hx, fun _ _ => Iff.rfl⟩
  | dropChan c =>
    have hc : c = ch := by simpa [offCh] using h
    subst hc
    simp only [applyEff]
    cases hch : w.chan c with
    | none => rw [User.dropChanTx_none w c hch]; exact ⟨w.chans, w.woken, rfl, fun _ _ => rfl, fun _ _ => Iff.rfl⟩
    | some c0 =>
      unfold dropChanTx
      simp only [hch]
      split
      · refine ⟨setAssoc c { c0 with txAlive := false, reg := false } w.chans,
          ((w.setChan c { c0 with txAlive := false, reg := false }).wake (.st c)).woken, ?_, ?_, ?_⟩
        · rw [wake_eq]; rfl
        · intro x hx; exact lookupFirst_setAssoc_ne _ _ _ _ hx
        · intro t ht
          exact wake_mem (w.setChan c { c0 with txAlive := false, reg := false }) t ht
      · exact ⟨_, w.woken, rfl, fun x hx => lookupFirst_setAssoc_ne _ _ _ _ hx, fun _ _ => Iff.rfl⟩

/-! ## whole histories -/

/-- two sessions that differ at most in the registrations of channel `ch` -/
def CSim (ch : Nat) (c c' : Ctx) : Prop := noSubs c = noSubs c' ∧ subsOff ch c.subs = subsOff ch c'.subs

theorem CSim.eq_with {ch : Nat} {c c' : Ctx} (h : CSim ch c c') : c' = { c with subs := c'.subs } := by
  have := h.1
  cases c; cases c'
  simp only [noSubs, Ctx.mk.injEq] at this
  simp_all

/-- two inputs of the serving loop that differ at most in whether the receiver of `ch` is reported dead -/
def InSim (ch : Nat) : CIn → CIn → Prop
  | .msg m wok, .msg m' wok' => m = m' ∧ wok = wok'
  | .pkt p dead wok, .pkt p' dead' wok' => p = p' ∧ wok = wok' ∧ ∀ x, x ≠ ch → (x ∈ dead ↔ x ∈ dead')
  | _, _ => False

/-- two histories of inputs, pairwise `InSim` -/
def InsSim (ch : Nat) : List CIn → List CIn → Prop
  | [], [] => True
  | i :: is, i' :: is' => InSim ch i i' ∧ InsSim ch is is'
  | _, _ => False

/-- every subscription identifier is registered once in every session the served history goes through -/
def OnceAlong (c : Ctx) : List CIn → Prop
  | [] => (c.subs.map (·.1)).Nodup
  | i :: is => (c.subs.map (·.1)).Nodup ∧ ((c.stepIn i).2.flow = .cont → OnceAlong (c.stepIn i).1 is)

/-- a handled input without the effects on channel `ch` -/
def obsOff (ch : Nat) : CObs → CObs
  | .msg m effs fl => .msg m (effs.filter (offCh ch)) fl
  | .pkt p effs fl => .pkt p (effs.filter (offCh ch)) fl

theorem stepIn_sim (ch : Nat) (c c' : Ctx) (i i' : CIn) (hc : CSim ch c c') (hi : InSim ch i i')
    (hn : (c.subs.map (·.1)).Nodup) (hn' : (c'.subs.map (·.1)).Nodup) :
    CSim ch (c.stepIn i).1 (c'.stepIn i').1 ∧ obsOff ch (c.stepIn i).2 = obsOff ch (c'.stepIn i').2 ∧
    (c.stepIn i).2.flow = (c'.stepIn i').2.flow := by
  have e := hc.eq_with
  cases i with
  | msg m wok =>
    cases i' with
    | pkt p' dead' wok' => exact hi.elim
    | msg m' wok' =>
      obtain ⟨rfl, rfl⟩ := hi
      obtain ⟨h1, h2, h3⟩ := handleMsg_sim ch c c'.subs hc.2 m wok
      rw [← e] at h1 h2 h3
      simp only [Ctx.stepIn]
      refine ⟨⟨h2, h3⟩, ?_, ?_⟩
      · simp only [obsOff, CObs.msg.injEq, true_and]
        rw [h1]; exact ⟨rfl, rfl⟩
      · simp only [CObs.flow]; rw [h1]
  | pkt p dead wok =>
    cases i' with
    | msg m' wok' => exact hi.elim
    | pkt p' dead' wok' =>
      obtain ⟨rfl, rfl, hd⟩ := hi
      have hag : ∀ x, x ≠ ch → (fun c0 => decide (c0 ∉ dead)) x = (fun c0 => decide (c0 ∉ dead')) x := by
        intro x hx; simp [hd x hx]
      obtain ⟨h1, h2, h3, h4, _, _⟩ := handlePkt_sim ch c c'.subs _ _ hag hn hn' hc.2 p wok
      rw [← e] at h1 h2 h3 h4
      simp only [Ctx.stepIn]
      refine ⟨⟨h3, h4⟩, ?_, ?_⟩
      · simp only [obsOff, CObs.pkt.injEq, true_and]
        exact ⟨h2, h1⟩
      · simp only [CObs.flow]; exact h1

/-- **whole histories, with the receiver of `ch` alive or dead.** Serve two histories that differ at most in whether
    the receiver of `ch` is reported dead, from two sessions that differ at most in the registrations of `ch`, every
    subscription identifier being registered once along both. Then the sessions reached agree again on everything but
    the registrations of `ch`, and the two served histories are the same input by input — same requests, same
    packets, same writes, same completions, same deliveries into every other channel, same flow — except for the
    effects on channel `ch` itself. -/
theorem serve_sim_ch (ch : Nat) (c c' : Ctx) (is is' : List CIn) (hc : CSim ch c c') (hi : InsSim ch is is')
    (ho : OnceAlong c is) (ho' : OnceAlong c' is') :
    CSim ch (c.serve is).1 (c'.serve is').1 ∧
    (c.serve is).2.map (obsOff ch) = (c'.serve is').2.map (obsOff ch) := by
  induction is generalizing c c' is' with
  | nil =>
    cases is' with
    | nil => exact ⟨hc, rfl⟩
    | cons _ _ => exact hi.elim
  | cons i is ih =>
    cases is' with
    | nil => exact hi.elim
    | cons i' is' =>
      obtain ⟨hi1, hi2⟩ := hi
      obtain ⟨s1, s2, s3⟩ := stepIn_sim ch c c' i i' hc hi1 ho.1 ho'.1
      rw [Ctx.serve_cons, Ctx.serve_cons]
      by_cases hf : (c.stepIn i).2.flow = .cont
      · have hf' : (c'.stepIn i').2.flow = .cont := by rw [← s3]; exact hf
        simp only [hf, hf', ↓reduceIte, List.map_cons]
        obtain ⟨r1, r2⟩ := ih _ _ is' s1 hi2 (ho.2 hf) (ho'.2 hf')
        exact ⟨r1, by rw [s2, r2]⟩
      · have hf' : ¬ (c'.stepIn i').2.flow = .cont := by rw [← s3]; exact hf
        simp only [hf, hf', ↓reduceIte, List.map_cons, List.map_nil]
        exact ⟨s1, by rw [s2]⟩

end W11
end World
end Poster
