/-
  Lemmas/WorldCancelEv.lean — `hide id` commutes with the sweep and with every script event that does not address
  task `op id`; the side conditions (`Side`) are carried through an event.
-/
import PosterModel.Lemmas.WorldCancelStep

set_option linter.unusedVariables false
set_option linter.unusedSimpArgs false

namespace Poster
open Framing
namespace World
namespace W11

/-! ## the sweep -/

/-- the body of the sweep's fold -/
def sweepF (w : World) (t : Task) : World :=
  if w.taskLive t ∧ t ∉ w.woken ∧ t ∉ w.held then w.pollTask t else w

theorem sweep_eq_fold (w : World) :
    w.sweep = ([Task.ctx] ++ (sortNat (w.ops.map (·.1))).map Task.op ++ (sortNat w.streams).map Task.st).foldl
      sweepF w := rfl

theorem Side.sweepF {id : Nat} {w : World} (h : Side id w) (t : Task) (ht : t ≠ .op id) : Side id (sweepF w t) := by
  unfold W11.sweepF
  split
  · exact h.pollTask t ht
  · exact h

/-- a frozen task is skipped by the sweep -/
theorem sweepF_frozen {id : Nat} {w : World} (h : Frozen id w) : sweepF w (.op id) = w := by
  unfold sweepF
  rcases h with h | h
  · simp [h]
  · simp [taskLive, h]

theorem sweepF_hide (id) (w : World) (t : Task) (ht : t ≠ .op id) (h : Side id w) :
    sweepF (hide id w) t = hide id (sweepF w t) := by
  unfold sweepF
  rw [taskLive_hide id w t ht]
  have e1 : t ∈ (hide id w).woken ↔ t ∈ w.woken := mem_woken_hide id w t ht
  have e2 : t ∈ (hide id w).held ↔ t ∈ w.held := mem_held_hide id w t ht
  simp only [e1, e2]
  split
  · exact pollTask_hide id w t ht h
  · rfl

theorem foldl_sweepF_hide (id) (ts : List Task) (w : World) (h : Side id w) :
    (ts.filter (keepT id)).foldl sweepF (hide id w) = hide id (ts.foldl sweepF w) ∧ Side id (ts.foldl sweepF w) := by
  induction ts generalizing w with
  | nil => exact ⟨rfl, h⟩
  | cons t ts ih =>
    by_cases ht : t = .op id
    · subst ht
      have : keepT id (Task.op id) = false := by simp
      simp only [List.filter_cons, this, Bool.false_eq_true, ↓reduceIte, List.foldl_cons, sweepF_frozen h.frozen]
      exact ih w h
    · have : keepT id t = true := by simpa using ht
      simp only [List.filter_cons, this, ↓reduceIte, List.foldl_cons, sweepF_hide id w t ht h]
      exact ih _ (h.sweepF t ht)

theorem insertSorted_of_le (n : Nat) (l : List Nat) (h : ∀ x ∈ l, n ≤ x) : insertSorted n l = n :: l := by
  cases l with
  | nil => rfl
  | cons a t => simp [insertSorted, h a (by simp)]

theorem insertSorted_mem (n x : Nat) (l : List Nat) (h : x ∈ insertSorted n l) : x = n ∨ x ∈ l := by
  induction l with
  | nil => simpa [insertSorted] using h
  | cons a t ih =>
    simp only [insertSorted] at h
    split at h
    · simpa using h
    · simp only [List.mem_cons] at h ⊢
      rcases h with h | h
      · exact Or.inr (Or.inl h)
      · rcases ih h with h | h
        · exact Or.inl h
        · exact Or.inr (Or.inr h)

theorem insertSorted_sorted (n : Nat) (l : List Nat) (h : l.Pairwise (· ≤ ·)) :
    (insertSorted n l).Pairwise (· ≤ ·) := by
  induction l with
  | nil => simp [insertSorted]
  | cons a t ih =>
    simp only [insertSorted]
    rw [List.pairwise_cons] at h
    split
    · rename_i hle
      rw [List.pairwise_cons]
      refine ⟨?_, List.pairwise_cons.mpr h⟩
      intro x hx
      rcases List.mem_cons.mp hx with rfl | hx
      · exact hle
      · exact Nat.le_trans hle (h.1 x hx)
    · rename_i hle
      rw [List.pairwise_cons]
      refine ⟨?_, ih h.2⟩
      intro x hx
      rcases insertSorted_mem n x t hx with rfl | hx
      · omega
      · exact h.1 x hx

theorem sortNat_sorted (l : List Nat) : (sortNat l).Pairwise (· ≤ ·) := by
  induction l with
  | nil => simp [sortNat]
  | cons a t ih => exact insertSorted_sorted a _ ih

theorem insertSorted_filter_keep (p : Nat → Bool) (n : Nat) (l : List Nat) (hs : l.Pairwise (· ≤ ·))
    (h : p n = true) : insertSorted n (l.filter p) = (insertSorted n l).filter p := by
  induction l with
  | nil => simp [insertSorted, h]
  | cons a t ih =>
    rw [List.pairwise_cons] at hs
    by_cases hle : n ≤ a
    · by_cases hp : p a = true
      · simp [insertSorted, hle, List.filter_cons, hp, h]
      · have hp' : p a = false := by simpa using hp
        simp only [List.filter_cons, hp', Bool.false_eq_true, ↓reduceIte, insertSorted, hle, h]
        exact insertSorted_of_le n _ (fun x hx => Nat.le_trans hle (hs.1 x (List.mem_filter.mp hx).1))
    · by_cases hp : p a = true
      · simp [insertSorted, hle, List.filter_cons, hp, ih hs.2]
      · simp [insertSorted, hle, List.filter_cons, hp, ih hs.2]

theorem insertSorted_filter_drop (p : Nat → Bool) (n : Nat) (l : List Nat) (h : p n = false) :
    (insertSorted n l).filter p = l.filter p := by
  induction l with
  | nil => simp [insertSorted, h]
  | cons a t ih =>
    by_cases hle : n ≤ a
    · simp [insertSorted, hle, List.filter_cons, h]
    · simp [insertSorted, hle, List.filter_cons, ih]

theorem sortNat_filter (p : Nat → Bool) (l : List Nat) : sortNat (l.filter p) = (sortNat l).filter p := by
  induction l with
  | nil => rfl
  | cons a t ih =>
    by_cases hp : p a = true
    · simp only [List.filter_cons, hp, ↓reduceIte]
      show insertSorted a (sortNat (t.filter p)) = (insertSorted a (sortNat t)).filter p
      rw [ih, insertSorted_filter_keep p a _ (sortNat_sorted t) hp]
    · have hp' : p a = false := by simpa using hp
      simp only [List.filter_cons, hp', Bool.false_eq_true, ↓reduceIte]
      show sortNat (t.filter p) = (insertSorted a (sortNat t)).filter p
      rw [ih, insertSorted_filter_drop p a _ hp']

/-- the tasks the sweep visits in the hidden world are those it visits in the full world, minus `op id` -/
theorem sweep_tasks_hide (id) (w : World) :
    ([Task.ctx] ++ (sortNat ((hide id w).ops.map (·.1))).map Task.op ++ (sortNat (hide id w).streams).map Task.st) =
      ([Task.ctx] ++ (sortNat (w.ops.map (·.1))).map Task.op ++ (sortNat w.streams).map Task.st).filter (keepT id) := by
  have e1 : (hide id w).ops.map (·.1) = (w.ops.map (·.1)).filter (keepK id) := by
    simp only [hide_ops, List.filter_map]; rfl
  have e2 : ∀ l : List Nat, (l.filter (keepK id)).map Task.op = (l.map Task.op).filter (keepT id) := by
    intro l
    induction l with
    | nil => rfl
    | cons a t ih =>
      by_cases ha : a = id
      · subst ha; simp [List.filter_cons, ih]
      · have h1 : keepK id a = true := by simpa using ha
        have h2 : keepT id (Task.op a) = true := by simp [ha]
        simp [List.filter_cons, h1, h2, ih]
  have e3 : ∀ l : List Nat, (l.map Task.st).filter (keepT id) = l.map Task.st := by
    intro l
    rw [List.filter_eq_self]
    intro t ht
    obtain ⟨n, _, rfl⟩ := List.mem_map.mp ht
    simp
  rw [e1, sortNat_filter, e2, List.filter_append, List.filter_append, e3]
  simp

/-- **the sweep commutes with hiding** -/
theorem sweep_hide (id) (w : World) (h : Side id w) : (hide id w).sweep = hide id w.sweep ∧ Side id w.sweep := by
  rw [sweep_eq_fold, sweep_eq_fold, sweep_tasks_hide]
  exact foldl_sweepF_hide id _ w h

/-! ## the script events -/

theorem feedEvents_hide (id) (w : World) (evs : List ReadEv) :
    (hide id w).feedEvents evs = hide id (w.feedEvents evs) := by
  unfold feedEvents
  w11_hdn
  simp only [mk_hide]
  by_cases hr : w.readerReg = true
  · simp only [hr, ↓reduceIte]
    rw [wake_hide id _ _ (by simp)]; rfl
  · simp only [hr, Bool.false_eq_true, ↓reduceIte]
    rfl

theorem flushRaw_hide (id) (w : World) : (hide id w).flushRaw = hide id w.flushRaw := by
  unfold flushRaw
  w11_hdn
  by_cases hp : w.wirePend = []
  · simp only [hp, ↓reduceIte]
  · simp only [hp, ↓reduceIte]
    rw [emit_hide id w _ rfl]; rfl

theorem badScript_hide (id) (w : World) : (hide id w).badScript = hide id w.badScript := by
  unfold badScript
  rw [emit_hide id w _ rfl]; rfl

theorem closeMsg_hide (id) (w : World) (m : Msg) : closeMsg (hide id w) m = hide id (closeMsg w m) := by
  cases m <;> simp only [closeMsg, dropSlotTx_hide, dropChanTx_hide]

theorem foldl_hide {α} (id) (f : World → α → World) (hf : ∀ w a, f (hide id w) a = hide id (f w a))
    (l : List α) (w : World) : l.foldl f (hide id w) = hide id (l.foldl f w) := by
  induction l generalizing w with
  | nil => rfl
  | cons a t ih => simp only [List.foldl_cons, hf, ih]

theorem dropCtxClosed_hide (id) (w : World) : dropCtxClosed (hide id w) = hide id (dropCtxClosed w) := by
  unfold dropCtxClosed
  simp only [hide_c, hide_queue]
  have e : dropCtxStart (hide id w) = hide id (dropCtxStart w) := rfl
  rw [e, foldl_hide id closeMsg (closeMsg_hide id),
    foldl_hide id _ (fun w e => dropSlotTx_hide id w e.2),
    foldl_hide id _ (fun w e => dropChanTx_hide id w e.2)]

theorem apply_dropCtx_hide (id) (w : World) : (hide id w).apply .dropCtx = hide id (w.apply .dropCtx) := by
  by_cases h : w.hasCtx = true
  · rw [apply_dropCtx _ h, apply_dropCtx _ (show (hide id w).hasCtx = true from h), dropCtxClosed_hide]
    rfl
  · have h' : (hide id w).hasCtx = false := by simpa using h
    have h'' : w.hasCtx = false := h'
    simp only [World.apply, h', h'', Bool.not_false, ↓reduceIte]
    rfl

theorem mineEv_task {id : Nat} {t : Task} :
    (mineEv id (.poll t) = false → t ≠ .op id) ∧ (mineEv id (.hold t) = false → t ≠ .op id) ∧
    (mineEv id (.release t) = false → t ≠ .op id) ∧ (mineEv id (.drop t) = false → t ≠ .op id) := by
  refine ⟨?_, ?_, ?_, ?_⟩ <;> intro h e <;> subst e <;> simp [mineEv] at h

/-- the operation table with a new, never polled operation -/
def addOpW (w : World) (j hd : Nat) (req : Req) : World := { w with ops := w.ops ++ [(j, OpSt.fresh hd req)] }

theorem apply_op_eq (w : World) (j hd : Nat) (req : Req) :
    w.apply (.op j hd req) =
      if hd ∉ w.handles ∨ (w.opSt j).isSome then w.badScript else (addOpW w j hd req).wake (.op j) := rfl

theorem addOpW_hide (id j : Nat) (w : World) (hd : Nat) (req : Req) (h : j ≠ id) :
    addOpW (hide id w) j hd req = hide id (addOpW w j hd req) := by
  apply world_ext <;> simp only [addOpW, hide_cfg, hide_hasCtx, hide_ctxDropped, hide_task, hide_c, hide_rx,
    hide_reader, hide_readerReg, hide_queue, hide_queueReg, hide_handles, hide_ops, hide_slots, hide_slotReg,
    hide_chans, hide_rsps, hide_streams, hide_pidCtr, hide_subCtr, hide_woken, hide_held, hide_written,
    hide_wirePend, hide_out, hide_bad]
  exact (filter_snoc_keep _ _ _ (by simpa using h)).symm

theorem hide_setHeld_snoc (id : Nat) (w : World) (t : Task) (h : t ≠ .op id) :
    ({ hide id w with held := (hide id w).held ++ [t] } : World) = hide id { w with held := w.held ++ [t] } := by
  apply world_ext <;> simp only [hide_cfg, hide_hasCtx, hide_ctxDropped, hide_task, hide_c, hide_rx,
    hide_reader, hide_readerReg, hide_queue, hide_queueReg, hide_handles, hide_ops, hide_slots, hide_slotReg,
    hide_chans, hide_rsps, hide_streams, hide_pidCtr, hide_subCtr, hide_woken, hide_held, hide_written,
    hide_wirePend, hide_out, hide_bad]
  exact (filter_snoc_keep _ _ _ (by simpa using h)).symm

theorem hide_setHeld_filter (id : Nat) (w : World) (t : Task) :
    ({ hide id w with held := (hide id w).held.filter (fun x => decide (x ≠ t)) } : World) =
      hide id { w with held := w.held.filter (fun x => decide (x ≠ t)) } := by
  apply world_ext <;> simp only [hide_cfg, hide_hasCtx, hide_ctxDropped, hide_task, hide_c, hide_rx,
    hide_reader, hide_readerReg, hide_queue, hide_queueReg, hide_handles, hide_ops, hide_slots, hide_slotReg,
    hide_chans, hide_rsps, hide_streams, hide_pidCtr, hide_subCtr, hide_woken, hide_held, hide_written,
    hide_wirePend, hide_out, hide_bad]
  exact filter_filter_comm _ _ _

theorem ite_hide_congr (id) (c : Prop) [Decidable c] {a b a' b' : World} (h1 : a = hide id a') (h2 : b = hide id b') :
    (if c then a else b) = hide id (if c then a' else b') := by
  split <;> assumption

/-- **every script event that does not address task `op id` commutes with hiding**, provided a handle is alive before
    and after it -/
theorem apply_hide (id) (w : World) (e : Ev) (hm : mineEv id e = false) (h : Side id w)
    (hk : (w.apply e).handles ≠ []) : (hide id w).apply e = hide id (w.apply e) := by
  have hh := h.handles
  cases e with
  | dropCtx => exact apply_dropCtx_hide id w
  | setup =>
    simp only [World.apply]
    w11_hdn
    by_cases h1 : w.task ≠ .none ∨ w.ctxDropped = true
    · simp only [h1, ↓reduceIte, badScript_hide]
    · simp only [h1, ↓reduceIte]
      by_cases h2 : w.hasCtx = true
      · simp only [h2, Bool.not_true, Bool.false_eq_true, ↓reduceIte, flushRaw_hide]
        rfl
      · have h2' : w.hasCtx = false := by simpa using h2
        simp only [h2', Bool.not_false, ↓reduceIte, hh, ne_eq, not_false_eq_true, true_or, badScript_hide]
  | connect t =>
    simp only [World.apply]
    w11_hdn
    refine ite_hide_congr id _ (badScript_hide id w) ?_
    exact wake_hide id { w with task := .connecting .connect t {} false } .ctx (by simp)
  | authorize a =>
    simp only [World.apply]
    w11_hdn
    refine ite_hide_congr id _ (badScript_hide id w) ?_
    exact wake_hide id { w with task := .connecting .authorize {} a false } .ctx (by simp)
  | run =>
    simp only [World.apply]
    w11_hdn
    refine ite_hide_congr id _ (badScript_hide id w) ?_
    exact wake_hide id { w with task := .running false } .ctx (by simp)
  | dropFut => rfl
  | markDisc secs =>
    simp only [World.apply]
    w11_hdn
    refine ite_hide_congr id _ (badScript_hide id w) ?_
    rfl
  | snap =>
    simp only [World.apply]
    w11_hdn
    refine ite_hide_congr id _ (badScript_hide id w) ?_
    exact emit_hide id w _ rfl
  | feed chunks =>
    simp only [World.apply]
    w11_hdn
    refine ite_hide_congr id _ (badScript_hide id w) ?_
    exact feedEvents_hide id w _
  | feedEof =>
    simp only [World.apply]
    w11_hdn
    refine ite_hide_congr id _ (badScript_hide id w) ?_
    exact feedEvents_hide id w _
  | feedErr =>
    simp only [World.apply]
    w11_hdn
    refine ite_hide_congr id _ (badScript_hide id w) ?_
    exact feedEvents_hide id w _
  | op j hd req =>
    have hj : j ≠ id := by simpa [mineEv] using hm
    rw [apply_op_eq, apply_op_eq, opSt_hide id w j hj]
    w11_hdn
    refine ite_hide_congr id _ (badScript_hide id w) ?_
    rw [addOpW_hide id j w _ _ hj]
    exact wake_hide id _ _ (by intro e; cases e; exact hj rfl)
  | poll t =>
    have ht : t ≠ .op id := mineEv_task.1 hm
    simp only [World.apply, taskLive_hide id w t ht]
    split
    · exact pollTask_hide id w t ht h
    · rfl
  | hold t =>
    have ht : t ≠ .op id := mineEv_task.2.1 hm
    simp only [World.apply]
    have e2 : t ∈ (hide id w).held ↔ t ∈ w.held := mem_held_hide id w t ht
    simp only [e2]
    split
    · rfl
    · exact hide_setHeld_snoc id w t ht
  | release t => exact hide_setHeld_filter id w t
  | drop t =>
    have ht : t ≠ .op id := mineEv_task.2.2.2 hm
    cases t with
    | ctx => rfl
    | op j =>
      have hj : j ≠ id := fun e => ht (by rw [e])
      exact dropOp_hide id w j hj hh (fun s k hst => (h.own hj hst).1)
    | st j =>
      simp only [World.apply]
      w11_hdn
      exact ite_hide_congr id _ rfl rfl
  | dropRsp j =>
    simp only [World.apply]
    w11_hdn
    exact ite_hide_congr id _ rfl rfl
  | stream j =>
    simp only [World.apply]
    w11_hdn
    refine ite_hide_congr id _ (badScript_hide id w) ?_
    exact wake_hide id { w with rsps := w.rsps.filter (fun x => decide (x ≠ j)), streams := w.streams ++ [j] }
        (.st j) (by simp)
  | clone a b =>
    simp only [World.apply]
    w11_hdn
    refine ite_hide_congr id _ (badScript_hide id w) ?_
    rfl
  | dropHandle x =>
    simp only [World.apply] at hk ⊢
    w11_hdn
    by_cases hx : x ∉ w.handles
    · simp only [hx, not_false_eq_true, ↓reduceIte]; exact badScript_hide id w
    · have hx' : x ∈ w.handles := by simpa using hx
      simp only [hx', not_true_eq_false, ↓reduceIte] at hk ⊢
      have hk' : w.handles.filter (fun y => decide (y ≠ x)) ≠ [] := by simpa using hk
      rw [senderGone_of_handles _ (by simpa using hk')]
      rw [senderGone_of_handles _ (by simpa using hk')]
      rfl

/-! ## the side conditions through an event -/

theorem apply_opsInv (w : World) (e : Ev) (h : OpsInv w) : OpsInv (w.apply e) := by
  rcases apply_decomp w e with ⟨j, hd, req, _, ha⟩ | hm
  · exact h.addOp ha
  · exact h.moves hm

theorem emit_opsInv (w : World) (o : Obs) (h : OpsInv w) : OpsInv (w.emit o) :=
  ⟨h.nodup, h.shape, h.pid⟩

theorem apply_held_mem (id) (w : World) (e : Ev) (hm : mineEv id e = false) (h : Task.op id ∈ w.held) :
    Task.op id ∈ (w.apply e).held := by
  cases e with
  | dropCtx =>
    by_cases hc : w.hasCtx = true
    · rw [apply_dropCtx _ hc]
      show Task.op id ∈ (dropCtxClosed w).held
      rw [(closes_inv (closes_dropCtxClosed w)).held_eq]; exact h
    · simp only [World.apply, hc, Bool.not_eq_true, Bool.not_false, ↓reduceIte]; exact h
  | poll t =>
    simp only [World.apply]
    split
    · rw [pollTask_held]; exact h
    · exact h
  | hold t =>
    simp only [World.apply]
    split
    · exact h
    · exact List.mem_append_left _ h
  | release t =>
    have ht : t ≠ .op id := mineEv_task.2.2.1 hm
    simp only [World.apply, List.mem_filter]
    exact ⟨h, by simpa using fun e => ht e.symm⟩
  | drop t =>
    rw [(apply_drop_frame w t).2.2.2.2.2.2.2.2.2.2.2.1]; exact h
  | setup =>
    simp only [World.apply]
    split
    · exact h
    · split
      · split
        · exact h
        · exact h
      · show Task.op id ∈ w.flushRaw.held
        unfold flushRaw; split <;> exact h
  | feed chunks =>
    simp only [World.apply]
    split
    · exact h
    · unfold feedEvents; simp only; split <;> simpa using h
  | feedEof =>
    simp only [World.apply]
    split
    · exact h
    · unfold feedEvents; simp only; split <;> simpa using h
  | feedErr =>
    simp only [World.apply]
    split
    · exact h
    · unfold feedEvents; simp only; split <;> simpa using h
  | op j hd req =>
    rw [apply_op_eq]
    split
    · exact h
    · simpa [addOpW] using h
  | _ =>
    simp only [World.apply]
    repeat' split
    all_goals first | exact h | simpa [badScript] using h

theorem evTag_ne (id : Nat) (e : Ev) (hm : mineEv id e = false) : ∀ t, EvTag e t → t ≠ some id := by
  intro t ht
  cases e with
  | poll u =>
    have hu : u ≠ .op id := mineEv_task.1 hm
    cases u with
    | ctx => intro e; rw [show t = none from ht] at e; cases e
    | st n => intro e; rw [show t = none from ht] at e; cases e
    | op n =>
      rcases (show t = none ∨ t = some n from ht) with hx | hx
      · intro e; rw [hx] at e; cases e
      · intro e; rw [hx] at e; cases e; exact hu rfl
  | drop u =>
    have hu : u ≠ .op id := mineEv_task.2.2.2 hm
    cases u with
    | ctx => intro e; rw [show t = none from ht] at e; cases e
    | st n => intro e; rw [show t = none from ht] at e; cases e
    | op n =>
      rcases (show t = none ∨ t = some n from ht) with hx | hx
      · intro e; rw [hx] at e; cases e
      · intro e; rw [hx] at e; cases e; exact hu rfl
  | _ => intro e; rw [show t = none from ht] at e; cases e

theorem apply_opSt_none (id) (w : World) (e : Ev) (hm : mineEv id e = false) (h : w.opSt id = none) :
    (w.apply e).opSt id = none := by
  rcases apply_decomp w e with ⟨j, hd, req, rfl, ha⟩ | hmv
  · have hj : j ≠ id := by simpa [mineEv] using hm
    unfold opSt at h ⊢
    rw [ha.ops]
    rw [User.lookupFirst_none_iff] at h ⊢
    simp only [List.map_append, List.map_cons, List.map_nil, List.mem_append, List.mem_singleton, not_or]
    exact ⟨h, fun e => hj e.symm⟩
  · rw [moves_opSt_ne hmv id (evTag_ne id e hm)]; exact h

theorem apply_frozen (id) (w : World) (e : Ev) (hm : mineEv id e = false) (h : Frozen id w) :
    Frozen id (w.apply e) := by
  rcases h with h | h
  · exact Or.inl (apply_held_mem id w e hm h)
  · exact Or.inr (apply_opSt_none id w e hm h)

theorem Side.emit {id : Nat} {w : World} (h : Side id w) (o : Obs) : Side id (w.emit o) :=
  ⟨h.handles, emit_opsInv w o h.ops, h.frozen⟩

theorem Side.apply {id : Nat} {w : World} (h : Side id w) (e : Ev) (hm : mineEv id e = false)
    (hk : (w.apply e).handles ≠ []) : Side id (w.apply e) :=
  ⟨hk, apply_opsInv w e h.ops, apply_frozen id w e hm h.frozen⟩

/-! ## settling: drain, sweep, drain, stall check — with two different fuels -/

/-- **settling two worlds that look the same once `op id` is hidden yields two worlds that look the same**, provided
    every drain involved reaches quiescence (which it always does from the worlds a script reaches,
    `World.W5.step_drains_quiet`). The fuels of the two sides differ (the fuel counts the operations), which is why
    quiescence is needed: two quiescent drains of the same world end in the same world. -/
theorem settle_hide_eq (id) (a b : World) (ha : Side id a) (hb : Side id b) (heq : hide id a = hide id b)
    (qa1 : (drain a.drainFuel a).pick = none) (qb1 : (drain b.drainFuel b).pick = none)
    (qa2 : (drain (drain a.drainFuel a).sweep.drainFuel (drain a.drainFuel a).sweep).pick = none)
    (qb2 : (drain (drain b.drainFuel b).sweep.drainFuel (drain b.drainFuel b).sweep).pick = none) :
    hide id (settle a) = hide id (settle b) ∧ (a.bad = false → Side id (settle a) ∧ Side id (settle b)) := by
  have hbad : a.bad = b.bad := (congrArg World.bad heq : (hide id a).bad = (hide id b).bad)
  unfold settle
  by_cases hba : a.bad = true
  · have hbb : b.bad = true := by rw [← hbad]; exact hba
    simp only [hba, hbb, ↓reduceIte]
    exact ⟨heq, fun h => by cases h⟩
  · have hba' : a.bad = false := by simpa using hba
    have hbb' : b.bad = false := by rw [← hbad]; exact hba'
    simp only [hba', hbb', Bool.false_eq_true, ↓reduceIte]
    -- first drain
    have sa1 := ha.drain a.drainFuel
    have sb1 := hb.drain b.drainFuel
    have e1 : hide id (drain a.drainFuel a) = hide id (drain b.drainFuel b) := by
      rw [← drain_hide id _ a ha, ← drain_hide id _ b hb, heq]
      apply drain_unique
      · rw [← heq, drain_hide id _ a ha, pick_hide id _ sa1.frozen]; exact qa1
      · rw [drain_hide id _ b hb, pick_hide id _ sb1.frozen]; exact qb1
    generalize drain a.drainFuel a = a1 at sa1 e1 qa2 ⊢
    generalize drain b.drainFuel b = b1 at sb1 e1 qb2 ⊢
    have hsw : a1.cfg.sweep = b1.cfg.sweep :=
      (congrArg (fun w => w.cfg.sweep) e1 : (hide id a1).cfg.sweep = (hide id b1).cfg.sweep)
    -- sweep phase
    have key : hide id (if a1.cfg.sweep = true then drain a1.sweep.drainFuel a1.sweep else a1) =
        hide id (if b1.cfg.sweep = true then drain b1.sweep.drainFuel b1.sweep else b1) ∧
        Side id (if a1.cfg.sweep = true then drain a1.sweep.drainFuel a1.sweep else a1) ∧
        Side id (if b1.cfg.sweep = true then drain b1.sweep.drainFuel b1.sweep else b1) := by
      by_cases hs : a1.cfg.sweep = true
      · have hs' : b1.cfg.sweep = true := by rw [← hsw]; exact hs
        simp only [hs, hs', ↓reduceIte]
        obtain ⟨ea, sa2⟩ := sweep_hide id a1 sa1
        obtain ⟨eb, sb2⟩ := sweep_hide id b1 sb1
        have e2 : hide id a1.sweep = hide id b1.sweep := by rw [← ea, ← eb, e1]
        generalize a1.sweep = a2 at sa2 e2 qa2 ⊢
        generalize b1.sweep = b2 at sb2 e2 qb2 ⊢
        refine ⟨?_, sa2.drain _, sb2.drain _⟩
        rw [← drain_hide id _ a2 sa2, ← drain_hide id _ b2 sb2, e2]
        apply drain_unique
        · rw [← e2, drain_hide id _ a2 sa2, pick_hide id _ (sa2.drain _).frozen]; exact qa2
        · rw [drain_hide id _ b2 sb2, pick_hide id _ (sb2.drain _).frozen]; exact qb2
      · have hs' : ¬ b1.cfg.sweep = true := by rw [← hsw]; exact hs
        simp only [hs, hs', Bool.false_eq_true, ↓reduceIte]
        exact ⟨e1, sa1, sb1⟩
    obtain ⟨e3, sa3, sb3⟩ := key
    generalize (if a1.cfg.sweep = true then drain a1.sweep.drainFuel a1.sweep else a1) = a3 at e3 sa3 ⊢
    generalize (if b1.cfg.sweep = true then drain b1.sweep.drainFuel b1.sweep else b1) = b3 at e3 sb3 ⊢
    have ht : a3.task = b3.task := (congrArg World.task e3 : (hide id a3).task = (hide id b3).task)
    have hr : a3.reader = b3.reader := (congrArg World.reader e3 : (hide id a3).reader = (hide id b3).reader)
    by_cases hst : a3.task ≠ .none ∧ a3.reader ≠ []
    · have hst' : b3.task ≠ .none ∧ b3.reader ≠ [] := by rw [← ht, ← hr]; exact hst
      simp only [hst, hst', and_self, ne_eq, not_false_eq_true, ↓reduceIte]
      refine ⟨?_, fun _ => ⟨sa3.emit _, sb3.emit _⟩⟩
      rw [← emit_hide id a3 .stall rfl, ← emit_hide id b3 .stall rfl, e3]
    · have hst' : ¬ (b3.task ≠ .none ∧ b3.reader ≠ []) := by rw [← ht, ← hr]; exact hst
      simp only [hst, hst', ↓reduceIte]
      exact ⟨e3, fun _ => ⟨sa3, sb3⟩⟩

end W11
end World
end Poster
