/-
  Lemmas/WorldOwnIds.lean — a script whose operation identifiers are pairwise distinct never starts an operation
  under the identifier of a response or stream that is still alive (`GoodFrom`): identifiers in `rsps`, `streams`
  and `ops` only ever come from `OP` events.
-/
import PosterModel.Lemmas.WorldOwnStream
import PosterModel.Lemmas.ScriptIds

set_option linter.unusedVariables false
set_option linter.unusedSimpArgs false

namespace Poster
open Framing
namespace World

/-- the identifier `n` is in use: as a response, a stream, or a pending operation -/
def Used (w : World) (n : Nat) : Prop := n ∈ w.rsps ∨ n ∈ w.streams ∨ w.opSt n ≠ none

theorem used_of_eq {w w' : World} (h1 : w'.ops = w.ops) (h2 : w'.rsps = w.rsps) (h3 : w'.streams = w.streams)
    (n : Nat) (h : Used w' n) : Used w n := by
  unfold Used at *
  simpa [opSt, h1, h2, h3] using h

macro "used_eq" : tactic =>
  `(tactic| (intro n hn; refine used_of_eq ?_ ?_ ?_ n hn <;> first | rfl | (simp; done)))

theorem pollStream_ids (w : World) (id : Nat) :
    (w.pollStream id).ops = w.ops ∧ (w.pollStream id).rsps = w.rsps ∧
    ∀ n, n ∈ (w.pollStream id).streams → n ∈ w.streams := by
  unfold pollStream
  split
  · exact ⟨rfl, rfl, fun _ h => h⟩
  · split
    · exact ⟨rfl, rfl, fun _ h => h⟩
    · split
      · exact ⟨by simp, by simp, fun _ h => by simpa using h⟩
      · split
        · exact ⟨rfl, rfl, fun _ h => h⟩
        · refine ⟨by simp, by simp, fun n h => ?_⟩
          have : n ∈ w.streams.filter (· ≠ id) := by simpa using h
          exact (List.mem_filter.mp this).1

theorem used_pollTask (w : World) (t : Task) (h : OwnInv w) : ∀ n, Used (w.pollTask t) n → Used w n := by
  cases t with
  | ctx =>
    have a := (hand_pollCtx (w.unwake .ctx)).act
    intro n hn
    exact used_of_eq (w := w) (by rw [pollTask]; simpa using a.ops_eq) (by rw [pollTask]; simpa using a.rsps_eq)
      (by rw [pollTask]; simpa using a.streams_eq) n hn
  | op id =>
    cases hop : w.opSt id with
    | none =>
      have e : w.pollTask (.op id) = w.unwake (.op id) := by simp [pollTask, pollOp, hop]
      rw [e]; used_eq
    | some st =>
      have f := (own_pollOp_task w id h).frame
      have hu : Used w id := Or.inr (Or.inr (by rw [hop]; simp))
      intro n hn
      by_cases e : n = id
      · subst e; exact hu
      · rcases hn with hn | hn | hn
        · rcases f.rspsSub n hn with hn | hn
          · exact Or.inl hn
          · exact absurd hn e
        · exact Or.inr (Or.inl (by rw [← f.streams_eq]; exact hn))
        · exact Or.inr (Or.inr (by rw [← f.ops n e]; exact hn))
  | st id =>
    obtain ⟨a, b, c⟩ := pollStream_ids (w.unwake (.st id)) id
    intro n hn
    rcases hn with hn | hn | hn
    · exact Or.inl (by simpa [pollTask, b] using hn)
    · exact Or.inr (Or.inl (by simpa using c n hn))
    · exact Or.inr (Or.inr (by simpa [pollTask, opSt, a] using hn))

theorem used_dropOp (w : World) (id : Nat) (h : OwnInv w) : ∀ n, Used (w.dropOp id) n → Used w n := by
  cases hop : w.opSt id with
  | none => simp only [dropOp, hop]; exact fun _ h => h
  | some st =>
    have f := (own_dropOp w id h).frame
    have hu : Used w id := Or.inr (Or.inr (by rw [hop]; simp))
    intro n hn
    by_cases e : n = id
    · subst e; exact hu
    · rcases hn with hn | hn | hn
      · rcases f.rspsSub n hn with hn | hn
        · exact Or.inl hn
        · exact absurd hn e
      · exact Or.inr (Or.inl (by rw [← f.streams_eq]; exact hn))
      · exact Or.inr (Or.inr (by rw [← f.ops n e]; exact hn))


theorem used_badScript (w : World) : ∀ n, Used w.badScript n → Used w n := by
  unfold badScript; used_eq

theorem used_feedEvents (w : World) (evs : List ReadEv) : ∀ n, Used (w.feedEvents evs) n → Used w n := by
  unfold feedEvents
  simp only
  split
  · used_eq
  · used_eq

theorem used_flushRaw (w : World) : ∀ n, Used w.flushRaw n → Used w n := by
  unfold flushRaw
  split
  · exact fun _ h => h
  · used_eq

theorem used_apply (w : World) (e : Ev) (h : OwnInv w) : ∀ n, Used (w.apply e) n → Used w n ∨ evOpId e = some n := by
  have lift : ∀ {w' : World}, (∀ n, Used w' n → Used w n) → ∀ n, Used w' n → Used w n ∨ evOpId e = some n :=
    fun hh n hn => Or.inl (hh n hn)
  cases e with
  | setup =>
    simp only [apply]
    split
    · exact lift (used_badScript w)
    · split
      · split
        · exact lift (used_badScript w)
        · exact lift (by used_eq)
      · refine lift (fun n hn => used_flushRaw w n ?_)
        revert n; used_eq
  | connect t => simp only [apply]; split <;> first | exact lift (used_badScript w) | exact lift (by used_eq)
  | authorize a => simp only [apply]; split <;> first | exact lift (used_badScript w) | exact lift (by used_eq)
  | run => simp only [apply]; split <;> first | exact lift (used_badScript w) | exact lift (by used_eq)
  | dropFut => exact lift (by simp only [apply]; used_eq)
  | dropCtx =>
    cases hc : w.hasCtx with
    | false =>
      have e : w.apply .dropCtx = { w with task := .none } := by simp [apply, hc]
      rw [e]; exact lift (by used_eq)
    | true =>
      rw [apply_dropCtx w hc]
      have inv := closes_inv (closes_dropCtxClosed w)
      refine lift (fun n hn => used_of_eq (w := w) ?_ ?_ ?_ n hn)
      · exact inv.ops_eq
      · exact inv.rsps_eq
      · exact inv.streams_eq
  | markDisc secs => simp only [apply]; split <;> first | exact lift (used_badScript w) | exact lift (by used_eq)
  | snap => simp only [apply]; split <;> first | exact lift (used_badScript w) | exact lift (by used_eq)
  | feed chunks => simp only [apply]; split <;> first | exact lift (used_badScript w) | exact lift (used_feedEvents w _)
  | feedEof => simp only [apply]; split <;> first | exact lift (used_badScript w) | exact lift (used_feedEvents w _)
  | feedErr => simp only [apply]; split <;> first | exact lift (used_badScript w) | exact lift (used_feedEvents w _)
  | op id hd req =>
    simp only [apply]; split
    · exact lift (used_badScript w)
    · intro n hn
      by_cases e : n = id
      · subst e; exact Or.inr rfl
      · left
        rcases hn with hn | hn | hn
        · exact Or.inl (by simpa using hn)
        · exact Or.inr (Or.inl (by simpa using hn))
        · refine Or.inr (Or.inr ?_)
          simp only [opSt, wake_ops, lookupFirst_append] at hn
          cases hl : lookupFirst n w.ops with
          | none => rw [hl] at hn; simp [lookupFirst, Ne.symm e] at hn
          | some v => simp [opSt, hl]
  | poll t =>
    simp only [apply]; split
    · exact lift (used_pollTask w t h)
    · exact lift (fun _ h => h)
  | hold t => simp only [apply]; split <;> first | exact lift (fun _ h => h) | exact lift (by used_eq)
  | release t => exact lift (by simp only [apply]; used_eq)
  | drop t =>
    cases t with
    | ctx => exact lift (fun _ h => h)
    | op id => exact lift (used_dropOp w id h)
    | st id =>
      simp only [apply]; split
      · refine lift (fun n hn => ?_)
        rcases hn with hn | hn | hn
        · exact Or.inl (by simpa using hn)
        · have : n ∈ w.streams.filter (· ≠ id) := by simpa using hn
          exact Or.inr (Or.inl (List.mem_filter.mp this).1)
        · exact Or.inr (Or.inr (by simpa [opSt] using hn))
      · exact lift (fun _ h => h)
  | dropRsp id =>
    simp only [apply]; split
    · refine lift (fun n hn => ?_)
      rcases hn with hn | hn | hn
      · have : n ∈ w.rsps.filter (· ≠ id) := by simpa using hn
        exact Or.inl (List.mem_filter.mp this).1
      · exact Or.inr (Or.inl (by simpa using hn))
      · exact Or.inr (Or.inr (by simpa [opSt] using hn))
    · exact lift (fun _ h => h)
  | stream id =>
    simp only [apply]; split
    · exact lift (used_badScript w)
    · rename_i hid
      have hid' : id ∈ w.rsps := by simpa using hid
      refine lift (fun n hn => ?_)
      rcases hn with hn | hn | hn
      · have : n ∈ w.rsps.filter (· ≠ id) := by simpa using hn
        exact Or.inl (List.mem_filter.mp this).1
      · simp only [wake_streams, List.mem_append, List.mem_singleton] at hn
        rcases hn with hn | hn
        · exact Or.inr (Or.inl hn)
        · subst hn; exact Or.inl hid'
      · exact Or.inr (Or.inr (by simpa [opSt] using hn))
  | clone hd h2 => simp only [apply]; split <;> first | exact lift (used_badScript w) | exact lift (by used_eq)
  | dropHandle hd =>
    simp only [apply]; split
    · exact lift (used_badScript w)
    · exact lift (by used_eq)

theorem used_drain (f : Nat) (w : World) (h : OwnInv w) : ∀ n, Used (drain f w) n → Used w n := by
  induction f generalizing w with
  | zero => exact fun _ h => h
  | succ f ih =>
    simp only [drain]
    split
    · exact fun _ h => h
    · rename_i t _
      exact fun n hn => used_pollTask w t h n (ih _ (own_pollTask w t h) n hn)

theorem used_sweep (w : World) (h : OwnInv w) : ∀ n, Used w.sweep n → Used w n := by
  unfold sweep
  simp only
  generalize ([Task.ctx] ++ List.map Task.op (sortNat (List.map (fun x => x.1) w.ops)) ++
    List.map Task.st (sortNat w.streams)) = tasks
  suffices hh : ∀ (l : List Task) (w0 : World), OwnInv w0 → ∀ n,
      Used (l.foldl (fun w t => if w.taskLive t ∧ t ∉ w.woken ∧ t ∉ w.held then w.pollTask t else w) w0) n →
      Used w0 n from hh tasks w h
  intro l
  induction l with
  | nil => intro w0 _ n hn; exact hn
  | cons t rest ih =>
    intro w0 h0 n hn
    simp only [List.foldl_cons] at hn
    split at hn
    · exact used_pollTask w0 t h0 n (ih _ (own_pollTask w0 t h0) n hn)
    · exact ih _ h0 n hn

theorem used_emit (w : World) (o : Obs) : ∀ n, Used (w.emit o) n → Used w n := by used_eq

theorem used_step (w : World) (e : Ev) (h : OwnInv w) : ∀ n, Used (w.step e) n → Used w n ∨ evOpId e = some n := by
  unfold step
  split
  · exact fun n hn => Or.inl hn
  · have h0 := own_emit w (.ev e) h
    have h1 : OwnInv ((w.emit (.ev e)).apply e) := own_apply _ e h0
    have u1 : ∀ n, Used ((w.emit (.ev e)).apply e) n → Used w n ∨ evOpId e = some n := by
      intro n hn
      rcases used_apply _ e h0 n hn with hn | hn
      · exact Or.inl (used_emit w _ n hn)
      · exact Or.inr hn
    generalize (w.emit (.ev e)).apply e = w1 at h1 u1 ⊢
    simp only
    split
    · exact u1
    · have h2 : OwnInv (drain w1.drainFuel w1) := own_drain _ _ h1
      have u2 : ∀ n, Used (drain w1.drainFuel w1) n → Used w n ∨ evOpId e = some n :=
        fun n hn => u1 n (used_drain _ w1 h1 n hn)
      generalize drain w1.drainFuel w1 = w2 at h2 u2 ⊢
      have u3 : ∀ n, Used (if w2.cfg.sweep = true then drain w2.sweep.drainFuel w2.sweep else w2) n →
          Used w n ∨ evOpId e = some n := by
        split
        · exact fun n hn => u2 n (used_sweep w2 h2 n (used_drain _ _ (own_sweep w2 h2) n hn))
        · exact u2
      generalize (if w2.cfg.sweep = true then drain w2.sweep.drainFuel w2.sweep else w2) = w3 at u3 ⊢
      split
      · exact fun n hn => u3 n (used_emit _ _ n hn)
      · exact u3


/-- a script whose (future) operation identifiers are pairwise distinct and not in use is a good one -/
theorem goodFrom_of_nodup (evs : List Ev) (w : World) (h : OwnInv w) (hn : (opIds evs).Nodup)
    (hu : ∀ n, n ∈ opIds evs → ¬ Used w n) : GoodFrom w evs := by
  induction evs generalizing w with
  | nil => trivial
  | cons e t ih =>
    have hsplit : opIds (e :: t) = (match evOpId e with | some n => [n] | none => []) ++ opIds t := by
      simp only [opIds, List.filterMap_cons]
      cases evOpId e <;> rfl
    refine ⟨?_, ih _ (own_step w e h) ?_ ?_⟩
    · cases e with
      | op id hd req =>
        have := hu id (by simp [opIds, evOpId])
        exact ⟨fun hm => this (Or.inl hm), fun hm => this (Or.inr (Or.inl hm))⟩
      | _ => trivial
    · rw [hsplit] at hn
      exact (List.nodup_append.mp hn).2.1
    · intro n hm hused
      rcases used_step w e h n hused with hused | hused
      · exact hu n (by rw [hsplit]; exact List.mem_append_right _ hm) hused
      · rw [hsplit, hused] at hn
        have := (List.nodup_append.mp hn).2.2 n (by simp) n hm
        exact this rfl

/-- **a script that uses every operation identifier once never re-uses a live stream identifier** -/
theorem goodFrom_script (cfg : Cfg) (evs : List Ev) (hn : (opIds evs).Nodup) : GoodFrom { cfg := cfg } evs :=
  goodFrom_of_nodup evs _ (ownInv_init cfg) hn (fun n _ hu => by
    rcases hu with hu | hu | hu
    · simp at hu
    · simp at hu
    · simp [opSt, lookupFirst] at hu)

end World
end Poster
