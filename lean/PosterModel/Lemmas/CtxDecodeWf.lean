/-
  Lemmas/CtxDecodeWf.lean — what the decoder guarantees about the packets `handle_packet` receives
  (`RxPacket.wf` of CtxRun.lean): packet identifiers are non-zero 16-bit numbers, an inbound PUBLISH has QoS ≤ 2 and a
  packet identifier exactly when its QoS is not 0. Used by Properties/C08.lean (`decodeRx_wf`).
-/
import PosterModel.CtxRun

set_option linter.unusedVariables false
set_option linter.unusedSimpArgs false

namespace Poster

theorem Res.bind_eq_ok {α β} (r : Res α) (f : α → Res β) (b : β) :
    r.bind f = .ok b ↔ ∃ a, r = .ok a ∧ f a = .ok b := by
  cases r <;> simp [Res.bind]

theorem Res.map_eq_ok {α β} (r : Res α) (f : α → β) (b : β) :
    r.map f = .ok b ↔ ∃ a, r = .ok a ∧ f a = b := by
  cases r <;> simp [Res.map, Res.bind]

/-- `NonZero<u16>::try_decode` yields a value in 1..65535 -/
theorem decNzU16_range {d : Bytes} {n : Nat} (h : decNzU16 d = .ok n) : 0 < n ∧ n < 65536 := by
  unfold decNzU16 at h
  match d, h with
  | a :: b :: _, h =>
    have ha := a.toNat_lt
    have hb := b.toNat_lt
    simp only [decU16, Res.bind_ok] at h
    split at h
    · simp at h
    · simp only [Res.ok.injEq] at h; omega
  | [_], h => simp [decU16] at h
  | [], h => simp [decU16] at h

theorem dNzU16_range {d d' : Bytes} {n : Nat} (h : dNzU16 d = .ok (n, d')) : 0 < n ∧ n < 65536 := by
  unfold dNzU16 tryDec at h
  cases hd : decNzU16 d with
  | ok v =>
    rw [hd] at h
    simp only at h
    split at h
    · simp only [Res.ok.injEq, Prod.mk.injEq] at h
      exact h.1 ▸ decNzU16_range hd
    · simp at h
  | err => rw [hd] at h; simp at h
  | panic => rw [hd] at h; simp at h

/-- the property loop never touches a component that no builder step touches -/
theorem foldProps_inv {β α} (step : β → Property → Option β) (f : β → α)
    (hs : ∀ b p b', step b p = some b' → f b' = f b) :
    ∀ (n : Nat) (bs : Bytes) (b b' : β), foldProps step n bs b = .ok b' → f b' = f b := by
  intro n
  induction n with
  | zero =>
    intro bs b b' h
    cases bs with
    | nil => simp only [foldProps, Res.ok.injEq] at h; rw [h]
    | cons x t => simp [foldProps] at h
  | succ n ih =>
    intro bs b b' h
    cases bs with
    | nil => simp only [foldProps, Res.ok.injEq] at h; rw [h]
    | cons x t =>
      simp only [foldProps] at h
      split at h
      · split at h
        · rename_i hst
          rw [ih _ _ _ h, hs _ _ _ hst]
        · simp at h
      · simp at h
      · simp at h

theorem AckRx.step_packetId (b : AckRx) (p : Property) (b' : AckRx) (h : b.step p = some b') :
    b'.packetId = b.packetId := by
  unfold AckRx.step at h
  split at h <;> simp at h <;> rw [← h]

theorem SubackRx.step_packetId (b : SubackRx) (p : Property) (b' : SubackRx) (h : b.step p = some b') :
    b'.packetId = b.packetId := by
  unfold SubackRx.step at h
  split at h <;> simp at h <;> rw [← h]

theorem PublishRx.step_qos_pid (b : PublishRx) (p : Property) (b' : PublishRx) (h : b.step p = some b') :
    (b'.qos, b'.packetId) = (b.qos, b.packetId) := by
  unfold PublishRx.step at h
  split at h <;> simp at h <;> rw [← h]

/-- `AckRx::try_decode` (PUBACK, PUBREC, PUBREL, PUBCOMP): the packet identifier is in 1..65535 -/
theorem decAck_wf (hdr : Nat) (ok : Nat → Bool) (bs : Bytes) (a : AckRx) (h : decAck hdr ok bs = .ok a) :
    0 < a.packetId ∧ a.packetId < 65536 := by
  unfold decAck at h
  simp only [Res.bind_eq_ok] at h
  obtain ⟨⟨h0, d0⟩, _, h⟩ := h
  split at h
  · simp at h
  simp only [Res.bind_eq_ok] at h
  obtain ⟨⟨rl, d1⟩, _, h⟩ := h
  split at h
  · simp at h
  simp only [Res.bind_eq_ok] at h
  obtain ⟨⟨pid, d2⟩, hpid, h⟩ := h
  have hr := dNzU16_range hpid
  split at h
  · simp only [Res.ok.injEq] at h; rw [← h]; exact hr
  simp only [Res.bind_eq_ok] at h
  obtain ⟨⟨reason, d3⟩, _, h⟩ := h
  split at h
  · simp only [Res.ok.injEq] at h; rw [← h]; exact hr
  simp only [Res.bind_eq_ok] at h
  obtain ⟨⟨pl, d4⟩, _, h⟩ := h
  split at h
  · simp at h
  have := foldProps_inv AckRx.step (·.packetId) AckRx.step_packetId _ _ _ _ h
  simp only at this
  rw [this]; exact hr

/-- `SubackRx::try_decode` / `UnsubackRx::try_decode`: the packet identifier is in 1..65535 -/
theorem decSubackLike_wf (hdr : Nat) (ok : Nat → Bool) (bs : Bytes) (a : SubackRx)
    (h : decSubackLike hdr ok bs = .ok a) : 0 < a.packetId ∧ a.packetId < 65536 := by
  unfold decSubackLike at h
  simp only [Res.bind_eq_ok] at h
  obtain ⟨⟨h0, d0⟩, _, h⟩ := h
  split at h
  · simp at h
  simp only [Res.bind_eq_ok] at h
  obtain ⟨⟨rl, d1⟩, _, h⟩ := h
  split at h
  · simp at h
  simp only [Res.bind_eq_ok] at h
  obtain ⟨⟨pid, d2⟩, hpid, h⟩ := h
  have hr := dNzU16_range hpid
  obtain ⟨⟨pl, d3⟩, _, h⟩ := h
  split at h
  · simp at h
  simp only [Res.bind_eq_ok] at h
  obtain ⟨c, hc, d4, _, rs, _, h⟩ := h
  have := foldProps_inv SubackRx.step (·.packetId) SubackRx.step_packetId _ _ _ _ hc
  simp only at this
  simp only [Res.ok.injEq] at h
  rw [← h]; simp only; rw [this]; exact hr

/-- `PublishRx::try_decode`: QoS ≤ 2, and a (non-zero, 16-bit) packet identifier exactly when QoS > 0 -/
theorem decPublish_wf (bs : Bytes) (p : PublishRx) (h : decPublish bs = .ok p) : p.wf := by
  unfold decPublish at h
  simp only [Res.bind_eq_ok] at h
  obtain ⟨⟨hdr, d0⟩, _, h⟩ := h
  split at h
  · simp at h
  simp only at h
  split at h
  · simp at h
  rename_i hq3
  simp only [Res.bind_eq_ok] at h
  obtain ⟨⟨rl, d1⟩, _, h⟩ := h
  split at h
  · simp at h
  simp only [Res.bind_eq_ok] at h
  obtain ⟨⟨topic, d2⟩, _, ⟨pid, d3⟩, hpid, ⟨pl, d4⟩, _, h⟩ := h
  split at h
  · simp at h
  simp only [Res.bind_eq_ok] at h
  obtain ⟨c, hc, d5, _, h⟩ := h
  have hinv := foldProps_inv PublishRx.step (fun b => (b.qos, b.packetId)) PublishRx.step_qos_pid _ _ _ _ hc
  simp only [Prod.mk.injEq] at hinv
  simp only [Res.ok.injEq] at h
  have hq : hdr / 2 % 4 ≤ 2 := by omega
  unfold PublishRx.wf
  rw [← h]; simp only; rw [hinv.1, hinv.2]
  split at hpid
  · rename_i hq0
    simp only [Res.ok.injEq, Prod.mk.injEq] at hpid
    rw [← hpid.1]
    simp [hq0]
  · rename_i hq0
    simp only [Res.map_eq_ok] at hpid
    obtain ⟨⟨n, d'⟩, hn, hpid⟩ := hpid
    have hr := dNzU16_range hn
    simp only [Prod.mk.injEq] at hpid
    rw [← hpid.1]
    refine ⟨hq, by simp [hq0], ?_⟩
    intro pid' hp
    simp only [Option.some.injEq] at hp
    rw [← hp]; exact hr

/-- **the decoder establishes `RxPacket.wf`** -/
theorem decodeRx_wf_aux (bs : Bytes) (p : RxPacket) (h : decodeRx bs = .ok p) : p.wf := by
  unfold decodeRx at h
  split at h
  · simp at h
  split at h <;> try simp only [Res.map_eq_ok, Res.bind_eq_ok] at h
  · obtain ⟨a, _, rfl⟩ := h; trivial
  · obtain ⟨a, ha, rfl⟩ := h; exact decPublish_wf _ _ ha
  · obtain ⟨a, ha, rfl⟩ := h; exact decAck_wf _ _ _ _ ha
  · obtain ⟨a, ha, rfl⟩ := h; exact decAck_wf _ _ _ _ ha
  · obtain ⟨a, ha, rfl⟩ := h; exact decAck_wf _ _ _ _ ha
  · obtain ⟨a, ha, rfl⟩ := h; exact decAck_wf _ _ _ _ ha
  · obtain ⟨a, ha, rfl⟩ := h; exact decSubackLike_wf _ _ _ _ ha
  · obtain ⟨a, ha, rfl⟩ := h; exact decSubackLike_wf _ _ _ _ ha
  · obtain ⟨a, _, h⟩ := h
    split at h
    · simp at h
    · simp only [Res.ok.injEq] at h; rw [← h]; trivial
  · obtain ⟨a, _, rfl⟩ := h; trivial
  · obtain ⟨a, _, rfl⟩ := h; trivial
  · simp at h

end Poster
