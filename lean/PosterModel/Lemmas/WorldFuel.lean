/-
  Lemmas/WorldFuel.lean — C04: the executor always reaches quiescence within the fuel `drainFuel` gives it.
    * `W5.pollTask_phi`: every poll the executor makes strictly decreases the potential `W5.phi`;
    * `W5.drain_quiet'`: hence the drain ends quiescent as soon as its fuel exceeds the potential;
    * `W5.phi_lt_drainFuel`: the potential is below `drainFuel` as long as at most 30 never-polled operations are
      ready at once (an operation that was never polled is the only thing that costs more than the 4 units the
      fuel formula grants per table entry);
    * along a script at most ONE never-polled operation is ready when a drain starts (`W5.nFresh_apply`, after a
      quiescent world), so every drain of every step of every script ends quiescent (`W5.step_quiet'`).
-/
import PosterModel.Lemmas.WorldFuelOp
import PosterModel.Lemmas.WorldFuelReg
import PosterModel.Lemmas.WorldOps

set_option linter.unusedVariables false
set_option linter.unusedSimpArgs false

namespace Poster
open Framing
namespace World
namespace W5

theorem regE_of_regInv {w : World} (hn : (w.ops.map (·.1)).Nodup) (h : RegInv w) : RegE w := by
  intro s hs id st hm hid
  obtain ⟨k, hk⟩ := h s hs
  have h1 := lookupFirst_of_mem_nodup id st w.ops hn hm
  subst hid
  have e : lookupFirst (s / 2) w.ops = some (.wait s k) := hk
  rw [h1] at e
  exact ⟨k, Option.some.inj e⟩

/-! ## every poll decreases the potential -/

theorem unwake_ctx_phi (w : World) (hl : w.task ≠ .none) (hw : Task.ctx ∈ w.woken) :
    phi (w.unwake .ctx) + 1 ≤ phi w := by
  have hu : ∀ t, t ∈ (w.unwake .ctx).woken → t ∈ w.woken := fun t ht => (List.mem_filter.mp ht).1
  have hnf : Task.ctx ∉ (w.unwake .ctx).woken := by
    intro h; have := (List.mem_filter.mp h).2; simp at this
  have h1 : opsPot (w.unwake .ctx) ≤ opsPot w := opsPot_le_of_woken rfl rfl rfl (fun n h => hu _ h)
  have h2 : stPot (w.unwake .ctx) = stPot w :=
    stPot_congr rfl rfl (fun n => ⟨hu _, fun h => List.mem_filter.mpr ⟨h, by simp⟩⟩) rfl
  have h3 : ctxFlag (w.unwake .ctx) = 0 := by simp [ctxFlag, hnf]
  have h4 : ctxFlag w = 1 := by simp [ctxFlag, hl, hw]
  have h5 : ctxZ (w.unwake .ctx) = ctxZ w := rfl
  have h6 : mu (w.unwake .ctx).rx (w.unwake .ctx).reader = mu w.rx w.reader := rfl
  unfold phi phiU
  rw [h6]
  omega

/-- **one poll by the executor strictly decreases the potential** -/
theorem pollTask_phi (w : World) (t : Task) (ho : OwnInv w) (hr : RegInv w) (hp : w.pick = some t) :
    phi (w.pollTask t) < phi w := by
  obtain ⟨hw, hl, hh⟩ := pick_some_spec w t hp
  cases t with
  | ctx =>
    have hlive : w.task ≠ .none := by simpa [taskLive] using hl
    have hr0 : RegInv (w.unwake .ctx) := hr
    have hre : RegE (w.unwake .ctx) := regE_of_regInv (w := w.unwake .ctx) ho.nodup hr0
    have h1 := pollCtx_phi (w.unwake .ctx) hre
    have h2 := unwake_ctx_phi w hlive hw
    show phi ((w.unwake .ctx).pollCtx) < phi w
    omega
  | op id =>
    simp only [taskLive, Option.isSome_iff_exists] at hl
    obtain ⟨st, hst⟩ := hl
    exact pollOp_phi w id ho hw hh st hst
  | st id =>
    simp only [taskLive, decide_eq_true_eq] at hl
    exact pollStream_phi w id hw hl hh

/-- **the executor reaches quiescence** as soon as its fuel exceeds the potential -/
theorem drain_quiet' (f : Nat) (w : World) (ho : OwnInv w) (hr : RegInv w) (hf : phi w < f) :
    (drain f w).pick = none := by
  induction f generalizing w with
  | zero => omega
  | succ f ih =>
    simp only [drain]
    split
    · assumption
    · rename_i t ht
      have h2 := pollTask_phi w t ho hr ht
      exact ih _ (own_pollTask w t ho) (regInv_pollTask w t ho hr) (by omega)

/-! ## the potential against the fuel -/

/-- a never-polled operation that the script does not hold -/
def isFreshNH (held : List Task) (e : Nat × OpSt) : Bool :=
  match e.2 with
  | .fresh _ _ => decide (Task.op e.1 ∉ held)
  | .wait _ _ => false

def nFreshP (held : List Task) (ops : List (Nat × OpSt)) : Nat := (ops.filter (isFreshNH held)).length

/-- the number of never-polled operations ready to be polled -/
def nFresh (w : World) : Nat := nFreshP w.held w.ops

theorem opCost_le (held woken : List Task) (slots : List (Nat × Slot)) (e : Nat × OpSt) :
    opCost held woken slots e ≤ 4 + (if isFreshNH held e then 2 else 0) := by
  obtain ⟨id, st⟩ := e
  unfold opCost
  split
  · omega
  · rename_i hh
    cases st with
    | fresh h r => simp [isFreshNH, hh, opBase, opSpur]
    | wait s k =>
      have a := opBase_wait_le s k
      have b := opSpur_le woken slots id (.wait s k)
      simp only [isFreshNH]; omega

theorem sum_map_le_count {α} (f : α → Nat) (p : α → Bool) (l : List α)
    (h : ∀ x ∈ l, f x ≤ 4 + (if p x then 2 else 0)) : (l.map f).sum ≤ 4 * l.length + 2 * (l.filter p).length := by
  induction l with
  | nil => simp
  | cons a t ih =>
    have h1 := h a List.mem_cons_self
    have h2 := ih (fun x hx => h x (List.mem_cons_of_mem _ hx))
    simp only [List.map_cons, List.sum_cons, List.length_cons, List.filter_cons]
    by_cases hp : p a = true
    · simp only [hp, ↓reduceIte, List.length_cons] at h1 ⊢; omega
    · simp only [hp, Bool.false_eq_true, ↓reduceIte] at h1 ⊢; omega

theorem opsPot_le_fuel (w : World) : opsPot w ≤ 4 * w.ops.length + 2 * nFresh w :=
  sum_map_le_count _ _ _ (fun e _ => opCost_le _ _ _ e)

theorem stSum_le_fuel (w : World) : stSum w ≤ 3 * w.streams.length := by
  unfold stSum
  have h1 : ((uniq w.streams).map (stCost w.held w.woken w.chans)).sum ≤ ((uniq w.streams).map (fun _ => 3)).sum :=
    sum_map_le _ _ _ (fun n _ => stCost_le _ _ _ n)
  have h2 : ((uniq w.streams).map (fun _ => 3)).sum = 3 * (uniq w.streams).length := by
    generalize uniq w.streams = l
    induction l with
    | nil => rfl
    | cons a t ih => simp only [List.map_cons, List.sum_cons, List.length_cons, ih]; omega
  have h3 := length_uniq_le w.streams
  omega

/-- **the fuel `drainFuel` exceeds the potential** unless more than 30 never-polled operations are ready -/
theorem phi_lt_drainFuel (w : World) (h : nFresh w ≤ 30) : phi w < w.drainFuel := by
  have h1 := opsPot_le_fuel w
  have h2 := stSum_le_fuel w
  have h3 := ctxFlag_le_one w
  have h4 := ctxZ_le_one w
  unfold phi phiU stPot mu drainFuel bufSum at *
  omega

theorem drain_fuel_quiet' (w : World) (ho : OwnInv w) (hr : RegInv w) (h : nFresh w ≤ 30) :
    (drain w.drainFuel w).pick = none :=
  drain_quiet' _ w ho hr (phi_lt_drainFuel w h)

/-! ## never-polled operations ready at once -/

theorem nFresh_congr {w w' : World} (h1 : w'.ops = w.ops) (h2 : w'.held = w.held) : nFresh w' = nFresh w := by
  unfold nFresh; rw [h1, h2]

theorem nFreshP_erase (held : List Task) (id : Nat) (l : List (Nat × OpSt)) :
    nFreshP held (eraseFirst id l) ≤ nFreshP held l :=
  ((eraseFirst_sublist id l).filter _).length_le

theorem nFreshP_setAssoc_wait (held : List Task) (id s : Nat) (k : Wait) (l : List (Nat × OpSt)) :
    nFreshP held (setAssoc id (.wait s k) l) ≤ nFreshP held l := by
  induction l with
  | nil => simp [setAssoc, nFreshP, isFreshNH]
  | cons x t ih =>
    obtain ⟨a, b⟩ := x
    simp only [setAssoc]
    split
    · have h1 : nFreshP held ((id, OpSt.wait s k) :: t) = nFreshP held t := by
        simp [nFreshP, List.filter_cons, isFreshNH]
      have h2 : nFreshP held t ≤ nFreshP held ((a, b) :: t) := by
        unfold nFreshP
        simp only [List.filter_cons]
        split
        · simp
        · exact Nat.le_refl _
      omega
    · unfold nFreshP at ih ⊢
      simp only [List.filter_cons]
      split
      · simp only [List.length_cons]; omega
      · exact ih

theorem nFreshP_append_one (held : List Task) (l : List (Nat × OpSt)) (e : Nat × OpSt) :
    nFreshP held (l ++ [e]) ≤ nFreshP held l + 1 := by
  simp only [nFreshP, List.filter_append, List.length_append, List.filter_cons, List.filter_nil]
  split <;> simp

theorem length_filter_le_add {α} (p' p q : α → Bool) (l : List α)
    (h : ∀ x ∈ l, p' x = true → p x = true ∨ q x = true) :
    (l.filter p').length ≤ (l.filter p).length + (l.filter q).length := by
  induction l with
  | nil => simp
  | cons a t ih =>
    have iht := ih (fun x hx => h x (List.mem_cons_of_mem _ hx))
    have ha := h a List.mem_cons_self
    simp only [List.filter_cons]
    cases hp' : p' a <;> cases hp : p a <;> cases hq : q a <;>
      simp only [hp', hp, hq, ↓reduceIte, Bool.false_eq_true, List.length_cons] <;>
      first
      | omega
      | (rw [hp', hp, hq] at ha; simp at ha)

theorem length_filter_key_le_one (n : Nat) (l : List (Nat × OpSt)) (hn : (l.map (·.1)).Nodup) :
    (l.filter (fun e => decide (e.1 = n))).length ≤ 1 := by
  induction l with
  | nil => simp
  | cons x t ih =>
    obtain ⟨a, b⟩ := x
    simp only [List.map_cons, List.nodup_cons] at hn
    simp only [List.filter_cons]
    by_cases ha : a = n
    · subst ha
      have : t.filter (fun e => decide (e.1 = a)) = [] := by
        rw [List.filter_eq_nil_iff]
        intro e he
        simp only [decide_eq_true_eq]
        intro h
        exact hn.1 (List.mem_map.mpr ⟨e, he, h⟩)
      simp [this]
    · simp only [ha, decide_false, Bool.false_eq_true, ↓reduceIte]
      exact ih hn.2

theorem nFreshP_release (held : List Task) (t : Task) (l : List (Nat × OpSt)) (hn : (l.map (·.1)).Nodup) :
    nFreshP (held.filter (· ≠ t)) l ≤ nFreshP held l + 1 := by
  cases t with
  | op n =>
    have h1 := length_filter_le_add (isFreshNH (held.filter (· ≠ Task.op n))) (isFreshNH held)
      (fun e => decide (e.1 = n)) l (fun e _ he => by
        obtain ⟨id, st⟩ := e
        cases st with
        | wait s k => simp [isFreshNH] at he
        | fresh h r =>
          simp only [isFreshNH, List.mem_filter, decide_eq_true_eq, not_and, Decidable.not_not] at he ⊢
          by_cases hm : Task.op id ∈ held
          · right
            have := he hm
            simpa using this
          · left; exact hm)
    have h2 := length_filter_key_le_one n l hn
    unfold nFreshP; omega
  | ctx =>
    have : nFreshP (held.filter (· ≠ Task.ctx)) l ≤ nFreshP held l := by
      unfold nFreshP
      refine length_filter_le_of_imp _ _ _ (fun e _ he => ?_)
      obtain ⟨id, st⟩ := e
      cases st with
      | wait s k => simp [isFreshNH] at he
      | fresh h r =>
        simp only [isFreshNH, List.mem_filter, decide_eq_true_eq, not_and, Decidable.not_not] at he ⊢
        intro hm; have := he hm; simp at this
    omega
  | st n =>
    have : nFreshP (held.filter (· ≠ Task.st n)) l ≤ nFreshP held l := by
      unfold nFreshP
      refine length_filter_le_of_imp _ _ _ (fun e _ he => ?_)
      obtain ⟨id, st⟩ := e
      cases st with
      | wait s k => simp [isFreshNH] at he
      | fresh h r =>
        simp only [isFreshNH, List.mem_filter, decide_eq_true_eq, not_and, Decidable.not_not] at he ⊢
        intro hm; have := he hm; simp at this
    omega

theorem nFreshP_hold (held : List Task) (t : Task) (l : List (Nat × OpSt)) :
    nFreshP (held ++ [t]) l ≤ nFreshP held l := by
  unfold nFreshP
  refine length_filter_le_of_imp _ _ _ (fun e _ he => ?_)
  obtain ⟨id, st⟩ := e
  cases st with
  | wait s k => simp [isFreshNH] at he
  | fresh h r =>
    simp only [isFreshNH, List.mem_append, decide_eq_true_eq, not_or] at he ⊢
    exact he.1

/-- in a quiescent world every never-polled operation is held -/
theorem nFresh_zero_of_quiet (w : World) (ho : OwnInv w) (hq : w.pick = none) : nFresh w = 0 := by
  unfold nFresh nFreshP
  rw [List.length_eq_zero_iff, List.filter_eq_nil_iff]
  intro e he
  obtain ⟨id, st⟩ := e
  cases st with
  | wait s k => simp [isFreshNH]
  | fresh h r =>
    have hst : w.opSt id = some (.fresh h r) := lookupFirst_of_mem_nodup id _ w.ops ho.nodup he
    have hw := ho.freshWoken id h r hst
    have hheld := pick_none_held w (.op id) hq hw (by simp [taskLive, hst])
    simp [isFreshNH, hheld]

/-! ### handle futures never touch the held set -/

theorem sendAwait_held (w : World) (m : Msg) (id s : Nat) (k : Wait) : (w.sendAwait m id s k).held = w.held := by
  obtain ⟨_, _, _, _, _, _, _, e⟩ := User.sendAwait_frame w m id s k; rw [e]

theorem finO_held (X : World) (id : Nat) (o : Obs) : (finO X id o).held = X.held := by simp [finO]

theorem startOp_held (w : World) (id : Nat) (req : Req) : (w.startOp id req).held = w.held := by
  cases req with
  | publish t =>
    by_cases hq : t.qos = 0
    · rw [User.startOp_publish0 w id t hq]; split <;> simp [sendAwait_held]
    · rw [User.startOp_publish12 w id t hq]; split <;> simp [sendAwait_held]
  | subscribe t =>
    rw [User.startOp_subscribe w id t]
    simp only
    split
    · simp
    · split
      · simp
      · rename_i w' hm
        have e := sendMsg_eq ((w.allocPid.2).allocSub.2.setChan id {})
          (.subscribe (actionId 9 w.pidCtr) w.subCtr
            ({ t with packetId := w.pidCtr, subId := some w.subCtr } : SubscribeTx).encode (2 * id) id)
        rw [e] at hm
        split at hm
        · simp only [Option.some.injEq] at hm; subst hm; simp
        · cases hm
  | unsubscribe t => rw [User.startOp_unsubscribe w id t]; split <;> simp [sendAwait_held]
  | ping => rw [User.startOp_ping w id]; exact sendAwait_held _ _ _ _ _
  | disconnect t => rw [User.startOp_disconnect w id t]; exact sendAwait_held _ _ _ _ _

theorem resumeOp_held (w : World) (id s : Nat) (k : Wait) (v : SlotVal) : (w.resumeOp id s k v).held = w.held := by
  rcases resumeOp_shape w id s k v with ⟨o, e⟩ | ⟨o, e⟩ | ⟨_, m, e⟩
  · rw [e, finO_held]; rfl
  · rw [e, finO_held]; rfl
  · rw [e, sendAwait_held]; rfl

theorem pollOp_held (w : World) (id : Nat) : (w.pollOp id).held = w.held := by
  unfold pollOp
  split
  · rfl
  · exact startOp_held _ _ _
  · split
    · exact resumeOp_held _ _ _ _ _
    · simp
    · rfl

theorem pollStream_ops_held (w : World) (id : Nat) : (w.pollStream id).ops = w.ops ∧ (w.pollStream id).held = w.held := by
  unfold pollStream
  split
  · exact ⟨rfl, rfl⟩
  · split
    · exact ⟨rfl, rfl⟩
    · split
      · simp
      · split <;> simp

theorem nFresh_pollOp (w : World) (id : Nat) : nFresh (w.pollOp id) ≤ nFresh w := by
  have hh := pollOp_held w id
  rcases pollOp_one w id with h | h | h
  · rw [h]; exact Nat.le_refl _
  · cases h with
    | cmsg m q hq queue ops => exact Nat.le_of_eq (nFresh_congr ops hh)
    | cpkt p aid slot pre post wf haid haw hpre aw queue ops => exact Nat.le_of_eq (nFresh_congr ops hh)
    | drop queue aw ops => exact Nat.le_of_eq (nFresh_congr ops hh)
  · cases h with
    | finish id st hst ops =>
      unfold nFresh; rw [ops, hh]; exact nFreshP_erase _ _ _
    | send id st m s k hst shape ops =>
      unfold nFresh; rw [ops, hh]; exact nFreshP_setAssoc_wait _ _ _ _ _

theorem nFresh_pollTask (w : World) (t : Task) : nFresh (w.pollTask t) ≤ nFresh w := by
  cases t with
  | ctx =>
    have a := (hand_pollCtx (w.unwake .ctx)).act
    exact Nat.le_of_eq (nFresh_congr a.ops_eq a.held_eq)
  | op id =>
    have := nFresh_pollOp (w.unwake (.op id)) id
    exact this
  | st id =>
    have a := pollStream_ops_held (w.unwake (.st id)) id
    exact Nat.le_of_eq (nFresh_congr a.1 a.2)

theorem nFresh_drain (f : Nat) (w : World) : nFresh (drain f w) ≤ nFresh w := by
  induction f generalizing w with
  | zero => exact Nat.le_refl _
  | succ f ih =>
    simp only [drain]
    split
    · exact Nat.le_refl _
    · rename_i t _
      exact Nat.le_trans (ih _) (nFresh_pollTask w t)

theorem nFresh_sweep (w : World) : nFresh w.sweep ≤ nFresh w := by
  unfold sweep
  simp only
  generalize ([Task.ctx] ++ List.map Task.op (sortNat (List.map (fun x => x.1) w.ops)) ++
    List.map Task.st (sortNat w.streams)) = tasks
  suffices h : ∀ (l : List Task) (w0 : World),
      nFresh (l.foldl (fun w t => if w.taskLive t ∧ t ∉ w.woken ∧ t ∉ w.held then w.pollTask t else w) w0) ≤
        nFresh w0 from h tasks w
  intro l
  induction l with
  | nil => intro w0; exact Nat.le_refl _
  | cons t rest ih =>
    intro w0
    simp only [List.foldl_cons]
    split
    · exact Nat.le_trans (ih _) (nFresh_pollTask w0 t)
    · exact ih _

theorem dropOp_nFresh (w : World) (id : Nat) : nFresh (w.dropOp id) ≤ nFresh w := by
  unfold dropOp
  split
  · exact Nat.le_refl _
  · have e1 : (({ w with ops := eraseFirst id w.ops } : World).senderGone).ops = eraseFirst id w.ops := by simp
    have e2 : (({ w with ops := eraseFirst id w.ops } : World).senderGone).held = w.held := by simp
    unfold nFresh; rw [e1, e2]; exact nFreshP_erase _ _ _
  · rename_i s k _
    have key : ∀ X : World, X.ops = w.ops → X.held = w.held →
        nFresh (({ X with ops := eraseFirst id X.ops } : World).senderGone) ≤ nFresh w := by
      intro X h1 h2
      have e1 : (({ X with ops := eraseFirst id X.ops } : World).senderGone).ops = eraseFirst id w.ops := by
        simp [h1]
      have e2 : (({ X with ops := eraseFirst id X.ops } : World).senderGone).held = w.held := by simp [h2]
      unfold nFresh; rw [e1, e2]; exact nFreshP_erase _ _ _
    cases k <;> exact key _ rfl rfl

/-- **a script event makes at most one never-polled operation ready** -/
theorem nFresh_apply (w : World) (e : Ev) (ho : OwnInv w) : nFresh (w.apply e) ≤ nFresh w + 1 := by
  have same : ∀ W : World, W.ops = w.ops → W.held = w.held → nFresh W ≤ nFresh w + 1 := by
    intro W h1 h2; rw [nFresh_congr h1 h2]; omega
  cases e with
  | setup =>
    simp only [apply]
    split
    · exact same _ rfl rfl
    · split
      · split
        · exact same _ rfl rfl
        · exact same _ rfl rfl
      · exact same _ (by simp [flushRaw]; split <;> rfl) (by simp [flushRaw]; split <;> rfl)
  | connect t => simp only [apply]; split <;> exact same _ (by simp [badScript]) (by simp [badScript])
  | authorize a => simp only [apply]; split <;> exact same _ (by simp [badScript]) (by simp [badScript])
  | run => simp only [apply]; split <;> exact same _ (by simp [badScript]) (by simp [badScript])
  | dropFut => exact same _ rfl rfl
  | dropCtx =>
    cases hc : w.hasCtx with
    | false => simp only [apply, hc]; exact same _ rfl rfl
    | true =>
      rw [apply_dropCtx w hc]
      have inv := closes_inv (closes_dropCtxClosed w)
      exact same _ (by simp [inv.ops_eq]; rfl) (by simp [inv.held_eq]; rfl)
  | markDisc secs => simp only [apply]; split <;> exact same _ (by simp [badScript]) (by simp [badScript])
  | snap => simp only [apply]; split <;> exact same _ (by simp [badScript]) (by simp [badScript])
  | feed chunks =>
    simp only [apply]; split
    · exact same _ (by simp [badScript]) (by simp [badScript])
    · exact same _ (by unfold feedEvents; simp only; split <;> simp) (by unfold feedEvents; simp only; split <;> simp)
  | feedEof =>
    simp only [apply]; split
    · exact same _ (by simp [badScript]) (by simp [badScript])
    · exact same _ (by unfold feedEvents; simp only; split <;> simp) (by unfold feedEvents; simp only; split <;> simp)
  | feedErr =>
    simp only [apply]; split
    · exact same _ (by simp [badScript]) (by simp [badScript])
    · exact same _ (by unfold feedEvents; simp only; split <;> simp) (by unfold feedEvents; simp only; split <;> simp)
  | op id hd req =>
    simp only [apply]; split
    · exact same _ (by simp [badScript]) (by simp [badScript])
    · have e1 : (({ w with ops := w.ops ++ [(id, OpSt.fresh hd req)] } : World).wake (.op id)).ops =
          w.ops ++ [(id, OpSt.fresh hd req)] := by simp
      have e2 : (({ w with ops := w.ops ++ [(id, OpSt.fresh hd req)] } : World).wake (.op id)).held = w.held := by
        simp
      unfold nFresh; rw [e1, e2]; exact nFreshP_append_one _ _ _
  | poll t =>
    simp only [apply]; split
    · have := nFresh_pollTask w t; omega
    · omega
  | hold t =>
    simp only [apply]; split
    · omega
    · have := nFreshP_hold w.held t w.ops
      show nFreshP (w.held ++ [t]) w.ops ≤ _
      unfold nFresh; omega
  | release t =>
    have := nFreshP_release w.held t w.ops ho.nodup
    exact this
  | drop t =>
    cases t with
    | ctx => exact same _ rfl rfl
    | op id => have := dropOp_nFresh w id; show nFresh (w.dropOp id) ≤ _; omega
    | st id => simp only [apply]; split <;> exact same _ (by simp) (by simp)
  | dropRsp id => simp only [apply]; split <;> exact same _ (by simp) (by simp)
  | stream id => simp only [apply]; split <;> exact same _ (by simp [badScript]) (by simp [badScript])
  | clone hd h2 => simp only [apply]; split <;> exact same _ (by simp [badScript]) (by simp [badScript])
  | dropHandle hd => simp only [apply]; split <;> exact same _ (by simp [badScript]) (by simp [badScript])

end W5
end World
end Poster
