/-
  Lemmas/WorldQuietUser.lean — the registration invariant through one poll of a handle future (`pollOp`), a
  dropped handle future (`dropOp`), one poll of a subscription stream (`pollStream`), and so through one poll of
  any task by the executor (`pollTask`).
-/
import PosterModel.Lemmas.WorldQuietCtx

set_option linter.unusedVariables false
set_option linter.unusedSimpArgs false

namespace Poster
open Framing
namespace World

/-- operation `id` is finished, or waits on an existing oneshot with its waker registered -/
def OpSettled (w : World) (id : Nat) : Prop :=
  TaskOk w (.op id) ∧ ∀ s k, w.opSt id = some (.wait s k) → w.slot s ≠ none

theorem opSettled_of_none {w : World} {id : Nat} (h : w.opSt id = none) : OpSettled w id :=
  ⟨fun st hst => (by rw [h] at hst; cases hst), fun s k hst => (by rw [h] at hst; cases hst)⟩

theorem Inv.allocPid {E : Task → Prop} {w : World} (h : Inv E w) : Inv E w.allocPid.2 :=
  h.frame (fun _ x => x) rfl rfl rfl rfl rfl rfl h.hasCtx (Or.inr (Or.inr ⟨rfl, rfl, rfl, rfl, rfl, rfl, rfl⟩))

theorem Inv.allocSub {E : Task → Prop} {w : World} (h : Inv E w) : Inv E w.allocSub.2 :=
  h.frame (fun _ x => x) rfl rfl rfl rfl rfl rfl h.hasCtx (Or.inr (Or.inr ⟨rfl, rfl, rfl, rfl, rfl, rfl, rfl⟩))

theorem Inv.finishOp' {E : Task → Prop} {w : World} (h : Inv E w) (id : Nat) (r : DoneRes) :
    Inv E (w.finishOp id r) ∧ OpSettled (w.finishOp id r) id :=
  ⟨h.finishOp id r, opSettled_of_none (finishOp_opSt_self h id r)⟩

theorem sendMsg_fields {w w' : World} {m : Msg} (hm : w.sendMsg m = some w') :
    w'.ops = w.ops ∧ w'.streams = w.streams ∧ w'.rsps = w.rsps := by
  rw [sendMsg_eq] at hm
  split at hm
  · simp only [Option.some.injEq] at hm; subst hm; exact ⟨rfl, rfl, rfl⟩
  · cases hm

/-- `sender.unbounded_send(msg)?; receiver.await` -/
theorem Inv.sendAwait {E : Task → Prop} {w : World} (h : Inv E w) (m : Msg) (id s : Nat) (k : Wait) (st0 : OpSt)
    (hop : w.opSt id = some st0) (hs : s = 2 * id ∨ (s = 2 * id + 1 ∧ k = .pubcomp))
    (hk : k = .suback → id ∉ w.streams ∧ id ∉ w.rsps) :
    Inv E (w.sendAwait m id s k) ∧ OpSettled (w.sendAwait m id s k) id := by
  unfold World.sendAwait
  cases hm : w.sendMsg m with
  | none => exact h.finishOp' id _
  | some w' =>
    simp only
    obtain ⟨e1, e2, e3⟩ := sendMsg_fields hm
    obtain ⟨a, b, c⟩ := (h.sendMsg m hm).awaitSlot id s k st0 (by simpa [opSt, e1] using hop) hs
      (by rw [e2, e3]; exact hk)
    refine ⟨a, b, fun s' k' hst => ?_⟩
    have : (w'.awaitSlot id s k).opSt id = some (.wait s k) := by
      simp [World.awaitSlot, opSt, lookupFirst_setAssoc_self]
    rw [this] at hst; cases hst; exact c

/-- `receiver.await` registers the waker again -/
theorem Inv.addReg {E : Task → Prop} {w : World} (h : Inv E w) (s : Nat) :
    Inv E { w with slotReg := if s ∈ w.slotReg then w.slotReg else w.slotReg ++ [s] } := by
  refine ⟨h.hasCtx, fun t ht hE => ?_, h.own, h.slotEx, h.nodup, h.subp, h.disj⟩
  have h0 := h.ok t ht hE
  cases t with
  | ctx => exact h0.ctx_congr rfl rfl rfl rfl rfl rfl (by simp [senders])
  | st id => exact h0.st_congr rfl rfl
  | op id =>
    intro st hst
    obtain ⟨s', k', rfl, h1, h2⟩ := h0 st hst
    refine ⟨s', k', rfl, h1, ?_⟩
    show s' ∈ (if s ∈ w.slotReg then w.slotReg else w.slotReg ++ [s])
    split <;> simp [h2]

/-- a SUBACK produced a response from which a stream can be taken -/
theorem Inv.addRsp {E : Task → Prop} {w : World} (h : Inv E w) (id : Nat) (hop : w.opSt id = none)
    (hs : id ∉ w.streams) : Inv E { w with rsps := w.rsps ++ [id] } := by
  refine ⟨h.hasCtx, fun t ht hE => ?_, h.own, h.slotEx, h.nodup, ?_, ?_⟩
  · have h0 := h.ok t ht hE
    cases t with
    | ctx => exact h0.ctx_congr rfl rfl rfl rfl rfl rfl (by simp [senders])
    | st id => exact h0.st_congr rfl rfl
    | op id => exact h0.op_congr rfl rfl rfl
  · intro id' hsub
    have hne : id' ≠ id := by
      rintro rfl
      have : w.opSt id' = none := hop
      rcases hsub with ⟨hh, t, e⟩ | ⟨s2, e⟩
      · have e' : w.opSt id' = _ := e
        rw [this] at e'; cases e'
      · have e' : w.opSt id' = _ := e
        rw [this] at e'; cases e'
    obtain ⟨a, b⟩ := h.subp id' hsub
    exact ⟨a, by simp [b, hne]⟩
  · intro id' hid
    simp only [List.mem_append, List.mem_singleton] at hid
    rcases hid with hid | rfl
    · exact h.disj id' hid
    · exact hs

theorem finishOp_rsps_comm (w : World) (id : Nat) (r : DoneRes) (l : List Nat) :
    ({ w with rsps := l } : World).finishOp id r = { w.finishOp id r with rsps := l } := by
  simp only [World.finishOp, World.senderGone, World.senders, World.emit]
  by_cases hc : (w.handles.length + (eraseFirst id w.ops).length = 0 ∧ w.hasCtx = true ∧ w.queueReg = true)
  · simp only [hc, and_self, ↓reduceIte, wake_eq]
  · simp only [hc, ↓reduceIte]

/-! ## a handle future polled for the first time -/

theorem Inv.startOp {E : Task → Prop} {w : World} (h : Inv E w) (id hh : Nat) (req : Req)
    (hop : w.opSt id = some (.fresh hh req)) :
    Inv E (w.startOp id req) ∧ OpSettled (w.startOp id req) id := by
  have hk0 : ∀ {k : Wait}, k ≠ .suback → k = .suback → id ∉ w.streams ∧ id ∉ w.rsps := fun a b => absurd b a
  cases req with
  | publish t =>
    by_cases hq : t.qos = 0
    · rw [User.startOp_publish0 w id t hq]
      split
      · exact h.finishOp' id _
      · exact h.sendAwait _ id _ _ _ hop (Or.inl rfl) (hk0 (by simp))
    · rw [User.startOp_publish12 w id t hq]
      split
      · exact h.allocPid.finishOp' id _
      · refine h.allocPid.sendAwait _ id _ _ _ hop (Or.inl rfl) ?_
        split <;> exact hk0 (by simp)
  | subscribe t =>
    obtain ⟨hs1, hs2⟩ := h.subp id (Or.inl ⟨hh, t, hop⟩)
    rw [User.startOp_subscribe]
    simp only
    have h1 : Inv E (w.allocPid.2).allocSub.2 := h.allocPid.allocSub
    split
    · exact h1.finishOp' id _
    · have h2 : Inv E (((w.allocPid.2).allocSub.2).setChan id {}) := h1.setChan id {} hs1
      split
      · exact (h2.dropChanRx id hs1).finishOp' id _
      · rename_i w' hm
        obtain ⟨e1, e2, e3⟩ := sendMsg_fields hm
        obtain ⟨a, b, c⟩ := (h2.sendMsg _ hm).awaitSlot id (2 * id) .suback _
          (by simpa [opSt, e1] using hop) (Or.inl rfl) (fun _ => by rw [e2, e3]; exact ⟨hs1, hs2⟩)
        refine ⟨a, b, fun s' k' hst => ?_⟩
        have : (w'.awaitSlot id (2 * id) .suback).opSt id = some (.wait (2 * id) .suback) := by
          simp [World.awaitSlot, opSt, lookupFirst_setAssoc_self]
        rw [this] at hst; cases hst; exact c
  | unsubscribe t =>
    rw [User.startOp_unsubscribe]
    split
    · exact h.allocPid.finishOp' id _
    · exact h.allocPid.sendAwait _ id _ _ _ hop (Or.inl rfl) (hk0 (by simp))
  | ping =>
    rw [User.startOp_ping]
    exact h.sendAwait _ id _ _ _ hop (Or.inl rfl) (hk0 (by simp))
  | disconnect t =>
    rw [User.startOp_disconnect]
    exact h.sendAwait _ id _ _ _ hop (Or.inl rfl) (hk0 (by simp))

/-! ## a handle future resumed with the value of its oneshot -/

theorem Inv.resumeOp {E : Task → Prop} {w : World} (h : Inv E w) (id s : Nat) (k : Wait) (v : SlotVal)
    (hop : w.opSt id = some (.wait s k)) (hE : E (.op id)) :
    Inv E (w.resumeOp id s k v) ∧ OpSettled (w.resumeOp id s k v) id := by
  have h1 : Inv E (w.clearSlot s) := h.clearSlot id s k hop hE
  have hop1 : (w.clearSlot s).opSt id = some (.wait s k) := hop
  have fin : ∀ r, Inv E ((w.clearSlot s).finishOp id r) ∧ OpSettled ((w.clearSlot s).finishOp id r) id :=
    fun r => h1.finishOp' id r
  have pan : ∀ o, Inv E (({ (w.clearSlot s) with ops := eraseFirst id (w.clearSlot s).ops }).emit o |>.senderGone) ∧
      OpSettled (({ (w.clearSlot s) with ops := eraseFirst id (w.clearSlot s).ops }).emit o |>.senderGone) id := by
    intro o
    refine ⟨h1.eraseOp id _, opSettled_of_none ?_⟩
    have e := senderGone_eq (({ (w.clearSlot s) with ops := eraseFirst id (w.clearSlot s).ops }).emit o)
    rw [e]
    exact lookupFirst_eraseFirst_self _ _ h1.nodup
  cases v with
  | errSize => exact fin _
  | errQuota => exact fin _
  | unit => simp only [World.resumeOp]; split <;> exact fin _
  | pkt p =>
    cases k <;> cases p <;> simp only [World.resumeOp] <;>
      first
      | exact fin _
      | exact pan _
      | (split <;> exact fin _)
      | skip
    · -- PUBREC: the PUBREL goes out and the PUBCOMP is awaited on the second oneshot
      rename_i a
      split
      · exact fin _
      · have hs : s = 2 * id := by
          rcases h.own id s _ hop with e | ⟨_, e⟩
          · exact e
          · cases e
        exact h1.sendAwait _ id (s + 1) .pubcomp _ hop1 (Or.inr ⟨by omega, rfl⟩) (fun e => by cases e)
    · -- SUBACK: the response (from which the stream is taken) is handed out
      rename_i a
      obtain ⟨hs1, hs2⟩ := h.subp id (Or.inr ⟨s, hop⟩)
      rw [finishOp_rsps_comm]
      have hnone := finishOp_opSt_self h1 id (DoneRes.okAck false a.reasonString a.userProps a.payload)
      refine ⟨?_, opSettled_of_none hnone⟩
      have := (h1.finishOp id (DoneRes.okAck false a.reasonString a.userProps a.payload)).addRsp id hnone
        (by simpa using hs1)
      simpa using this

/-! ## one poll of a handle future -/

theorem Inv.pollOp {E : Task → Prop} {w : World} (h : Inv E w) (id : Nat) (hE : E (.op id))
    (hsl : ∀ s k, w.opSt id = some (.wait s k) → w.slot s ≠ none) :
    Inv E (w.pollOp id) ∧ OpSettled (w.pollOp id) id := by
  unfold World.pollOp
  cases hop : w.opSt id with
  | none => exact ⟨h, opSettled_of_none hop⟩
  | some st =>
    cases st with
    | fresh hh req => exact h.startOp id hh req hop
    | wait s k =>
      simp only
      cases hs : w.slot s with
      | none => exact absurd hs (hsl s k hop)
      | some sv =>
        cases sv with
        | full v => exact h.resumeOp id s k v hop hE
        | closed =>
          simp only
          exact (h.clearSlot id s k hop hE).finishOp' id _
        | empty =>
          simp only
          refine ⟨h.addReg s, ?_, ?_⟩
          · intro st hst
            have e : w.opSt id = some st := hst
            rw [hop] at e; cases e
            refine ⟨s, k, rfl, hs, ?_⟩
            show s ∈ (if s ∈ w.slotReg then w.slotReg else w.slotReg ++ [s])
            split <;> simp [*]
          · intro s' k' hst
            have e : w.opSt id = some (.wait s' k') := hst
            rw [hop] at e; cases e
            show w.slot s ≠ none
            rw [hs]; simp

/-! ## a handle future dropped -/

theorem Inv.dropOp {E : Task → Prop} {w : World} (h : Inv E w) (id : Nat) (hE : E (.op id)) :
    Inv E (w.dropOp id) ∧ (w.dropOp id).opSt id = none := by
  unfold World.dropOp
  cases hop : w.opSt id with
  | none => exact ⟨h, hop⟩
  | some st =>
    cases st with
    | fresh hh req =>
      simp only
      refine ⟨h.eraseOp id _, ?_⟩
      rw [senderGone_eq]
      exact lookupFirst_eraseFirst_self _ _ h.nodup
    | wait s k =>
      have h1 : Inv E (w.clearSlot s) := h.clearSlot id s k hop hE
      have hsub := h.subp id
      cases k <;> simp only <;>
        first
        | exact ⟨h1.eraseOp id _, by rw [senderGone_eq]; exact lookupFirst_eraseFirst_self _ _ h1.nodup⟩
        | (have h2 := h1.dropChanRx id (hsub (Or.inr ⟨s, hop⟩)).1
           exact ⟨h2.eraseOp id _, by rw [senderGone_eq]; exact lookupFirst_eraseFirst_self _ _ h2.nodup⟩)

/-! ## one poll of a subscription stream -/

theorem Inv.pollStream {E : Task → Prop} {w : World} (h : Inv E w) (id : Nat) (hE : E (.st id)) :
    Inv E (w.pollStream id) ∧ (Task.st id ∈ (w.pollStream id).woken ∨ TaskOk (w.pollStream id) (.st id)) := by
  by_cases hs : id ∈ w.streams
  · cases hc : w.chan id with
    | none =>
      rw [User.pollStream_noop w id (Or.inr hc)]
      exact ⟨h, Or.inr (fun _ ch hch => by rw [hc] at hch; cases hch)⟩
    | some ch =>
      cases hb : ch.buf with
      | cons p rest =>
        have e : w.pollStream id = ((w.setChan id { ch with buf := rest }).emit (.item id p)).wake (.st id) := by
          simp [World.pollStream, hs, hc, hb]
        rw [e]
        refine ⟨Inv.wake (Inv.emit ?_ _) _, Or.inl (mem_wake_self _ _)⟩
        refine ⟨h.hasCtx, fun t ht hE' => ?_, h.own, h.slotEx, h.nodup, h.subp, h.disj⟩
        have h0 := h.ok t ht hE'
        cases t with
        | ctx => exact h0.ctx_congr rfl rfl rfl rfl rfl rfl (by simp [senders, World.setChan])
        | op id' => exact h0.op_congr rfl rfl rfl
        | st id' =>
          have hne : id' ≠ id := fun e => hE' (e ▸ hE)
          intro hs' ch' hch'
          have e' : lookupFirst id' (setAssoc id { ch with buf := rest } w.chans) = some ch' := hch'
          rw [lookupFirst_setAssoc_ne _ _ _ _ hne] at e'
          exact h0 hs' ch' e'
      | nil =>
        by_cases ht : ch.txAlive = true
        · rw [User.pollStream_pending w id ch hs hc hb ht]
          refine ⟨?_, Or.inr ?_⟩
          · refine ⟨h.hasCtx, fun t ht' hE' => ?_, h.own, h.slotEx, h.nodup, h.subp, h.disj⟩
            have h0 := h.ok t ht' hE'
            cases t with
            | ctx => exact h0.ctx_congr rfl rfl rfl rfl rfl rfl (by simp [senders])
            | op id' => exact h0.op_congr rfl rfl rfl
            | st id' =>
              have hne : id' ≠ id := fun e => hE' (e ▸ hE)
              intro hs' ch' hch'
              have e' : lookupFirst id' (setAssoc id { ch with reg := true } w.chans) = some ch' := hch'
              rw [lookupFirst_setAssoc_ne _ _ _ _ hne] at e'
              exact h0 hs' ch' e'
          · intro _ ch' hch'
            have e' : lookupFirst id (setAssoc id { ch with reg := true } w.chans) = some ch' := hch'
            rw [lookupFirst_setAssoc_self] at e'
            cases e'
            exact ⟨hb, ht, rfl⟩
        · rw [User.pollStream_end w id ch hs hc hb (by simpa using ht)]
          refine ⟨?_, Or.inr ?_⟩
          · refine ⟨h.hasCtx, fun t ht' hE' => ?_, h.own, h.slotEx, h.nodup, ?_, ?_⟩
            · have h0 := h.ok t ht' hE'
              cases t with
              | ctx => exact h0.ctx_congr rfl rfl rfl rfl rfl rfl (by simp [senders])
              | op id' => exact h0.op_congr rfl rfl rfl
              | st id' =>
                have hne : id' ≠ id := fun e => hE' (e ▸ hE)
                intro hs' ch' hch'
                have hs'' : id' ∈ w.streams := (List.mem_filter.mp hs').1
                have e' : lookupFirst id' (eraseFirst id w.chans) = some ch' := hch'
                rw [lookupFirst_eraseFirst_ne _ _ _ hne] at e'
                exact h0 hs'' ch' e'
            · intro id' hsub
              obtain ⟨a, b⟩ := h.subp id' hsub
              exact ⟨fun hm => a (List.mem_filter.mp hm).1, b⟩
            · intro id' hid hm
              exact h.disj id' hid (List.mem_filter.mp hm).1
          · intro hm
            have : id ∈ w.streams.filter (· ≠ id) := hm
            simp [List.mem_filter] at this
  · rw [User.pollStream_noop w id (Or.inl hs)]
    exact ⟨h, Or.inr (fun hm => absurd hm hs)⟩

/-! ## one poll of any task by the executor -/

/-- **`pollTask` preserves the invariant**, whatever the state of the task (flagged or not, live or not) -/
theorem Inv.pollTask {w : World} (h : Inv NoE w) (hr : Reach w.rx) (t : Task) : Inv NoE (w.pollTask t) := by
  have hu := h.unwake t
  have hE : (fun u => NoE u ∨ u = t) t := Or.inr rfl
  unfold World.pollTask
  cases t with
  | ctx =>
    simp only
    obtain ⟨a, b⟩ := hu.pollCtx hE hr
    refine a.close ?_ ?_
    · rintro u (hu' | rfl)
      · exact False.elim hu'
      · exact b
    · rintro id s k (hu' | hu') hst
      · exact False.elim hu'
      · cases hu'
  | op n =>
    simp only
    obtain ⟨a, b⟩ := hu.pollOp n hE (fun s k hst => h.slotEx n s k hst id)
    refine a.close ?_ ?_
    · rintro u (hu' | rfl)
      · exact False.elim hu'
      · exact Or.inr b.1
    · rintro id s k (hu' | hu') hst
      · exact False.elim hu'
      · cases hu'; exact b.2 s k hst
  | st n =>
    simp only
    obtain ⟨a, b⟩ := hu.pollStream n hE
    refine a.close ?_ ?_
    · rintro u (hu' | rfl)
      · exact False.elim hu'
      · exact b
    · rintro id s k (hu' | hu') hst
      · exact False.elim hu'
      · cases hu'

end World
end Poster
