/-
  Lemmas/WorldReach.lean — along every script the framing state stays reachable (`Framing.Reach`) and no
  `PANIC ctx other` is ever logged: the two facts are carried together through `pollTask`, `apply`, `drain`,
  `sweep`, `step` and `run`.
-/
import PosterModel.Lemmas.WorldPanic
import PosterModel.Lemmas.WorldDrop

set_option linter.unusedVariables false
set_option linter.unusedSimpArgs false

namespace Poster
open Framing
namespace World

/-- not the decoder-panic observation -/
def NotOther (o : Obs) : Prop := o ≠ .panic .ctx "other"

/-- the framing state of `w'` is reachable and `w'` extends the log of `w` without a decoder panic -/
def Safe (w w' : World) : Prop := Reach w'.rx ∧ OutExtP NotOther w w'

theorem safe_refl (w : World) (h : Reach w.rx) : Safe w w := ⟨h, outExtP_refl _ _⟩
theorem safe_trans {a b c : World} (h1 : Safe a b) (h2 : Safe b c) : Safe a c :=
  ⟨h2.1, outExtP_trans h1.2 h2.2⟩
theorem safe_of_eq {w w' : World} (hr : Reach w.rx) (h1 : w'.rx = w.rx) (h2 : w'.out = w.out) : Safe w w' :=
  ⟨h1 ▸ hr, outExtP_of_eq h2⟩
theorem safe_emit (w : World) (o : Obs) (hr : Reach w.rx) (ho : NotOther o) : Safe w (w.emit o) :=
  ⟨hr, outExtP_one o rfl ho⟩

/-! ### the framing state is touched by the context task only -/

theorem sendMsg_rx {w w' : World} {m : Msg} (h : w.sendMsg m = some w') : w'.rx = w.rx := by
  rw [sendMsg_eq] at h
  split at h
  · simp only [Option.some.injEq] at h; subst h; rfl
  · cases h

theorem sendAwait_rx (w0 : World) (m : Msg) (id s : Nat) (k : Wait) (r : DoneRes) :
    (match w0.sendMsg m with
      | none => w0.finishOp id r
      | some w1 => w1.awaitSlot id s k).rx = w0.rx := by
  cases hm : w0.sendMsg m with
  | none => simp
  | some w1 => simp [sendMsg_rx hm]

theorem startOp_rx (w : World) (id : Nat) (req : Req) : (w.startOp id req).rx = w.rx := by
  cases req with
  | publish t =>
    simp only [startOp]
    split
    · split
      · simp
      · exact sendAwait_rx _ _ _ _ _ _
    · split
      · simp
      · exact sendAwait_rx _ _ _ _ _ _
  | subscribe t =>
    simp only [startOp]
    split
    · simp
    · cases hm : World.sendMsg _ _ with
      | none => simp
      | some w1 => simp [sendMsg_rx hm]
  | unsubscribe t =>
    simp only [startOp]
    split
    · simp
    · exact sendAwait_rx _ _ _ _ _ _
  | ping => simp only [startOp]; exact sendAwait_rx _ _ _ _ _ _
  | disconnect t => simp only [startOp]; exact sendAwait_rx _ _ _ _ _ _

theorem resumeOp_rx (w : World) (id s : Nat) (k : Wait) (v : SlotVal) : (w.resumeOp id s k v).rx = w.rx := by
  cases v with
  | errSize => simp [resumeOp]
  | errQuota => simp [resumeOp]
  | unit => simp only [resumeOp]; split <;> simp
  | pkt p =>
    cases k <;> cases p <;> simp only [resumeOp] <;> (try split) <;> (try simp) <;>
      first | done | exact sendAwait_rx _ _ _ _ _ _

theorem pollOp_rx (w : World) (id : Nat) : (w.pollOp id).rx = w.rx := by
  unfold pollOp
  split
  · rfl
  · exact startOp_rx _ _ _
  · split
    · exact resumeOp_rx _ _ _ _ _
    · simp
    · rfl

theorem pollStream_rx (w : World) (id : Nat) : (w.pollStream id).rx = w.rx := by
  unfold pollStream
  split
  · rfl
  · split
    · rfl
    · split
      · simp
      · split
        · simp
        · simp

/-! ### the context task keeps the framing state reachable -/

theorem firstEnd_reach {w : World} {call : Call} {t : ConnectTx} {a : AuthTx} {r : World}
    (h : FirstEnd w call t a r) (hr : Reach w.rx) : Reach r.rx := by
  have key : ∀ {rx' rd' o}, pollNext w.rx w.reader = (rx', rd', o) → Reach rx' := by
    intro rx' rd' o hp
    have := Reach.poll w.reader hr; rw [hp] at this; exact this
  cases h with
  | connack rx' rd' fr k hp => exact key hp
  | refused rx' rd' fr k hp => exact key hp
  | assertSubId rx' rd' fr k hp => exact key hp
  | auth rx' rd' fr au hp => exact key hp
  | unexpected rx' rd' fr p hp => exact key hp
  | codec rx' rd' fr hp => exact key hp
  | panic rx' rd' fr hp => exact key hp
  | sock rx' rd' hp => exact key hp
  | pending rx' rd' hp =>
    by_cases hrd : rd' = []
    · rw [if_pos hrd]; exact key hp
    · rw [if_neg hrd]; simpa using key hp

theorem runEnd_reach {w r : World} (h : RunEnd w r) (hr : Reach w.rx) : Reach r.rx := by
  have key : ∀ {rx' rd' o}, pollNext w.rx w.reader = (rx', rd', o) → Reach rx' := by
    intro rx' rd' o hp
    have := Reach.poll w.reader hr; rw [hp] at this; exact this
  cases h with
  | msgExit m q w1 fl hq hh hne =>
    have e : w1 = (World.runHandler { w with queue := q } (fun wok => w.c.handleMsg m wok)).1 := by rw [hh]
    subst e; simpa using hr
  | closed => exact hr
  | pktExit rx' rd' fr p w1 fl hq hs hp hd hh hne =>
    have e : w1 = (World.runHandler { w with rx := rx', reader := rd' }
        (fun wok => w.c.handlePkt w.chanRxAlive p wok)).1 := by rw [hh]
    subst e; simpa using key hp
  | codec rx' rd' fr hq hs hp => exact key hp
  | panic rx' rd' fr hq hs hp => exact key hp
  | sock rx' rd' hq hs hp => exact key hp
  | pending rx' rd' hq hs hp =>
    by_cases hrd : rd' = []
    · rw [if_pos hrd]; exact key hp
    · rw [if_neg hrd]; simpa using key hp

theorem runLoop_reach (f : Nat) (w : World) (hr : Reach w.rx) : Reach (runLoop f w).rx := by
  obtain ⟨wm, hs, he⟩ := runLoop_decomp f w
  have hm := (serve_frame hs).2.2.2.2.2.2.2.2.2.2.2 hr
  rcases he with he | he
  · rw [he]; exact hm
  · exact runEnd_reach he hm

theorem pollCtx_reach (w : World) (hr : Reach w.rx) : Reach (w.pollCtx).rx := by
  unfold pollCtx
  cases ht : w.task with
  | none => exact hr
  | connecting call t a started =>
    simp only
    cases started with
    | true =>
      simp only [pollConnect, ↓reduceIte]
      exact firstEnd_reach (awaitFirst_spec w call t a) hr
    | false =>
      rcases pollConnect_prelude w call t a with ⟨_, h2⟩ | ⟨_, w0, a1, _, _, _, _, _, _, h2 | h2⟩
      · rw [h2]; exact hr
      · rw [h2]; exact firstEnd_reach (awaitFirst_spec w0 call t a) (a1 ▸ hr)
      · rw [h2]; exact a1 ▸ hr
  | running started =>
    simp only
    cases started with
    | true => simp only [pollRun, ↓reduceIte]; exact runLoop_reach _ w hr
    | false =>
      obtain ⟨w0, a1, _, _, _, _, _, _, h2 | h2⟩ := pollRun_prelude w
      · rw [h2]; exact runLoop_reach _ w0 (a1 ▸ hr)
      · rw [h2]; exact a1 ▸ hr

theorem notOther_of_calm {o : Obs} (h : Obs.calm o) : NotOther o := h _ _

/-- **one poll of any task** -/
theorem pollTask_safe (w : World) (t : Task) (hr : Reach w.rx) : Safe w (w.pollTask t) := by
  have hu : Reach (w.unwake t).rx := hr
  cases t with
  | ctx =>
    refine ⟨pollCtx_reach _ hu, ?_⟩
    obtain ⟨added, e, hP⟩ := pollCtx_panics (w.unwake .ctx)
    refine ⟨added, by simpa [pollTask] using e, fun o ho => ?_⟩
    rcases hP o ho with hc | ⟨he, _⟩ | ⟨he, rx, rd, rx', rd', fr, h1, h2, h3⟩
    · exact notOther_of_calm hc
    · subst he; intro h; simp at h
    · exact absurd h3 (no_decoder_panic (h1 hu) h2)
  | op id =>
    refine ⟨by simpa [pollTask, pollOp_rx] using hr, ?_⟩
    rcases pollOp_panics (w.unwake (.op id)) id with ⟨s, k, p, _, _, _, h4⟩ | ⟨_, added, e, hc⟩
    · exact outExtP_one _ (by simpa [pollTask] using h4) (by intro h; simp at h)
    · exact ⟨added, by simpa [pollTask] using e, fun o ho => notOther_of_calm (hc o ho)⟩
  | st id =>
    refine ⟨by simpa [pollTask, pollStream_rx] using hr, ?_⟩
    obtain ⟨added, e, hc⟩ := pollStream_calm (w.unwake (.st id)) id
    exact ⟨added, by simpa [pollTask] using e, fun o ho => notOther_of_calm (hc o ho)⟩

/-! ### script events, the executor, whole runs -/

theorem dropOp_rx_out (w : World) (id : Nat) : (w.dropOp id).rx = w.rx ∧ (w.dropOp id).out = w.out := by
  unfold dropOp
  split
  · exact ⟨rfl, rfl⟩
  · simp
  · rename_i s k _; cases k <;> simp [clearSlot, dropChanRx]

theorem badScript_safe (w : World) (hr : Reach w.rx) : Safe w w.badScript :=
  ⟨hr, outExtP_one .badscript rfl (by intro h; cases h)⟩

theorem flushRaw_safe (w : World) (hr : Reach w.rx) : Safe w w.flushRaw := by
  unfold flushRaw
  split
  · exact safe_refl w hr
  · exact ⟨hr, outExtP_one (.wraw w.wirePend) rfl (by intro h; cases h)⟩

theorem feedEvents_safe (w : World) (evs : List ReadEv) (hr : Reach w.rx) : Safe w (w.feedEvents evs) := by
  unfold feedEvents
  simp only
  split <;> exact safe_of_eq hr (by simp) (by simp)

theorem apply_safe (w : World) (e : Ev) (hr : Reach w.rx) : Safe w (w.apply e) := by
  cases e with
  | setup =>
    simp only [apply]
    split
    · exact badScript_safe w hr
    · split
      · split
        · exact badScript_safe w hr
        · exact ⟨Reach.init, outExtP_of_eq rfl⟩
      · exact ⟨Reach.init, (flushRaw_safe w hr).2⟩
  | connect t =>
    simp only [apply]; split
    · exact badScript_safe w hr
    · exact safe_of_eq hr (by simp) (by simp)
  | authorize a =>
    simp only [apply]; split
    · exact badScript_safe w hr
    · exact safe_of_eq hr (by simp) (by simp)
  | run =>
    simp only [apply]; split
    · exact badScript_safe w hr
    · exact safe_of_eq hr (by simp) (by simp)
  | dropFut => exact safe_of_eq hr rfl rfl
  | dropCtx =>
    cases hc : w.hasCtx with
    | false => simp only [apply, hc]; exact safe_of_eq hr rfl rfl
    | true =>
      rw [apply_dropCtx w hc]
      have inv := closes_inv (closes_dropCtxClosed w)
      exact safe_of_eq hr inv.rx_eq inv.out_eq
  | markDisc secs =>
    simp only [apply]; split
    · exact badScript_safe w hr
    · exact safe_of_eq hr rfl rfl
  | snap =>
    simp only [apply]; split
    · exact badScript_safe w hr
    · exact safe_emit w _ hr (by intro h; cases h)
  | feed chunks =>
    simp only [apply]; split
    · exact badScript_safe w hr
    · exact feedEvents_safe w _ hr
  | feedEof =>
    simp only [apply]; split
    · exact badScript_safe w hr
    · exact feedEvents_safe w _ hr
  | feedErr =>
    simp only [apply]; split
    · exact badScript_safe w hr
    · exact feedEvents_safe w _ hr
  | op id h req =>
    simp only [apply]; split
    · exact badScript_safe w hr
    · exact safe_of_eq hr (by simp) (by simp)
  | poll t =>
    simp only [apply]; split
    · exact pollTask_safe w t hr
    · exact safe_refl w hr
  | hold t =>
    simp only [apply]; split
    · exact safe_refl w hr
    · exact safe_of_eq hr rfl rfl
  | release t => exact safe_of_eq hr rfl rfl
  | drop t =>
    cases t with
    | ctx => exact safe_refl w hr
    | op id => exact safe_of_eq hr (dropOp_rx_out w id).1 (dropOp_rx_out w id).2
    | st id =>
      simp only [apply]; split
      · exact safe_of_eq hr rfl rfl
      · exact safe_refl w hr
  | dropRsp id =>
    simp only [apply]; split
    · exact safe_of_eq hr rfl rfl
    · exact safe_refl w hr
  | stream id =>
    simp only [apply]; split
    · exact badScript_safe w hr
    · exact safe_of_eq hr (by simp) (by simp)
  | clone h h2 =>
    simp only [apply]; split
    · exact badScript_safe w hr
    · exact safe_of_eq hr rfl rfl
  | dropHandle h =>
    simp only [apply]; split
    · exact badScript_safe w hr
    · exact safe_of_eq hr (by simp) (by simp)

theorem drain_safe (f : Nat) (w : World) (hr : Reach w.rx) : Safe w (drain f w) := by
  induction f generalizing w with
  | zero => exact safe_refl w hr
  | succ f ih =>
    simp only [drain]
    split
    · exact safe_refl w hr
    · rename_i t _
      have h1 := pollTask_safe w t hr
      exact safe_trans h1 (ih _ h1.1)

theorem sweep_safe (w : World) (hr : Reach w.rx) : Safe w w.sweep := by
  unfold sweep
  simp only
  generalize ([Task.ctx] ++ List.map Task.op (sortNat (List.map (fun x => x.1) w.ops)) ++
    List.map Task.st (sortNat w.streams)) = tasks
  suffices h : ∀ (l : List Task) (w0 : World), Reach w0.rx →
      Safe w0 (l.foldl (fun w t => if w.taskLive t ∧ t ∉ w.woken ∧ t ∉ w.held then w.pollTask t else w) w0) from
    h tasks w hr
  intro l
  induction l with
  | nil => intro w0 h0; exact safe_refl w0 h0
  | cons t rest ih =>
    intro w0 h0
    simp only [List.foldl_cons]
    split
    · have h1 := pollTask_safe w0 t h0
      exact safe_trans h1 (ih _ h1.1)
    · exact ih _ h0

theorem step_safe (w : World) (e : Ev) (hr : Reach w.rx) : Safe w (w.step e) := by
  unfold step
  split
  · exact safe_refl w hr
  · have h0 : Safe w (w.emit (.ev e)) := safe_emit w _ hr (by intro h; cases h)
    have h1 : Safe w ((w.emit (.ev e)).apply e) := safe_trans h0 (apply_safe _ e h0.1)
    generalize (w.emit (.ev e)).apply e = w1 at h1 ⊢
    simp only
    split
    · exact h1
    · have h2 : Safe w (drain w1.drainFuel w1) := safe_trans h1 (drain_safe w1.drainFuel w1 h1.1)
      generalize drain w1.drainFuel w1 = w2 at h2 ⊢
      have h3 : Safe w (if w2.cfg.sweep = true then drain w2.sweep.drainFuel w2.sweep else w2) := by
        split
        · have h4 := safe_trans h2 (sweep_safe w2 h2.1)
          exact safe_trans h4 (drain_safe w2.sweep.drainFuel w2.sweep h4.1)
        · exact h2
      generalize (if w2.cfg.sweep = true then drain w2.sweep.drainFuel w2.sweep else w2) = w3 at h3 ⊢
      split
      · exact safe_trans h3 (safe_emit _ _ h3.1 (by intro h; cases h))
      · exact h3

theorem steps_safe (evs : List Ev) (w : World) (hr : Reach w.rx) : Safe w (evs.foldl step w) := by
  induction evs generalizing w with
  | nil => exact safe_refl w hr
  | cons e t ih =>
    simp only [List.foldl_cons]
    have h1 := step_safe w e hr
    exact safe_trans h1 (ih _ h1.1)

end World
end Poster
