/-
  Lemmas/WorldCancel.lean — C15 for whole scripts, part 1: what the script event `drop t` does to the world
  (nothing but the table of operations / streams, the dropped task's own oneshot and channel, and one sender of the
  message queue), that it leaves an idle executor idle, and what the context's handlers do with the late
  acknowledgement of an operation whose future is gone.
-/
import PosterModel.Lemmas.WorldRet
import PosterModel.Lemmas.WorldFuelScript
import PosterModel.Lemmas.WorldTweak
import PosterModel.Lemmas.WorldOwnDrop

set_option linter.unusedVariables false
set_option linter.unusedSimpArgs false

namespace Poster
open Framing
namespace World
namespace W11

/-! ## association lists -/

theorem eraseFirst_length {β} (k : Nat) (l : List (Nat × β)) :
    (eraseFirst k l).length = if (lookupFirst k l).isSome then l.length - 1 else l.length := by
  induction l with
  | nil => rfl
  | cons x t ih =>
    obtain ⟨a, b⟩ := x
    rw [eraseFirst_cons]
    by_cases h : a = k
    · simp [h, lookupFirst]
    · simp only [h, ↓reduceIte, lookupFirst, List.length_cons, ih]
      split
      · rename_i hs
        cases t with
        | nil => simp [lookupFirst] at hs
        | cons y t' => simp
      · rfl

theorem lookupFirst_isSome_of_eraseFirst {β} (j k : Nat) (l : List (Nat × β))
    (h : (lookupFirst j (eraseFirst k l)).isSome) : (lookupFirst j l).isSome := by
  cases hl : lookupFirst j l with
  | some v => rfl
  | none =>
    rw [User.lookupFirst_none_iff] at hl
    have : lookupFirst j (eraseFirst k l) = none := by
      rw [User.lookupFirst_none_iff]
      intro hm
      exact hl (eraseFirst_keys_subset k j l hm)
    rw [this] at h; cases h

/-! ## the event `drop t` -/

/-- whatever its state, the dropped operation leaves the table (its first entry) -/
theorem dropOp_ops_eq (w : World) (id : Nat) : (w.dropOp id).ops = eraseFirst id w.ops := by
  unfold dropOp
  split
  · rename_i h; exact (User.eraseFirst_absent id w.ops h).symm
  · simp
  · rename_i s k _; cases k <;> simp [clearSlot, dropChanRx]

theorem dropOp_handles (w : World) (id : Nat) : (w.dropOp id).handles = w.handles := by
  unfold dropOp
  split
  · rfl
  · simp
  · rename_i s k _; cases k <;> simp [clearSlot, dropChanRx]

/-- **a dropped handle future gives back exactly its own sender of the message queue**: the number of live senders
    goes down by one if the operation was pending, and stays the same otherwise -/
theorem dropOp_senders (w : World) (id : Nat) :
    (w.dropOp id).senders = if (w.opSt id).isSome then w.senders - 1 else w.senders := by
  simp only [senders, dropOp_ops_eq, dropOp_handles, eraseFirst_length, opSt]
  by_cases h : (lookupFirst id w.ops).isSome = true
  · simp only [h, ↓reduceIte]
    have : w.ops.length ≠ 0 := by
      intro h0
      have : w.ops = [] := List.eq_nil_of_length_eq_zero h0
      rw [this] at h; simp [lookupFirst] at h
    omega
  · simp only [h, Bool.false_eq_true, ↓reduceIte]

/-- what the event `drop t` leaves alone: the context task (so `run()` does not return), the transcript (no `RET`,
    no line at all), the session, the message queue, the handles, the framing state, the transport, the held tasks,
    the identifier counters, the responses; and the script does not become malformed -/
theorem apply_drop_frame (w : World) (t : Task) :
    (w.apply (.drop t)).task = w.task ∧ (w.apply (.drop t)).out = w.out ∧ (w.apply (.drop t)).c = w.c ∧
    (w.apply (.drop t)).queue = w.queue ∧ (w.apply (.drop t)).handles = w.handles ∧
    (w.apply (.drop t)).bad = w.bad ∧ (w.apply (.drop t)).hasCtx = w.hasCtx ∧ (w.apply (.drop t)).rx = w.rx ∧
    (w.apply (.drop t)).reader = w.reader ∧ (w.apply (.drop t)).written = w.written ∧
    (w.apply (.drop t)).wirePend = w.wirePend ∧ (w.apply (.drop t)).held = w.held ∧
    (w.apply (.drop t)).cfg = w.cfg ∧ (w.apply (.drop t)).rsps = w.rsps ∧
    (w.apply (.drop t)).pidCtr = w.pidCtr ∧ (w.apply (.drop t)).subCtr = w.subCtr := by
  cases t with
  | ctx => simp [apply]
  | st id =>
    simp only [apply]
    split <;> simp [dropChanRx]
  | op id =>
    simp only [apply]
    unfold dropOp
    split
    · simp
    · simp
    · rename_i s k _
      cases k <;> simp [clearSlot, dropChanRx]

/-- dropping a stream (or the context "task", which the event ignores) changes no sender count -/
theorem apply_drop_senders (w : World) (t : Task) :
    (w.apply (.drop t)).senders =
      match t with
      | .op id => if (w.opSt id).isSome then w.senders - 1 else w.senders
      | _ => w.senders := by
  cases t with
  | ctx => rfl
  | st id =>
    simp only [apply]
    split <;> simp [senders, dropChanRx]
  | op id => exact dropOp_senders w id

/-- as long as a sender of the message queue is left, the event wakes nobody and arms / disarms no waker of the
    context: the flags and the queue waker are untouched -/
theorem apply_drop_silent (w : World) (t : Task) (h : (w.apply (.drop t)).senders ≠ 0) :
    (w.apply (.drop t)).woken = w.woken ∧ (w.apply (.drop t)).queueReg = w.queueReg ∧
    (w.apply (.drop t)).readerReg = w.readerReg := by
  cases t with
  | ctx => simp [apply]
  | st id =>
    simp only [apply]
    split <;> simp [dropChanRx]
  | op id =>
    revert h
    simp only [apply]
    unfold dropOp
    split
    · intro _; simp
    · intro h
      rw [senderGone_of_pos _ (by simpa using h)]
      simp
    · rename_i s k _
      intro h
      rw [senderGone_of_pos _ (by simpa using h)]
      cases k <;> simp [clearSlot, dropChanRx]

/-- a drop only ever ends tasks: whatever is alive afterwards was alive before -/
theorem apply_drop_live (w : World) (t u : Task) (h : (w.apply (.drop t)).taskLive u = true) :
    w.taskLive u = true := by
  cases u with
  | ctx =>
    simp only [taskLive] at h ⊢
    rw [(apply_drop_frame w t).1] at h; exact h
  | op j =>
    simp only [taskLive, opSt] at h ⊢
    cases t with
    | ctx => exact h
    | st id =>
      have e : (w.apply (.drop (.st id))).ops = w.ops := by
        simp only [apply]; split <;> simp [dropChanRx]
      rw [e] at h; exact h
    | op id =>
      have e : (w.apply (.drop (.op id))).ops = eraseFirst id w.ops := dropOp_ops_eq w id
      rw [e] at h
      exact lookupFirst_isSome_of_eraseFirst j id w.ops h
  | st j =>
    simp only [taskLive, decide_eq_true_eq] at h ⊢
    cases t with
    | ctx => exact h
    | op id =>
      have e : (w.apply (.drop (.op id))).streams = w.streams := by
        simp only [apply]; unfold dropOp
        split
        · rfl
        · simp
        · rename_i s k _; cases k <;> simp [clearSlot, dropChanRx]
      rw [e] at h; exact h
    | st id =>
      simp only [apply] at h
      split at h
      · simp only [dropChanRx, List.mem_filter] at h; exact h.1
      · exact h

/-- **an idle executor stays idle through a drop** while a sender of the message queue is left: nothing is flagged
    by the event, so there is nothing to poll — in particular the context task is not polled -/
theorem apply_drop_idle (w : World) (t : Task) (hq : w.pick = none) (h : (w.apply (.drop t)).senders ≠ 0) :
    (w.apply (.drop t)).pick = none := by
  cases hp : (w.apply (.drop t)).pick with
  | none => rfl
  | some u =>
    obtain ⟨h1, h2, h3⟩ := pick_some_spec _ u hp
    rw [(apply_drop_silent w t h).1] at h1
    rw [(apply_drop_frame w t).2.2.2.2.2.2.2.2.2.2.2.1] at h3
    exact absurd (pick_none_held w u hq h1 (apply_drop_live w t u h2)) h3

theorem senders_ne_zero_of_handles {w : World} (h : w.handles ≠ []) : w.senders ≠ 0 := by
  unfold senders
  cases hh : w.handles with
  | nil => exact absurd hh h
  | cons a t => simp

/-- the rest of a script step once the event has been applied: drain, optional sweep, stall check -/
def settle (w : World) : World :=
  if w.bad then w else
  let w := drain w.drainFuel w
  let w := if w.cfg.sweep then (let w := w.sweep; drain w.drainFuel w) else w
  if w.task ≠ .none ∧ w.reader ≠ [] then w.emit .stall else w

theorem step_eq_settle (w : World) (e : Ev) (hb : w.bad = false) :
    w.step e = settle ((w.emit (.ev e)).apply e) := by
  unfold step settle
  simp [hb]

/-- with an idle executor and the sweep switched off, settling only performs the stall check -/
theorem settle_of_idle (w : World) (hb : w.bad = false) (hq : w.pick = none) (hs : w.cfg.sweep = false) :
    settle w = if w.task ≠ .none ∧ w.reader ≠ [] then w.emit .stall else w := by
  unfold settle
  simp only [hb, Bool.false_eq_true, ↓reduceIte, drain_of_idle _ w hq, hs]

/-- **the whole script step of a `drop` event**, from a world with an idle executor in which a handle is alive
    (sweep off): the event is logged, the drop applied, and nothing is polled — the step ends with the stall check -/
theorem step_drop_eq (w : World) (t : Task) (hb : w.bad = false) (hq : w.pick = none) (hh : w.handles ≠ [])
    (hs : w.cfg.sweep = false) :
    w.step (.drop t) =
      if ((w.emit (.ev (.drop t))).apply (.drop t)).task ≠ .none ∧
          ((w.emit (.ev (.drop t))).apply (.drop t)).reader ≠ [] then
        ((w.emit (.ev (.drop t))).apply (.drop t)).emit .stall
      else (w.emit (.ev (.drop t))).apply (.drop t) := by
  rw [step_eq_settle w _ hb]
  have hf := apply_drop_frame (w.emit (.ev (.drop t))) t
  have hsend : ((w.emit (.ev (.drop t))).apply (.drop t)).senders ≠ 0 :=
    senders_ne_zero_of_handles (by rw [hf.2.2.2.2.1]; exact hh)
  exact settle_of_idle _ (by rw [hf.2.2.2.2.2.1]; exact hb)
    (apply_drop_idle _ t (by rw [pick_emit]; exact hq) hsend)
    (by rw [hf.2.2.2.2.2.2.2.2.2.2.2.2.1]; exact hs)

/-- an observation a `drop` step can log: its own event marker, or the executor's stall marker -/
def DropObs (o : Obs) : Prop := (∃ t, o = .ev (.drop t)) ∨ o = .stall

/-- what one `drop` step preserves -/
structure DropKeeps (w w' : World) : Prop where
  task : w'.task = w.task
  c : w'.c = w.c
  queue : w'.queue = w.queue
  handles : w'.handles = w.handles
  bad : w'.bad = w.bad
  cfg : w'.cfg = w.cfg
  written : w'.written = w.written
  wirePend : w'.wirePend = w.wirePend
  out : ∃ added, w'.out = w.out ++ added ∧ ∀ o ∈ added, DropObs o

theorem DropKeeps.refl (w : World) : DropKeeps w w :=
  ⟨rfl, rfl, rfl, rfl, rfl, rfl, rfl, rfl, [], by simp, by simp⟩

theorem DropKeeps.trans {a b c : World} (h1 : DropKeeps a b) (h2 : DropKeeps b c) : DropKeeps a c := by
  obtain ⟨x, hx, px⟩ := h1.out
  obtain ⟨y, hy, py⟩ := h2.out
  refine ⟨h2.task.trans h1.task, h2.c.trans h1.c, h2.queue.trans h1.queue, h2.handles.trans h1.handles,
    h2.bad.trans h1.bad, h2.cfg.trans h1.cfg, h2.written.trans h1.written, h2.wirePend.trans h1.wirePend,
    x ++ y, by rw [hy, hx, List.append_assoc], ?_⟩
  intro o ho
  rcases List.mem_append.mp ho with h | h
  · exact px o h
  · exact py o h

theorem step_drop_keeps (w : World) (t : Task) (hb : w.bad = false) (hq : w.pick = none) (hh : w.handles ≠ [])
    (hs : w.cfg.sweep = false) : DropKeeps w (w.step (.drop t)) ∧ (w.step (.drop t)).pick = none := by
  rw [step_drop_eq w t hb hq hh hs]
  have hf := apply_drop_frame (w.emit (.ev (.drop t))) t
  obtain ⟨f1, f2, f3, f4, f5, f6, f7, f8, f9, f10, f11, f12, f13, f14, f15, f16⟩ := hf
  have hsend : ((w.emit (.ev (.drop t))).apply (.drop t)).senders ≠ 0 :=
    senders_ne_zero_of_handles (by rw [f5]; exact hh)
  have hidle := apply_drop_idle (w.emit (.ev (.drop t))) t (by rw [pick_emit]; exact hq) hsend
  split
  · refine ⟨⟨by simp [f1], by simp [f3], by simp [f4], by simp [f5], by simp [f6], by simp [f13], by simp [f10],
      by simp [f11], [.ev (.drop t), .stall], by simp [f2], ?_⟩, by rw [pick_emit]; exact hidle⟩
    intro o ho
    simp only [List.mem_cons, List.not_mem_nil, or_false] at ho
    rcases ho with rfl | rfl
    · exact Or.inl ⟨t, rfl⟩
    · exact Or.inr rfl
  · refine ⟨⟨by simp [f1], by simp [f3], by simp [f4], by simp [f5], by simp [f6], by simp [f13], by simp [f10],
      by simp [f11], [.ev (.drop t)], by simp [f2], ?_⟩, hidle⟩
    intro o ho
    simp only [List.mem_cons, List.not_mem_nil, or_false] at ho
    subst ho
    exact Or.inl ⟨t, rfl⟩

/-- a script consisting of `drop` events only -/
def AllDrops (ds : List Ev) : Prop := ∀ e ∈ ds, ∃ t, e = .drop t

/-- **no sequence of drops makes `run()` return while a handle exists** (sweep off): from a world with an idle
    executor and a live handle, after any number of `drop` events the context task is the same, the session and the
    message queue are the same, nothing was written, the executor is idle again, and the only lines logged are the
    markers of the events (and the executor's stall marker) -/
theorem steps_drops_keep (ds : List Ev) (hd : AllDrops ds) (w : World) (hb : w.bad = false) (hq : w.pick = none)
    (hh : w.handles ≠ []) (hs : w.cfg.sweep = false) :
    DropKeeps w (ds.foldl step w) ∧ (ds.foldl step w).pick = none := by
  induction ds generalizing w with
  | nil => exact ⟨DropKeeps.refl w, hq⟩
  | cons e rest ih =>
    obtain ⟨t, rfl⟩ := hd _ List.mem_cons_self
    obtain ⟨k1, q1⟩ := step_drop_keeps w t hb hq hh hs
    obtain ⟨k2, q2⟩ := ih (fun e he => hd e (List.mem_cons_of_mem _ he)) (w.step (.drop t))
      (by rw [k1.bad]; exact hb) q1 (by rw [k1.handles]; exact hh) (by rw [k1.cfg]; exact hs)
    exact ⟨k1.trans k2, q2⟩

/-! ## the late acknowledgement of an abandoned operation -/

/-- completing / closing a oneshot that no longer exists changes nothing -/
theorem sendSlot_absent (w : World) (s : Nat) (v : SlotVal) (h : w.slot s = none) : w.sendSlot s v = w := by
  simp [sendSlot, h]

/-- the effects of `complete` applied to a world in which the waiter's oneshot (if a waiter is registered at all) is
    gone: nothing happens -/
theorem applyEffs_complete_absent (w : World) (c : Ctx) (aid : Nat) (p : RxPacket)
    (h : ∀ s, lookupFirst aid c.awaiting = some s → w.slot s = none) :
    w.applyEffs (c.complete aid p).2 = w := by
  rw [Ctx.complete_snd]
  cases hl : lookupFirst aid c.awaiting with
  | none => rfl
  | some s =>
    simp only [applyEffs, List.foldl_cons, List.foldl_nil, applyEff]
    exact sendSlot_absent w s _ (h s hl)

/-- the acknowledgements that complete a publish: PUBACK (QoS 1), PUBCOMP (QoS 2, second phase), and a PUBREC — which
    completes the publish when it carries an error and otherwise moves it on to its second phase -/
inductive PubAck : RxPacket → Nat → Prop
  | puback (a : AckRx) : PubAck (.puback a) (actionId 4 a.packetId)
  | pubrec (a : AckRx) : PubAck (.pubrec a) (actionId 5 a.packetId)
  | pubcomp (a : AckRx) : PubAck (.pubcomp a) (actionId 7 a.packetId)

/-- does this acknowledgement give the flow-control slot back? -/
def freesSlot : RxPacket → Bool
  | .puback _ => true
  | .pubcomp _ => true
  | .pubrec a => decide (a.reason ≥ 128)
  | _ => false

/-- the handler's result for an acknowledgement of a publish, whoever waits: the effects are those of `complete`
    (at most one `send` to the waiter registered under the action identifier), the quota is given back exactly when
    the acknowledgement completes the exchange, the retransmission and `awaiting` entries are removed, `run()` goes
    on — and nothing else of the session changes -/
theorem handlePkt_pubAck (c : Ctx) (alive : Nat → Bool) (p : RxPacket) (aid : Nat) (wok : Bool) (h : PubAck p aid) :
    (c.handlePkt alive p wok).2.1 = (c.complete aid p).2 ∧
    (c.handlePkt alive p wok).2.2 = .cont ∧
    (c.handlePkt alive p wok).1 =
      { (if freesSlot p then c.bump else c) with
          retx := eraseFirst aid c.retx, awaiting := eraseFirst aid c.awaiting } := by
  cases h with
  | puback a =>
    refine ⟨?_, rfl, ?_⟩
    · simp [Ctx.handlePkt, Ctx.complete]; split <;> rfl
    · simp [Ctx.handlePkt, Ctx.complete_fst, freesSlot]
  | pubrec a =>
    refine ⟨?_, rfl, ?_⟩
    · simp only [Ctx.handlePkt, Ctx.complete]; (repeat' split) <;> simp_all
    · by_cases hr : a.reason ≥ 128 <;> simp [Ctx.handlePkt, Ctx.complete_fst, freesSlot, hr]
  | pubcomp a =>
    refine ⟨?_, rfl, ?_⟩
    · simp [Ctx.handlePkt, Ctx.complete]; split <;> rfl
    · simp [Ctx.handlePkt, Ctx.complete_fst, freesSlot]

/-- **the late acknowledgement in the world**: when `run()` handles the acknowledgement of a publish whose future is
    gone (the oneshot registered under the action identifier, if any, no longer exists), the whole world changes in
    the session only: no oneshot, no waker, no channel, no line of the transcript, nothing written; `run()` goes on -/
theorem runHandler_late_ack (w : World) (alive : Nat → Bool) (p : RxPacket) (aid : Nat) (h : PubAck p aid)
    (hs : ∀ s, lookupFirst aid w.c.awaiting = some s → w.slot s = none) :
    w.runHandler (fun wok => w.c.handlePkt alive p wok) =
      ({ w with c := { (if freesSlot p then w.c.bump else w.c) with
                        retx := eraseFirst aid w.c.retx, awaiting := eraseFirst aid w.c.awaiting } }, .cont) := by
  rw [runHandler_eq]
  obtain ⟨h1, h2, h3⟩ := handlePkt_pubAck w.c alive p aid (w.canWrite (writeNeed (w.c.handlePkt alive p true).2.1)) h
  rw [h1, h2, h3]
  congr 1
  exact applyEffs_complete_absent _ w.c aid p (fun s hl => hs s hl)

/-- the quota after a slot-freeing acknowledgement: one more, unless it is already at Receive Maximum -/
theorem bump_quota (c : Ctx) : c.bump.quota = if c.quota ≠ c.recvMax then c.quota + 1 else c.quota := by
  unfold Ctx.bump; split <;> rfl

end W11
end World
end Poster
