/-
  Lemmas/RxPackets.lean — each `*Rx::try_decode` of the model on the specification encoding of its packet (C02).
-/
import PosterModel.Lemmas.RxFold

set_option linter.unusedSimpArgs false

namespace Poster
open Spec Spec.Server

/-! ## fixed header and property block -/

theorem dU8_frame (hdr : Nat) (body : Bytes) (hh : hdr < 256) :
    dU8 (frame hdr body) = .ok (hdr, sVar body.length ++ body) := by
  simp only [frame, List.append_assoc]; exact dU8_s hdr hh _

theorem dVar_body (body : Bytes) (hl : body.length ≤ 268435455) :
    dVar (sVar body.length ++ body) = .ok ((body.length, (sVar body.length).length), body) := dVar_s _ hl _

theorem dVar_propBlock (ps : List Property) (h : (sProps ps).length ≤ 268435455) (r : Bytes) :
    dVar (propBlock ps ++ r) =
      .ok (((sProps ps).length, (sVar (sProps ps).length).length), sProps ps ++ r) := by
  simp only [propBlock, List.append_assoc]; exact dVar_s _ h _

theorem dVar_propBlock' (ps : List Property) (h : (sProps ps).length ≤ 268435455) :
    dVar (propBlock ps) = .ok (((sProps ps).length, (sVar (sProps ps).length).length), sProps ps) := by
  simpa using dVar_propBlock ps h []

@[simp] theorem propBlock_length (ps : List Property) :
    (propBlock ps).length = (sVar (sProps ps).length).length + (sProps ps).length := by
  simp [propBlock]

theorem pidOk_iff {pid : Nat} (h : pidOk pid = true) : 0 < pid ∧ pid < 65536 := by
  simp only [pidOk, Bool.and_eq_true, decide_eq_true_eq] at h; omega

theorem contains_lt_256 {l : List Nat} (hl : ∀ x ∈ l, x < 256) {r : Nat} (h : l.contains r = true) : r < 256 := by
  simp only [List.contains_iff_mem] at h
  exact hl r h

/-! ## PUBACK / PUBREC / PUBREL / PUBCOMP -/

theorem decAck_full (hdr : Nat) (ok : Nat → Bool) (pid reason : Nat) (ps : List Property) (hh : hdr < 256)
    (hp : pidOk pid = true) (hr : reason < 256) (hok : ok reason = true) (hps : propsOk ackPropIds [38] ps = true)
    (hlen : (ackBody .full pid reason ps).length ≤ 268435455) :
    decAck hdr ok (frame hdr (ackBody .full pid reason ps)) = .ok (expectedAck pid reason ps) := by
  obtain ⟨hp0, hp1⟩ := pidOk_iff hp
  have ha := sVar_length_pos (sProps ps).length
  have hbl : (ackBody .full pid reason ps).length = 3 + (sVar (sProps ps).length).length + (sProps ps).length := by
    simp [ackBody]; omega
  have hL : (sProps ps).length ≤ 268435455 := by omega
  unfold decAck
  simp only [dU8_frame _ _ hh, dVar_body _ hlen, Res.bind_ok]
  rw [hbl]
  have h2 : ¬ (3 + (sVar (sProps ps).length).length + (sProps ps).length = 2) := by omega
  have h4 : ¬ (3 + (sVar (sProps ps).length).length + (sProps ps).length < 4) := by omega
  simp only [ackBody, List.append_assoc, dNzU16_s pid hp0 hp1, dReason_s ok reason hr hok, dVar_propBlock' ps hL,
    Res.bind_ok, h2, h4, ↓reduceIte, ne_eq, not_true_eq_false, gt_iff_lt, Nat.lt_irrefl,
    foldProps_sProps _ ps (propsOk_valOk hps) _ (Nat.le_refl _), foldO_ack ps hps, optRes]
  simp [expectedAck]

theorem dNzU16_s' (n : Nat) (h0 : 0 < n) (h : n < 65536) : dNzU16 (sU16 n) = .ok (n, []) := by
  simpa using dNzU16_s n h0 h []

theorem dReason_s' (ok : Nat → Bool) (n : Nat) (h : n < 256) (hok : ok n = true) :
    dReason ok (sU8 n) = .ok (n, []) := by
  simpa using dReason_s ok n h hok []

theorem decAck_reasonOnly (hdr : Nat) (ok : Nat → Bool) (pid reason : Nat) (hh : hdr < 256)
    (hp : pidOk pid = true) (hr : reason < 256) (hok : ok reason = true) :
    decAck hdr ok (frame hdr (ackBody .reasonOnly pid reason [])) = .ok (expectedAck pid reason []) := by
  obtain ⟨hp0, hp1⟩ := pidOk_iff hp
  have hbl : (ackBody .reasonOnly pid reason []).length = 3 := by simp [ackBody]
  have hlen : (ackBody .reasonOnly pid reason []).length ≤ 268435455 := by omega
  unfold decAck
  simp only [dU8_frame _ _ hh, dVar_body _ hlen, Res.bind_ok]
  rw [hbl]
  simp only [ackBody, List.append_assoc, dNzU16_s pid hp0 hp1, dReason_s' ok reason hr hok, Res.bind_ok]
  simp [expectedAck]

theorem decAck_idOnly (hdr : Nat) (ok : Nat → Bool) (pid : Nat) (hh : hdr < 256) (hp : pidOk pid = true) :
    decAck hdr ok (frame hdr (ackBody .idOnly pid 0 [])) = .ok (expectedAck pid 0 []) := by
  obtain ⟨hp0, hp1⟩ := pidOk_iff hp
  have hbl : (ackBody .idOnly pid 0 []).length = 2 := by simp [ackBody]
  have hlen : (ackBody .idOnly pid 0 []).length ≤ 268435455 := by omega
  unfold decAck
  simp only [dU8_frame _ _ hh, dVar_body _ hlen, Res.bind_ok]
  rw [hbl]
  simp only [ackBody, dNzU16_s' pid hp0 hp1, Res.bind_ok]
  simp [expectedAck]

/-- a reason table of the specification is contained in the code's table, and fits a byte -/
theorem table_ok {l : List Nat} {ok : Nat → Bool} (h : (l.all fun r => ok r && decide (r < 256)) = true) {r : Nat}
    (hr : l.contains r = true) : ok r = true ∧ r < 256 := by
  simp only [List.contains_iff_mem] at hr
  simp only [List.all_eq_true, Bool.and_eq_true, decide_eq_true_eq] at h
  exact h r hr

/-- all three forms of the acknowledgement family -/
theorem decAck_spec (hdr : Nat) (ok : Nat → Bool) (reasons : List Nat) (form : AckForm) (pid reason : Nat)
    (ps : List Property) (hh : hdr < 256) (htab : (reasons.all fun r => ok r && decide (r < 256)) = true)
    (hwf : ackOk reasons form pid reason ps = true) (hlen : (ackBody form pid reason ps).length ≤ 268435455) :
    decAck hdr ok (frame hdr (ackBody form pid reason ps)) = .ok (expectedAck pid reason ps) := by
  simp only [ackOk, Bool.and_eq_true] at hwf
  obtain ⟨⟨hp, hr⟩, hf⟩ := hwf
  obtain ⟨hok, hr256⟩ := table_ok htab hr
  cases form with
  | full => exact decAck_full hdr ok pid reason ps hh hp hr256 hok hf hlen
  | reasonOnly =>
    simp only [List.isEmpty_iff] at hf; subst hf
    exact decAck_reasonOnly hdr ok pid reason hh hp hr256 hok
  | idOnly =>
    simp only [Bool.and_eq_true, beq_iff_eq, List.isEmpty_iff] at hf
    obtain ⟨rfl, rfl⟩ := hf
    exact decAck_idOnly hdr ok pid hh hp

/-! ## properties that a packet type does not take are not found -/

theorem find_none_of_legal {legal multi : List Nat} {ps : List Property} (h : propsOk legal multi ps = true)
    {i : Nat} (hi : legal.contains i = false) : find i ps = none := by
  apply find_none
  simp only [propsOk, Bool.and_eq_true, List.all_eq_true] at h
  simp only [List.all_eq_true, bne_iff_ne, ne_eq]
  intro q hq hc
  have := (h.1 q hq).1
  rw [hc, hi] at this
  exact absurd this (by simp)

theorem getNum_none_of_legal {legal multi : List Nat} {ps : List Property} (h : propsOk legal multi ps = true)
    {i : Nat} (hi : legal.contains i = false) : getNum i ps = none := by
  simp [getNum, find_none_of_legal h hi]

/-- a legal list that contains a string-valued identifier yields that string -/
theorem getBytes_isSome {i : Nat} (hi : ∀ v, valOk i v = true → ∃ s, v = .bytes s) {ps : List Property}
    (hv : ∀ p ∈ ps, valOk p.id p.val = true) (ha : (ps.any fun q => q.id == i) = true) :
    (getBytes i ps).isSome = true := by
  induction ps with
  | nil => simp at ha
  | cons p ps ih =>
    obtain ⟨j, v⟩ := p
    by_cases hj : j = i
    · subst hj
      obtain ⟨s, rfl⟩ := hi v (hv ⟨j, v⟩ (by simp))
      simp
    · have ha' : (ps.any fun q => q.id == i) = true := by
        simp only [List.any_cons, Bool.or_eq_true, beq_iff_eq] at ha
        rcases ha with ha | ha
        · exact absurd ha hj
        · exact ha
      rw [getBytes_cons_ne _ _ hj]
      exact ih (fun q hq => hv q (by simp [hq])) ha'

/-! ## DISCONNECT -/

theorem decDisconnect_full (reason : Nat) (ps : List Property) (hr : reason < 256)
    (hok : disconnectReasonOk reason = true) (hps : propsOk disconnectPropIds [38] ps = true)
    (hlen : (body (.disconnect .full reason ps)).length ≤ 268435455) :
    decDisconnect (frame 224 (body (.disconnect .full reason ps))) =
      .ok { reason := reason, sessionExpiry := (getNum 17 ps).getD 0, reasonString := getBytes 31 ps,
            serverReference := getBytes 28 ps, userProps := users ps } := by
  have ha := sVar_length_pos (sProps ps).length
  have hbl : (body (.disconnect .full reason ps)).length =
      1 + (sVar (sProps ps).length).length + (sProps ps).length := by
    simp [body]; omega
  have hL : (sProps ps).length ≤ 268435455 := by omega
  have h17 : getNum 17 ps = none := getNum_none_of_legal hps (by decide)
  unfold decDisconnect
  simp only [dU8_frame _ _ (by decide : 224 < 256), dVar_body _ hlen, Res.bind_ok]
  rw [hbl]
  have h0 : ¬ (1 + (sVar (sProps ps).length).length + (sProps ps).length = 0) := by omega
  have h1 : ¬ ((sVar (sProps ps).length).length + (sProps ps).length = 0) := by omega
  simp only [body, dReason_s _ reason hr hok, dVar_propBlock' ps hL, propBlock_length,
    Res.bind_ok, h0, h1, ↓reduceIte, ne_eq, not_true_eq_false, gt_iff_lt, Nat.lt_irrefl,
    foldProps_sProps _ ps (propsOk_valOk hps) _ (Nat.le_refl _), foldO_disconnect ps hps, optRes]
  simp [h17]

theorem decDisconnect_reasonOnly (reason : Nat) (hr : reason < 256) (hok : disconnectReasonOk reason = true) :
    decDisconnect (frame 224 (body (.disconnect .reasonOnly reason []))) = .ok { reason := reason } := by
  have hbl : (body (.disconnect .reasonOnly reason [])).length = 1 := by simp [body]
  have hlen : (body (.disconnect .reasonOnly reason [])).length ≤ 268435455 := by omega
  unfold decDisconnect
  simp only [dU8_frame _ _ (by decide : 224 < 256), dVar_body _ hlen, Res.bind_ok]
  rw [hbl]
  simp only [body, dReason_s' _ reason hr hok, Res.bind_ok]
  simp

theorem decDisconnect_empty : decDisconnect (frame 224 (body (.disconnect .empty 0 []))) = .ok {} := by
  have hbl : (body (.disconnect .empty 0 [])).length = 0 := by simp [body]
  have hlen : (body (.disconnect .empty 0 [])).length ≤ 268435455 := by omega
  unfold decDisconnect
  simp only [dU8_frame _ _ (by decide : 224 < 256), dVar_body _ hlen, Res.bind_ok]
  rw [hbl]
  simp

/-! ## AUTH -/

theorem decAuth_full (reason : Nat) (ps : List Property) (hr : reason < 256)
    (hok : authReasonOk reason = true) (hps : propsOk authPropIds [38] ps = true)
    (hm : (ps.any fun q => q.id == 21) = true)
    (hlen : (body (.auth .full reason ps)).length ≤ 268435455) :
    decAuth (frame 240 (body (.auth .full reason ps))) =
      .ok { reason := reason, authMethod := getBytes 21 ps, authData := getBytes 22 ps,
            reasonString := getBytes 31 ps, userProps := users ps } := by
  have ha := sVar_length_pos (sProps ps).length
  have hbl : (body (.auth .full reason ps)).length =
      1 + (sVar (sProps ps).length).length + (sProps ps).length := by
    simp [body]; omega
  have hL : (sProps ps).length ≤ 268435455 := by omega
  have hfl : (frame 240 (body (.auth .full reason ps))).length =
      1 + (sVar (body (.auth .full reason ps)).length).length + (body (.auth .full reason ps)).length := by
    simp [frame]; omega
  have hsome : (getBytes 21 ps).isSome = true := by
    refine getBytes_isSome ?_ (propsOk_valOk hps) hm
    intro v hv
    simp only [valOk] at hv
    cases v <;> simp [isStr] at hv
    exact ⟨_, rfl⟩
  unfold decAuth
  simp only [dU8_frame _ _ (by decide : 240 < 256), dVar_body _ hlen, Res.bind_ok, hfl]
  rw [hbl]
  have h0 : ¬ (1 + (sVar (sProps ps).length).length + (sProps ps).length = 0) := by omega
  have h1 : ¬ (1 + (sVar (1 + (sVar (sProps ps).length).length + (sProps ps).length)).length +
      (1 + (sVar (sProps ps).length).length + (sProps ps).length) <
        1 + (sVar (sProps ps).length).length + (sProps ps).length) := by omega
  simp only [body, dReason_s _ reason hr hok, dVar_propBlock' ps hL,
    Res.bind_ok, h0, h1, ↓reduceIte, ne_eq, not_true_eq_false, gt_iff_lt, Nat.lt_irrefl,
    foldProps_sProps _ ps (propsOk_valOk hps) _ (Nat.le_refl _), foldO_auth ps hps, optRes]
  simp [AuthRx.valid, hsome]

theorem decAuth_empty : decAuth (frame 240 (body (.auth .empty 0 []))) = .ok {} := by
  have hbl : (body (.auth .empty 0 [])).length = 0 := by simp [body]
  have hlen : (body (.auth .empty 0 [])).length ≤ 268435455 := by omega
  unfold decAuth
  simp only [dU8_frame _ _ (by decide : 240 < 256), dVar_body _ hlen, Res.bind_ok]
  rw [hbl]
  simp

/-! ## SUBACK / UNSUBACK -/

theorem decReasons_map (ok : Nat → Bool) (rs : List Nat) (h : ∀ r ∈ rs, ok r = true ∧ r < 256) :
    decReasons ok (rs.map UInt8.ofNat) = .ok rs := by
  induction rs with
  | nil => rfl
  | cons r rs ih =>
    obtain ⟨h1, h2⟩ := h r (by simp)
    have e : r % 256 = r := by omega
    simp [decReasons, e, h1, ih (fun q hq => h q (by simp [hq])), Res.map]

theorem decSubackLike_spec (hdr : Nat) (ok : Nat → Bool) (pid : Nat) (ps : List Property) (rs : List Nat)
    (hh : hdr < 256) (hp : pidOk pid = true) (hps : propsOk subackPropIds [38] ps = true)
    (hrs : ∀ r ∈ rs, ok r = true ∧ r < 256)
    (hlen : (sU16 pid ++ propBlock ps ++ rs.map UInt8.ofNat).length ≤ 268435455) :
    decSubackLike hdr ok (frame hdr (sU16 pid ++ propBlock ps ++ rs.map UInt8.ofNat)) =
      .ok (expectedSuback pid ps rs) := by
  obtain ⟨hp0, hp1⟩ := pidOk_iff hp
  have hL : (sProps ps).length ≤ 268435455 := by
    simp only [List.length_append, propBlock_length, sU16_length] at hlen; omega
  unfold decSubackLike
  simp only [dU8_frame _ _ hh, dVar_body _ hlen, Res.bind_ok]
  simp only [List.append_assoc, dNzU16_s pid hp0 hp1, dVar_propBlock ps hL, Res.bind_ok, ne_eq, not_true_eq_false,
    gt_iff_lt, Nat.lt_irrefl, ↓reduceIte, List.length_append, List.take_left', List.drop_left', advanceBy,
    Nat.le_add_right, Nat.not_lt.mpr (Nat.le_add_right _ _),
    foldProps_sProps _ ps (propsOk_valOk hps) _ (Nat.le_refl _), foldO_suback ps hps, optRes,
    decReasons_map ok rs hrs]
  simp [expectedSuback]

/-! ## PUBLISH -/

/-- the first byte of a PUBLISH: type 3, and the flag bits read back -/
theorem pubHdr_facts (dup : Bool) (qos : Nat) (retain : Bool) (hq : qos ≤ 2) :
    let H := 0x30 + (if dup then 8 else 0) + 2 * qos + (if retain then 1 else 0)
    H < 256 ∧ H / 16 = 3 ∧ H / 2 % 4 = qos ∧ decide (H / 8 % 2 = 1) = dup ∧ decide (H % 2 = 1) = retain := by
  cases dup <;> cases retain <;> simp <;> omega

theorem decPublish_spec (H : Nat) (dup : Bool) (qos : Nat) (retain : Bool) (topic : Bytes) (pid : Option Nat)
    (ps : List Property) (payload : Bytes)
    (hH : H < 256) (h16 : H / 16 = 3) (hq : H / 2 % 4 = qos) (hd : decide (H / 8 % 2 = 1) = dup)
    (hr : decide (H % 2 = 1) = retain) (hq2 : qos ≤ 2) (ht : strOk topic = true)
    (hnone : pid = none → qos = 0) (hsome : ∀ i, pid = some i → qos > 0 ∧ pidOk i = true)
    (hps : propsOk publishPropIds [38, 11] ps = true)
    (hlen : (body (.publish dup qos retain topic pid ps payload)).length ≤ 268435455) :
    decPublish (frame H (body (.publish dup qos retain topic pid ps payload))) =
      .ok { dup := dup, retain := retain, qos := qos, topic := topic, packetId := pid
            pfi := getBool 1 ps, topicAlias := getNum 35 ps, mei := getNum 2 ps, subIds := subIds ps
            correlationData := getBytes 9 ps, responseTopic := getBytes 8 ps, contentType := getBytes 3 ps
            userProps := users ps, payload := payload } := by
  have hL : (sProps ps).length ≤ 268435455 := by
    simp only [body, List.length_append, propBlock_length] at hlen; omega
  have hq3 : ¬ qos = 3 := by omega
  unfold decPublish
  simp only [dU8_frame _ _ hH, dVar_body _ hlen, Res.bind_ok, h16, hq, hq3, hd, hr, ne_eq, not_true_eq_false,
    ↓reduceIte, gt_iff_lt, Nat.lt_irrefl]
  cases pid with
  | none =>
    have hpid := hnone rfl
    subst hpid
    simp only [body, List.append_assoc, List.nil_append, dStr_s topic ht, dVar_propBlock ps hL, Res.bind_ok,
      ↓reduceIte, gt_iff_lt, List.length_append, List.take_left', List.drop_left', advanceBy,
      Nat.le_add_right, Nat.not_lt.mpr (Nat.le_add_right _ _),
      foldProps_sProps _ ps (propsOk_valOk hps) _ (Nat.le_refl _), foldO_publish ps hps, optRes]
    simp
  | some i =>
    obtain ⟨hq0, hi⟩ := hsome i rfl
    obtain ⟨hi0, hi1⟩ := pidOk_iff hi
    have hqne : ¬ qos = 0 := by omega
    simp only [body, List.append_assoc, dStr_s topic ht, hqne, dNzU16_s i hi0 hi1, Res.map,
      dVar_propBlock ps hL, Res.bind_ok,
      ↓reduceIte, gt_iff_lt, List.length_append, List.take_left', List.drop_left', advanceBy,
      Nat.le_add_right, Nat.not_lt.mpr (Nat.le_add_right _ _),
      foldProps_sProps _ ps (propsOk_valOk hps) _ (Nat.le_refl _), foldO_publish ps hps, optRes]
    simp

/-! ## CONNACK -/

theorem dBool_flags (flags : Nat) (h : flags ≤ 1) (r : Bytes) : dBool (sU8 flags ++ r) = .ok (flags == 1, r) := by
  have : flags = 0 ∨ flags = 1 := by omega
  rcases this with rfl | rfl
  · exact dBool_s false r
  · exact dBool_s true r

theorem decConnack_spec (flags reason : Nat) (ps : List Property) (hf : flags ≤ 1) (hr : reason < 256)
    (hok : connectReasonOk reason = true) (hps : propsOk connackPropIds [38] ps = true)
    (hlen : (body (.connack flags reason ps)).length ≤ 268435455) :
    decConnack (frame 32 (body (.connack flags reason ps))) =
      .ok { sessionPresent := flags == 1
            reason := reason
            wildcardSubAvail := (getBool 40 ps).getD true
            subIdAvail := (getBool 41 ps).getD true
            sharedSubAvail := (getBool 42 ps).getD true
            maxQos := (getNum 36 ps).getD 2
            retainAvail := (getBool 37 ps).getD true
            serverKeepAlive := getNum 19 ps
            receiveMax := (getNum 33 ps).getD 65535
            topicAliasMax := (getNum 34 ps).getD 0
            sessionExpiry := getNum 17 ps
            maxPacketSize := getNum 39 ps
            authData := getBytes 22 ps
            assignedClientId := getBytes 18 ps
            reasonString := getBytes 31 ps
            responseInfo := getBytes 26 ps
            serverReference := getBytes 28 ps
            authMethod := getBytes 21 ps
            userProps := users ps } := by
  have hL : (sProps ps).length ≤ 268435455 := by
    simp only [body, List.length_append, propBlock_length] at hlen; omega
  have hfl : (frame 32 (body (.connack flags reason ps))).length =
      1 + (sVar (body (.connack flags reason ps)).length).length + (body (.connack flags reason ps)).length := by
    simp [frame]; omega
  unfold decConnack
  simp only [dU8_frame _ _ (by decide : 32 < 256), dVar_body _ hlen, Res.bind_ok, hfl, ne_eq, Nat.reduceDiv,
    not_true_eq_false, ↓reduceIte, gt_iff_lt, Nat.lt_irrefl]
  simp only [body, List.append_assoc, dBool_flags flags hf, dReason_s _ reason hr hok, dVar_propBlock' ps hL,
    Res.bind_ok, ↓reduceIte, gt_iff_lt, Nat.lt_irrefl,
    foldProps_sProps _ ps (propsOk_valOk hps) _ (Nat.le_refl _), foldO_connack ps hps, optRes]
  simp

/-! ## dispatch on the first byte -/

theorem decodeRx_frame (hdr : Nat) (body : Bytes) (hh : hdr < 256) :
    decodeRx (frame hdr body) =
      match hdr / 16 with
      | 2 => (decConnack (frame hdr body)).map .connack
      | 3 => (decPublish (frame hdr body)).map .publish
      | 4 => (decAck 0x40 pubackReasonOk (frame hdr body)).map .puback
      | 5 => (decAck 0x50 pubrecReasonOk (frame hdr body)).map .pubrec
      | 6 => (decAck 0x62 pubrelReasonOk (frame hdr body)).map .pubrel
      | 7 => (decAck 0x70 pubcompReasonOk (frame hdr body)).map .pubcomp
      | 9 => (decSubackLike 0x90 subackReasonOk (frame hdr body)).map .suback
      | 11 => (decSubackLike 0xb0 unsubackReasonOk (frame hdr body)).map .unsuback
      | 13 => (dU8 (frame hdr body)).bind fun (h, _) => if h ≠ 0xd0 then .err else .ok .pingresp
      | 14 => (decDisconnect (frame hdr body)).map .disconnect
      | 15 => (decAuth (frame hdr body)).map .auth
      | _ => .err := by
  have e : hdr % 256 = hdr := by omega
  have ef : frame hdr body = UInt8.ofNat hdr :: (sVar body.length ++ body) := by simp [frame, sU8]
  rw [ef]
  simp only [decodeRx, u8_toNat_ofNat, e]
  split <;> simp_all

/-- Proves `Spec.WF p` for a concrete packet `p` by unfolding the definition. (`decide` cannot be used: `utf8Valid` is
    defined by well-founded recursion, which the kernel does not evaluate.) -/
macro "wf_concrete" : tactic =>
  `(tactic| simp [WF, wf, ackOk, pidOk, propsOk, uniqueExcept, valOk, isFlag, isNum, isSubId, isStr, isBin, isPair,
      strOk, binOk, utf8Valid, varIntMax, body, ackBody, propBlock, sProps, sProp, wireType, sVal, sVar, sVarLoop,
      sStr, sPair, connackPropIds, publishPropIds, ackPropIds, subackPropIds, disconnectPropIds, authPropIds, connackReasonCodes,
      pubackReasonCodes, pubrecReasonCodes, pubrelReasonCodes, pubcompReasonCodes, subackReasonCodes, unsubackReasonCodes,
      disconnectReasonCodes, authReasonCodes])

end Poster
