/-
  Lemmas/WorldCancelEx.lean — concrete scripts, evaluated stage by stage (the method of Lemmas/WorldOpsEx.lean), for
  the non-vacuity examples of Properties/C15World.lean: a QoS 1 publish whose future is dropped before its PUBACK
  arrives (the late acknowledgement frees the slot), and a QoS 2 publish whose future is dropped between its two
  phases (known finding K1).
-/
import PosterModel.Lemmas.WorldCancelK1
import PosterModel.Lemmas.WorldCancelBothScript
import PosterModel.Lemmas.WorldOpsEx

set_option linter.unusedVariables false
set_option linter.unusedSimpArgs false

namespace Poster
open Framing
namespace World
namespace W11

/-- PUBACK / PUBREC for packet identifier 1, short form (reason 0) -/
def pubackFr : Bytes := [0x40, 2, 0, 1]
def pubrecFr : Bytes := [0x50, 2, 0, 1]

theorem dec_pubackFr : decodeRx pubackFr = .ok (.puback { packetId := 1 }) := by decide
theorem dec_pubrecFr : decodeRx pubrecFr = .ok (.pubrec { packetId := 1 }) := by decide
theorem pn_pubackFr : pollNext {} [.data pubackFr] = ({}, [], .item pubackFr) :=
  Ex.pollNext_whole _ (by decide) (by decide) (by decide)
theorem pn_pubrecFr : pollNext {} [.data pubrecFr] = ({}, [], .item pubrecFr) :=
  Ex.pollNext_whole _ (by decide) (by decide) (by decide)

/-! ## a QoS 1 publish dropped before its PUBACK -/

/-- `setup, run, publish(QoS 1)`: the PUBLISH (packet identifier 1) is on the wire, one flow-control slot is taken, the
    future of operation 1 waits for its PUBACK on oneshot 2 -/
def l3 : World :=
  { s2 with c := { awaiting := [(actionId 4 1, 2)], retx := [(actionId 4 1, [58, 6, 0, 1, 97, 0, 1, 0])],
                   quota := 65534 },
            ops := [(1, .wait 2 .puback)], slots := [(2, .empty)], slotReg := [2], pidCtr := 2, written := 8,
            out := s2.out ++ [.ev (.op 1 0 pubReq), .wire [50, 6, 0, 1, 97, 0, 1, 0]] }

/-- the future is dropped: its oneshot is gone, the context still has the waiter and the slot -/
def l4 : World := { l3 with ops := [], slots := [], slotReg := [], out := l3.out ++ [.ev (.drop (.op 1))] }

/-- the PUBACK arrives: bookkeeping done, slot free again, nothing logged but the event -/
def l5 : World := { l4 with c := {}, out := l4.out ++ [.ev (.feed [pubackFr])] }

/-- the scripts -/
def evsLate : List Ev := [.setup, .run, .op 1 0 pubReq, .drop (.op 1), .feed [pubackFr]]

theorem late3 : s2.step (.op 1 0 pubReq) = l3 := by
  refine step_eq s2 _ l3 (by decide) (by decide) ?_ (by decide) (by decide)
  rw [drain_pick _ _ (.op 1) (by decide) (by decide), drain_pick _ _ .ctx (by decide) (by decide),
    pollTask_ctx_running _ (by decide),
    runLoop_msg _ _ (.awaitAck (actionId 4 1) [50, 6, 0, 1, 97, 0, 1, 0] 2) [] (by decide) (by decide) (by decide),
    runLoop_idle _ _ (by decide) (by decide) (by decide) (by decide) (by decide)]
  rw [drain_none _ _ (by decide)]
  decide

theorem late4 : l3.step (.drop (.op 1)) = l4 := by decide

theorem late5 : l4.step (.feed [pubackFr]) = l5 := by
  refine step_eq l4 _ l5 (by decide) (by decide) ?_ (by decide) (by decide)
  rw [drain_pick _ _ .ctx (by decide) (by decide), pollTask_ctx_running _ (by decide),
    runLoop_pkt _ _ pubackFr (.puback { packetId := 1 }) (by decide) (by decide) (by decide) pn_pubackFr
      dec_pubackFr (by decide),
    runLoop_idle _ _ (by decide) (by decide) (by decide) (by decide) (by decide)]
  rw [drain_none _ _ (by decide)]
  decide

theorem evsLate_foldl3 : [Ev.setup, .run, .op 1 0 pubReq].foldl World.step {} = l3 := by
  simp only [List.foldl_cons, List.foldl_nil]
  rw [stage1, stage2, late3]

theorem evsLate_foldl : evsLate.foldl World.step {} = l5 := by
  simp only [evsLate, List.foldl_cons, List.foldl_nil]
  rw [stage1, stage2, late3, late4, late5]

/-! ## K1: a QoS 2 publish dropped between its two phases -/

/-- a QoS 2 publish to topic "a" -/
def pubReq2 : Req := .publish { qos := 2, topic := some [0x61] }

def k3 : World :=
  { s2 with c := { awaiting := [(actionId 5 1, 2)], retx := [(actionId 5 1, [60, 6, 0, 1, 97, 0, 1, 0])],
                   quota := 65534 },
            ops := [(1, .wait 2 .pubrec)], slots := [(2, .empty)], slotReg := [2], pidCtr := 2, written := 8,
            out := s2.out ++ [.ev (.op 1 0 pubReq2), .wire [52, 6, 0, 1, 97, 0, 1, 0]] }

def k4 : World := { k3 with held := [.op 1], out := k3.out ++ [.ev (.hold (.op 1))] }

/-- the PUBREC (reason 0) is in the oneshot of the held future: the first phase is over, the retransmission entry of
    the PUBLISH is gone, the slot stays taken -/
def k5 : World :=
  { k4 with c := { quota := 65534 }, slots := [(2, .full (.pkt (.pubrec { packetId := 1 })))], slotReg := [],
            woken := [.op 1], out := k4.out ++ [.ev (.feed [pubrecFr])] }

/-- the future is dropped before it was polled again: nobody is left to send the PUBREL -/
def k6 : World := { k5 with ops := [], slots := [], out := k5.out ++ [.ev (.drop (.op 1))] }

def evsK1 : List Ev := [.setup, .run, .op 1 0 pubReq2, .hold (.op 1), .feed [pubrecFr], .drop (.op 1)]

theorem k1_3 : s2.step (.op 1 0 pubReq2) = k3 := by
  refine step_eq s2 _ k3 (by decide) (by decide) ?_ (by decide) (by decide)
  rw [drain_pick _ _ (.op 1) (by decide) (by decide), drain_pick _ _ .ctx (by decide) (by decide),
    pollTask_ctx_running _ (by decide),
    runLoop_msg _ _ (.awaitAck (actionId 5 1) [52, 6, 0, 1, 97, 0, 1, 0] 2) [] (by decide) (by decide) (by decide),
    runLoop_idle _ _ (by decide) (by decide) (by decide) (by decide) (by decide)]
  rw [drain_none _ _ (by decide)]
  decide

theorem k1_4 : k3.step (.hold (.op 1)) = k4 := by decide

theorem k1_5 : k4.step (.feed [pubrecFr]) = k5 := by
  refine step_eq k4 _ k5 (by decide) (by decide) ?_ (by decide) (by decide)
  rw [drain_pick _ _ .ctx (by decide) (by decide), pollTask_ctx_running _ (by decide),
    runLoop_pkt _ _ pubrecFr (.pubrec { packetId := 1 }) (by decide) (by decide) (by decide) pn_pubrecFr
      dec_pubrecFr (by decide),
    runLoop_idle _ _ (by decide) (by decide) (by decide) (by decide) (by decide)]
  rw [drain_none _ _ (by decide)]
  decide

theorem k1_6 : k5.step (.drop (.op 1)) = k6 := by decide

theorem evsK1_foldl : evsK1.foldl World.step {} = k6 := by
  simp only [evsK1, List.foldl_cons, List.foldl_nil]
  rw [stage1, stage2, k1_3, k1_4, k1_5, k1_6]

/-! ## a `subscribe()` whose future waits for its SUBACK -/

/-- subscribe to the topic filter "a" -/
def subReq : Req := .subscribe { packetId := 0, filters := [([0x61], {})] }

/-- `setup, run, subscribe`: the SUBSCRIBE (packet identifier 1, subscription identifier 1) is on the wire and handled —
    channel 1 is registered under subscription identifier 1 —, the future of operation 1 waits for its SUBACK on
    oneshot 2, the channel exists and is empty -/
def q3 : World :=
  { s2 with c := { awaiting := [(actionId 9 1, 2)], subs := [(1, 1)] },
            ops := [(1, .wait 2 .suback)], slots := [(2, .empty)], slotReg := [2], chans := [(1, {})],
            pidCtr := 2, subCtr := 2, written := 11,
            out := s2.out ++ [.ev (.op 1 0 subReq), .wire [130, 9, 0, 1, 2, 11, 1, 0, 1, 97, 2]] }

theorem sub3 : s2.step (.op 1 0 subReq) = q3 := by
  refine step_eq s2 _ q3 (by decide) (by decide) ?_ (by decide) (by decide)
  rw [drain_pick _ _ (.op 1) (by decide) (by decide), drain_pick _ _ .ctx (by decide) (by decide),
    pollTask_ctx_running _ (by decide),
    runLoop_msg _ _ (.subscribe (actionId 9 1) 1 [130, 9, 0, 1, 2, 11, 1, 0, 1, 97, 2] 2 1) [] (by decide)
      (by decide) (by decide),
    runLoop_idle _ _ (by decide) (by decide) (by decide) (by decide) (by decide)]
  rw [drain_none _ _ (by decide)]
  decide

theorem evsSub_foldl3 : [Ev.setup, .run, .op 1 0 subReq].foldl World.step {} = q3 := by
  simp only [List.foldl_cons, List.foldl_nil]
  rw [stage1, stage2, sub3]

/-! ## … its SUBACK arrives, the caller takes the stream -/

def subackFr : Bytes := [0x90, 4, 0, 1, 0, 0]
theorem dec_subackFr : decodeRx subackFr = .ok (.suback { packetId := 1, payload := [0] }) := by decide
theorem pn_subackFr : pollNext {} [.data subackFr] = ({}, [], .item subackFr) :=
  Ex.pollNext_whole _ (by decide) (by decide) (by decide)

/-- the SUBACK was handled and the future completed: the response (with the stream inside) belongs to the caller -/
def q4 : World :=
  { q3 with c := { subs := [(1, 1)] }, ops := [], slots := [], slotReg := [], rsps := [1],
            out := q3.out ++ [.ev (.feed [subackFr]), .done 1 (.okAck false none [] [0])] }

/-- the caller took the stream out of the response and polled it once: stream 1 is asleep on its empty channel -/
def q5 : World :=
  { q4 with rsps := [], streams := [1], chans := [(1, { reg := true })], out := q4.out ++ [.ev (.stream 1)] }

theorem sub4 : q3.step (.feed [subackFr]) = q4 := by
  refine step_eq q3 _ q4 (by decide) (by decide) ?_ (by decide) (by decide)
  rw [drain_pick _ _ .ctx (by decide) (by decide), pollTask_ctx_running _ (by decide),
    runLoop_pkt _ _ subackFr (.suback { packetId := 1, payload := [0] }) (by decide) (by decide) (by decide)
      pn_subackFr dec_subackFr (by decide),
    runLoop_idle _ _ (by decide) (by decide) (by decide) (by decide) (by decide),
    drain_pick _ _ (.op 1) (by decide) (by decide)]
  rw [drain_none _ _ (by decide)]
  decide

theorem sub5 : q4.step (.stream 1) = q5 := by decide

theorem evsSub_foldl5 : [Ev.setup, .run, .op 1 0 subReq, .feed [subackFr], .stream 1].foldl World.step {} = q5 := by
  simp only [List.foldl_cons, List.foldl_nil]
  rw [stage1, stage2, sub3, sub4, sub5]

end W11
end World
end Poster
