/-
  Lemmas/WorldSelectReach.lean — the whole-client invariants in every world reachable under ANY resolution of the
  `select!` of `run()` (`StepsAny`, Lemmas/WorldSelectScript.lean): `OwnInv`, `OpsInv`, `RegInv`, `Good` (no
  `unreachable!()` for pairwise distinct operation ids), reachable framing state and no decoder panic (`Safe`), only
  documented panics (`PanicDoc`), and "the context is asleep only with everything read" (`W5.TInv`).
-/
import PosterModel.Lemmas.WorldSelectScript
import PosterModel.Lemmas.WorldFuelPanic

set_option linter.unusedVariables false
set_option linter.unusedSimpArgs false

namespace Poster
open Framing
namespace World

/-! ## `OwnInv`, `RegInv` -/

theorem own_pollTaskAny {w : World} {t : Task} {w' : World} (h : OwnInv w) (hp : PollTaskAny w t w') : OwnInv w' := by
  rcases pollTaskAny_cases hp with ⟨rfl, sched, rfl⟩ | ⟨_, rfl⟩
  · refine own_pollCtxS sched _ ?_
    exact own_congr h rfl rfl rfl rfl rfl rfl rfl rfl rfl (fun n hn => by simp [unwake, hn]) h.noTask
  · exact own_pollTask w t h

/-- **`OwnInv` holds in every world reachable under any resolution of the `select!`** -/
theorem ownInv_stepsAny {w : World} {evs : List Ev} {w' : World} (h : StepsAny w evs w') (hi : OwnInv w) :
    OwnInv w' :=
  StepsAny.inv (fun _ _ _ hi hp => own_pollTaskAny hi hp) (fun w e hi => own_apply w e hi)
    (fun w o _ hi => own_emit w o hi) h hi

theorem regInv_pollTaskAny {w : World} {t : Task} {w' : World} (ho : OwnInv w) (h : RegInv w)
    (hp : PollTaskAny w t w') : RegInv w' := by
  rcases pollTaskAny_cases hp with ⟨rfl, sched, rfl⟩ | ⟨_, rfl⟩
  · exact (w5_regSub_trans (w5_regSub_unwake w .ctx) (w14_regSub_pollCtxS sched _)).regInv h
  · exact regInv_pollTask w t ho h

/-- **`OwnInv ∧ RegInv` in every world reachable under any resolution** -/
theorem ownReg_stepsAny {w : World} {evs : List Ev} {w' : World} (h : StepsAny w evs w') (ho : OwnInv w)
    (hr : RegInv w) : OwnInv w' ∧ RegInv w' :=
  StepsAny.inv (I := fun w => OwnInv w ∧ RegInv w)
    (fun _ _ _ hi hp => ⟨own_pollTaskAny hi.1 hp, regInv_pollTaskAny hi.1 hi.2 hp⟩)
    (fun w e hi => ⟨own_apply w e hi.1, regInv_apply w e hi.1 hi.2⟩)
    (fun w o _ hi => ⟨own_emit w o hi.1, regInv_emit w o hi.2⟩) h ⟨ho, hr⟩

/-! ## `OpsInv`, `Good` -/

theorem OpsInv.stepAny {w : World} {e : Ev} {w' : World} (h : OpsInv w) (hs : StepAny w e w') : OpsInv w' := by
  rcases stepAny_decomp hs with h0 | ⟨id, hd, req, w1, _, ha, hm⟩ | hm
  · rw [h0]; exact h
  · exact ((h.move (emit_ev_move w e)).addOp ha).moves hm
  · exact (h.move (emit_ev_move w e)).moves hm

/-- **`OpsInv` in every world reachable under any resolution** -/
theorem OpsInv.stepsAny {w : World} {evs : List Ev} {w' : World} (h : OpsInv w) (hs : StepsAny w evs w') :
    OpsInv w' := by
  induction hs with
  | nil => exact h
  | cons h1 _ ih => exact ih (h.stepAny h1)

theorem Good.stepAny {U : Nat → Prop} {w : World} {e : Ev} {w' : World} (h : Good U w) (hs : StepAny w e w')
    (hu : ∀ id, evOpId e = some id → ¬ U id) : Good (fun x => U x ∨ evOpId e = some x) w' := by
  rcases stepAny_decomp hs with h0 | ⟨id, hd, req, w1, he, ha, hm⟩ | hm
  · rw [h0]; exact h.mono fun _ hx => Or.inl hx
  · subst he
    have h1 := h.move (emit_ev_move w (.op id hd req))
    have h2 : Good (fun x => U x ∨ x = id) w1 :=
      ⟨h1.ops.addOp ha, h1.kind.addOp ha (hu id rfl), fun j => by rw [ha.out]; exact h1.noUnr j⟩
    refine (h2.moves hm).mono ?_
    rintro x (hx | rfl)
    · exact Or.inl hx
    · exact Or.inr rfl
  · exact ((h.move (emit_ev_move w e)).moves hm).mono fun _ hx => Or.inl hx

theorem Good.stepsAny {U : Nat → Prop} {w : World} {evs : List Ev} {w' : World} (h : Good U w)
    (hs : StepsAny w evs w') (hn : (opIds evs).Nodup) (hu : ∀ id ∈ opIds evs, ¬ U id) :
    Good (fun x => U x ∨ x ∈ opIds evs) w' := by
  induction hs generalizing U with
  | nil => exact h.mono fun _ hx => Or.inl hx
  | @cons w w1 w2 e t hstep _ ih =>
    have hcons : opIds (e :: t) = (match evOpId e with | some id => id :: opIds t | none => opIds t) := by
      unfold opIds; rw [List.filterMap_cons]; cases evOpId e <;> rfl
    have h1 := h.stepAny hstep (fun id hid => hu id (by rw [hcons, hid]; exact List.mem_cons_self))
    have hn' : (opIds t).Nodup := by
      rw [hcons] at hn
      cases he : evOpId e with
      | none => rw [he] at hn; exact hn
      | some id => rw [he] at hn; exact (List.nodup_cons.1 hn).2
    have hu' : ∀ id ∈ opIds t, ¬ (U id ∨ evOpId e = some id) := by
      intro id hid hor
      rcases hor with hor | hor
      · refine hu id ?_ hor
        rw [hcons]; cases evOpId e with
        | none => exact hid
        | some j => exact List.mem_cons_of_mem _ hid
      · rw [hcons, hor] at hn
        exact (List.nodup_cons.1 hn).1 hid
    refine (ih h1 hn' hu').mono ?_
    rintro x ((hx | hx) | hx)
    · exact Or.inl hx
    · right; rw [hcons, hx]; exact List.mem_cons_self
    · right; rw [hcons]; cases evOpId e with
      | none => exact hx
      | some j => exact List.mem_cons_of_mem _ hx

/-! ## the framing state, the decoder panic, the documented panics -/

theorem pollTaskAny_safe {w : World} {t : Task} {w' : World} (hp : PollTaskAny w t w') (hr : Reach w.rx) :
    Safe w w' := by
  rcases pollTaskAny_cases hp with ⟨rfl, sched, rfl⟩ | ⟨_, rfl⟩
  · have hu : Reach (w.unwake .ctx).rx := hr
    refine ⟨pollCtxS_reach sched _ hu, ?_⟩
    obtain ⟨added, e, hP⟩ := pollCtxS_panics sched (w.unwake .ctx)
    refine ⟨added, by simpa using e, fun o ho => ?_⟩
    rcases hP o ho with hc | ⟨he, _⟩ | ⟨he, rx, rd, rx', rd', fr, h1, h2, h3⟩
    · exact notOther_of_calm hc
    · subst he; intro h; simp at h
    · exact absurd h3 (no_decoder_panic (h1 hu) h2)
  · exact pollTask_safe w t hr

/-- **reachable framing state and no decoder panic along every resolution** -/
theorem stepsAny_safe {w : World} {evs : List Ev} {w' : World} (h : StepsAny w evs w') (hr : Reach w.rx) :
    Safe w w' :=
  StepsAny.inv (I := fun x => Safe w x)
    (fun _ _ _ hi hp => safe_trans hi (pollTaskAny_safe hp hi.1))
    (fun x e hi => safe_trans hi (apply_safe x e hi.1))
    (fun x o ho hi => ⟨hi.1, outExtP_trans hi.2 (outExtP_one o rfl (by
      rcases ho with ⟨e, rfl⟩ | rfl <;> (intro h; cases h)))⟩) h (safe_refl w hr)

/-- an observation the context task can add is one of the documented ones -/
theorem panicDoc_of_ctxObs {w : World} {o : Obs} (h : CtxObs w o) : PanicDoc o := by
  rcases h with hc | ⟨rfl, _⟩ | ⟨rfl, _⟩
  · exact panicDoc_of_calm hc
  · intro t cls e; cases e; exact Or.inl ⟨rfl, Or.inl rfl⟩
  · intro t cls e; cases e; exact Or.inl ⟨rfl, Or.inr rfl⟩

theorem pollTaskAny_doc {w : World} {t : Task} {w' : World} (hp : PollTaskAny w t w') : OutExtP PanicDoc w w' := by
  rcases pollTaskAny_cases hp with ⟨rfl, sched, rfl⟩ | ⟨_, rfl⟩
  · obtain ⟨added, e, hP⟩ := pollCtxS_panics sched (w.unwake .ctx)
    exact ⟨added, by simpa using e, fun o ho => panicDoc_of_ctxObs (hP o ho)⟩
  · exact w5_pollTask_doc w t

/-- **only the three panics the model can log at all, along every resolution** -/
theorem stepsAny_doc {w : World} {evs : List Ev} {w' : World} (h : StepsAny w evs w') : OutExtP PanicDoc w w' :=
  StepsAny.inv (I := fun x => OutExtP PanicDoc w x)
    (fun _ _ _ hi hp => outExtP_trans hi (pollTaskAny_doc hp))
    (fun x e hi => outExtP_trans hi (w5_apply_doc x e))
    (fun x o ho hi => outExtP_trans hi (outExtP_one o rfl (by
      rcases ho with ⟨e, rfl⟩ | rfl <;> (intro t cls h; cases h)))) h (outExtP_refl _ _)

/-! ## the context is asleep only with everything read -/

theorem pollTaskAny_tinv {w : World} {t : Task} {w' : World} (hp : PollTaskAny w t w') (h : W5.TInv w) :
    W5.TInv w' := by
  rcases pollTaskAny_cases hp with ⟨rfl, sched, rfl⟩ | ⟨_, rfl⟩
  · have hu : Reach (w.unwake .ctx).rx := h.reach
    refine ⟨pollCtxS_reach sched _ hu, ?_⟩
    intro hne hnw
    rcases pollCtxS_parked sched (w.unwake .ctx) (reach_ok hu) hne with h1 | h1
    · exact h1
    · exact absurd h1 hnw
  · exact W5.w5s_pollTask_tinv w t h

/-- **`W5.TInv` (reachable framing state, and: a context future that is alive and not flagged has nothing to read and
    the transport waker registered) along every resolution** -/
theorem stepsAny_tinv {w : World} {evs : List Ev} {w' : World} (h : StepsAny w evs w') (hi : W5.TInv w) :
    W5.TInv w' :=
  StepsAny.inv (fun _ _ _ hi hp => pollTaskAny_tinv hp hi) (fun x e hi => W5.w5s_apply_tinv x e hi)
    (fun x o _ hi => W5.w5s_emit_tinv hi o) h hi

/-! ## the context moves only by the documented transitions -/

theorem runLoopS_ctxTrans (sched : Nat → Bool) (f : Nat) (w : World) : CtxTrans w.c (runLoopS sched f w).c := by
  have h := runLoopS_pollServe sched f w
  rw [h.c_eq]
  exact CtxTrans.serve_hist _ _ h.wf

theorem pollCtxS_ctxTrans (sched : Nat → Bool) (w : World) : CtxTrans w.c (w.pollCtxS sched).c := by
  unfold pollCtxS
  split
  · exact .refl _
  · exact pollConnect_ctxTrans _ _ _ _ _
  · rename_i started _
    cases started with
    | true => simp only [pollRunS, ↓reduceIte]; exact runLoopS_ctxTrans _ _ w
    | false =>
      simp only [pollRunS, Bool.false_eq_true, ↓reduceIte]
      have h1 : CtxTrans w.c w.c.resume.1 := .resume _
      split
      · refine .trans h1 (.trans (.of_eq ?_) (runLoopS_ctxTrans _ _ _))
        exact resent_c w
      · exact .trans h1 (.of_eq (by simp [resumed_c]))

theorem pollTaskAny_ctxTrans {w : World} {t : Task} {w' : World} (hp : PollTaskAny w t w') : CtxTrans w.c w'.c := by
  rcases pollTaskAny_cases hp with ⟨rfl, sched, rfl⟩ | ⟨_, rfl⟩
  · have hu : (w.unwake .ctx).c = w.c := by simp
    rw [← hu]; exact pollCtxS_ctxTrans sched _
  · exact pollTask_ctxTrans w t

/-- **under any resolution the context moves only by the documented transitions** -/
theorem stepsAny_ctxTrans {w : World} {evs : List Ev} {w' : World} (h : StepsAny w evs w') : CtxTrans w.c w'.c :=
  StepsAny.inv (I := fun x => CtxTrans w.c x.c)
    (fun _ _ _ hi hp => .trans hi (pollTaskAny_ctxTrans hp))
    (fun x e hi => .trans hi (apply_ctxTrans x e))
    (fun x o _ hi => by rw [emit_c]; exact hi) h (.refl _)

end World
end Poster
