/-
  Lemmas/WorldWire.lean — the wire invariant of whole executions. For scripts whose requests MQTT 5 can represent
  (`ScriptInDomain`) and an unlimited transport: every packet submitted to the transport is a well-formed packet of known
  origin (`WireOf S`), hence exactly one frame; so the pending-bytes buffer is always empty after a write, every `W` line of
  the transcript is such a packet, and no `WRAW` line is ever logged. The invariant `WInv` is carried through every
  primitive of `World` (handlers, `runLoop`, `pollRun`, `pollConnect`, handle futures, executor, script events).
-/
import PosterModel.Lemmas.WorldWirePkt
import PosterModel.Lemmas.WorldWireSent

set_option linter.unusedVariables false
set_option linter.unusedSimpArgs false

namespace Poster
open Framing Spec

/-! ## the domain of a script -/

/-- the request, completed with ANY identifiers the library may assign (packet identifier 1..65535, subscription
    identifier 1..268435455), is a request MQTT 5 can represent (`XInDomain` of Spec/ClientOf.lean) -/
def ReqInDomain : Req → Prop
  | .publish t =>
    (t.qos = 0 → PublishInDomain t) ∧
    (t.qos ≠ 0 → ∀ pid, 1 ≤ pid → pid ≤ 65535 → PublishInDomain { t with packetId := some pid })
  | .subscribe t =>
    ∀ pid sid, 1 ≤ pid → pid ≤ 65535 → 1 ≤ sid → sid ≤ 268435455 →
      SubscribeInDomain { t with packetId := pid, subId := some sid }
  | .unsubscribe t => ∀ pid, 1 ≤ pid → pid ≤ 65535 → UnsubscribeInDomain { t with packetId := pid }
  | .ping => True
  | .disconnect t => DisconnectInDomain t

/-- the requests a script event carries are in the domain -/
def EvInDomain : Ev → Prop
  | .connect t => ConnectInDomain t
  | .authorize a => AuthInDomain a
  | .op _ _ req => ReqInDomain req
  | _ => True

/-- every request of the script (connect, authorize, publish, subscribe, unsubscribe, disconnect) is one MQTT 5 can
    represent -/
def ScriptInDomain (evs : List Ev) : Prop := ∀ e ∈ evs, EvInDomain e

/-- the requests a script carries -/
def srcOf (evs : List Ev) : Src where
  conn := fun t => Ev.connect t ∈ evs
  auth := fun a => Ev.authorize a ∈ evs
  req := fun r => ∃ id h, Ev.op id h r ∈ evs

/-- a handle request in the domain that is one of the requests of `S` -/
def ReqOk (S : Src) (req : Req) : Prop := ReqInDomain req ∧ S.req req

/-- the request of a script event is in the domain and is one of the requests of `S` -/
def EvOk (S : Src) : Ev → Prop
  | .connect t => ConnectInDomain t ∧ S.conn t
  | .authorize a => AuthInDomain a ∧ S.auth a
  | .op _ _ req => ReqOk S req
  | _ => True

theorem evOk_srcOf (evs : List Ev) (hd : ScriptInDomain evs) : ∀ e ∈ evs, EvOk (srcOf evs) e := by
  intro e he
  have h := hd e he
  cases e <;> first | trivial | exact ⟨h, he⟩ | exact ⟨h, _, _, he⟩

variable {S : Src}

/-! ## the invariant -/

/-- a queued message carries a packet of the class; a PUBLISH travelling as `awaitAck` (QoS>0) also has a well-formed
    retransmission -/
def MsgWire (S : Src) : Msg → Prop
  | .ff p _ => WireOf S p
  | .awaitAck _ p _ => WireOf S p ∧ (pktType p = 3 → WireOf S (setDup p))
  | .subscribe _ _ p _ _ => WireOf S p

/-- a transcript line: a `W` line shows a packet of the class, there is no `WRAW` line -/
def ObsOk (S : Src) : Obs → Prop
  | .wire bs => WireOf S bs
  | .wraw _ => False
  | _ => True

/-- the request a pending `connect()` / `authorize()` holds is in the domain -/
def TaskOk (S : Src) : CtxTask → Prop
  | .connecting call t a _ =>
    (call = .connect → ConnectInDomain t ∧ S.conn t) ∧ (call ≠ .connect → AuthInDomain a ∧ S.auth a)
  | _ => True

namespace World

/-- the `W` lines of a transcript -/
def wires (out : List Obs) : List Bytes := out.filterMap fun o => match o with | .wire b => some b | _ => none

structure WInv (S : Src) (w : World) : Prop where
  lim : w.cfg.wlimit = none
  pend : w.wirePend = []
  out : ∀ o ∈ w.out, ObsOk S o
  queue : ∀ m ∈ w.queue, MsgWire S m
  retx : ∀ e ∈ w.c.retx, WireOf S e.2
  ops : ∀ id h req, (id, OpSt.fresh h req) ∈ w.ops → ReqOk S req
  task : TaskOk S w.task
  pid : 1 ≤ w.pidCtr ∧ w.pidCtr ≤ 65535
  sub : 1 ≤ w.subCtr ∧ w.subCtr ≤ 268435455
  slots : ∀ s p, (s, Slot.full (.pkt p)) ∈ w.slots → p.wf

theorem WInv.init (S : Src) (cfg : Cfg) (h : cfg.wlimit = none) : WInv S { cfg := cfg } where
  lim := h
  pend := rfl
  out := by intro o ho; cases ho
  queue := by intro m hm; cases hm
  retx := by intro e he; cases he
  ops := by intro id hh req hm; cases hm
  task := trivial
  pid := by show 1 ≤ 1 ∧ 1 ≤ 65535; decide
  sub := by show 1 ≤ 1 ∧ 1 ≤ 268435455; decide
  slots := by intro s p hm; cases hm

end World

/-! ## the handlers -/

namespace Ctx

/-- `handle_message` on a message of the class (transport fine): the retransmit queue stays in the class, what is written
    is in the class, and no oneshot receives a packet -/
theorem handleMsg_wire (c : Ctx) (m : Msg) (hm : MsgWire S m) (hr : ∀ e ∈ c.retx, WireOf S e.2) :
    (∀ e ∈ (c.handleMsg m true).1.retx, WireOf S e.2) ∧
    (∀ p ∈ writesOf (c.handleMsg m true).2.1, WireOf S p) ∧
    (∀ s p, Eff.send s (.pkt p) ∉ (c.handleMsg m true).2.1) := by
  cases m with
  | ff pkt slot =>
    have hm : WireOf S pkt := hm
    simp only [handleMsg]
    split
    · exact ⟨hr, by simp, by simp⟩
    · simp only [Bool.not_true, Bool.false_eq_true, ↓reduceIte]
      exact ⟨hr, by simpa using hm, by simp⟩
  | subscribe aid sid pkt slot chan =>
    have hm : WireOf S pkt := hm
    simp only [handleMsg]
    split
    · exact ⟨hr, by simp, by simp⟩
    · exact ⟨hr, by simpa using hm, by simp⟩
  | awaitAck aid pkt slot =>
    obtain ⟨h1, h2⟩ := hm
    simp only [handleMsg]
    split
    · exact ⟨hr, by simp, by simp⟩
    · split
      · rename_i h3
        split
        · exact ⟨hr, by simp, by simp⟩
        · simp only [Bool.not_true, Bool.false_eq_true, ↓reduceIte]
          refine ⟨?_, by simpa using h1, by simp⟩
          intro e he
          simp only [List.mem_append, List.mem_singleton] at he
          rcases he with he | rfl
          · exact hr e he
          · exact h2 h3
      · split
        · simp only [Bool.not_true, Bool.false_eq_true, ↓reduceIte]
          refine ⟨?_, by simpa using h1, by simp⟩
          intro e he
          simp only [List.mem_append, List.mem_singleton] at he
          rcases he with he | rfl
          · exact hr e he
          · exact h1
        · simp only [Bool.not_true, Bool.false_eq_true, ↓reduceIte]
          exact ⟨hr, by simpa using h1, by simp⟩

theorem mem_eraseFirst {β} (k : Nat) (l : List (Nat × β)) (x : Nat × β) (h : x ∈ eraseFirst k l) : x ∈ l :=
  (eraseFirst_sublist k l).subset h

/-- `handle_packet` on a decoded packet: the retransmit queue only shrinks, what is written is an acknowledgement of the
    class, and the only packet a oneshot can receive is the decoded packet itself -/
theorem handlePkt_wire (c : Ctx) (alive : Nat → Bool) (p : RxPacket) (wok : Bool) (hp : p.wf)
    (hr : ∀ e ∈ c.retx, WireOf S e.2) :
    (∀ e ∈ (c.handlePkt alive p wok).1.retx, WireOf S e.2) ∧
    (∀ q ∈ writesOf (c.handlePkt alive p wok).2.1, WireOf S q) ∧
    (∀ s q, Eff.send s (.pkt q) ∈ (c.handlePkt alive p wok).2.1 → q = p) := by
  refine ⟨?_, ?_, ?_⟩
  · rw [handlePkt_retx]
    intro e he
    cases p <;> first | exact hr e he | exact hr e (mem_eraseFirst _ _ _ he)
  · rw [handlePkt_writes]
    cases p with
    | publish pb =>
      obtain ⟨_, _, h3⟩ : pb.wf := hp
      cases hpid : pb.packetId with
      | none => simp [hpid]
      | some pid =>
        have := h3 pid hpid
        intro q hq
        simp only [hpid, List.mem_singleton] at hq
        subst hq
        split
        · exact .ack _ _ (Or.inl rfl) ⟨by omega, by omega⟩
        · exact .ack _ _ (Or.inr (Or.inl rfl)) ⟨by omega, by omega⟩
    | pubrel a =>
      have : 0 < a.packetId ∧ a.packetId < 65536 := hp
      intro q hq
      simp only [List.mem_singleton] at hq
      subst hq
      exact .ack _ _ (Or.inr (Or.inr (Or.inr rfl))) ⟨by omega, by omega⟩
    | _ => simp
  · have hcomp : ∀ (c1 : Ctx) (aid : Nat) s q, Eff.send s (.pkt q) ∈ (c1.complete aid p).2 → q = p := by
      intro c1 aid s q h
      rcases complete_cases c1 aid p with e | ⟨sl, rest, _, e⟩
      · rw [e] at h; cases h
      · rw [e] at h; simp only [List.mem_singleton, Eff.send.injEq, SlotVal.pkt.injEq] at h; exact h.2
    cases p with
    | publish pb =>
      obtain ⟨effs0, h0, h1, _⟩ := handlePkt_publish c alive pb wok
      intro s q h
      rw [h1] at h
      rcases List.mem_append.mp h with h | h
      · rcases h0 _ h with ⟨ch, e, _⟩ | ⟨ch, e, _⟩ <;> cases e
      · cases hpid : pb.packetId <;> simp [hpid] at h
    | puback a => intro s q h; exact hcomp _ _ s q (by simpa [handlePkt] using h)
    | pubrec a => intro s q h; exact hcomp _ _ s q (by simpa [handlePkt] using h)
    | pubcomp a => intro s q h; exact hcomp _ _ s q (by simpa [handlePkt] using h)
    | suback a => intro s q h; exact hcomp _ _ s q (by simpa [handlePkt] using h)
    | unsuback a => intro s q h; exact hcomp _ _ s q (by simpa [handlePkt] using h)
    | pingresp => intro s q h; exact hcomp _ _ s q (by simpa [handlePkt] using h)
    | pubrel a => intro s q h; simp [handlePkt] at h
    | disconnect d => intro s q h; simp [handlePkt] at h
    | connack k => intro s q h; simp [handlePkt] at h
    | auth k => intro s q h; simp [handlePkt] at h

end Ctx

namespace World

/-! ## carrying the invariant -/

/-- the invariant is carried to a world whose relevant components are old ones or new good ones -/
theorem WInv.transfer {w w' : World} (hw : WInv S w)
    (cfg : w'.cfg = w.cfg) (pend : w'.wirePend = w.wirePend)
    (out : ∀ o ∈ w'.out, o ∈ w.out ∨ ObsOk S o)
    (queue : ∀ m ∈ w'.queue, m ∈ w.queue ∨ MsgWire S m)
    (retx : ∀ e ∈ w'.c.retx, e ∈ w.c.retx ∨ WireOf S e.2)
    (ops : ∀ id h req, (id, OpSt.fresh h req) ∈ w'.ops → (id, OpSt.fresh h req) ∈ w.ops ∨ ReqOk S req)
    (task : w'.task = w.task ∨ TaskOk S w'.task)
    (pid : w'.pidCtr = w.pidCtr ∨ (1 ≤ w'.pidCtr ∧ w'.pidCtr ≤ 65535))
    (sub : w'.subCtr = w.subCtr ∨ (1 ≤ w'.subCtr ∧ w'.subCtr ≤ 268435455))
    (slots : ∀ s p, (s, Slot.full (.pkt p)) ∈ w'.slots → (s, Slot.full (.pkt p)) ∈ w.slots ∨ p.wf) : WInv S w' where
  lim := by rw [cfg]; exact hw.lim
  pend := by rw [pend]; exact hw.pend
  out := fun o ho => (out o ho).elim (hw.out o) id
  queue := fun m hm => (queue m hm).elim (hw.queue m) id
  retx := fun e he => (retx e he).elim (hw.retx e) id
  ops := fun i h req hm => (ops i h req hm).elim (hw.ops i h req) (fun x => x)
  task := task.elim (fun e => e ▸ hw.task) id
  pid := pid.elim (fun e => e ▸ hw.pid) id
  sub := sub.elim (fun e => e ▸ hw.sub) id
  slots := fun s p hm => (slots s p hm).elim (hw.slots s p) id

/-- the common case: nothing relevant but the listed components changes -/
theorem WInv.same {w w' : World} (hw : WInv S w)
    (cfg : w'.cfg = w.cfg) (pend : w'.wirePend = w.wirePend) (out : w'.out = w.out) (queue : w'.queue = w.queue)
    (retx : w'.c.retx = w.c.retx) (ops : w'.ops = w.ops) (task : w'.task = w.task) (pid : w'.pidCtr = w.pidCtr)
    (sub : w'.subCtr = w.subCtr) (slots : w'.slots = w.slots) : WInv S w' :=
  hw.transfer cfg pend (fun o ho => Or.inl (out ▸ ho)) (fun m hm => Or.inl (queue ▸ hm))
    (fun e he => Or.inl (retx ▸ he)) (fun id h req hm => Or.inl (ops ▸ hm)) (Or.inl task) (Or.inl pid) (Or.inl sub)
    (fun s p hm => Or.inl (slots ▸ hm))

/-! ## transport writes -/

/-- with an unlimited transport and nothing pending, writing one whole frame logs exactly one `W` line with it -/
theorem writeBytes_oneFrame (w : World) (bs : Bytes) (hl : w.cfg.wlimit = none) (hp : w.wirePend = [])
    (hf : OneFrame bs) :
    w.writeBytes bs = { w with written := w.written + bs.length, out := w.out ++ [.wire bs], wirePend := [] } := by
  simp [writeBytes, canWrite, hl, flushWire, hp, frames_oneFrame bs hf]

theorem WInv.writeBytes {w : World} (hw : WInv S w) {bs : Bytes} (hb : WireOf S bs) : WInv S (w.writeBytes bs) := by
  rw [writeBytes_oneFrame w bs hw.lim hw.pend hb.oneFrame]
  refine hw.transfer rfl hw.pend.symm ?_ (fun _ h => Or.inl h) (fun _ h => Or.inl h) (fun _ _ _ h => Or.inl h)
    (Or.inl rfl) (Or.inl rfl) (Or.inl rfl) (fun _ _ h => Or.inl h)
  intro o ho
  simp only [List.mem_append, List.mem_singleton] at ho
  rcases ho with ho | rfl
  · exact Or.inl ho
  · exact Or.inr hb

theorem writeBytes_wires {w : World} (hw : WInv S w) {bs : Bytes} (hb : WireOf S bs) :
    wires (w.writeBytes bs).out = wires w.out ++ [bs] := by
  rw [writeBytes_oneFrame w bs hw.lim hw.pend hb.oneFrame]
  simp [wires, List.filterMap_append]

/-! ## effects of a handler -/

theorem mem_slots_setAssoc {s s0 : Nat} {v v0 : Slot} {l : List (Nat × Slot)} (h : (s, v) ∈ setAssoc s0 v0 l) :
    v = v0 ∨ (s, v) ∈ l := by
  rcases User.mem_setAssoc h with e | e
  · left; exact (Prod.mk.inj e).2
  · right; exact e

theorem WInv.sendSlot {w : World} (hw : WInv S w) (s : Nat) (v : SlotVal) (hv : ∀ p, v = .pkt p → p.wf) :
    WInv S (w.sendSlot s v) := by
  by_cases h : w.slot s = some .empty
  · obtain ⟨wk, sr, e⟩ := User.sendSlot_shape w s v h
    rw [e]
    refine hw.transfer rfl rfl (fun _ h => Or.inl h) (fun _ h => Or.inl h) (fun _ h => Or.inl h)
      (fun _ _ _ h => Or.inl h) (Or.inl rfl) (Or.inl rfl) (Or.inl rfl) ?_
    intro s' p hm
    rcases mem_slots_setAssoc hm with e | e
    · right; exact hv p (by simpa using e.symm)
    · left; exact e
  · rw [User.sendSlot_noop w s v h]; exact hw

theorem WInv.dropSlotTx {w : World} (hw : WInv S w) (s : Nat) : WInv S (w.dropSlotTx s) := by
  rw [dropSlotTx_eq]
  split
  · refine hw.transfer rfl rfl (fun _ h => Or.inl h) (fun _ h => Or.inl h) (fun _ h => Or.inl h)
      (fun _ _ _ h => Or.inl h) (Or.inl rfl) (Or.inl rfl) (Or.inl rfl) ?_
    intro s' p hm
    rcases mem_slots_setAssoc hm with e | e
    · cases e
    · left; exact e
  · exact hw

theorem WInv.deliver {w : World} (hw : WInv S w) (c : Nat) (p : PublishRx) : WInv S (w.deliver c p) :=
  hw.same (by simp) (by simp) (by simp) (by simp) (by simp) (by simp) (by simp) (by simp) (by simp) (by simp)

theorem WInv.dropChanTx {w : World} (hw : WInv S w) (c : Nat) : WInv S (w.dropChanTx c) :=
  hw.same (by simp) (by simp) (by simp) (by simp) (by simp) (by simp) (by simp) (by simp) (by simp) (by simp)

/-- applying the effects of a handler whose writes are packets of the class and whose oneshot values are well formed:
    the invariant is kept and the `W` lines gained are exactly the writes, in order -/
theorem WInv.applyEffs {w : World} (hw : WInv S w) (effs : List Eff) (he : ∀ p ∈ writesOf effs, WireOf S p)
    (hs : ∀ s q, Eff.send s (.pkt q) ∈ effs → q.wf) :
    WInv S (w.applyEffs effs) ∧ wires (w.applyEffs effs).out = wires w.out ++ writesOf effs := by
  unfold World.applyEffs
  induction effs generalizing w with
  | nil => exact ⟨hw, by simp⟩
  | cons e t ih =>
    simp only [List.foldl_cons]
    have hs' : ∀ s q, Eff.send s (.pkt q) ∈ t → q.wf := fun s q h => hs s q (List.mem_cons_of_mem _ h)
    cases e with
    | write bs =>
      have hb : WireOf S bs := he bs (by simp)
      obtain ⟨h1, h2⟩ := ih (hw.writeBytes hb) (fun p hp => he p (by simp [hp])) hs'
      refine ⟨h1, ?_⟩
      show wires (List.foldl applyEff (w.writeBytes bs) t).out = _
      rw [h2, writeBytes_wires hw hb]; simp
    | send s v =>
      obtain ⟨h1, h2⟩ := ih (hw.sendSlot s v (fun p hp => hs s p (by simp [hp]))) (fun p hp => he p (by simpa using hp)) hs'
      refine ⟨h1, ?_⟩
      show wires (List.foldl applyEff (w.sendSlot s v) t).out = _
      rw [h2]; simp
    | dropSlot s =>
      obtain ⟨h1, h2⟩ := ih (hw.dropSlotTx s) (fun p hp => he p (by simpa using hp)) hs'
      refine ⟨h1, ?_⟩
      show wires (List.foldl applyEff (w.dropSlotTx s) t).out = _
      rw [h2]; simp
    | deliver c p =>
      obtain ⟨h1, h2⟩ := ih (hw.deliver c p) (fun p hp => he p (by simpa using hp)) hs'
      refine ⟨h1, ?_⟩
      show wires (List.foldl applyEff (w.deliver c p) t).out = _
      rw [h2]; simp
    | dropChan c =>
      obtain ⟨h1, h2⟩ := ih (hw.dropChanTx c) (fun p hp => he p (by simpa using hp)) hs'
      refine ⟨h1, ?_⟩
      show wires (List.foldl applyEff (w.dropChanTx c) t).out = _
      rw [h2]; simp

/-- with an unlimited transport a handler is always run with `wok = true` -/
theorem runHandler_unlimited (w : World) (h : Bool → Ctx × List Eff × Flow) (hl : w.cfg.wlimit = none) :
    w.runHandler h = (({ w with c := (h true).1 }).applyEffs (h true).2.1, (h true).2.2) := by
  rw [runHandler_eq, canWrite_unlimited w hl]

/-! ## small steps that keep the invariant -/

theorem WInv.emit {w : World} (hw : WInv S w) (o : Obs) (ho : ObsOk S o) : WInv S (w.emit o) := by
  refine hw.transfer rfl rfl ?_ (fun _ h => Or.inl h) (fun _ h => Or.inl h) (fun _ _ _ h => Or.inl h)
    (Or.inl rfl) (Or.inl rfl) (Or.inl rfl) (fun _ _ h => Or.inl h)
  intro o' ho'
  simp only [emit_out', List.mem_append, List.mem_singleton] at ho'
  rcases ho' with h | rfl
  · exact Or.inl h
  · exact Or.inr ho

theorem WInv.noTask {w : World} (hw : WInv S w) : WInv S { w with task := .none } :=
  hw.transfer rfl rfl (fun _ h => Or.inl h) (fun _ h => Or.inl h) (fun _ h => Or.inl h) (fun _ _ _ h => Or.inl h)
    (Or.inr trivial) (Or.inl rfl) (Or.inl rfl) (fun _ _ h => Or.inl h)

theorem WInv.finish {w : World} (hw : WInv S w) (call : Call) (r : RetRes) : WInv S (w.finish call r) :=
  hw.noTask.emit _ trivial

theorem WInv.wake {w : World} (hw : WInv S w) (t : Task) : WInv S (w.wake t) :=
  hw.same (by simp) (by simp) (by simp) (by simp) (by simp) (by simp) (by simp) (by simp) (by simp) (by simp)

theorem WInv.unwake {w : World} (hw : WInv S w) (t : Task) : WInv S (w.unwake t) :=
  hw.same (by simp) (by simp) (by simp) (by simp) (by simp) (by simp) (by simp) (by simp) (by simp) (by simp)

/-! ## the `select!` loop of `run()` -/

theorem inMsg_unlimited (w : World) (m : Msg) (hl : w.cfg.wlimit = none) : w.inMsg m = .msg m true := by
  simp [inMsg, wokMsg, canWrite_unlimited w hl]

/-- what one iteration of the loop writes is in the class -/
theorem iter_wire {w : World} (hw : WInv S w) {i : CIn} (hi : w.iterIn = some i) :
    ∀ p ∈ writesOf (w.c.stepIn i).2.effs, WireOf S p := by
  unfold iterIn at hi
  split at hi
  · rename_i m q hq
    simp only [Option.some.injEq] at hi
    subst hi
    rw [inMsg_unlimited w m hw.lim]
    exact (Ctx.handleMsg_wire w.c m (hw.queue m (by simp [hq])) hw.retx).2.1
  · split at hi
    · cases hi
    · split at hi
      · rename_i rx' rd' fr hp
        split at hi
        · rename_i p hd
          simp only [Option.some.injEq] at hi
          subst hi
          exact (Ctx.handlePkt_wire w.c _ p _ (decodeRx_wf_aux fr p hd) hw.retx).2.1
        · cases hi
      · cases hi

/-- a handler run from a world in which only `queue` / `rx` / `reader` were changed -/
theorem WInv.handled {w w0 : World} (hw : WInv S w) (h : Bool → Ctx × List Eff × Flow)
    (cfg : w0.cfg = w.cfg) (pend : w0.wirePend = w.wirePend) (out : w0.out = w.out)
    (queue : ∀ m ∈ w0.queue, m ∈ w.queue) (ops : w0.ops = w.ops) (task : w0.task = w.task)
    (pid : w0.pidCtr = w.pidCtr) (sub : w0.subCtr = w.subCtr) (slots : w0.slots = w.slots)
    (hr : ∀ e ∈ (h true).1.retx, WireOf S e.2) (he : ∀ p ∈ writesOf (h true).2.1, WireOf S p)
    (hs : ∀ s q, Eff.send s (.pkt q) ∈ (h true).2.1 → q.wf) : WInv S (w0.runHandler h).1 := by
  rw [runHandler_unlimited w0 h (by rw [cfg]; exact hw.lim)]
  have h0 : WInv S ({ w0 with c := (h true).1 } : World) :=
    hw.transfer cfg pend (fun o ho => Or.inl (out ▸ ho)) (fun m hm => Or.inl (queue m hm))
      (fun e he => Or.inr (hr e he)) (fun i hh req hm => Or.inl (ops ▸ hm)) (Or.inl task) (Or.inl pid) (Or.inl sub)
      (fun s p hm => Or.inl (slots ▸ hm))
  exact (h0.applyEffs _ he hs).1

theorem WInv.handledMsg {w : World} (hw : WInv S w) (m : Msg) (q : List Msg) (hq : w.queue = m :: q) :
    WInv S (({ w with queue := q } : World).runHandler (fun wok => w.c.handleMsg m wok)).1 := by
  obtain ⟨h1, h2, h3⟩ := Ctx.handleMsg_wire w.c m (hw.queue m (by simp [hq])) hw.retx
  exact hw.handled _ rfl rfl rfl (fun m' hm' => by simp [hq, hm']) rfl rfl rfl rfl rfl h1 h2
    (fun s p hp => absurd hp (h3 s p))

theorem WInv.handledPkt {w : World} (hw : WInv S w) (rx' : Rx) (rd' : List ReadEv) (p : RxPacket) (hp : p.wf)
    (alive : Nat → Bool) :
    WInv S (({ w with rx := rx', reader := rd' } : World).runHandler (fun wok => w.c.handlePkt alive p wok)).1 := by
  obtain ⟨h1, h2, h3⟩ := Ctx.handlePkt_wire w.c alive p true hp hw.retx
  exact hw.handled _ rfl rfl rfl (fun m' hm' => hm') rfl rfl rfl rfl rfl h1 h2
    (fun s q hq => (h3 s q hq) ▸ hp)

theorem WInv.runCont {w w1 : World} (hw : WInv S w) (h : RunCont w w1) : WInv S w1 := by
  cases h with
  | msg m q w1 hq hr =>
    have e : w1 = (World.runHandler { w with queue := q } (fun wok => w.c.handleMsg m wok)).1 := by rw [hr]
    subst e; exact hw.handledMsg m q hq
  | pkt rx' rd' fr p w1 hq hs hp hd hr =>
    have e : w1 = (World.runHandler { w with rx := rx', reader := rd' }
        (fun wok => w.c.handlePkt w.chanRxAlive p wok)).1 := by rw [hr]
    subst e; exact hw.handledPkt rx' rd' p (decodeRx_wf_aux fr p hd) _

theorem WInv.setRx {w : World} (hw : WInv S w) (rx' : Rx) (rd' : List ReadEv) :
    WInv S { w with rx := rx', reader := rd' } :=
  hw.same rfl rfl rfl rfl rfl rfl rfl rfl rfl rfl

theorem WInv.runEnd {w r : World} (hw : WInv S w) (h : RunEnd w r) : WInv S r := by
  cases h with
  | msgExit m q w1 fl hq hr hne =>
    have e : w1 = (World.runHandler { w with queue := q } (fun wok => w.c.handleMsg m wok)).1 := by rw [hr]
    subst e; exact (hw.handledMsg m q hq).finish _ _
  | closed hq hs => exact hw.finish _ _
  | pktExit rx' rd' fr p w1 fl hq hs hp hd hr hne =>
    have e : w1 = (World.runHandler { w with rx := rx', reader := rd' }
        (fun wok => w.c.handlePkt w.chanRxAlive p wok)).1 := by rw [hr]
    subst e; exact (hw.handledPkt rx' rd' p (decodeRx_wf_aux fr p hd) _).finish _ _
  | codec rx' rd' fr hq hs hp hd => exact (hw.setRx rx' rd').finish _ _
  | panic rx' rd' fr hq hs hp hd => exact ((hw.setRx rx' rd').noTask).emit _ trivial
  | sock rx' rd' hq hs hp => exact (hw.setRx rx' rd').finish _ _
  | pending rx' rd' hq hs hp =>
    split
    · exact hw.same rfl rfl rfl rfl rfl rfl rfl rfl rfl rfl
    · exact WInv.wake (w := { w with rx := rx', reader := rd', queueReg := true })
        (hw.same rfl rfl rfl rfl rfl rfl rfl rfl rfl rfl) .ctx

/-- **one poll of the loop**: the invariant is kept and everything the handlers of the poll write is in the class -/
theorem runLoop_wire (f : Nat) (w : World) (hw : WInv S w) :
    WInv S (runLoop f w) ∧ ∀ p ∈ histWrites (w.c.serve (loopHist f w)).2, WireOf S p := by
  induction f generalizing w with
  | zero => exact ⟨hw, by simp [loopHist_zero, Ctx.serve_nil, histWrites]⟩
  | succ f ih =>
    rw [runLoop_succ, loopHist_succ]
    cases h : runIter w with
    | inl w1 =>
      have hc := runIter_inl h
      obtain ⟨i, hi, hfl, hst⟩ := runCont_iter hc
      obtain ⟨h1, h2⟩ := ih w1 (hw.runCont hc)
      refine ⟨h1, ?_⟩
      simp only [hi]
      rw [serve_cons_cont _ _ _ hfl, histWrites_cons, ← hst.c_eq]
      intro p hp
      rcases List.mem_append.mp hp with hp | hp
      · exact iter_wire hw hi p hp
      · exact h2 p hp
    | inr r =>
      refine ⟨hw.runEnd (runIter_inr h), ?_⟩
      rcases runEnd_iter (runIter_inr h) with ⟨hi, _, _⟩ | ⟨i, hi, hne, _, _, _⟩
      · simp [hi, Ctx.serve_nil, histWrites]
      · simp only [hi]
        rw [serve_single_exit _ _ hne]
        intro p hp
        exact iter_wire hw hi p (by simpa [histWrites] using hp)

/-! ## `run()`: session resumption -/

theorem resume_retx_sub (c : Ctx) : ∀ e ∈ c.resume.1.retx, e ∈ c.retx := by
  rcases Ctx.resume_fst_cases c with h | h | h <;> rw [h]
  · exact fun e he => he
  · exact fun e he => he
  · intro e he; cases he

theorem resume_pkts_sub (c : Ctx) : ∀ p ∈ c.resume.2.2, ∃ e ∈ c.retx, p = e.2 := by
  unfold Ctx.resume
  split
  · intro p hp; cases hp
  · rename_i el _
    by_cases hx : c.sessionExpired el = true
    · simp [hx, Ctx.resetSession]
    · simp only [hx, Bool.false_eq_true, ↓reduceIte, List.mem_map]
      rintro p ⟨e, he, rfl⟩
      exact ⟨e, he, rfl⟩

theorem writesOf_quiet (effs : List Eff) (h : ∀ e ∈ effs, Eff.quiet e = true) : writesOf effs = [] := by
  induction effs with
  | nil => rfl
  | cons e t ih =>
    rw [writesOf_cons_quiet e t (h e (by simp))]
    exact ih (fun e' he' => h e' (by simp [he']))

theorem resume_effs_nosend (c : Ctx) : ∀ s v, Eff.send s v ∉ c.resume.2.1 := by
  unfold Ctx.resume
  split
  · simp
  · rename_i el _
    by_cases hx : c.sessionExpired el = true
    · simp [hx, Ctx.resetSession]
    · simp [hx]

theorem WInv.resumed {w : World} (hw : WInv S w) : WInv S w.resumed := by
  unfold World.resumed
  have h0 : WInv S ({ w with c := w.c.resume.1, task := .running true } : World) :=
    hw.transfer rfl rfl (fun _ h => Or.inl h) (fun _ h => Or.inl h) (fun e he => Or.inl (resume_retx_sub w.c e he))
      (fun _ _ _ h => Or.inl h) (Or.inr trivial) (Or.inl rfl) (Or.inl rfl) (fun _ _ h => Or.inl h)
  refine (h0.applyEffs _ ?_ ?_).1
  · rw [writesOf_quiet _ (resume_effs_quiet w.c)]; intro p hp; cases hp
  · intro s q hq
    exact absurd hq (resume_effs_nosend w.c s _)

theorem resume_pkts_wire {w : World} (hw : WInv S w) : ∀ p ∈ w.c.resume.2.2, WireOf S p := by
  intro p hp
  obtain ⟨e, he, rfl⟩ := resume_pkts_sub w.c p hp
  exact hw.retx e he

theorem WInv.resent {w : World} (hw : WInv S w) : WInv S w.resent := by
  unfold World.resent
  rw [foldl_writeBytes_eq_applyEffs]
  refine (hw.resumed.applyEffs _ ?_ ?_).1
  · rw [writesOf_map_write]; exact resume_pkts_wire hw
  · intro s q hq
    simp only [List.mem_map] at hq
    obtain ⟨b, _, hb⟩ := hq
    cases hb

theorem pollRun_wire (w : World) (hw : WInv S w) (started : Bool) (ht : w.task = .running started) :
    WInv S (w.pollRun started) ∧ ∀ p ∈ w.ctxSubmits, WireOf S p := by
  unfold ctxSubmits
  rw [ht]
  cases started with
  | true =>
    simp only [pollRun, ↓reduceIte]
    exact runLoop_wire _ w hw
  | false =>
    simp only [Bool.false_eq_true, ↓reduceIte]
    have hc : w.resumed.canWrite ((w.c.resume.2.2.map List.length).sum) = true :=
      canWrite_unlimited _ (by rw [resumed_cfg]; exact hw.lim) _
    rw [pollRun_first_eq, if_pos hc]
    obtain ⟨h1, h2⟩ := runLoop_wire w.resent.loopFuel w.resent hw.resent
    refine ⟨h1, ?_⟩
    intro p hp
    rcases List.mem_append.mp hp with hp | hp
    · exact resume_pkts_wire hw p hp
    · exact h2 p hp

/-! ## `connect()` / `authorize()` -/

theorem WInv.firstEnd {w r : World} {call : Call} {t : ConnectTx} {a : AuthTx} (hw : WInv S w)
    (htk : TaskOk S (.connecting call t a true)) (h : FirstEnd w call t a r) : WInv S r := by
  have hk : ∀ rx' rd' (k : ConnackRx), WInv S ({ w with rx := rx', reader := rd', c := w.c.handleConnack k } : World) :=
    fun rx' rd' k => hw.same rfl rfl rfl rfl (Ctx.handleConnack_frame w.c k).2.2.2.1 rfl rfl rfl rfl rfl
  cases h with
  | connack rx' rd' fr k hp => exact (hk rx' rd' k).finish _ _
  | refused rx' rd' fr k hp => exact (hk rx' rd' k).finish _ _
  | assertSubId rx' rd' fr k hp => exact ((hk rx' rd' k).noTask).emit _ trivial
  | auth rx' rd' fr au hp => exact (hw.setRx rx' rd').finish _ _
  | unexpected rx' rd' fr p hp => exact (hw.setRx rx' rd').finish _ _
  | codec rx' rd' fr hp => exact (hw.setRx rx' rd').finish _ _
  | panic rx' rd' fr hp => exact ((hw.setRx rx' rd').noTask).emit _ trivial
  | sock rx' rd' hp => exact (hw.setRx rx' rd').finish _ _
  | pending rx' rd' hp =>
    have h0 : WInv S ({ w with rx := rx', reader := rd', task := .connecting call t a true } : World) :=
      hw.transfer rfl rfl (fun _ h => Or.inl h) (fun _ h => Or.inl h) (fun _ h => Or.inl h)
        (fun _ _ _ h => Or.inl h) (Or.inr htk) (Or.inl rfl) (Or.inl rfl) (fun _ _ h => Or.inl h)
    split
    · exact h0.same rfl rfl rfl rfl rfl rfl rfl rfl rfl rfl
    · exact h0.wake .ctx

theorem WInv.awaitFirst {w : World} (hw : WInv S w) (call : Call) (t : ConnectTx) (a : AuthTx)
    (htk : TaskOk S (.connecting call t a true)) : WInv S (w.awaitFirst call t a) :=
  hw.firstEnd htk (awaitFirst_spec w call t a)

/-- the packet `connect()` / `authorize()` writes -/
def connectPkt (call : Call) (t : ConnectTx) (a : AuthTx) : Bytes :=
  match call with
  | .connect => t.encode
  | _ => a.encode

/-- the world in which it is written (`connect()` records the session expiry interval it asks for) -/
def connectWorld (w : World) (call : Call) (t : ConnectTx) : World :=
  match call with
  | .connect => { w with c := { w.c with sei := t.sessionExpiry.getD 0 } }
  | _ => w

/-- the packet of an accepted `connect()` / `authorize()` request is of the class -/
theorem connectPkt_wire (call : Call) (t : ConnectTx) (a : AuthTx) (htk : TaskOk S (.connecting call t a true))
    (hv : reqValid call t a = true) : WireOf S (connectPkt call t a) := by
  cases call with
  | connect => exact WireOf.connect t (htk.1 rfl).2 hv (htk.1 rfl).1
  | authorize => exact WireOf.auth a (htk.2 (by simp)).2 hv (htk.2 (by simp)).1
  | run => exact WireOf.auth a (htk.2 (by simp)).2 hv (htk.2 (by simp)).1

theorem WInv.connectWorld {w : World} (hw : WInv S w) (call : Call) (t : ConnectTx) : WInv S (connectWorld w call t) := by
  cases call
  · exact hw.same rfl rfl rfl rfl rfl rfl rfl rfl rfl rfl
  · exact hw
  · exact hw

theorem pollConnect_first_eq (w : World) (call : Call) (t : ConnectTx) (a : AuthTx) (hl : w.cfg.wlimit = none) :
    w.pollConnect call t a false =
      if reqValid call t a = true then
        ((connectWorld w call t).writeBytes (connectPkt call t a)).awaitFirst call t a
      else w.finish call (.err .codecError) := by
  cases call with
  | connect =>
    simp only [pollConnect, reqValid, connectWorld, connectPkt, Bool.false_eq_true, ↓reduceIte]
    by_cases hv : t.valid = true
    · simp only [hv, Bool.not_true, Bool.false_eq_true, ↓reduceIte]
      rw [if_pos (canWrite_unlimited _ (by exact hl) _)]
    · have hv' : t.valid = false := by simpa using hv
      simp [hv']
  | authorize =>
    simp only [pollConnect, reqValid, connectWorld, connectPkt, Bool.false_eq_true, ↓reduceIte]
    by_cases hv : a.valid = true
    · simp only [hv, Bool.not_true, Bool.false_eq_true, ↓reduceIte]
      rw [if_pos (canWrite_unlimited _ hl _)]
    · have hv' : a.valid = false := by simpa using hv
      simp [hv']
  | run =>
    simp only [pollConnect, reqValid, connectWorld, connectPkt, Bool.false_eq_true, ↓reduceIte]
    by_cases hv : a.valid = true
    · simp only [hv, Bool.not_true, Bool.false_eq_true, ↓reduceIte]
      rw [if_pos (canWrite_unlimited _ hl _)]
    · have hv' : a.valid = false := by simpa using hv
      simp [hv']

theorem ctxSubmits_connecting (w : World) (call : Call) (t : ConnectTx) (a : AuthTx) (started : Bool)
    (ht : w.task = .connecting call t a started) :
    w.ctxSubmits = if started then [] else if reqValid call t a then [connectPkt call t a] else [] := by
  unfold ctxSubmits connectPkt
  rw [ht]
  rfl

theorem pollConnect_wire (w : World) (hw : WInv S w) (call : Call) (t : ConnectTx) (a : AuthTx) (started : Bool)
    (ht : w.task = .connecting call t a started) :
    WInv S (w.pollConnect call t a started) ∧ ∀ p ∈ w.ctxSubmits, WireOf S p := by
  have htk : TaskOk S (.connecting call t a true) := by have := hw.task; rw [ht] at this; exact this
  rw [ctxSubmits_connecting w call t a started ht]
  cases started with
  | true =>
    simp only [pollConnect, ↓reduceIte]
    exact ⟨hw.awaitFirst call t a htk, by simp⟩
  | false =>
    simp only [Bool.false_eq_true, ↓reduceIte]
    rw [pollConnect_first_eq w call t a hw.lim]
    by_cases hv : reqValid call t a = true
    · rw [if_pos hv, if_pos hv]
      have hp := connectPkt_wire call t a htk hv
      refine ⟨((hw.connectWorld call t).writeBytes hp).awaitFirst call t a htk, ?_⟩
      intro p hp'
      simp only [List.mem_singleton] at hp'
      rw [hp']; exact hp
    · rw [if_neg hv, if_neg hv]
      exact ⟨hw.finish _ _, by simp⟩

/-- **one poll of the context task** keeps the invariant, and every packet it submits is of the class -/
theorem pollCtx_wire (w : World) (hw : WInv S w) : WInv S w.pollCtx ∧ ∀ p ∈ w.ctxSubmits, WireOf S p := by
  unfold pollCtx
  cases ht : w.task with
  | none => exact ⟨hw, by simp [ctxSubmits, ht]⟩
  | connecting call t a started => exact pollConnect_wire w hw call t a started ht
  | running started => exact pollRun_wire w hw started ht

/-! ## handle futures -/

theorem mem_of_lookupFirst {β} {k : Nat} {l : List (Nat × β)} {v : β} (h : lookupFirst k l = some v) : (k, v) ∈ l := by
  induction l with
  | nil => cases h
  | cons hd t ih =>
    obtain ⟨a, b⟩ := hd
    simp only [lookupFirst] at h
    split at h
    · rename_i hk; simp only [Option.some.injEq] at h; subst hk; subst h; simp
    · exact List.mem_cons_of_mem _ (ih h)

theorem WInv.setOps {w : World} (hw : WInv S w) (l : List (Nat × OpSt))
    (h : ∀ id hh req, (id, OpSt.fresh hh req) ∈ l → (id, OpSt.fresh hh req) ∈ w.ops) : WInv S { w with ops := l } :=
  hw.transfer rfl rfl (fun _ h => Or.inl h) (fun _ h => Or.inl h) (fun _ h => Or.inl h)
    (fun i hh req hm => Or.inl (h i hh req hm)) (Or.inl rfl) (Or.inl rfl) (Or.inl rfl) (fun _ _ h => Or.inl h)

theorem WInv.eraseOp {w : World} (hw : WInv S w) (id : Nat) : WInv S { w with ops := eraseFirst id w.ops } :=
  hw.setOps _ (fun _ _ _ hm => Ctx.mem_eraseFirst _ _ _ hm)

theorem WInv.senderGone {w : World} (hw : WInv S w) : WInv S w.senderGone := by
  obtain ⟨wk, qr, e⟩ := User.senderGone_shape w
  rw [e]; exact hw.same rfl rfl rfl rfl rfl rfl rfl rfl rfl rfl

theorem WInv.finishOp {w : World} (hw : WInv S w) (id : Nat) (r : DoneRes) : WInv S (w.finishOp id r) := by
  unfold World.finishOp
  exact ((hw.eraseOp id).emit (.done id r) trivial).senderGone

theorem WInv.unreach {w : World} (hw : WInv S w) (id : Nat) :
    WInv S ((({ w with ops := eraseFirst id w.ops } : World).emit (.panic (.op id) "unreachable")).senderGone) :=
  ((hw.eraseOp id).emit (.panic (.op id) "unreachable") trivial).senderGone

theorem WInv.clearSlot {w : World} (hw : WInv S w) (s : Nat) : WInv S (w.clearSlot s) :=
  hw.transfer rfl rfl (fun _ h => Or.inl h) (fun _ h => Or.inl h) (fun _ h => Or.inl h)
    (fun _ _ _ h => Or.inl h) (Or.inl rfl) (Or.inl rfl) (Or.inl rfl)
    (fun _ _ hm => Or.inl (Ctx.mem_eraseFirst _ _ _ hm))

theorem WInv.setRsps {w : World} (hw : WInv S w) (l : List Nat) : WInv S { w with rsps := l } :=
  hw.same rfl rfl rfl rfl rfl rfl rfl rfl rfl rfl

theorem WInv.setStreams {w : World} (hw : WInv S w) (l : List Nat) : WInv S { w with streams := l } :=
  hw.same rfl rfl rfl rfl rfl rfl rfl rfl rfl rfl

theorem WInv.setChan {w : World} (hw : WInv S w) (c : Nat) (v : Chan) : WInv S (w.setChan c v) :=
  hw.same rfl rfl rfl rfl rfl rfl rfl rfl rfl rfl

theorem WInv.dropChanRx {w : World} (hw : WInv S w) (c : Nat) : WInv S (w.dropChanRx c) :=
  hw.same rfl rfl rfl rfl rfl rfl rfl rfl rfl rfl

theorem not_fresh_mem_setAssoc_wait {id i s hh : Nat} {k : Wait} {req : Req} {l : List (Nat × OpSt)}
    (h : (i, OpSt.fresh hh req) ∈ setAssoc id (OpSt.wait s k) l) : (i, OpSt.fresh hh req) ∈ l := by
  rcases User.mem_setAssoc h with e | e
  · cases e
  · exact e

theorem WInv.awaitSlot {w : World} (hw : WInv S w) (id s : Nat) (k : Wait) : WInv S (w.awaitSlot id s k) := by
  unfold World.awaitSlot
  refine hw.transfer rfl rfl (fun _ h => Or.inl h) (fun _ h => Or.inl h) (fun _ h => Or.inl h)
    (fun i hh req hm => Or.inl (not_fresh_mem_setAssoc_wait hm)) (Or.inl rfl) (Or.inl rfl) (Or.inl rfl) ?_
  intro s' p hm
  rcases mem_slots_setAssoc hm with e | e
  · cases e
  · exact Or.inl e

/-- the message of the class is queued (or the context is gone and the operation fails) -/
theorem WInv.sendMsg {w w1 : World} (hw : WInv S w) {m : Msg} (hm : MsgWire S m) (h : w.sendMsg m = some w1) : WInv S w1 := by
  rw [sendMsg_eq] at h
  split at h
  · simp only [Option.some.injEq] at h
    subst h
    refine hw.transfer rfl rfl (fun _ h => Or.inl h) ?_ (fun _ h => Or.inl h)
      (fun _ _ _ h => Or.inl h) (Or.inl rfl) (Or.inl rfl) (Or.inl rfl) (fun _ _ h => Or.inl h)
    intro m' hm'
    simp only [List.mem_append, List.mem_singleton] at hm'
    rcases hm' with h | rfl
    · exact Or.inl h
    · exact Or.inr hm
  · cases h

theorem WInv.sendAwait {w : World} (hw : WInv S w) (m : Msg) (hm : MsgWire S m) (id s : Nat) (k : Wait) :
    WInv S (w.sendAwait m id s k) := by
  unfold World.sendAwait
  cases h : w.sendMsg m with
  | none => exact hw.finishOp _ _
  | some w1 => exact (hw.sendMsg hm h).awaitSlot id s k

theorem WInv.allocPid {w : World} (hw : WInv S w) : WInv S w.allocPid.2 := by
  refine hw.transfer rfl rfl (fun _ h => Or.inl h) (fun _ h => Or.inl h) (fun _ h => Or.inl h)
    (fun _ _ _ h => Or.inl h) (Or.inl rfl) (Or.inr ?_) (Or.inl rfl) (fun _ _ h => Or.inl h)
  have := hw.pid
  simp only [World.allocPid]
  split <;> omega

theorem WInv.allocSub {w : World} (hw : WInv S w) : WInv S w.allocSub.2 := by
  refine hw.transfer rfl rfl (fun _ h => Or.inl h) (fun _ h => Or.inl h) (fun _ h => Or.inl h)
    (fun _ _ _ h => Or.inl h) (Or.inl rfl) (Or.inl rfl) (Or.inr ?_) (fun _ _ h => Or.inl h)
  have := hw.sub
  simp only [World.allocSub]
  split <;> omega

theorem MsgWire.mk_ff {p : Bytes} (h : WireOf S p) (s : Nat) : MsgWire S (.ff p s) := h
theorem MsgWire.mk_sub {p : Bytes} (h : WireOf S p) (aid sid s ch : Nat) : MsgWire S (.subscribe aid sid p s ch) := h
theorem MsgWire.mk_ack {p : Bytes} (h : WireOf S p) (h3 : pktType p = 3 → WireOf S (setDup p)) (aid s : Nat) :
    MsgWire S (.awaitAck aid p s) := ⟨h, h3⟩

/-- **a handle future first polled**: whatever it queues is a packet of the class -/
theorem WInv.startOp {w : World} (hw : WInv S w) (id : Nat) (req : Req) (hd : ReqOk S req) :
    WInv S (w.startOp id req) := by
  obtain ⟨hd, hsrc⟩ := hd
  cases req with
  | publish t =>
    obtain ⟨hd0, hd1⟩ := hd
    by_cases hq : t.qos = 0
    · rw [User.startOp_publish0 _ _ _ hq]
      split
      · exact hw.finishOp _ _
      · rename_i hv
        exact hw.sendAwait _ (MsgWire.mk_ff (WireOf.publish0 t hsrc hq (by simpa using hv) (hd0 hq)) _) _ _ _
    · rw [User.startOp_publish12 _ _ _ hq]
      split
      · exact hw.allocPid.finishOp _ _
      · rename_i hv
        have hv' : ({ t with packetId := some w.pidCtr } : PublishTx).valid = true := by simpa using hv
        have hd' := hd1 hq w.pidCtr hw.pid.1 hw.pid.2
        exact hw.allocPid.sendAwait _
          (MsgWire.mk_ack (WireOf.publish t hsrc hq _ hw.pid hv' hd')
            (fun _ => WireOf.republish t hsrc hq _ hw.pid hv' hd') _ _) _ _ _
  | subscribe t =>
    rw [User.startOp_subscribe]
    simp only
    have hd' := hd w.pidCtr w.subCtr hw.pid.1 hw.pid.2 hw.sub.1 hw.sub.2
    split
    · exact hw.allocPid.allocSub.finishOp _ _
    · rename_i hv
      have hv' : ({ t with packetId := w.pidCtr, subId := some w.subCtr } : SubscribeTx).valid = true := by
        simpa using hv
      have h1 : WInv S ((w.allocPid.2.allocSub.2).setChan id {}) := (hw.allocPid.allocSub).setChan id {}
      cases h : World.sendMsg _ _ with
      | none => exact (h1.dropChanRx id).finishOp _ _
      | some w1 =>
        exact (h1.sendMsg (MsgWire.mk_sub (WireOf.subscribe t hsrc _ _ hw.pid hw.sub hv' hd') _ _ _ _) h).awaitSlot _ _ _
  | unsubscribe t =>
    rw [User.startOp_unsubscribe]
    have hd' := hd w.pidCtr hw.pid.1 hw.pid.2
    split
    · exact hw.allocPid.finishOp _ _
    · rename_i hv
      have hv' : ({ t with packetId := w.pidCtr } : UnsubscribeTx).valid = true := by simpa using hv
      exact hw.allocPid.sendAwait _ (MsgWire.mk_ack (WireOf.unsubscribe t hsrc _ hw.pid hv' hd')
        (fun h3 => by rw [pktType_unsubscribe] at h3; cases h3) _ _) _ _ _
  | ping =>
    rw [User.startOp_ping]
    exact hw.sendAwait _ (MsgWire.mk_ack (WireOf.pingreq hsrc)
      (fun h3 => by rw [pktType_pingreq] at h3; cases h3) _ _) _ _ _
  | disconnect t =>
    rw [User.startOp_disconnect]
    exact hw.sendAwait _ (MsgWire.mk_ff (WireOf.disconnect t hsrc hd) _) _ _ _

/-- **a handle future resumed with the value of its oneshot** (a stored packet is well formed) -/
theorem WInv.resumeOp {w : World} (hw : WInv S w) (id s : Nat) (k : Wait) (v : SlotVal)
    (hv : ∀ p, v = .pkt p → p.wf) : WInv S (w.resumeOp id s k v) := by
  have hc := hw.clearSlot s
  cases v with
  | errSize => exact hc.finishOp _ _
  | errQuota => exact hc.finishOp _ _
  | unit => simp only [World.resumeOp]; split <;> exact hc.finishOp _ _
  | pkt p =>
    have hwf := hv p rfl
    cases ha : Wait.accepts k p with
    | false =>
      cases k <;> cases p <;> simp [Wait.accepts] at ha <;> simp only [World.resumeOp] <;> exact hc.unreach id
    | true =>
      cases k <;> cases p <;> simp [Wait.accepts] at ha <;> simp only [World.resumeOp]
      · split <;> exact hc.finishOp _ _
      · rename_i a
        split
        · exact hc.finishOp _ _
        · have hr : 0 < a.packetId ∧ a.packetId < 65536 := hwf
          have hm : MsgWire S (.awaitAck (actionId 7 a.packetId) (ackBytes 0x62 a.packetId) (s + 1)) :=
            ⟨WireOf.ack _ _ (Or.inr (Or.inr (Or.inl rfl))) ⟨by omega, by omega⟩,
              fun h3 => by rw [pktType_pubrel] at h3; cases h3⟩
          exact hc.sendAwait _ hm _ _ _
      · split <;> exact hc.finishOp _ _
      · exact (hc.setRsps _).finishOp _ _
      · exact hc.finishOp _ _
      · exact hc.finishOp _ _

theorem WInv.pollOp {w : World} (hw : WInv S w) (id : Nat) : WInv S (w.pollOp id) := by
  unfold World.pollOp
  split
  · exact hw
  · rename_i h req hop
    exact hw.startOp id req (hw.ops id h req (mem_of_lookupFirst hop))
  · rename_i s k hop
    split
    · rename_i v hs
      exact hw.resumeOp id s k v (fun p hp => hw.slots s p (by subst hp; exact mem_of_lookupFirst hs))
    · exact (hw.clearSlot s).finishOp _ _
    · exact hw.same rfl rfl rfl rfl rfl rfl rfl rfl rfl rfl

theorem WInv.pollStream {w : World} (hw : WInv S w) (id : Nat) : WInv S (w.pollStream id) := by
  unfold World.pollStream
  split
  · exact hw
  · split
    · exact hw
    · split
      · rename_i p rest _
        exact (((hw.setChan _ _).emit (.item id p) trivial).wake _)
      · split
        · exact hw.setChan _ _
        · exact (((hw.setStreams _).dropChanRx id).emit (.endStream id) trivial)

theorem WInv.dropOp {w : World} (hw : WInv S w) (id : Nat) : WInv S (w.dropOp id) := by
  unfold World.dropOp
  split
  · exact hw
  · exact (hw.eraseOp id).senderGone
  · rename_i s k _
    cases k <;> first
      | exact ((hw.clearSlot s).eraseOp id).senderGone
      | exact (((hw.clearSlot s).dropChanRx id).eraseOp id).senderGone

/-- **one poll of any task** keeps the invariant, and every packet it submits is of the class -/
theorem pollTask_wire (w : World) (hw : WInv S w) (t : Task) :
    WInv S (w.pollTask t) ∧ ∀ p ∈ w.taskSubmits t, WireOf S p := by
  cases t with
  | ctx => exact pollCtx_wire _ (hw.unwake .ctx)
  | op n => exact ⟨(hw.unwake _).pollOp n, by simp [taskSubmits]⟩
  | st n => exact ⟨(hw.unwake _).pollStream n, by simp [taskSubmits]⟩

/-! ## the executor -/

theorem drain_wire (f : Nat) (w : World) (hw : WInv S w) :
    WInv S (drain f w) ∧ ∀ p ∈ drainSubmits f w, WireOf S p := by
  induction f generalizing w with
  | zero => exact ⟨hw, by simp [drainSubmits]⟩
  | succ f ih =>
    simp only [drain, drainSubmits]
    cases hp : w.pick with
    | none => exact ⟨hw, by simp⟩
    | some t =>
      simp only
      obtain ⟨h1, h2⟩ := pollTask_wire w hw t
      obtain ⟨h3, h4⟩ := ih _ h1
      refine ⟨h3, ?_⟩
      intro p hp
      rcases List.mem_append.mp hp with hp | hp
      · exact h2 p hp
      · exact h4 p hp

theorem sweepList_wire (l : List Task) (w : World) (hw : WInv S w) :
    WInv S (l.foldl (fun w t => if w.taskLive t ∧ t ∉ w.woken ∧ t ∉ w.held then w.pollTask t else w) w) ∧
    ∀ p ∈ sweepListSubmits l w, WireOf S p := by
  induction l generalizing w with
  | nil => exact ⟨hw, by simp [sweepListSubmits]⟩
  | cons t l ih =>
    simp only [List.foldl_cons, sweepListSubmits]
    split
    · obtain ⟨h1, h2⟩ := pollTask_wire w hw t
      obtain ⟨h3, h4⟩ := ih _ h1
      refine ⟨h3, ?_⟩
      intro p hp
      rcases List.mem_append.mp hp with hp | hp
      · exact h2 p hp
      · exact h4 p hp
    · exact ih w hw

theorem sweep_wire (w : World) (hw : WInv S w) : WInv S w.sweep ∧ ∀ p ∈ w.sweepSubmits, WireOf S p :=
  sweepList_wire w.sweepTasks w hw

/-! ## script events -/

theorem WInv.badScript {w : World} (hw : WInv S w) : WInv S w.badScript := by
  unfold World.badScript
  exact (hw.emit .badscript trivial).same rfl rfl rfl rfl rfl rfl rfl rfl rfl rfl

theorem flushRaw_of_pend {w : World} (h : w.wirePend = []) : w.flushRaw = w := by
  simp [flushRaw, h]

theorem WInv.setReader {w : World} (hw : WInv S w) (rd : List ReadEv) : WInv S { w with reader := rd } :=
  hw.same rfl rfl rfl rfl rfl rfl rfl rfl rfl rfl

theorem WInv.setReaderReg {w : World} (hw : WInv S w) (b : Bool) : WInv S { w with readerReg := b } :=
  hw.same rfl rfl rfl rfl rfl rfl rfl rfl rfl rfl

theorem WInv.feedEvents {w : World} (hw : WInv S w) (evs : List ReadEv) : WInv S (w.feedEvents evs) := by
  unfold World.feedEvents
  simp only
  split
  · exact ((hw.setReader _).wake .ctx).setReaderReg false
  · exact hw.setReader _

theorem WInv.closes {a b : World} (h : Closes a b) (ha : WInv S a) : WInv S b := by
  induction h with
  | refl => exact ha
  | slot s _ ih => exact ih.dropSlotTx s
  | chan c _ ih => exact ih.dropChanTx c

theorem WInv.dropCtx {w : World} (hw : WInv S w) (h : w.hasCtx = true) : WInv S (w.apply .dropCtx) := by
  rw [apply_dropCtx w h]
  have h0 : WInv S (dropCtxStart w) := by
    unfold dropCtxStart
    exact hw.noTask.same rfl rfl rfl rfl rfl rfl rfl rfl rfl rfl
  have h1 : WInv S (dropCtxClosed w) := WInv.closes (closes_dropCtxClosed w) h0
  exact h1.transfer rfl rfl (fun _ h => Or.inl h) (fun m hm => by cases hm) (fun e he => by cases he)
    (fun _ _ _ h => Or.inl h) (Or.inl rfl) (Or.inl rfl) (Or.inl rfl) (fun _ _ h => Or.inl h)

/-- **a script event whose request is in the domain** keeps the invariant; what it submits is of the class -/
theorem apply_wire (w : World) (hw : WInv S w) (e : Ev) (hd : EvOk S e) :
    WInv S (w.apply e) ∧ ∀ p ∈ w.applySubmits e, WireOf S p := by
  cases e with
  | poll t =>
    simp only [World.apply, applySubmits]
    split
    · exact pollTask_wire w hw t
    · exact ⟨hw, by simp⟩
  | dropCtx =>
    refine ⟨?_, by simp [applySubmits]⟩
    by_cases h : w.hasCtx = true
    · exact hw.dropCtx h
    · simp only [World.apply, h, Bool.not_eq_true, Bool.not_false, ↓reduceIte]
      exact hw.noTask.same rfl rfl rfl rfl rfl rfl rfl rfl rfl rfl
  | setup =>
    refine ⟨?_, by simp [applySubmits]⟩
    simp only [World.apply]
    split
    · exact hw.badScript
    · split
      · split
        · exact hw.badScript
        · exact hw.transfer rfl rfl (fun _ h => Or.inl h) (fun _ h => Or.inl h) (fun e he => by cases he)
            (fun _ _ _ h => Or.inl h) (Or.inl rfl) (Or.inl rfl) (Or.inl rfl) (fun _ _ h => Or.inl h)
      · rw [flushRaw_of_pend hw.pend]
        exact hw.same rfl rfl rfl rfl rfl rfl rfl rfl rfl rfl
  | connect t =>
    refine ⟨?_, by simp [applySubmits]⟩
    simp only [World.apply]
    split
    · exact hw.badScript
    · refine WInv.wake (w := { w with task := .connecting .connect t {} false }) ?_ .ctx
      exact hw.transfer rfl rfl (fun _ h => Or.inl h) (fun _ h => Or.inl h) (fun _ h => Or.inl h)
        (fun _ _ _ h => Or.inl h) (Or.inr ⟨fun _ => hd, fun h => absurd rfl h⟩) (Or.inl rfl) (Or.inl rfl)
        (fun _ _ h => Or.inl h)
  | authorize a =>
    refine ⟨?_, by simp [applySubmits]⟩
    simp only [World.apply]
    split
    · exact hw.badScript
    · refine WInv.wake (w := { w with task := .connecting .authorize {} a false }) ?_ .ctx
      exact hw.transfer rfl rfl (fun _ h => Or.inl h) (fun _ h => Or.inl h) (fun _ h => Or.inl h)
        (fun _ _ _ h => Or.inl h) (Or.inr ⟨(fun h => by cases h), fun _ => hd⟩) (Or.inl rfl) (Or.inl rfl)
        (fun _ _ h => Or.inl h)
  | run =>
    refine ⟨?_, by simp [applySubmits]⟩
    simp only [World.apply]
    split
    · exact hw.badScript
    · refine WInv.wake (w := { w with task := .running false }) ?_ .ctx
      exact hw.transfer rfl rfl (fun _ h => Or.inl h) (fun _ h => Or.inl h) (fun _ h => Or.inl h)
        (fun _ _ _ h => Or.inl h) (Or.inr trivial) (Or.inl rfl) (Or.inl rfl) (fun _ _ h => Or.inl h)
  | dropFut => exact ⟨hw.noTask, by simp [applySubmits]⟩
  | markDisc secs =>
    refine ⟨?_, by simp [applySubmits]⟩
    simp only [World.apply]
    split
    · exact hw.badScript
    · exact hw.same rfl rfl rfl rfl rfl rfl rfl rfl rfl rfl
  | snap =>
    refine ⟨?_, by simp [applySubmits]⟩
    simp only [World.apply]
    split
    · exact hw.badScript
    · exact hw.emit (.state w.c) trivial
  | feed chunks =>
    refine ⟨?_, by simp [applySubmits]⟩
    simp only [World.apply]
    split
    · exact hw.badScript
    · exact hw.feedEvents _
  | feedEof =>
    refine ⟨?_, by simp [applySubmits]⟩
    simp only [World.apply]
    split
    · exact hw.badScript
    · exact hw.feedEvents _
  | feedErr =>
    refine ⟨?_, by simp [applySubmits]⟩
    simp only [World.apply]
    split
    · exact hw.badScript
    · exact hw.feedEvents _
  | op id h req =>
    refine ⟨?_, by simp [applySubmits]⟩
    simp only [World.apply]
    split
    · exact hw.badScript
    · refine WInv.wake (w := { w with ops := w.ops ++ [(id, OpSt.fresh h req)] }) ?_ (.op id)
      refine hw.transfer rfl rfl (fun _ h => Or.inl h) (fun _ h => Or.inl h) (fun _ h => Or.inl h)
        ?_ (Or.inl rfl) (Or.inl rfl) (Or.inl rfl) (fun _ _ h => Or.inl h)
      intro i hh rq hm
      simp only [List.mem_append, List.mem_singleton, Prod.mk.injEq, OpSt.fresh.injEq] at hm
      rcases hm with hm | ⟨_, _, rfl⟩
      · exact Or.inl hm
      · exact Or.inr hd
  | hold t =>
    refine ⟨?_, by simp [applySubmits]⟩
    simp only [World.apply]
    split
    · exact hw
    · exact hw.same rfl rfl rfl rfl rfl rfl rfl rfl rfl rfl
  | release t => exact ⟨hw.same rfl rfl rfl rfl rfl rfl rfl rfl rfl rfl, by simp [applySubmits]⟩
  | drop t =>
    refine ⟨?_, by simp [applySubmits]⟩
    cases t with
    | ctx => exact hw
    | op id => exact hw.dropOp id
    | st id =>
      simp only [World.apply]
      split
      · exact (hw.setStreams _).dropChanRx id
      · exact hw
  | dropRsp id =>
    refine ⟨?_, by simp [applySubmits]⟩
    simp only [World.apply]
    split
    · exact (hw.setRsps _).dropChanRx id
    · exact hw
  | stream id =>
    refine ⟨?_, by simp [applySubmits]⟩
    simp only [World.apply]
    split
    · exact hw.badScript
    · exact ((hw.setRsps (w.rsps.filter (· ≠ id))).setStreams (w.streams ++ [id])).wake (.st id)
  | clone h h2 =>
    refine ⟨?_, by simp [applySubmits]⟩
    simp only [World.apply]
    split
    · exact hw.badScript
    · exact hw.same rfl rfl rfl rfl rfl rfl rfl rfl rfl rfl
  | dropHandle h =>
    refine ⟨?_, by simp [applySubmits]⟩
    simp only [World.apply]
    split
    · exact hw.badScript
    · exact WInv.senderGone (w := { w with handles := _ }) (hw.same rfl rfl rfl rfl rfl rfl rfl rfl rfl rfl)

/-- **one script step** -/
theorem step_wire (w : World) (hw : WInv S w) (e : Ev) (hd : EvOk S e) :
    WInv S (w.step e) ∧ ∀ p ∈ w.stepSubmits e, WireOf S p := by
  unfold step stepSubmits
  split
  · exact ⟨hw, by simp⟩
  · dsimp only
    obtain ⟨h1, s1⟩ := apply_wire (w.emit (.ev e)) (hw.emit (.ev e) trivial) e hd
    generalize (w.emit (.ev e)).apply e = w1 at h1 ⊢
    split
    · refine ⟨h1, ?_⟩
      intro p hp
      simp only [List.append_nil] at hp
      exact s1 p hp
    · obtain ⟨h2, s2⟩ := drain_wire w1.drainFuel w1 h1
      generalize drain w1.drainFuel w1 = w2 at h2 ⊢
      have h3 : WInv S (if w2.cfg.sweep = true then drain w2.sweep.drainFuel w2.sweep else w2) ∧
          ∀ p ∈ (if w2.cfg.sweep = true then w2.sweepSubmits ++ drainSubmits w2.sweep.drainFuel w2.sweep else []),
            WireOf S p := by
        split
        · obtain ⟨h4, s4⟩ := sweep_wire w2 h2
          obtain ⟨h5, s5⟩ := drain_wire w2.sweep.drainFuel w2.sweep h4
          refine ⟨h5, ?_⟩
          intro p hp
          rcases List.mem_append.mp hp with hp | hp
          · exact s4 p hp
          · exact s5 p hp
        · exact ⟨h2, by simp⟩
      obtain ⟨h3, s3⟩ := h3
      refine ⟨?_, ?_⟩
      · generalize (if w2.cfg.sweep = true then drain w2.sweep.drainFuel w2.sweep else w2) = w3 at h3 ⊢
        split
        · exact h3.emit .stall trivial
        · exact h3
      · intro p hp
        rcases List.mem_append.mp hp with hp | hp
        · exact s1 p hp
        · rcases List.mem_append.mp hp with hp | hp
          · exact s2 p hp
          · exact s3 p hp

/-- **whole scripts** -/
theorem script_wire (evs : List Ev) (w : World) (hw : WInv S w) (hd : ∀ e ∈ evs, EvOk S e) :
    WInv S (evs.foldl step w) ∧ ∀ p ∈ scriptSubmits w evs, WireOf S p := by
  induction evs generalizing w with
  | nil => exact ⟨hw, by simp [scriptSubmits]⟩
  | cons e es ih =>
    simp only [List.foldl_cons, scriptSubmits]
    obtain ⟨h1, s1⟩ := step_wire w hw e (hd e (by simp))
    obtain ⟨h2, s2⟩ := ih _ h1 (fun e' he' => hd e' (by simp [he']))
    refine ⟨h2, ?_⟩
    intro p hp
    rcases List.mem_append.mp hp with hp | hp
    · exact s1 p hp
    · exact s2 p hp

/-! ## reading the transcript -/

theorem flatMap_obsBytes_of_ok (out : List Obs) (h : ∀ o ∈ out, ObsOk S o) :
    out.flatMap obsBytes = (wires out).flatten := by
  induction out with
  | nil => rfl
  | cons o t ih =>
    have ht := ih (fun o' ho' => h o' (by simp [ho']))
    have ho := h o (by simp)
    cases o <;> simp [wires, obsBytes, ObsOk] at ho ⊢ <;> simpa [wires] using ht

/-- under the invariant everything handed to the transport is in the `W` lines -/
theorem WInv.sent_eq {w : World} (hw : WInv S w) : w.sent = (wires w.out).flatten := by
  simp [sent, hw.pend, flatMap_obsBytes_of_ok w.out hw.out]

theorem WInv.wires_ok {w : World} (hw : WInv S w) : ∀ p ∈ wires w.out, WireOf S p := by
  intro p hp
  simp only [wires, List.mem_filterMap] at hp
  obtain ⟨o, ho, h⟩ := hp
  cases o <;> simp at h
  subst h
  exact hw.out _ ho

/-- two lists of whole frames with the same concatenation are the same list -/
theorem oneFrame_flatten_inj (a b : List Bytes) (ha : ∀ p ∈ a, OneFrame p) (hb : ∀ p ∈ b, OneFrame p)
    (h : a.flatten = b.flatten) : a = b := by
  have h1 := frames_flatten_oneFrame a ha
  have h2 := frames_flatten_oneFrame b hb
  rw [h] at h1
  rw [h1] at h2
  simpa using h2

end World

/-! ## one request: what is queued for it, and when it is refused -/

/-- the request with the identifiers the library assigns to it when its future is first polled in world `w` -/
def World.completeReq (w : World) : Req → Req
  | .publish t => .publish (if t.qos = 0 then t else { t with packetId := some w.pidCtr })
  | .subscribe t => .subscribe { t with packetId := w.pidCtr, subId := some w.subCtr }
  | .unsubscribe t => .unsubscribe { t with packetId := w.pidCtr }
  | .ping => .ping
  | .disconnect t => .disconnect t

/-- the request has its mandatory parts (`build()` / `validate()` succeed) -/
def Req.accepted : Req → Bool
  | .publish t => t.valid
  | .subscribe t => t.valid
  | .unsubscribe t => t.valid
  | .ping => true
  | .disconnect _ => true

/-- the bytes of the (completed) request -/
def Req.bytes : Req → Bytes
  | .publish t => t.encode
  | .subscribe t => t.encode
  | .unsubscribe t => t.encode
  | .ping => pingreqBytes
  | .disconnect t => t.encode

/-- the packet a standard decoder is expected to see for the (completed) request -/
def Req.packet : Req → ClientPacket
  | .publish t => ofPublish t
  | .subscribe t => ofSubscribe t
  | .unsubscribe t => ofUnsubscribe t
  | .ping => .pingreq
  | .disconnect t => ofDisconnect t

/-- the (completed) request is one MQTT 5 can represent -/
def Req.inDomain : Req → Prop
  | .publish t => PublishInDomain t
  | .subscribe t => SubscribeInDomain t
  | .unsubscribe t => UnsubscribeInDomain t
  | .ping => True
  | .disconnect t => DisconnectInDomain t

/-- the world after the identifiers of the request were taken from the counters -/
def World.allocFor (w : World) : Req → World
  | .publish t => if t.qos = 0 then w else w.allocPid.2
  | .subscribe _ => w.allocPid.2.allocSub.2
  | .unsubscribe _ => w.allocPid.2
  | .ping => w
  | .disconnect _ => w

theorem Req.bytes_parse (r : Req) (hv : r.accepted = true) (hd : r.inDomain) (rest : Bytes) :
    parseClient (r.bytes ++ rest) = some (r.packet, rest) := by
  cases r with
  | publish t => exact enc_publish_parses t hv hd rest
  | subscribe t => exact enc_subscribe_parses t hv hd rest
  | unsubscribe t => exact enc_unsubscribe_parses t hv hd rest
  | ping => exact enc_pingreq_parses rest
  | disconnect t => exact enc_disconnect_parses t hd rest

theorem completeReq_inDomain (w : World) (req : Req) (hd : ReqInDomain req)
    (hp : 1 ≤ w.pidCtr ∧ w.pidCtr ≤ 65535) (hs : 1 ≤ w.subCtr ∧ w.subCtr ≤ 268435455) :
    (w.completeReq req).inDomain := by
  cases req with
  | publish t =>
    by_cases hq : t.qos = 0
    · simp only [World.completeReq, hq, ↓reduceIte]; exact hd.1 hq
    · simp only [World.completeReq, hq, ↓reduceIte]; exact hd.2 hq _ hp.1 hp.2
  | subscribe t => exact hd _ _ hp.1 hp.2 hs.1 hs.2
  | unsubscribe t => exact hd _ hp.1 hp.2
  | ping => trivial
  | disconnect t => exact hd

namespace World

theorem sendAwait_queue (w : World) (m : Msg) (id s : Nat) (k : Wait) (hc : w.hasCtx = true) :
    (w.sendAwait m id s k).queue = w.queue ++ [m] := by
  obtain ⟨wk, qr, e⟩ := User.sendAwait_ctx w m id s k hc
  rw [e]

/-- **an accepted request queues exactly one message carrying the encoding of the completed request** (context alive) -/
theorem startOp_queues (w : World) (id : Nat) (req : Req) (hc : w.hasCtx = true)
    (hv : (w.completeReq req).accepted = true) :
    ∃ m, (w.startOp id req).queue = w.queue ++ [m] ∧ m.pkt = (w.completeReq req).bytes ∧ m.slot = 2 * id := by
  cases req with
  | publish t =>
    by_cases hq : t.qos = 0
    · simp only [completeReq, hq, ↓reduceIte, Req.accepted] at hv
      rw [User.startOp_publish0 _ _ _ hq]
      simp only [hv, Bool.not_true, Bool.false_eq_true, ↓reduceIte]
      exact ⟨_, sendAwait_queue _ _ _ _ _ hc, by simp [completeReq, hq, Req.bytes, Msg.pkt], rfl⟩
    · simp only [completeReq, hq, ↓reduceIte, Req.accepted] at hv
      rw [User.startOp_publish12 _ _ _ hq]
      simp only [hv, Bool.not_true, Bool.false_eq_true, ↓reduceIte]
      exact ⟨_, sendAwait_queue _ _ _ _ _ hc, by simp [completeReq, hq, Req.bytes, Msg.pkt], rfl⟩
  | subscribe t =>
    simp only [completeReq, Req.accepted] at hv
    rw [User.startOp_subscribe]
    simp only [hv, Bool.not_true, Bool.false_eq_true, ↓reduceIte]
    obtain ⟨wk, qr, e⟩ := User.sendMsg_shape ((w.allocPid.2.allocSub.2).setChan id {})
      (.subscribe (actionId 9 w.pidCtr) w.subCtr
        ({ t with packetId := w.pidCtr, subId := some w.subCtr } : SubscribeTx).encode (2 * id) id) hc
    rw [e]
    exact ⟨_, rfl, rfl, rfl⟩
  | unsubscribe t =>
    simp only [completeReq, Req.accepted] at hv
    rw [User.startOp_unsubscribe]
    simp only [hv, Bool.not_true, Bool.false_eq_true, ↓reduceIte]
    exact ⟨_, sendAwait_queue _ _ _ _ _ hc, rfl, rfl⟩
  | ping => rw [User.startOp_ping]; exact ⟨_, sendAwait_queue _ _ _ _ _ hc, rfl, rfl⟩
  | disconnect t => rw [User.startOp_disconnect]; exact ⟨_, sendAwait_queue _ _ _ _ _ hc, rfl, rfl⟩

/-- **a request missing a mandatory part is refused**: the operation ends with `CodecError`; only the identifier counters
    have moved -/
theorem startOp_refused_eq (w : World) (id : Nat) (req : Req) (hv : (w.completeReq req).accepted = false) :
    w.startOp id req = (w.allocFor req).finishOp id (.err .codecError) := by
  cases req with
  | publish t =>
    by_cases hq : t.qos = 0
    · simp only [completeReq, hq, ↓reduceIte, Req.accepted] at hv
      rw [User.startOp_publish0 _ _ _ hq]
      simp [hv, allocFor, hq]
    · simp only [completeReq, hq, ↓reduceIte, Req.accepted] at hv
      rw [User.startOp_publish12 _ _ _ hq]
      simp [hv, allocFor, hq]
  | subscribe t =>
    simp only [completeReq, Req.accepted] at hv
    rw [User.startOp_subscribe]
    simp [hv, allocFor]
  | unsubscribe t =>
    simp only [completeReq, Req.accepted] at hv
    rw [User.startOp_unsubscribe]
    simp [hv, allocFor]
  | ping => simp [completeReq, Req.accepted] at hv
  | disconnect t => simp [completeReq, Req.accepted] at hv

theorem allocFor_frame (w : World) (req : Req) :
    (w.allocFor req).out = w.out ∧ (w.allocFor req).wirePend = w.wirePend ∧ (w.allocFor req).queue = w.queue ∧
    (w.allocFor req).c = w.c ∧ (w.allocFor req).ops = w.ops ∧ (w.allocFor req).slots = w.slots := by
  cases req with
  | publish t => simp only [allocFor]; split <;> exact ⟨rfl, rfl, rfl, rfl, rfl, rfl⟩
  | _ => exact ⟨rfl, rfl, rfl, rfl, rfl, rfl⟩

/-- what `handle_message` writes for a queued message: nothing (refused for its size or the send quota), or exactly the
    packet of the message -/
theorem handleMsg_writes (c : Ctx) (m : Msg) (wok : Bool) :
    writesOf (c.handleMsg m wok).2.1 = [] ∨ writesOf (c.handleMsg m wok).2.1 = [m.pkt] := by
  cases m <;> simp only [Ctx.handleMsg, Msg.pkt] <;> (repeat' split) <;> simp

end World
end Poster
