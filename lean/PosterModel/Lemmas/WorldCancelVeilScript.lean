/-
  Lemmas/WorldCancelVeilScript.lean — two executions in lockstep for a dropped stream: from the same reachable world one
  script drops stream `id`, the other puts task `st id` on hold for ever; as long as neither script addresses stream
  `id` (or an operation named `id`) again and no further `subscribe()` is issued, the two worlds look the same once
  stream `id` is veiled.
-/
import PosterModel.Lemmas.WorldCancelVeilStep

set_option linter.unusedVariables false
set_option linter.unusedSimpArgs false

namespace Poster
open Framing
namespace World
namespace W11

/-- **settling two worlds that look the same once stream `id` is veiled yields two worlds that look the same**, provided
    every drain involved reaches quiescence (which it always does from the worlds a script reaches,
    `World.W5.step_drains_quiet`). The fuels of the two sides differ (the fuel counts the operations), which is why
    quiescence is needed: two quiescent drains of the same world end in the same world. -/
theorem settle_veil_eq (id) (a b : World) (ha : SideV id a) (hb : SideV id b) (heq : veil id a = veil id b)
    (qa1 : (drain a.drainFuel a).pick = none) (qb1 : (drain b.drainFuel b).pick = none)
    (qa2 : (drain (drain a.drainFuel a).sweep.drainFuel (drain a.drainFuel a).sweep).pick = none)
    (qb2 : (drain (drain b.drainFuel b).sweep.drainFuel (drain b.drainFuel b).sweep).pick = none) :
    veil id (settle a) = veil id (settle b) ∧ (a.bad = false → SideV id (settle a) ∧ SideV id (settle b)) := by
  have hbad : a.bad = b.bad := (congrArg World.bad heq : (veil id a).bad = (veil id b).bad)
  unfold settle
  by_cases hba : a.bad = true
  · have hbb : b.bad = true := by rw [← hbad]; exact hba
    simp only [hba, hbb, ↓reduceIte]
    exact ⟨heq, fun h => by cases h⟩
  · have hba' : a.bad = false := by simpa using hba
    have hbb' : b.bad = false := by rw [← hbad]; exact hba'
    simp only [hba', hbb', Bool.false_eq_true, ↓reduceIte]
    -- first drain
    have sa1 := ha.drain a.drainFuel
    have sb1 := hb.drain b.drainFuel
    have e1 : veil id (drain a.drainFuel a) = veil id (drain b.drainFuel b) := by
      rw [← drain_veil id _ a ha, ← drain_veil id _ b hb, heq]
      apply drain_unique
      · rw [← heq, drain_veil id _ a ha, pick_veil id _ sa1.frozen]; exact qa1
      · rw [drain_veil id _ b hb, pick_veil id _ sb1.frozen]; exact qb1
    generalize drain a.drainFuel a = a1 at sa1 e1 qa2 ⊢
    generalize drain b.drainFuel b = b1 at sb1 e1 qb2 ⊢
    have hsw : a1.cfg.sweep = b1.cfg.sweep :=
      (congrArg (fun w => w.cfg.sweep) e1 : (veil id a1).cfg.sweep = (veil id b1).cfg.sweep)
    -- sweep phase
    have key : veil id (if a1.cfg.sweep = true then drain a1.sweep.drainFuel a1.sweep else a1) =
        veil id (if b1.cfg.sweep = true then drain b1.sweep.drainFuel b1.sweep else b1) ∧
        SideV id (if a1.cfg.sweep = true then drain a1.sweep.drainFuel a1.sweep else a1) ∧
        SideV id (if b1.cfg.sweep = true then drain b1.sweep.drainFuel b1.sweep else b1) := by
      by_cases hs : a1.cfg.sweep = true
      · have hs' : b1.cfg.sweep = true := by rw [← hsw]; exact hs
        simp only [hs, hs', ↓reduceIte]
        obtain ⟨ea, sa2⟩ := sweep_veil id a1 sa1
        obtain ⟨eb, sb2⟩ := sweep_veil id b1 sb1
        have e2 : veil id a1.sweep = veil id b1.sweep := by rw [← ea, ← eb, e1]
        generalize a1.sweep = a2 at sa2 e2 qa2 ⊢
        generalize b1.sweep = b2 at sb2 e2 qb2 ⊢
        refine ⟨?_, sa2.drain _, sb2.drain _⟩
        rw [← drain_veil id _ a2 sa2, ← drain_veil id _ b2 sb2, e2]
        apply drain_unique
        · rw [← e2, drain_veil id _ a2 sa2, pick_veil id _ (sa2.drain _).frozen]; exact qa2
        · rw [drain_veil id _ b2 sb2, pick_veil id _ (sb2.drain _).frozen]; exact qb2
      · have hs' : ¬ b1.cfg.sweep = true := by rw [← hsw]; exact hs
        simp only [hs, hs', Bool.false_eq_true, ↓reduceIte]
        exact ⟨e1, sa1, sb1⟩
    obtain ⟨e3, sa3, sb3⟩ := key
    generalize (if a1.cfg.sweep = true then drain a1.sweep.drainFuel a1.sweep else a1) = a3 at e3 sa3 ⊢
    generalize (if b1.cfg.sweep = true then drain b1.sweep.drainFuel b1.sweep else b1) = b3 at e3 sb3 ⊢
    have ht : a3.task = b3.task := (congrArg World.task e3 : (veil id a3).task = (veil id b3).task)
    have hr : a3.reader = b3.reader := (congrArg World.reader e3 : (veil id a3).reader = (veil id b3).reader)
    by_cases hst : a3.task ≠ .none ∧ a3.reader ≠ []
    · have hst' : b3.task ≠ .none ∧ b3.reader ≠ [] := by rw [← ht, ← hr]; exact hst
      simp only [hst, hst', and_self, ne_eq, not_false_eq_true, ↓reduceIte]
      refine ⟨?_, fun _ => ⟨sa3.emit _, sb3.emit _⟩⟩
      rw [← emit_veil id a3 .stall rfl, ← emit_veil id b3 .stall rfl, e3]
    · have hst' : ¬ (b3.task ≠ .none ∧ b3.reader ≠ []) := by rw [← ht, ← hr]; exact hst
      simp only [hst, hst', ↓reduceIte]
      exact ⟨e3, fun _ => ⟨sa3, sb3⟩⟩


/-- two worlds in lockstep for stream `id` -/
structure PairV (id : Nat) (a b : World) : Prop where
  eq : veil id a = veil id b
  ra : Reachable a
  rb : Reachable b
  sa : a.bad = false → SideV id a
  sb : b.bad = false → SideV id b

theorem PairV.bad_eq {id : Nat} {a b : World} (h : PairV id a b) : a.bad = b.bad :=
  (congrArg World.bad h.eq : (veil id a).bad = (veil id b).bad)

/-- the common part of the two lockstep lemmas: two reachable, idle worlds `a`, `b` to which events have been applied
    giving `a1`, `b1` that look the same once `op id` is hidden -/
theorem pairV_settle {id : Nat} {a b a1 b1 : World} (ea : Ev) (eb : Ev) (ra : Reachable a) (rb : Reachable b)
    (hba : a.bad = false) (hbb : b.bad = false)
    (ha1 : a1 = (a.emit (.ev ea)).apply ea) (hb1 : b1 = (b.emit (.ev eb)).apply eb)
    (heq : veil id a1 = veil id b1) (sa : a1.bad = false → SideV id a1) (sb : b1.bad = false → SideV id b1) :
    veil id (a.step ea) = veil id (b.step eb) ∧
    ((a.step ea).bad = false → SideV id (a.step ea)) ∧ ((b.step eb).bad = false → SideV id (b.step eb)) := by
  have qa : a.pick = none := by
    rcases ra.quiet with h | h
    · rw [hba] at h; cases h
    · exact h
  have qb : b.pick = none := by
    rcases rb.quiet with h | h
    · rw [hbb] at h; cases h
    · exact h
  rw [step_eq_settle a ea hba, step_eq_settle b eb hbb, ← ha1, ← hb1]
  have hbad : a1.bad = b1.bad := (congrArg World.bad heq : (veil id a1).bad = (veil id b1).bad)
  by_cases hb1' : a1.bad = true
  · have hb2 : b1.bad = true := by rw [← hbad]; exact hb1'
    rw [settle_bad a1 hb1', settle_bad b1 hb2]
    refine ⟨heq, ?_, ?_⟩
    · intro h; rw [hb1'] at h; cases h
    · intro h; rw [hb2] at h; cases h
  · have hb1'' : a1.bad = false := by simpa using hb1'
    have hb2 : b1.bad = false := by rw [← hbad]; exact hb1''
    obtain ⟨qa1, qa2⟩ := W5.step_drains_quiet a ea ra.own ra.reg qa
    obtain ⟨qb1, qb2⟩ := W5.step_drains_quiet b eb rb.own rb.reg qb
    rw [← ha1] at qa1 qa2
    rw [← hb1] at qb1 qb2
    obtain ⟨e, s⟩ := settle_veil_eq id a1 b1 (sa hb1'') (sb hb2) heq qa1 qb1 qa2 qb2
    exact ⟨e, fun _ => (s hb1'').1, fun _ => (s hb1'').2⟩


/-- the script event neither addresses stream `id` or an operation named `id`, nor issues a `subscribe()` -/
def quietFor (id : Nat) (e : Ev) : Bool := !mineEv id e && !mineStEv id e && !isSubEv e

theorem quietFor_iff {id : Nat} {e : Ev} (h : quietFor id e = true) :
    mineEv id e = false ∧ mineStEv id e = false ∧ isSubEv e = false := by
  simpa [quietFor, and_assoc] using h

/-- **one more event in lockstep** -/
theorem PairV.step {id : Nat} {a b : World} (h : PairV id a b) (e : Ev) (hq : quietFor id e = true) :
    PairV id (a.step e) (b.step e) := by
  obtain ⟨hm, hms, hs⟩ := quietFor_iff hq
  by_cases hba : a.bad = true
  · have hbb : b.bad = true := by rw [← h.bad_eq]; exact hba
    rw [step_of_bad a e hba, step_of_bad b e hbb]
    exact h
  · have hba' : a.bad = false := by simpa using hba
    have hbb' : b.bad = false := by rw [← h.bad_eq]; exact hba'
    have sa0 := (h.sa hba').emit (.ev e)
    have sb0 := (h.sb hbb').emit (.ev e)
    have hme : mineSt id (.ev e) = false := hms
    have e0 : veil id (a.emit (.ev e)) = veil id (b.emit (.ev e)) := by
      rw [← emit_veil id a _ hme, ← emit_veil id b _ hme, h.eq]
    have e1 : veil id ((a.emit (.ev e)).apply e) = veil id ((b.emit (.ev e)).apply e) := by
      rw [← apply_veil id (a.emit (.ev e)) e hm hms sa0, ← apply_veil id (b.emit (.ev e)) e hm hms sb0, e0]
    obtain ⟨r1, r2, r3⟩ := pairV_settle (id := id) e e h.ra h.rb hba' hbb' rfl rfl e1
      (fun _ => sa0.apply e hm hms hs) (fun _ => sb0.apply e hm hms hs)
    exact ⟨r1, h.ra.step e, h.rb.step e, r2, r3⟩

theorem PairV.steps {id : Nat} (evs : List Ev) {a b : World} (h : PairV id a b)
    (hq : ∀ e ∈ evs, quietFor id e = true) : PairV id (evs.foldl World.step a) (evs.foldl World.step b) := by
  induction evs generalizing a b with
  | nil => exact h
  | cons e t ih =>
    simp only [List.foldl_cons]
    exact ih (h.step e (hq e List.mem_cons_self)) (fun e' he' => hq e' (List.mem_cons_of_mem _ he'))

/-! ## the start: one script drops the stream, the other holds it -/

theorem veil_dropStream (id : Nat) (w : World) : veil id (w.apply (.drop (.st id))) = veil id w := by
  simp only [World.apply]
  split
  · rw [dropChanRx_veil_mine]
    apply world_ext <;> simp only [veil_cfg, veil_hasCtx, veil_ctxDropped, veil_task, veil_c,
      veil_rx, veil_reader, veil_readerReg, veil_queue, veil_queueReg, veil_handles, veil_ops, veil_slots,
      veil_slotReg, veil_chans, veil_rsps, veil_streams, veil_pidCtr, veil_subCtr, veil_woken, veil_held,
      veil_written, veil_wirePend, veil_out, veil_bad]
    simp only [List.filter_filter]
    apply List.filter_congr
    intro x _
    by_cases hx : x = id <;> simp [hx]
  · rfl

theorem veil_holdStream (id : Nat) (w : World) : veil id (w.apply (.hold (.st id))) = veil id w := by
  simp only [World.apply]
  split
  · rfl
  · apply world_ext <;> simp only [veil_cfg, veil_hasCtx, veil_ctxDropped, veil_task, veil_c,
      veil_rx, veil_reader, veil_readerReg, veil_queue, veil_queueReg, veil_handles, veil_ops, veil_slots,
      veil_slotReg, veil_chans, veil_rsps, veil_streams, veil_pidCtr, veil_subCtr, veil_woken, veil_held,
      veil_written, veil_wirePend, veil_out, veil_bad]
    exact filter_snoc_drop _ _ _ (by simp)

/-- what the start world has to satisfy: no operation is named `id`, no queued request registers channel `id`, the
    subscription identifiers in flight are pairwise distinct, no `subscribe()` future awaits its first poll -/
structure StartV (id : Nat) (w : World) : Prop where
  noOp : w.opSt id = none
  noMsg : NoMsgFor id w
  nodup : (psids w).Nodup
  noSub : NoFreshSub w

/-- **the first step in lockstep**: `drop (st id)` versus `hold (st id)` -/
theorem pairV_start (id : Nat) (w : World) (r : Reachable w) (hs : StartV id w) :
    PairV id (w.step (.drop (.st id))) (w.step (.hold (.st id))) := by
  by_cases hb : w.bad = true
  · rw [step_of_bad w _ hb, step_of_bad w _ hb]
    refine ⟨rfl, r, r, ?_, ?_⟩
    · intro h; rw [hb] at h; cases h
    · intro h; rw [hb] at h; cases h
  · have hb' : w.bad = false := by simpa using hb
    have hd : mineSt id (.ev (.drop (.st id))) = true := by simp [mineSt, mineStEv]
    have hl : mineSt id (.ev (.hold (.st id))) = true := by simp [mineSt, mineStEv]
    have ea : veil id ((w.emit (.ev (.drop (.st id)))).apply (.drop (.st id))) = veil id w := by
      rw [veil_dropStream]; exact emit_veil_mine id w _ hd
    have eb : veil id ((w.emit (.ev (.hold (.st id)))).apply (.hold (.st id))) = veil id w := by
      rw [veil_holdStream]; exact emit_veil_mine id w _ hl
    have fa := apply_drop_frame (w.emit (.ev (.drop (.st id)))) (.st id)
    have sa : SideV id ((w.emit (.ev (.drop (.st id)))).apply (.drop (.st id))) := by
      refine ⟨⟨?_, Or.inl ?_⟩, ?_, ?_, ?_⟩
      · have : ((w.emit (.ev (.drop (.st id)))).apply (.drop (.st id))).ops = w.ops := by
          simp only [World.apply]; split <;> simp [dropChanRx]
        unfold opSt; rw [this]; exact hs.noOp
      · simp only [World.apply]
        split
        · simp [dropChanRx]
        · assumption
      · intro m hm; rw [fa.2.2.2.1] at hm; exact hs.noMsg m hm
      · rw [psids_congr fa.2.2.2.1 (by rw [fa.2.2.1])]; exact hs.nodup
      · have : ((w.emit (.ev (.drop (.st id)))).apply (.drop (.st id))).ops = w.ops := by
          simp only [World.apply]; split <;> simp [dropChanRx]
        intro j hd' t hm; rw [this] at hm; exact hs.noSub j hd' t hm
    have sb : SideV id ((w.emit (.ev (.hold (.st id)))).apply (.hold (.st id))) := by
      have hq : ((w.emit (.ev (.hold (.st id)))).apply (.hold (.st id))).queue = w.queue := by
        simp only [World.apply]; split <;> rfl
      have hc : ((w.emit (.ev (.hold (.st id)))).apply (.hold (.st id))).c = w.c := by
        simp only [World.apply]; split <;> rfl
      have ho : ((w.emit (.ev (.hold (.st id)))).apply (.hold (.st id))).ops = w.ops := by
        simp only [World.apply]; split <;> rfl
      refine ⟨⟨by unfold opSt; rw [ho]; exact hs.noOp, Or.inr ?_⟩, ?_, ?_, ?_⟩
      · simp only [World.apply]
        split
        · assumption
        · simp
      · intro m hm; rw [hq] at hm; exact hs.noMsg m hm
      · rw [psids_congr hq (by rw [hc])]; exact hs.nodup
      · intro j hd' t hm; rw [ho] at hm; exact hs.noSub j hd' t hm
    obtain ⟨r1, r2, r3⟩ := pairV_settle (id := id) (.drop (.st id)) (.hold (.st id)) r r hb' hb' rfl rfl
      (ea.trans eb.symm) (fun _ => sa) (fun _ => sb)
    exact ⟨r1, r.step _, r.step _, r2, r3⟩

end W11
end World
end Poster
