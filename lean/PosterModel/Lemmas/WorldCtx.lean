/-
  Lemmas/WorldCtx.lean — the link between the whole-client machine `World` and the context-level histories
  `Ctx.serve`:

    * Part A: one poll of the `select!` loop of `run()` (`World.runLoop`) drives `World.c` through exactly one
      served history `Ctx.serve` of well-formed inputs (`loopHist`), and (with an unlimited transport) puts on the
      transport exactly the writes of that history;
    * Part B: along every script, `World.c` only moves by the documented transitions `CtxTrans`, so every
      inductive invariant of those transitions holds in every reachable world.
-/
import PosterModel.Lemmas.WorldReach
import PosterModel.Lemmas.CtxQuota
import PosterModel.Lemmas.CtxDecodeWf
import PosterModel.Lemmas.WorldEx

set_option linter.unusedVariables false
set_option linter.unusedSimpArgs false

namespace Poster
open Framing

/-! ## A.1 — `handlePkt` looks at `alive` only on registered channels -/

theorem lookupFirst_mem_values {β} (k : Nat) (l : List (Nat × β)) (v : β) (h : lookupFirst k l = some v) :
    v ∈ l.map (·.2) := by
  induction l with
  | nil => simp [lookupFirst] at h
  | cons x t ih =>
    obtain ⟨a, b⟩ := x
    simp only [lookupFirst] at h
    split at h
    · simp only [Option.some.injEq] at h; subst h; simp
    · simp only [List.map_cons, List.mem_cons]; exact Or.inr (ih h)

theorem Ctx.dispatch_congr (a b : Nat → Bool) (p : PublishRx) (sids : List Nat) (subs : List (Nat × Nat))
    (h : ∀ ch ∈ subs.map (·.2), a ch = b ch) : Ctx.dispatch a p sids subs = Ctx.dispatch b p sids subs := by
  induction sids generalizing subs with
  | nil => rfl
  | cons sid rest ih =>
    simp only [Ctx.dispatch]
    cases hl : lookupFirst sid subs with
    | none => exact ih subs h
    | some chan =>
      simp only
      rw [← h chan (lookupFirst_mem_values _ _ _ hl)]
      rw [ih subs h]
      rw [ih (eraseFirst sid subs) (fun ch hch => h ch (((eraseFirst_sublist sid subs).map _).subset hch))]

/-- `handle_packet` consults the liveness of subscription channels only for channels registered in `subs` -/
theorem Ctx.handlePkt_congr (c : Ctx) (a b : Nat → Bool) (p : RxPacket) (wok : Bool)
    (h : ∀ ch ∈ c.subs.map (·.2), a ch = b ch) : c.handlePkt a p wok = c.handlePkt b p wok := by
  cases p with
  | publish pb =>
    simp only [Ctx.handlePkt]
    have e : ∀ c1 : Ctx, c1.subs = c.subs →
        Ctx.dispatch a pb pb.subIds c1.subs = Ctx.dispatch b pb pb.subIds c1.subs := by
      intro c1 h1; rw [h1]; exact Ctx.dispatch_congr a b pb _ _ h
    rw [e _ (by split <;> rfl)]
  | _ => rfl

namespace World

/-- the channels registered in the context's subscription table whose receiving end (the caller's stream or
    its not-yet-converted response) is gone -/
def deadOf (w : World) : List Nat := (w.c.subs.map (·.2)).filter (fun ch => !w.chanRxAlive ch)

theorem handlePkt_deadOf (w : World) (p : RxPacket) (wok : Bool) :
    w.c.handlePkt w.chanRxAlive p wok = w.c.handlePkt (fun ch => ch ∉ w.deadOf) p wok := by
  apply Ctx.handlePkt_congr
  intro ch hch
  simp only [deadOf, List.mem_filter, hch, true_and, Bool.not_eq_true', Bool.not_eq_false]
  cases w.chanRxAlive ch <;> simp

/-! ## A.2 — `runHandler` is one `Ctx.stepIn` -/

/-- the `wok` bit `runHandler` picks for the message `m`: can the transport take the write of the handler -/
def wokMsg (w : World) (m : Msg) : Bool := w.canWrite (writeNeed (w.c.handleMsg m true).2.1)
/-- the `wok` bit `runHandler` picks for the inbound packet `p` -/
def wokPkt (w : World) (p : RxPacket) : Bool := w.canWrite (writeNeed (w.c.handlePkt w.chanRxAlive p true).2.1)

/-- the `Ctx`-level input a message taken from the queue is -/
def inMsg (w : World) (m : Msg) : CIn := .msg m (w.wokMsg m)
/-- the `Ctx`-level input a decoded inbound packet is -/
def inPkt (w : World) (p : RxPacket) : CIn := .pkt p w.deadOf (w.wokPkt p)

/-- the `wok` bit of an input: the transport takes this handler's write -/
def _root_.Poster.CIn.wok : CIn → Bool
  | .msg _ k => k
  | .pkt _ _ k => k

theorem stepIn_inMsg (w : World) (m : Msg) :
    w.c.stepIn (w.inMsg m) =
      ((w.c.handleMsg m (w.wokMsg m)).1, .msg m (w.c.handleMsg m (w.wokMsg m)).2.1 (w.c.handleMsg m (w.wokMsg m)).2.2) :=
  rfl

theorem stepIn_inPkt (w : World) (p : RxPacket) :
    w.c.stepIn (w.inPkt p) =
      ((w.c.handlePkt w.chanRxAlive p (w.wokPkt p)).1,
        .pkt p (w.c.handlePkt w.chanRxAlive p (w.wokPkt p)).2.1 (w.c.handlePkt w.chanRxAlive p (w.wokPkt p)).2.2) := by
  simp only [inPkt, Ctx.stepIn]
  rw [← handlePkt_deadOf]

/-- **the message branch of the loop**: the handler call is `Ctx.stepIn` on the input `w.inMsg m`, and the world
    afterwards is the world with the new context (and the message popped) on which the effects were applied in order -/
theorem runHandler_eq_stepIn_msg (w : World) (q : List Msg) (m : Msg) :
    ({ w with queue := q }).runHandler (fun wok => w.c.handleMsg m wok) =
      (({ w with queue := q, c := (w.c.stepIn (w.inMsg m)).1 }).applyEffs (w.c.stepIn (w.inMsg m)).2.effs,
        (w.c.stepIn (w.inMsg m)).2.flow) := by
  rw [runHandler_eq, stepIn_inMsg]
  rfl

/-- **the packet branch of the loop**: the handler call is `Ctx.stepIn` on the input `w.inPkt p` -/
theorem runHandler_eq_stepIn_pkt (w : World) (rx' : Rx) (rd' : List ReadEv) (p : RxPacket) :
    ({ w with rx := rx', reader := rd' }).runHandler (fun wok => w.c.handlePkt w.chanRxAlive p wok) =
      (({ w with rx := rx', reader := rd', c := (w.c.stepIn (w.inPkt p)).1 }).applyEffs (w.c.stepIn (w.inPkt p)).2.effs,
        (w.c.stepIn (w.inPkt p)).2.flow) := by
  rw [runHandler_eq, stepIn_inPkt]
  rfl

/-- the form asked for in the work package: the new context, the flow and the world, for the `wok₀` chosen -/
theorem runHandler_eq_stepIn (w : World) (q : List Msg) (m : Msg) :
    ∃ wok₀, wok₀ = w.canWrite (writeNeed (w.c.handleMsg m true).2.1) ∧
      (({ w with queue := q }).runHandler (fun wok => w.c.handleMsg m wok)).1.c = (w.c.stepIn (.msg m wok₀)).1 ∧
      (({ w with queue := q }).runHandler (fun wok => w.c.handleMsg m wok)).2 = (w.c.stepIn (.msg m wok₀)).2.flow ∧
      (({ w with queue := q }).runHandler (fun wok => w.c.handleMsg m wok)).1 =
        ({ w with queue := q, c := (w.c.stepIn (.msg m wok₀)).1 }).applyEffs (w.c.stepIn (.msg m wok₀)).2.effs := by
  refine ⟨w.wokMsg m, rfl, ?_, ?_, ?_⟩
  · rw [runHandler_eq_stepIn_msg]; simp [inMsg]
  · rw [runHandler_eq_stepIn_msg]; rfl
  · rw [runHandler_eq_stepIn_msg]; rfl

theorem runHandler_eq_stepIn' (w : World) (rx' : Rx) (rd' : List ReadEv) (p : RxPacket) :
    ∃ wok₀, wok₀ = w.canWrite (writeNeed (w.c.handlePkt w.chanRxAlive p true).2.1) ∧
      (({ w with rx := rx', reader := rd' }).runHandler (fun wok => w.c.handlePkt w.chanRxAlive p wok)).1.c =
        (w.c.stepIn (.pkt p w.deadOf wok₀)).1 ∧
      (({ w with rx := rx', reader := rd' }).runHandler (fun wok => w.c.handlePkt w.chanRxAlive p wok)).2 =
        (w.c.stepIn (.pkt p w.deadOf wok₀)).2.flow ∧
      (({ w with rx := rx', reader := rd' }).runHandler (fun wok => w.c.handlePkt w.chanRxAlive p wok)).1 =
        ({ w with rx := rx', reader := rd', c := (w.c.stepIn (.pkt p w.deadOf wok₀)).1 }).applyEffs
          (w.c.stepIn (.pkt p w.deadOf wok₀)).2.effs := by
  refine ⟨w.wokPkt p, rfl, ?_, ?_, ?_⟩
  · rw [runHandler_eq_stepIn_pkt]; simp [inPkt]
  · rw [runHandler_eq_stepIn_pkt]; rfl
  · rw [runHandler_eq_stepIn_pkt]; rfl

/-! ## the bytes handed to the transport -/

/-- the bytes an observation shows on the wire -/
def obsBytes : Obs → Bytes
  | .wire bs => bs
  | .wraw bs => bs
  | _ => []

/-- everything handed to the transport so far: the `W` / `WRAW` lines of the log, then the bytes of the packet
    that is not complete yet -/
def sent (w : World) : Bytes := w.out.flatMap obsBytes ++ w.wirePend

theorem sent_congr {w w' : World} (h1 : w'.out = w.out) (h2 : w'.wirePend = w.wirePend) : w'.sent = w.sent := by
  simp [sent, h1, h2]

theorem sent_emit (w : World) (o : Obs) (h : obsBytes o = []) : (w.emit o).sent = w.sent := by
  simp [sent, h]

theorem sent_finish (w : World) (call : Call) (r : RetRes) : (w.finish call r).sent = w.sent := by
  simp [sent, obsBytes]

theorem flatMap_obsBytes_wire (ps : List Bytes) : (ps.map Obs.wire).flatMap obsBytes = ps.flatten := by
  induction ps with
  | nil => rfl
  | cons p t ih => simp [obsBytes, ih]

theorem sent_flushWire (w : World) : w.flushWire.sent = w.sent := by
  unfold flushWire
  split
  · rename_i ps tl h
    have := frames_flatten_eq _ _ _ h
    simp only [sent, List.flatMap_append, flatMap_obsBytes_wire, List.append_assoc, this]
  · simp [sent, obsBytes]

/-- a write the transport can take appends exactly its bytes -/
theorem sent_writeBytes (w : World) (bs : Bytes) (h : w.canWrite bs.length = true) :
    (w.writeBytes bs).sent = w.sent ++ bs ∧ (w.writeBytes bs).written = w.written + bs.length := by
  unfold writeBytes
  rw [if_pos h]
  refine ⟨?_, by simp⟩
  rw [sent_flushWire]
  simp [sent]

/-- in general a write appends a prefix of its bytes (what fits under the write limit) -/
theorem sent_writeBytes_prefix (w : World) (bs : Bytes) : ∃ k, (w.writeBytes bs).sent = w.sent ++ bs.take k := by
  unfold writeBytes
  split
  · refine ⟨bs.length, ?_⟩
    rw [sent_flushWire]; simp [sent]
  · refine ⟨(w.cfg.wlimit.getD 0) - w.written, ?_⟩
    rw [sent_flushWire]; simp only [sent, List.append_assoc]

theorem canWrite_le (w : World) (a b : Nat) (h : w.canWrite b = true) (hab : a ≤ b) : w.canWrite a = true := by
  unfold canWrite at *
  split at h
  · rfl
  · simp only [decide_eq_true_eq] at h ⊢; omega

theorem canWrite_congr {w w' : World} (h1 : w'.cfg = w.cfg) (h2 : w'.written = w.written) (n : Nat) :
    w'.canWrite n = w.canWrite n := by
  simp [canWrite, h1, h2]

theorem canWrite_unlimited (w : World) (h : w.cfg.wlimit = none) (n : Nat) : w.canWrite n = true := by
  simp [canWrite, h]

/-- an effect that is not a transport write -/
def Eff.quiet : Eff → Bool
  | .write _ => false
  | _ => true

theorem writeNeed_cons_write (bs : Bytes) (t : List Eff) : writeNeed (.write bs :: t) = bs.length + writeNeed t := by
  simp [writeNeed]

theorem writeNeed_cons_quiet (e : Eff) (t : List Eff) (h : Eff.quiet e = true) : writeNeed (e :: t) = writeNeed t := by
  cases e <;> simp [writeNeed, Eff.quiet] at h ⊢

theorem writesOf_cons_quiet (e : Eff) (t : List Eff) (h : Eff.quiet e = true) : writesOf (e :: t) = writesOf t := by
  cases e <;> simp [Eff.quiet] at h ⊢

theorem applyEff_quiet (w : World) (e : Eff) (h : Eff.quiet e = true) :
    (w.applyEff e).sent = w.sent ∧ (w.applyEff e).written = w.written := by
  cases e with
  | write bs => simp [Eff.quiet] at h
  | send s v => exact ⟨sent_congr (by simp [applyEff]) (by simp [applyEff]), by simp [applyEff]⟩
  | dropSlot s => exact ⟨sent_congr (by simp [applyEff]) (by simp [applyEff]), by simp [applyEff]⟩
  | deliver c p => exact ⟨sent_congr (by simp [applyEff]) (by simp [applyEff]), by simp [applyEff]⟩
  | dropChan c => exact ⟨sent_congr (by simp [applyEff]) (by simp [applyEff]), by simp [applyEff]⟩

/-- effects whose writes all fit append exactly the bytes of those writes, in order -/
theorem sent_applyEffs (w : World) (effs : List Eff) (h : w.canWrite (writeNeed effs) = true) :
    (w.applyEffs effs).sent = w.sent ++ (writesOf effs).flatten := by
  unfold applyEffs
  induction effs generalizing w with
  | nil => simp
  | cons e t ih =>
    simp only [List.foldl_cons]
    by_cases hq : Eff.quiet e = true
    · rw [writeNeed_cons_quiet e t hq] at h
      obtain ⟨h1, h2⟩ := applyEff_quiet w e hq
      have hc : (w.applyEff e).canWrite (writeNeed t) = true := by
        rw [canWrite_congr (applyEff_cfg w e) h2]; exact h
      rw [ih _ hc, h1, writesOf_cons_quiet e t hq]
    · cases e with
      | write bs =>
        rw [writeNeed_cons_write] at h
        have h1 := sent_writeBytes w bs (canWrite_le w _ _ h (by omega))
        have hc : (w.writeBytes bs).canWrite (writeNeed t) = true := by
          unfold canWrite at h ⊢
          rw [writeBytes_cfg]
          split
          · rfl
          · rename_i l hl
            rw [hl] at h
            simp only [decide_eq_true_eq] at h ⊢
            rw [h1.2]; omega
        show (List.foldl applyEff (w.writeBytes bs) t).sent = _
        rw [ih _ hc, h1.1]; simp
      | _ => simp [Eff.quiet] at hq

/-- whatever the write limit, effects only ever append to what was handed to the transport -/
theorem sent_applyEffs_prefix (w : World) (effs : List Eff) : ∃ more, (w.applyEffs effs).sent = w.sent ++ more := by
  unfold applyEffs
  induction effs generalizing w with
  | nil => exact ⟨[], by simp⟩
  | cons e t ih =>
    simp only [List.foldl_cons]
    obtain ⟨m2, h2⟩ := ih (w.applyEff e)
    have h1 : ∃ m1, (w.applyEff e).sent = w.sent ++ m1 := by
      by_cases hq : Eff.quiet e = true
      · exact ⟨[], by rw [(applyEff_quiet w e hq).1]; simp⟩
      · cases e with
        | write bs => obtain ⟨k, hk⟩ := sent_writeBytes_prefix w bs; exact ⟨_, hk⟩
        | _ => simp [Eff.quiet] at hq
    obtain ⟨m1, h1⟩ := h1
    exact ⟨m1 ++ m2, by rw [h2, h1, List.append_assoc]⟩

/-! ## A.3 — one poll of the loop is a served history -/

/-- the `Ctx`-level input the next iteration of the loop hands to a handler (`none`: the iteration ends the poll
    before any handler is called — nothing queued and no sender left, no complete frame, a frame that does not decode) -/
def iterIn (w : World) : Option CIn :=
  match w.queue with
  | m :: _ => some (w.inMsg m)
  | [] =>
    if w.senders = 0 then none else
    match pollNext w.rx w.reader with
    | (_, _, .item fr) =>
      (match decodeRx fr with
       | .ok p => some (w.inPkt p)
       | _ => none)
    | _ => none

/-- the history of one poll of the loop: the inputs its iterations hand to the handlers, in order -/
def loopHist : Nat → World → List CIn
  | 0, _ => []
  | f+1, w =>
    match w.iterIn with
    | none => []
    | some i => i :: (match runIter w with | .inl w1 => loopHist f w1 | .inr _ => [])

/-- what one iteration does to the context and to the transport -/
structure IterStep (w w1 : World) (i : CIn) : Prop where
  wf : i.wf
  c_eq : w1.c = (w.c.stepIn i).1
  sent_eq : w.canWrite (writeNeed (w.c.stepIn i).2.effs) = true →
    w1.sent = w.sent ++ (writesOf (w.c.stepIn i).2.effs).flatten
  sent_prefix : ∃ more, w1.sent = w.sent ++ more
  wok_can : i.wok = true → w.canWrite (writeNeed (w.c.stepIn i).2.effs) = true

theorem wok_can_msg (w : World) (m : Msg) (h : (w.inMsg m).wok = true) :
    w.canWrite (writeNeed (w.c.stepIn (w.inMsg m)).2.effs) = true := by
  have h' : w.wokMsg m = true := h
  rw [stepIn_inMsg]
  simp only [CObs.effs]
  rw [h']
  exact h'

theorem wok_can_pkt (w : World) (p : RxPacket) (h : (w.inPkt p).wok = true) :
    w.canWrite (writeNeed (w.c.stepIn (w.inPkt p)).2.effs) = true := by
  have h' : w.wokPkt p = true := h
  rw [stepIn_inPkt]
  simp only [CObs.effs]
  rw [h']
  exact h'

theorem iterStep_msg (w : World) (q : List Msg) (m : Msg) :
    IterStep w (({ w with queue := q, c := (w.c.stepIn (w.inMsg m)).1 } : World).applyEffs
      (w.c.stepIn (w.inMsg m)).2.effs) (w.inMsg m) where
  wf := trivial
  c_eq := by simp
  sent_eq := fun h => by
    rw [sent_applyEffs _ _ (by exact h)]
    rfl
  sent_prefix := by
    obtain ⟨more, h⟩ := sent_applyEffs_prefix ({ w with queue := q, c := (w.c.stepIn (w.inMsg m)).1 } : World)
      (w.c.stepIn (w.inMsg m)).2.effs
    exact ⟨more, h⟩
  wok_can := wok_can_msg w m

theorem iterStep_pkt (w : World) (rx' : Rx) (rd' : List ReadEv) (p : RxPacket) (hp : p.wf) :
    IterStep w (({ w with rx := rx', reader := rd', c := (w.c.stepIn (w.inPkt p)).1 } : World).applyEffs
      (w.c.stepIn (w.inPkt p)).2.effs) (w.inPkt p) where
  wf := hp
  c_eq := by simp
  sent_eq := fun h => by
    rw [sent_applyEffs _ _ (by exact h)]
    rfl
  sent_prefix := by
    obtain ⟨more, h⟩ := sent_applyEffs_prefix
      ({ w with rx := rx', reader := rd', c := (w.c.stepIn (w.inPkt p)).1 } : World) (w.c.stepIn (w.inPkt p)).2.effs
    exact ⟨more, h⟩
  wok_can := wok_can_pkt w p

theorem iterStep_finish {w w1 : World} {i : CIn} (h : IterStep w w1 i) (call : Call) (r : RetRes) :
    IterStep w (w1.finish call r) i where
  wf := h.wf
  c_eq := by rw [finish_c]; exact h.c_eq
  sent_eq := fun hc => by rw [sent_finish]; exact h.sent_eq hc
  sent_prefix := by rw [sent_finish]; exact h.sent_prefix
  wok_can := h.wok_can

/-- an iteration after which the loop goes on handled exactly the input `iterIn`, with flow `cont` -/
theorem runCont_iter {w w1 : World} (h : RunCont w w1) :
    ∃ i, w.iterIn = some i ∧ (w.c.stepIn i).2.flow = .cont ∧ IterStep w w1 i := by
  cases h with
  | msg m q w1 hq hr =>
    rw [runHandler_eq_stepIn_msg] at hr
    simp only [Prod.mk.injEq] at hr
    obtain ⟨rfl, hfl⟩ := hr
    exact ⟨w.inMsg m, by simp [iterIn, hq], hfl, iterStep_msg w q m⟩
  | pkt rx' rd' fr p w1 hq hs hp hd hr =>
    rw [runHandler_eq_stepIn_pkt] at hr
    simp only [Prod.mk.injEq] at hr
    obtain ⟨rfl, hfl⟩ := hr
    exact ⟨w.inPkt p, by simp [iterIn, hq, hs, hp, hd], hfl, iterStep_pkt w rx' rd' p (decodeRx_wf_aux fr p hd)⟩

/-- the final iteration of a poll either calls no handler (context and transport untouched) or handles exactly the
    input `iterIn`, with a flow that ends `run()` -/
theorem runEnd_iter {w r : World} (h : RunEnd w r) :
    (w.iterIn = none ∧ r.c = w.c ∧ r.sent = w.sent) ∨
    (∃ i, w.iterIn = some i ∧ (w.c.stepIn i).2.flow ≠ .cont ∧ IterStep w r i ∧
      r.task = .none ∧ ∃ pre, r.out = pre ++ [.ret .run (flowRet (w.c.stepIn i).2.flow)]) := by
  cases h with
  | msgExit m q w1 fl hq hr hne =>
    rw [runHandler_eq_stepIn_msg] at hr
    simp only [Prod.mk.injEq] at hr
    obtain ⟨rfl, rfl⟩ := hr
    exact Or.inr ⟨w.inMsg m, by simp [iterIn, hq], hne, iterStep_finish (iterStep_msg w q m) _ _, rfl, _, rfl⟩
  | closed hq hs => exact Or.inl ⟨by simp [iterIn, hq, hs], rfl, sent_finish _ _ _⟩
  | pktExit rx' rd' fr p w1 fl hq hs hp hd hr hne =>
    rw [runHandler_eq_stepIn_pkt] at hr
    simp only [Prod.mk.injEq] at hr
    obtain ⟨rfl, rfl⟩ := hr
    exact Or.inr ⟨w.inPkt p, by simp [iterIn, hq, hs, hp, hd], hne,
      iterStep_finish (iterStep_pkt w rx' rd' p (decodeRx_wf_aux fr p hd)) _ _, rfl, _, rfl⟩
  | codec rx' rd' fr hq hs hp hd => exact Or.inl ⟨by simp [iterIn, hq, hs, hp, hd], rfl, sent_finish _ _ _⟩
  | panic rx' rd' fr hq hs hp hd =>
    exact Or.inl ⟨by simp [iterIn, hq, hs, hp, hd], rfl, sent_emit _ _ rfl⟩
  | sock rx' rd' hq hs hp => exact Or.inl ⟨by simp [iterIn, hq, hs, hp], rfl, sent_finish _ _ _⟩
  | pending rx' rd' hq hs hp =>
    refine Or.inl ⟨by simp [iterIn, hq, hs, hp], ?_, ?_⟩
    · split <;> simp
    · split
      · rfl
      · exact sent_congr (by simp) (by simp)

/-- the byte strings written while serving a history, in order -/
def histWrites (t : List CObs) : List Bytes := t.flatMap fun o => writesOf o.effs

theorem histWrites_cons (o : CObs) (t : List CObs) : histWrites (o :: t) = writesOf o.effs ++ histWrites t := by
  simp [histWrites]

theorem mem_dropLast_cons {α} {x o : α} {t : List α} (h : x ∈ (o :: t).dropLast) : x = o ∨ x ∈ t.dropLast := by
  cases t with
  | nil => simp at h
  | cons a t => simpa [List.dropLast] using h

theorem getLast?_cons_cons' {α} (o a : α) (t : List α) : (o :: a :: t).getLast? = (a :: t).getLast? := by
  simp [List.getLast?_cons_cons]

theorem serve_cons_cont (c : Ctx) (i : CIn) (is : List CIn) (h : (c.stepIn i).2.flow = .cont) :
    c.serve (i :: is) = (((c.stepIn i).1.serve is).1, (c.stepIn i).2 :: ((c.stepIn i).1.serve is).2) := by
  rw [Ctx.serve_cons, if_pos h]

theorem serve_single_exit (c : Ctx) (i : CIn) (h : (c.stepIn i).2.flow ≠ .cont) :
    c.serve [i] = ((c.stepIn i).1, [(c.stepIn i).2]) := by
  rw [Ctx.serve_cons, if_neg h]

/-- what a poll of the `select!` loop is, at the level of the context -/
structure PollServe (w r : World) (is : List CIn) : Prop where
  /-- every input is well formed (inbound packets come out of the decoder) -/
  wf : ∀ i ∈ is, i.wf
  /-- the context after the poll is the context after serving the history -/
  c_eq : r.c = (w.c.serve is).1
  /-- no input is skipped: every input of the history is handled -/
  len_eq : (w.c.serve is).2.length = is.length
  /-- every handled input but possibly the last lets the loop go on -/
  cont : ∀ o ∈ (w.c.serve is).2.dropLast, o.flow = .cont
  /-- if the last handled input ends `run()`, the task is over and its result is the one of that flow -/
  exit : ∀ o, (w.c.serve is).2.getLast? = some o → o.flow ≠ .cont →
    r.task = .none ∧ ∃ pre, r.out = pre ++ [.ret .run (flowRet o.flow)]
  /-- with an unlimited transport the poll hands to it exactly the writes of the history, in order -/
  sent_eq : w.cfg.wlimit = none → r.sent = w.sent ++ (histWrites (w.c.serve is).2).flatten
  /-- more generally: whenever the transport took every handler's write (`wok` of every input), the poll hands to it
      exactly the writes of the history, in order -/
  sent_eq_wok : (∀ i ∈ is, i.wok = true) → r.sent = w.sent ++ (histWrites (w.c.serve is).2).flatten
  /-- in any case the poll only appends to what the transport was handed -/
  sent_prefix : ∃ more, r.sent = w.sent ++ more

theorem pollServe_nil {w r : World} (hc : r.c = w.c) (hs : r.sent = w.sent) : PollServe w r [] where
  wf := by simp
  c_eq := hc
  len_eq := rfl
  cont := by simp [Ctx.serve_nil]
  exit := by simp [Ctx.serve_nil]
  sent_eq := fun _ => by simp [Ctx.serve_nil, histWrites, hs]
  sent_eq_wok := fun _ => by simp [Ctx.serve_nil, histWrites, hs]
  sent_prefix := ⟨[], by simp [hs]⟩

theorem pollServe_single {w r : World} {i : CIn} (hne : (w.c.stepIn i).2.flow ≠ .cont) (hst : IterStep w r i)
    (ht : r.task = .none) (ho : ∃ pre, r.out = pre ++ [.ret .run (flowRet (w.c.stepIn i).2.flow)]) :
    PollServe w r [i] where
  wf := by simpa using hst.wf
  c_eq := by rw [serve_single_exit _ _ hne]; exact hst.c_eq
  len_eq := by rw [serve_single_exit _ _ hne]; rfl
  cont := by rw [serve_single_exit _ _ hne]; simp
  exit := by
    rw [serve_single_exit _ _ hne]
    intro o ho' _
    simp only [List.getLast?_singleton, Option.some.injEq] at ho'
    subst ho'
    exact ⟨ht, ho⟩
  sent_eq := fun hl => by
    rw [serve_single_exit _ _ hne, hst.sent_eq (canWrite_unlimited w hl _)]
    simp [histWrites]
  sent_eq_wok := fun hk => by
    rw [serve_single_exit _ _ hne, hst.sent_eq (hst.wok_can (hk i (by simp)))]
    simp [histWrites]
  sent_prefix := hst.sent_prefix

theorem pollServe_cons {w w1 r : World} {i : CIn} {is : List CIn} (hfl : (w.c.stepIn i).2.flow = .cont)
    (hst : IterStep w w1 i) (hcfg : w1.cfg = w.cfg) (h : PollServe w1 r is) : PollServe w r (i :: is) where
  wf := by
    intro j hj
    simp only [List.mem_cons] at hj
    rcases hj with rfl | hj
    · exact hst.wf
    · exact h.wf j hj
  c_eq := by rw [serve_cons_cont _ _ _ hfl, ← hst.c_eq]; exact h.c_eq
  len_eq := by rw [serve_cons_cont _ _ _ hfl, ← hst.c_eq]; simp [h.len_eq]
  cont := by
    rw [serve_cons_cont _ _ _ hfl, ← hst.c_eq]
    intro o ho
    rcases mem_dropLast_cons ho with rfl | ho
    · exact hfl
    · exact h.cont o ho
  exit := by
    rw [serve_cons_cont _ _ _ hfl, ← hst.c_eq]
    intro o ho hne
    cases ht : (w1.c.serve is).2 with
    | nil =>
      rw [ht] at ho
      simp only [List.getLast?_singleton, Option.some.injEq] at ho
      subst ho
      exact absurd hfl hne
    | cons a t =>
      rw [ht, getLast?_cons_cons'] at ho
      exact h.exit o (by rw [ht]; exact ho) hne
  sent_eq := fun hl => by
    rw [serve_cons_cont _ _ _ hfl, ← hst.c_eq, h.sent_eq (by rw [hcfg]; exact hl),
      hst.sent_eq (canWrite_unlimited w hl _), histWrites_cons]
    simp
  sent_eq_wok := fun hk => by
    rw [serve_cons_cont _ _ _ hfl, ← hst.c_eq, h.sent_eq_wok (fun j hj => hk j (by simp [hj])),
      hst.sent_eq (hst.wok_can (hk i (by simp))), histWrites_cons]
    simp
  sent_prefix := by
    obtain ⟨m1, h1⟩ := hst.sent_prefix
    obtain ⟨m2, h2⟩ := h.sent_prefix
    exact ⟨m1 ++ m2, by rw [h2, h1, List.append_assoc]⟩

theorem loopHist_zero (w : World) : loopHist 0 w = [] := rfl

theorem loopHist_succ (f : Nat) (w : World) :
    loopHist (f + 1) w = match w.iterIn with
      | none => []
      | some i => i :: (match runIter w with | .inl w1 => loopHist f w1 | .inr _ => []) := rfl

/-- **Main theorem of Part A (explicit history).** One poll of the `select!` loop of `run()` with any fuel, from any
    world: the context is driven through exactly the served history `loopHist f w` -/
theorem runLoop_pollServe (f : Nat) (w : World) : PollServe w (runLoop f w) (loopHist f w) := by
  induction f generalizing w with
  | zero => exact pollServe_nil rfl rfl
  | succ f ih =>
    rw [runLoop_succ, loopHist_succ]
    cases h : runIter w with
    | inl w1 =>
      have hc := runIter_inl h
      obtain ⟨i, hi, hfl, hst⟩ := runCont_iter hc
      simp only [hi]
      exact pollServe_cons hfl hst (runCont_frame hc).2.2.2.2.1 (ih w1)
    | inr r =>
      rcases runEnd_iter (runIter_inr h) with ⟨hi, hc, hs⟩ | ⟨i, hi, hne, hst, ht, ho⟩
      · simp only [hi]; exact pollServe_nil hc hs
      · simp only [hi]; exact pollServe_single hne hst ht ho

/-- **Main theorem of Part A (existential form).** -/
theorem runLoop_is_serve (f : Nat) (w : World) :
    ∃ is : List CIn, (∀ i ∈ is, i.wf) ∧ (runLoop f w).c = (w.c.serve is).1 ∧
      is.length = (w.c.serve is).2.length ∧ (∀ o ∈ (w.c.serve is).2.dropLast, o.flow = .cont) ∧
      (w.cfg.wlimit = none → (runLoop f w).sent = w.sent ++ (histWrites (w.c.serve is).2).flatten) :=
  have h := runLoop_pollServe f w
  ⟨loopHist f w, h.wf, h.c_eq, h.len_eq.symm, h.cont, h.sent_eq⟩

end World

/-! ## Part B — the transitions of `World.c` -/

/-- the transitions of `World.c`: one well-formed input of the serving loop (`run()`), a CONNACK (`connect()` /
    `authorize()`), the session expiry interval of the CONNECT being sent (`connect()`), the disconnection timestamp
    (the caller's `set_disconnected`, script event `markDisc`), session resumption (prelude of `run()`), and a fresh
    context (`setup`, `dropCtx`); closed under reflexivity and transitivity -/
inductive CtxTrans : Ctx → Ctx → Prop
  | refl (c : Ctx) : CtxTrans c c
  | serve (c : Ctx) (i : CIn) : i.wf → CtxTrans c (c.stepIn i).1
  | connack (c : Ctx) (k : ConnackRx) : CtxTrans c (c.handleConnack k)
  | sei (c : Ctx) (n : Nat) : CtxTrans c { c with sei := n }
  | disc (c : Ctx) (n : Nat) : CtxTrans c { c with disc := some n }
  | resume (c : Ctx) : CtxTrans c c.resume.1
  | fresh (c : Ctx) : CtxTrans c {}
  | trans {a b c : Ctx} : CtxTrans a b → CtxTrans b c → CtxTrans a c

theorem CtxTrans.of_eq {a b : Ctx} (h : b = a) : CtxTrans a b := h ▸ .refl a

/-- serving a history of well-formed inputs is a sequence of `serve` transitions -/
theorem CtxTrans.serve_hist (c : Ctx) (is : List CIn) (h : ∀ i ∈ is, i.wf) : CtxTrans c (c.serve is).1 := by
  induction is generalizing c with
  | nil => exact .refl c
  | cons i is ih =>
    rw [Ctx.serve_cons]
    have h1 : CtxTrans c (c.stepIn i).1 := .serve c i (h i (by simp))
    split
    · exact .trans h1 (ih _ (fun j hj => h j (by simp [hj])))
    · exact h1

/-- an invariant of every transition holds after any sequence of transitions -/
theorem CtxTrans.inv (P : Ctx → Prop) (h0 : P {}) (hserve : ∀ c i, i.wf → P c → P (c.stepIn i).1)
    (hconnack : ∀ c k, P c → P (c.handleConnack k)) (hsei : ∀ c n, P c → P { c with sei := n })
    (hdisc : ∀ c n, P c → P { c with disc := some n }) (hresume : ∀ c, P c → P c.resume.1)
    {a b : Ctx} (h : CtxTrans a b) : P a → P b := by
  induction h with
  | refl c => exact id
  | serve c i hi => exact hserve c i hi
  | connack c k => exact hconnack c k
  | sei c n => exact hsei c n
  | disc c n => exact hdisc c n
  | resume c => exact hresume c
  | fresh c => exact fun _ => h0
  | trans _ _ ih1 ih2 => exact fun h => ih2 (ih1 h)

namespace World

/-! ### the user side never touches the context -/

theorem sendMsg_c {w w' : World} {m : Msg} (h : w.sendMsg m = some w') : w'.c = w.c := by
  rw [sendMsg_eq] at h
  split at h
  · simp only [Option.some.injEq] at h; subst h; rfl
  · cases h

theorem sendAwait_c (w0 : World) (m : Msg) (id s : Nat) (k : Wait) (r : DoneRes) :
    (match w0.sendMsg m with
      | none => w0.finishOp id r
      | some w1 => w1.awaitSlot id s k).c = w0.c := by
  cases hm : w0.sendMsg m with
  | none => simp
  | some w1 => simp [sendMsg_c hm]

theorem startOp_c (w : World) (id : Nat) (req : Req) : (w.startOp id req).c = w.c := by
  cases req with
  | publish t =>
    simp only [startOp]
    split
    · split
      · simp
      · exact sendAwait_c _ _ _ _ _ _
    · split
      · simp
      · exact sendAwait_c _ _ _ _ _ _
  | subscribe t =>
    simp only [startOp]
    split
    · simp
    · cases hm : World.sendMsg _ _ with
      | none => simp
      | some w1 => simp [sendMsg_c hm]
  | unsubscribe t =>
    simp only [startOp]
    split
    · simp
    · exact sendAwait_c _ _ _ _ _ _
  | ping => simp only [startOp]; exact sendAwait_c _ _ _ _ _ _
  | disconnect t => simp only [startOp]; exact sendAwait_c _ _ _ _ _ _

theorem resumeOp_c (w : World) (id s : Nat) (k : Wait) (v : SlotVal) : (w.resumeOp id s k v).c = w.c := by
  cases v with
  | errSize => simp [resumeOp]
  | errQuota => simp [resumeOp]
  | unit => simp only [resumeOp]; split <;> simp
  | pkt p =>
    cases k <;> cases p <;> simp only [resumeOp] <;> (try split) <;> (try simp) <;>
      first | done | exact sendAwait_c _ _ _ _ _ _

theorem pollOp_c (w : World) (id : Nat) : (w.pollOp id).c = w.c := by
  unfold pollOp
  split
  · rfl
  · exact startOp_c _ _ _
  · split
    · exact resumeOp_c _ _ _ _ _
    · simp
    · rfl

theorem pollStream_c (w : World) (id : Nat) : (w.pollStream id).c = w.c := by
  unfold pollStream
  split
  · rfl
  · split
    · rfl
    · split
      · simp
      · split
        · simp
        · simp

theorem dropOp_c (w : World) (id : Nat) : (w.dropOp id).c = w.c := by
  unfold dropOp
  split
  · rfl
  · simp
  · rename_i s k _; cases k <;> simp [clearSlot, dropChanRx]

theorem feedEvents_c (w : World) (evs : List ReadEv) : (w.feedEvents evs).c = w.c := by
  unfold feedEvents
  simp only
  split <;> simp

theorem flushRaw_c (w : World) : w.flushRaw.c = w.c := by
  unfold flushRaw
  split <;> rfl

theorem badScript_c (w : World) : w.badScript.c = w.c := rfl

/-! ### the context task -/

theorem runLoop_ctxTrans (f : Nat) (w : World) : CtxTrans w.c (runLoop f w).c := by
  have h := runLoop_pollServe f w
  rw [h.c_eq]
  exact CtxTrans.serve_hist _ _ h.wf

theorem firstEnd_ctxTrans {w : World} {call : Call} {t : ConnectTx} {a : AuthTx} {r : World}
    (h : FirstEnd w call t a r) : CtxTrans w.c r.c := by
  cases h with
  | connack rx' rd' fr k hp => exact .connack _ k
  | refused rx' rd' fr k hp => exact .connack _ k
  | assertSubId rx' rd' fr k hp => exact .connack _ k
  | auth rx' rd' fr au hp => exact .refl _
  | unexpected rx' rd' fr p hp => exact .refl _
  | codec rx' rd' fr hp => exact .refl _
  | panic rx' rd' fr hp => exact .refl _
  | sock rx' rd' hp => exact .refl _
  | pending rx' rd' hp =>
    by_cases hrd : rd' = []
    · rw [if_pos hrd]; exact .refl _
    · rw [if_neg hrd]; exact .of_eq (by simp)

theorem awaitFirst_ctxTrans (w : World) (call : Call) (t : ConnectTx) (a : AuthTx) :
    CtxTrans w.c (w.awaitFirst call t a).c :=
  firstEnd_ctxTrans (awaitFirst_spec w call t a)

theorem pollConnect_ctxTrans (w : World) (call : Call) (t : ConnectTx) (a : AuthTx) (started : Bool) :
    CtxTrans w.c (w.pollConnect call t a started).c := by
  cases started with
  | true => simp only [pollConnect, ↓reduceIte]; exact awaitFirst_ctxTrans w call t a
  | false =>
    cases call with
    | connect =>
      simp only [pollConnect, Bool.false_eq_true, ↓reduceIte]
      split
      · exact .of_eq (by simp)
      · have h1 : CtxTrans w.c ({ w with c := { w.c with sei := t.sessionExpiry.getD 0 } } : World).c := .sei _ _
        split
        · refine .trans h1 (.trans (.of_eq ?_) (awaitFirst_ctxTrans _ _ _ _))
          simp
        · refine .trans h1 (.of_eq ?_)
          simp
    | authorize =>
      simp only [pollConnect, Bool.false_eq_true, ↓reduceIte]
      split
      · exact .of_eq (by simp)
      · split
        · exact .trans (.of_eq (by simp)) (awaitFirst_ctxTrans _ _ _ _)
        · exact .of_eq (by simp)
    | run =>
      simp only [pollConnect, Bool.false_eq_true, ↓reduceIte]
      split
      · exact .of_eq (by simp)
      · split
        · exact .trans (.of_eq (by simp)) (awaitFirst_ctxTrans _ _ _ _)
        · exact .of_eq (by simp)

theorem pollRun_ctxTrans (w : World) (started : Bool) : CtxTrans w.c (w.pollRun started).c := by
  cases started with
  | true => simp only [pollRun, ↓reduceIte]; exact runLoop_ctxTrans _ w
  | false =>
    simp only [pollRun, Bool.false_eq_true, ↓reduceIte]
    have h1 : CtxTrans w.c w.c.resume.1 := .resume _
    split
    · have hc := (foldl_writeBytes_frame (w.c.resume).2.2
        (({ w with c := (w.c.resume).1, task := .running true } : World).applyEffs (w.c.resume).2.1)).2.2.2.2.2.2.1
      refine .trans h1 (.trans (.of_eq ?_) (runLoop_ctxTrans _ _))
      rw [hc]; simp
    · exact .trans h1 (.of_eq (by simp))

theorem pollCtx_ctxTrans (w : World) : CtxTrans w.c w.pollCtx.c := by
  unfold pollCtx
  split
  · exact .refl _
  · exact pollConnect_ctxTrans _ _ _ _ _
  · exact pollRun_ctxTrans _ _

theorem pollTask_ctxTrans (w : World) (t : Task) : CtxTrans w.c (w.pollTask t).c := by
  have hu : (w.unwake t).c = w.c := by simp
  cases t with
  | ctx => simp only [pollTask]; rw [← hu]; exact pollCtx_ctxTrans _
  | op id => exact .of_eq (by simp [pollTask, pollOp_c])
  | st id => exact .of_eq (by simp [pollTask, pollStream_c])

/-! ### script events, the executor, whole runs -/

theorem apply_ctxTrans (w : World) (e : Ev) : CtxTrans w.c (w.apply e).c := by
  cases e with
  | setup =>
    simp only [apply]
    split
    · exact .refl _
    · split
      · split
        · exact .refl _
        · exact .fresh _
      · exact .of_eq (flushRaw_c w)
  | connect t =>
    simp only [apply]; split
    · exact .refl _
    · exact .of_eq (by simp)
  | authorize a =>
    simp only [apply]; split
    · exact .refl _
    · exact .of_eq (by simp)
  | run =>
    simp only [apply]; split
    · exact .refl _
    · exact .of_eq (by simp)
  | dropFut => exact .refl _
  | dropCtx =>
    cases hc : w.hasCtx with
    | false => simp only [apply, hc]; exact .refl _
    | true => rw [apply_dropCtx w hc]; exact .fresh _
  | markDisc secs =>
    simp only [apply]; split
    · exact .refl _
    · exact .disc _ _
  | snap =>
    simp only [apply]; split
    · exact .refl _
    · exact .refl _
  | feed chunks =>
    simp only [apply]; split
    · exact .refl _
    · exact .of_eq (feedEvents_c _ _)
  | feedEof =>
    simp only [apply]; split
    · exact .refl _
    · exact .of_eq (feedEvents_c _ _)
  | feedErr =>
    simp only [apply]; split
    · exact .refl _
    · exact .of_eq (feedEvents_c _ _)
  | op id h req =>
    simp only [apply]; split
    · exact .refl _
    · exact .of_eq (by simp)
  | poll t =>
    simp only [apply]; split
    · exact pollTask_ctxTrans w t
    · exact .refl _
  | hold t =>
    simp only [apply]; split
    · exact .refl _
    · exact .refl _
  | release t => exact .refl _
  | drop t =>
    cases t with
    | ctx => exact .refl _
    | op id => exact .of_eq (dropOp_c w id)
    | st id =>
      simp only [apply]; split
      · exact .refl _
      · exact .refl _
  | dropRsp id =>
    simp only [apply]; split
    · exact .refl _
    · exact .refl _
  | stream id =>
    simp only [apply]; split
    · exact .refl _
    · exact .of_eq (by simp)
  | clone h h2 =>
    simp only [apply]; split
    · exact .refl _
    · exact .refl _
  | dropHandle h =>
    simp only [apply]; split
    · exact .refl _
    · exact .of_eq (by simp)

theorem drain_ctxTrans (f : Nat) (w : World) : CtxTrans w.c (drain f w).c := by
  induction f generalizing w with
  | zero => exact .refl _
  | succ f ih =>
    simp only [drain]
    split
    · exact .refl _
    · rename_i t _
      exact .trans (pollTask_ctxTrans w t) (ih _)

theorem sweep_ctxTrans (w : World) : CtxTrans w.c w.sweep.c := by
  unfold sweep
  simp only
  generalize ([Task.ctx] ++ List.map Task.op (sortNat (List.map (fun x => x.1) w.ops)) ++
    List.map Task.st (sortNat w.streams)) = tasks
  suffices h : ∀ (l : List Task) (w0 : World),
      CtxTrans w0.c (l.foldl (fun w t => if w.taskLive t ∧ t ∉ w.woken ∧ t ∉ w.held then w.pollTask t else w) w0).c from
    h tasks w
  intro l
  induction l with
  | nil => intro w0; exact .refl _
  | cons t rest ih =>
    intro w0
    simp only [List.foldl_cons]
    split
    · exact .trans (pollTask_ctxTrans w0 t) (ih _)
    · exact ih _

/-- **one script event** moves the context only by the documented transitions -/
theorem step_ctxTrans (w : World) (e : Ev) : CtxTrans w.c (w.step e).c := by
  unfold step
  split
  · exact .refl _
  · have h1 : CtxTrans w.c ((w.emit (.ev e)).apply e).c := by
      have := apply_ctxTrans (w.emit (.ev e)) e
      rwa [emit_c] at this
    generalize (w.emit (.ev e)).apply e = w1 at h1 ⊢
    simp only
    split
    · exact h1
    · have h2 : CtxTrans w.c (drain w1.drainFuel w1).c := .trans h1 (drain_ctxTrans _ _)
      generalize drain w1.drainFuel w1 = w2 at h2 ⊢
      have h3 : CtxTrans w.c (if w2.cfg.sweep = true then drain w2.sweep.drainFuel w2.sweep else w2).c := by
        split
        · exact .trans h2 (.trans (sweep_ctxTrans w2) (drain_ctxTrans _ _))
        · exact h2
      generalize (if w2.cfg.sweep = true then drain w2.sweep.drainFuel w2.sweep else w2) = w3 at h3 ⊢
      split
      · rw [emit_c]; exact h3
      · exact h3

theorem steps_ctxTrans (evs : List Ev) (w : World) : CtxTrans w.c (evs.foldl step w).c := by
  induction evs generalizing w with
  | nil => exact .refl _
  | cons e t ih =>
    simp only [List.foldl_cons]
    exact .trans (step_ctxTrans w e) (ih _)

/-- **every script**: the context of the world it leads to is reached from the fresh context by the documented
    transitions only -/
theorem run_ctxTrans (cfg : Cfg) (evs : List Ev) : CtxTrans {} (evs.foldl World.step { cfg := cfg }).c :=
  steps_ctxTrans evs { cfg := cfg }

/-- **every inductive invariant of the `Ctx` transitions holds in every reachable world** -/
theorem ctx_invariant_lifts (P : Ctx → Prop) (h0 : P {}) (hserve : ∀ c i, i.wf → P c → P (c.stepIn i).1)
    (hconnack : ∀ c k, P c → P (c.handleConnack k)) (hsei : ∀ c n, P c → P { c with sei := n })
    (hdisc : ∀ c n, P c → P { c with disc := some n }) (hresume : ∀ c, P c → P c.resume.1) :
    ∀ (cfg : Cfg) (evs : List Ev), P (evs.foldl World.step { cfg := cfg }).c :=
  fun cfg evs => CtxTrans.inv P h0 hserve hconnack hsei hdisc hresume (run_ctxTrans cfg evs) h0

/-! ## helpers for the corollaries (Properties/CtxLift.lean) -/

/-- a poll of `run()` that is not the first one is a poll of the loop -/
theorem pollRun_started_pollServe (w : World) : PollServe w (w.pollRun true) (loopHist w.loopFuel w) := by
  simp only [pollRun, ↓reduceIte]; exact runLoop_pollServe _ w

end World

/-- what the protocol expects on the wire for one handled input: for an inbound packet the acknowledgement owed, for an
    application request whatever the handler wrote (nothing, or the request's packet) -/
def obsWire : CObs → List Bytes
  | .pkt p _ _ => ackOwed p
  | .msg _ effs _ => writesOf effs

/-- session resumption leaves the context alone, or forgets the disconnection time, or also resets the session -/
theorem Ctx.resume_fst_cases (c : Ctx) :
    c.resume.1 = c ∨ c.resume.1 = { c with disc := none } ∨
    c.resume.1 = { c with awaiting := [], subs := [], retx := [], inQos2 := [], disc := none } := by
  unfold Ctx.resume
  split
  · exact Or.inl rfl
  · rename_i e _
    by_cases hx : c.sessionExpired e = true
    · simp only [hx, ↓reduceIte]; exact Or.inr (Or.inr rfl)
    · simp only [hx]; exact Or.inr (Or.inl rfl)

theorem Ctx.handleConnack_frame (c : Ctx) (k : ConnackRx) :
    (c.handleConnack k).inQos2 = c.inQos2 ∧ (c.handleConnack k).awaiting = c.awaiting ∧
    (c.handleConnack k).subs = c.subs ∧ (c.handleConnack k).retx = c.retx ∧ (c.handleConnack k).disc = c.disc := by
  unfold Ctx.handleConnack
  cases k.sessionExpiry <;> cases k.maxPacketSize <;> simp

namespace World

/-! ## A.4 — the first poll of `run()`: session resumption, then a served history -/

/-- the world after the session-resumption prelude of `run()` (context resumed, the senders of a reset session dropped),
    before anything is re-sent -/
def resumed (w : World) : World :=
  ({ w with c := w.c.resume.1, task := .running true } : World).applyEffs w.c.resume.2.1

/-- … and after the unfinished handshakes were re-sent -/
def resent (w : World) : World := w.c.resume.2.2.foldl (fun w p => w.writeBytes p) w.resumed

theorem pollRun_first_eq (w : World) :
    w.pollRun false =
      if w.resumed.canWrite ((w.c.resume.2.2.map List.length).sum) then runLoop w.resent.loopFuel w.resent
      else (w.resumed.writeBytes w.c.resume.2.2.flatten).finish .run (.err .socketClosed) := rfl

theorem foldl_writeBytes_eq_applyEffs (pkts : List Bytes) (w : World) :
    pkts.foldl (fun w p => w.writeBytes p) w = w.applyEffs (pkts.map Eff.write) := by
  unfold applyEffs
  rw [List.foldl_map]
  rfl

theorem writeNeed_map_write (pkts : List Bytes) : writeNeed (pkts.map Eff.write) = (pkts.map List.length).sum := by
  induction pkts with
  | nil => rfl
  | cons p t ih => rw [List.map_cons, writeNeed_cons_write, ih]; simp

theorem writesOf_map_write (pkts : List Bytes) : writesOf (pkts.map Eff.write) = pkts := by
  induction pkts with
  | nil => rfl
  | cons p t ih => simp [ih]

theorem applyEffs_quiet (w : World) (effs : List Eff) (h : ∀ e ∈ effs, Eff.quiet e = true) :
    (w.applyEffs effs).sent = w.sent ∧ (w.applyEffs effs).written = w.written := by
  unfold applyEffs
  induction effs generalizing w with
  | nil => exact ⟨rfl, rfl⟩
  | cons e t ih =>
    simp only [List.foldl_cons]
    obtain ⟨h1, h2⟩ := applyEff_quiet w e (h e (by simp))
    obtain ⟨h3, h4⟩ := ih (w.applyEff e) (fun e' he' => h e' (by simp [he']))
    exact ⟨h3.trans h1, h4.trans h2⟩

theorem resume_effs_quiet (c : Ctx) : ∀ e ∈ c.resume.2.1, Eff.quiet e = true := by
  unfold Ctx.resume
  split
  · simp
  · rename_i el _
    by_cases hx : c.sessionExpired el = true
    · simp only [hx, ↓reduceIte, Ctx.resetSession, List.mem_append, List.mem_map]
      rintro e (⟨x, _, rfl⟩ | ⟨x, _, rfl⟩) <;> rfl
    · simp [hx]

theorem resumed_c (w : World) : w.resumed.c = w.c.resume.1 := by simp [resumed]
theorem resumed_cfg (w : World) : w.resumed.cfg = w.cfg := by simp [resumed]
theorem resumed_sent (w : World) : w.resumed.sent = w.sent :=
  (applyEffs_quiet _ _ (resume_effs_quiet w.c)).1
theorem resent_c (w : World) : w.resent.c = w.c.resume.1 := by
  rw [resent, (foldl_writeBytes_frame _ _).2.2.2.2.2.2.1, resumed_c]
theorem resent_cfg (w : World) : w.resent.cfg = w.cfg := by
  rw [resent, foldl_writeBytes_eq_applyEffs, applyEffs_cfg, resumed_cfg]

/-- if the transport can take them, the re-sent packets are exactly the retransmit queue, in order -/
theorem resent_sent (w : World) (h : w.resumed.canWrite ((w.c.resume.2.2.map List.length).sum) = true) :
    w.resent.sent = w.sent ++ w.c.resume.2.2.flatten := by
  rw [resent, foldl_writeBytes_eq_applyEffs, sent_applyEffs _ _ (by rw [writeNeed_map_write]; exact h),
    writesOf_map_write, resumed_sent]

/-- **The first poll of `run()`, the transport taking the re-sent packets**: after the resumption prelude (context
    `w.c.resume.1`, the retransmit queue re-sent) the poll is a poll of the loop from `w.resent`. -/
theorem pollRun_first_pollServe (w : World) (h : w.resumed.canWrite ((w.c.resume.2.2.map List.length).sum) = true) :
    PollServe w.resent (w.pollRun false) (loopHist w.resent.loopFuel w.resent) := by
  rw [pollRun_first_eq, if_pos h]
  exact runLoop_pollServe _ _

/-- **The first poll of `run()`, the transport failing inside the re-sent packets**: `run()` returns `SocketClosed`, the
    context is the resumed one, and a prefix of the re-sent packets reached the transport. -/
theorem pollRun_first_fail (w : World) (h : w.resumed.canWrite ((w.c.resume.2.2.map List.length).sum) = false) :
    (w.pollRun false).c = w.c.resume.1 ∧ (w.pollRun false).task = .none ∧
    (∃ pre, (w.pollRun false).out = pre ++ [.ret .run (.err .socketClosed)]) ∧
    ∃ k, (w.pollRun false).sent = w.sent ++ w.c.resume.2.2.flatten.take k := by
  rw [pollRun_first_eq, if_neg (by simp [h])]
  refine ⟨by simp [resumed_c], rfl, ⟨_, rfl⟩, ?_⟩
  obtain ⟨k, hk⟩ := sent_writeBytes_prefix w.resumed w.c.resume.2.2.flatten
  exact ⟨k, by rw [sent_finish, hk, resumed_sent]⟩

/-- **The first poll of `run()` is: resume, re-send, then a served history from the resumed context.** -/
theorem pollRun_first_is_serve (w : World) :
    ∃ is : List CIn, (∀ i ∈ is, i.wf) ∧ (w.pollRun false).c = (w.c.resume.1.serve is).1 ∧
      is.length = (w.c.resume.1.serve is).2.length ∧ (∀ o ∈ (w.c.resume.1.serve is).2.dropLast, o.flow = .cont) ∧
      (w.cfg.wlimit = none → (w.pollRun false).sent =
        w.sent ++ w.c.resume.2.2.flatten ++ (histWrites (w.c.resume.1.serve is).2).flatten) := by
  cases h : w.resumed.canWrite ((w.c.resume.2.2.map List.length).sum) with
  | true =>
    have hp := pollRun_first_pollServe w h
    refine ⟨_, hp.wf, ?_, ?_, ?_, fun hl => ?_⟩
    · have := hp.c_eq; rwa [resent_c] at this
    · have := hp.len_eq; rw [resent_c] at this; exact this.symm
    · have := hp.cont; rwa [resent_c] at this
    · have := hp.sent_eq (by rw [resent_cfg]; exact hl)
      rw [resent_c, resent_sent w h] at this
      exact this
  | false =>
    obtain ⟨h1, _, _, _⟩ := pollRun_first_fail w h
    refine ⟨[], by simp, by simpa [Ctx.serve_nil] using h1, rfl, by simp [Ctx.serve_nil], fun hl => ?_⟩
    rw [canWrite_unlimited _ (by rw [resumed_cfg]; exact hl)] at h
    cases h

/-! ## computing the history of concrete polls (for examples) -/

/-- nothing queued, a sender alive, exactly one whole frame at the transport which decodes to `p`: the history of the poll
    is that packet -/
theorem loopHist_one_frame (f : Nat) (w : World) (fr : Bytes) (p : RxPacket) (hq : w.queue = []) (hs : w.senders ≠ 0)
    (hp : pollNext w.rx w.reader = ({}, [], .item fr)) (hd : decodeRx fr = .ok p) :
    loopHist (f + 2) w = [w.inPkt p] := by
  have hi : w.iterIn = some (w.inPkt p) := by simp [iterIn, hq, hs, hp, hd]
  rw [loopHist_succ, hi]
  simp only
  cases h : runIter w with
  | inr r => rfl
  | inl w1 =>
    simp only
    have hc := runIter_inl h
    have h1 : w1.queue = [] ∧ w1.rx = {} ∧ w1.reader = [] := by
      cases hc with
      | msg m q w1 hq' hr => rw [hq] at hq'; cases hq'
      | pkt rx' rd' fr' p' w1 hq' hs' hp' hd' hr =>
        have e : w1 = (World.runHandler { w with rx := rx', reader := rd' }
          (fun wok => w.c.handlePkt w.chanRxAlive p' wok)).1 := by rw [hr]
        rw [hp] at hp'
        simp only [Prod.mk.injEq] at hp'
        rw [e]
        exact ⟨by simp [hq], by simp [hp'.1], by simp [hp'.2.1]⟩
    have : w1.iterIn = none := by
      simp [iterIn, h1.1, h1.2.1, h1.2.2, pollNext_idle_nil]
    rw [loopHist_succ, this]

end World

namespace Ex

/-- an inbound QoS 2 PUBLISH: topic "a", packet identifier 9, no properties, empty payload -/
def q2frame : Bytes := [0x34, 6, 0, 1, 0x61, 0, 9, 0]
def q2pub : PublishRx := { topic := [0x61], qos := 2, packetId := some 9 }

theorem dec_q2 : decodeRx q2frame = .ok (.publish q2pub) := by
  simp [q2frame, q2pub, decodeRx, decPublish, dU8, dVar, dStr, dNzU16, tryDec, decU8, decVarR, decVar, decVarAux,
    varMax, decStr, decBin, utf8Valid, strLen, decNzU16, decU16, Res.map, foldProps, advanceBy]

theorem pn_q2 : pollNext {} [.data q2frame] = ({}, [], .item q2frame) :=
  pollNext_whole q2frame (by decide) (by decide) (by decide)

end Ex

end Poster
