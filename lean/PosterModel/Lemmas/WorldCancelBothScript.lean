/-
  Lemmas/WorldCancelBothScript.lean — lockstep for the combined erasure `shade id`: dropping the future of operation
  `id` in ANY phase (including a `subscribe()` waiting for its SUBACK, whose drop also removes the receiving end of its
  subscription channel) versus holding it for ever.
-/
import PosterModel.Lemmas.WorldCancelBoth

set_option linter.unusedVariables false
set_option linter.unusedSimpArgs false

namespace Poster
open Framing
namespace World
namespace W11

theorem apply_shade (id) (w : World) (e : Ev) (hm : mineEv id e = false) (hms : mineStEv id e = false)
    (s : SideB id w) (hk : (w.apply e).handles ≠ []) : (shade id w).apply e = shade id (w.apply e) := by
  unfold shade
  rw [apply_veil id (hide id w) e hm hms s.v, apply_hide id w e hm s.h hk]

theorem SideB.apply {id : Nat} {w : World} (s : SideB id w) (e : Ev) (hm : mineEv id e = false)
    (hms : mineStEv id e = false) (hs : isSubEv e = false) (hk : (w.apply e).handles ≠ []) : SideB id (w.apply e) :=
  ⟨s.h.apply e hm hk, by rw [← apply_hide id w e hm s.h hk]; exact s.v.apply e hm hms hs⟩

/-- two worlds in lockstep for the combined erasure -/
structure PairB (id : Nat) (a b : World) : Prop where
  eq : shade id a = shade id b
  ra : Reachable a
  rb : Reachable b
  sa : a.bad = false → SideB id a
  sb : b.bad = false → SideB id b

theorem PairB.bad_eq {id : Nat} {a b : World} (h : PairB id a b) : a.bad = b.bad :=
  (congrArg World.bad h.eq : (shade id a).bad = (shade id b).bad)

theorem PairB.handles_eq {id : Nat} {a b : World} (h : PairB id a b) : a.handles = b.handles :=
  (congrArg World.handles h.eq : (shade id a).handles = (shade id b).handles)

theorem pairB_settle {id : Nat} {a b a1 b1 : World} (ea : Ev) (eb : Ev) (ra : Reachable a) (rb : Reachable b)
    (hba : a.bad = false) (hbb : b.bad = false)
    (ha1 : a1 = (a.emit (.ev ea)).apply ea) (hb1 : b1 = (b.emit (.ev eb)).apply eb)
    (heq : shade id a1 = shade id b1) (sa : a1.bad = false → SideB id a1) (sb : b1.bad = false → SideB id b1) :
    shade id (a.step ea) = shade id (b.step eb) ∧
    ((a.step ea).bad = false → SideB id (a.step ea)) ∧ ((b.step eb).bad = false → SideB id (b.step eb)) := by
  have qa : a.pick = none := by
    rcases ra.quiet with h | h
    · rw [hba] at h; cases h
    · exact h
  have qb : b.pick = none := by
    rcases rb.quiet with h | h
    · rw [hbb] at h; cases h
    · exact h
  rw [step_eq_settle a ea hba, step_eq_settle b eb hbb, ← ha1, ← hb1]
  have hbad : a1.bad = b1.bad := (congrArg World.bad heq : (shade id a1).bad = (shade id b1).bad)
  by_cases hb1' : a1.bad = true
  · have hb2 : b1.bad = true := by rw [← hbad]; exact hb1'
    rw [settle_bad a1 hb1', settle_bad b1 hb2]
    refine ⟨heq, ?_, ?_⟩
    · intro h; rw [hb1'] at h; cases h
    · intro h; rw [hb2] at h; cases h
  · have hb1'' : a1.bad = false := by simpa using hb1'
    have hb2 : b1.bad = false := by rw [← hbad]; exact hb1''
    obtain ⟨qa1, qa2⟩ := W5.step_drains_quiet a ea ra.own ra.reg qa
    obtain ⟨qb1, qb2⟩ := W5.step_drains_quiet b eb rb.own rb.reg qb
    rw [← ha1] at qa1 qa2
    rw [← hb1] at qb1 qb2
    obtain ⟨e, s⟩ := settle_erasure (erasure_shade id) a1 b1 (sa hb1'') (sb hb2) heq qa1 qb1 qa2 qb2
    exact ⟨e, fun _ => (s hb1'').1, fun _ => (s hb1'').2⟩

theorem PairB.step {id : Nat} {a b : World} (h : PairB id a b) (e : Ev) (hq : quietFor id e = true)
    (hk : a.bad = false → ((a.emit (.ev e)).apply e).handles ≠ []) : PairB id (a.step e) (b.step e) := by
  obtain ⟨hm, hms, hs⟩ := quietFor_iff hq
  by_cases hba : a.bad = true
  · have hbb : b.bad = true := by rw [← h.bad_eq]; exact hba
    rw [step_of_bad a e hba, step_of_bad b e hbb]
    exact h
  · have hba' : a.bad = false := by simpa using hba
    have hbb' : b.bad = false := by rw [← h.bad_eq]; exact hba'
    have sa0 := (h.sa hba').emit (.ev e)
    have sb0 := (h.sb hbb').emit (.ev e)
    have hme : mine id (.ev e) = false := hm
    have hmse : mineSt id (.ev e) = false := hms
    have e0 : shade id (a.emit (.ev e)) = shade id (b.emit (.ev e)) := by
      unfold shade
      rw [← emit_hide id a _ hme, ← emit_hide id b _ hme, ← emit_veil id _ _ hmse, ← emit_veil id _ _ hmse]
      exact congrArg (fun x => World.emit x (.ev e)) h.eq
    have hka := hk hba'
    have hkb : ((b.emit (.ev e)).apply e).handles ≠ [] := by
      rw [← apply_handles_congr (a.emit (.ev e)) (b.emit (.ev e)) e h.handles_eq sa0.h.handles]; exact hka
    have e1 : shade id ((a.emit (.ev e)).apply e) = shade id ((b.emit (.ev e)).apply e) := by
      rw [← apply_shade id (a.emit (.ev e)) e hm hms sa0 hka, ← apply_shade id (b.emit (.ev e)) e hm hms sb0 hkb, e0]
    obtain ⟨r1, r2, r3⟩ := pairB_settle (id := id) e e h.ra h.rb hba' hbb' rfl rfl e1
      (fun _ => sa0.apply e hm hms hs hka) (fun _ => sb0.apply e hm hms hs hkb)
    exact ⟨r1, h.ra.step e, h.rb.step e, r2, r3⟩

theorem PairB.steps {id : Nat} (evs : List Ev) {a b : World} (h : PairB id a b)
    (hq : ∀ e ∈ evs, quietFor id e = true) (hk : KeepsHandle a evs) :
    PairB id (evs.foldl World.step a) (evs.foldl World.step b) := by
  induction evs generalizing a b with
  | nil => exact h
  | cons e t ih =>
    simp only [List.foldl_cons]
    exact ih (h.step e (hq e List.mem_cons_self) hk.1) (fun e' he' => hq e' (List.mem_cons_of_mem _ he')) hk.2

/-! ## the start -/

/-- **dropping the future of `id` is invisible under the combined erasure, in every phase** -/
theorem shade_dropOp (id : Nat) (w : World) (hi : OpsInv w) (hh : w.handles ≠ []) :
    shade id (w.dropOp id) = shade id w := by
  by_cases hns : ∀ s, w.opSt id ≠ some (.wait s .suback)
  · unfold shade; rw [hide_dropOp id w hi hh hns]
  · have : ∃ s, w.opSt id = some (.wait s .suback) := by
      apply Classical.byContradiction
      intro hx
      exact hns (fun s e => hx ⟨s, e⟩)
    obtain ⟨s, hst⟩ := this
    have hs : s / 2 = id := hi.owner (mem_of_opSt hst)
    unfold dropOp
    simp only [hst]
    rw [senderGone_of_handles _ (by simpa [clearSlot, dropChanRx] using hh)]
    unfold shade
    rw [hide_eraseOps id ((w.clearSlot s).dropChanRx id)]
    have e1 : hide id ((w.clearSlot s).dropChanRx id) = (hide id (w.clearSlot s)).dropChanRx id := rfl
    rw [e1, clearSlot_hide_mine id w s hs, dropChanRx_veil_mine]

/-- what the start world has to satisfy -/
structure StartB (id : Nat) (w : World) : Prop where
  handles : w.handles ≠ []
  noStream : id ∉ w.streams
  noMsg : NoMsgFor id w
  nodup : (psids w).Nodup
  noSub : NoFreshSub (hide id w)

theorem noFreshSub_hide_of_ops {id : Nat} {w w' : World}
    (h : ∀ x ∈ w'.ops, x.1 ≠ id → x ∈ w.ops) (hn : NoFreshSub (hide id w)) : NoFreshSub (hide id w') := by
  intro j hd t hm
  simp only [hide_ops, List.mem_filter, keepK_true] at hm
  exact hn j hd t (by simp only [hide_ops, List.mem_filter, keepK_true]; exact ⟨h _ hm.1 hm.2, hm.2⟩)

theorem sideV_hide_start {id : Nat} {w w1 : World} (hs : StartB id w) (hq : w1.queue = w.queue)
    (hc : w1.c = w.c) (hst : w1.streams = w.streams) (hops : ∀ x ∈ w1.ops, x.1 ≠ id → x ∈ w.ops) :
    SideV id (hide id w1) := by
  refine ⟨⟨opSt_hide_mine id w1, Or.inl (by rw [hide_streams, hst]; exact hs.noStream)⟩, ?_, ?_,
    noFreshSub_hide_of_ops hops hs.noSub⟩
  · intro m hm; rw [hide_queue, hq] at hm; exact hs.noMsg m hm
  · have : psids (hide id w1) = psids w := psids_congr (by rw [hide_queue, hq]) (by rw [hide_c, hc])
    rw [this]; exact hs.nodup

/-- **the first step in lockstep**, whatever the phase of operation `id` -/
theorem pairB_start (id : Nat) (w : World) (r : Reachable w) (hs : StartB id w) :
    PairB id (w.step (.drop (.op id))) (w.step (.hold (.op id))) := by
  have hh := hs.handles
  by_cases hb : w.bad = true
  · rw [step_of_bad w _ hb, step_of_bad w _ hb]
    refine ⟨rfl, r, r, ?_, ?_⟩
    · intro h; rw [hb] at h; cases h
    · intro h; rw [hb] at h; cases h
  · have hb' : w.bad = false := by simpa using hb
    have hd : mine id (.ev (.drop (.op id))) = true := by simp [mine, mineEv]
    have hl : mine id (.ev (.hold (.op id))) = true := by simp [mine, mineEv]
    have ea : shade id ((w.emit (.ev (.drop (.op id)))).apply (.drop (.op id))) = shade id w := by
      show shade id ((w.emit (.ev (.drop (.op id)))).dropOp id) = _
      rw [shade_dropOp id _ (emit_opsInv w _ r.ops) (by simpa using hh)]
      unfold shade; rw [emit_hide_mine id w _ hd]
    have eb : shade id ((w.emit (.ev (.hold (.op id)))).apply (.hold (.op id))) = shade id w := by
      unfold shade; rw [hide_hold, emit_hide_mine id w _ hl]
    have fa := apply_drop_frame (w.emit (.ev (.drop (.op id)))) (.op id)
    have sa : SideB id ((w.emit (.ev (.drop (.op id)))).apply (.drop (.op id))) := by
      refine ⟨⟨by rw [fa.2.2.2.2.1]; simpa using hh, apply_opsInv _ _ (emit_opsInv w _ r.ops),
        Or.inr (dropOp_opSt_self _ id (emit_opsInv w _ r.ops))⟩, ?_⟩
      refine sideV_hide_start hs fa.2.2.2.1 fa.2.2.1 ?_ ?_
      · show ((w.emit (.ev (.drop (.op id)))).dropOp id).streams = w.streams
        have := (dropOp_ops_eq (w.emit (.ev (.drop (.op id)))) id)
        unfold dropOp
        split
        · rfl
        · simp
        · rename_i s k _; cases k <;> simp [clearSlot, dropChanRx]
      · intro x hx _
        have e : ((w.emit (.ev (.drop (.op id)))).apply (.drop (.op id))).ops = eraseFirst id w.ops :=
          dropOp_ops_eq (w.emit (.ev (.drop (.op id)))) id
        rw [e] at hx
        exact (User.eraseFirst_sublist id w.ops).subset hx
    have sb : SideB id ((w.emit (.ev (.hold (.op id)))).apply (.hold (.op id))) := by
      have hq : ((w.emit (.ev (.hold (.op id)))).apply (.hold (.op id))).queue = w.queue := by
        simp only [World.apply]; split <;> rfl
      have hc : ((w.emit (.ev (.hold (.op id)))).apply (.hold (.op id))).c = w.c := by
        simp only [World.apply]; split <;> rfl
      have ho : ((w.emit (.ev (.hold (.op id)))).apply (.hold (.op id))).ops = w.ops := by
        simp only [World.apply]; split <;> rfl
      have hst : ((w.emit (.ev (.hold (.op id)))).apply (.hold (.op id))).streams = w.streams := by
        simp only [World.apply]; split <;> rfl
      refine ⟨⟨by rw [apply_handles _ _ (by simpa using hh)]; simpa using hh,
        apply_opsInv _ _ (emit_opsInv w _ r.ops), Or.inl (hold_mem_held id _)⟩, ?_⟩
      exact sideV_hide_start hs hq hc hst (fun x hx _ => by rw [ho] at hx; exact hx)
    obtain ⟨r1, r2, r3⟩ := pairB_settle (id := id) (.drop (.op id)) (.hold (.op id)) r r hb' hb' rfl rfl
      (ea.trans eb.symm) (fun _ => sa) (fun _ => sb)
    exact ⟨r1, r.step _, r.step _, r2, r3⟩

end W11
end World
end Poster
