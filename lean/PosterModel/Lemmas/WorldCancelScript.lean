/-
  Lemmas/WorldCancelScript.lean — two executions in lockstep: from the same reachable world one script drops the
  future of operation `id`, the other puts it on hold for ever; as long as neither script addresses task `op id`
  again (and a handle stays alive), the two worlds look the same once the private state of that future is hidden.
-/
import PosterModel.Lemmas.WorldCancelEv

set_option linter.unusedVariables false
set_option linter.unusedSimpArgs false

namespace Poster
open Framing
namespace World
namespace W11

/-- the invariants every reachable world satisfies (`OwnInv`, `RegInv`, `OpsInv`, and after every step the executor is
    idle or the script was refused) -/
structure Reachable (w : World) : Prop where
  own : OwnInv w
  reg : RegInv w
  ops : OpsInv w
  quiet : W5.Quiet w

theorem Reachable.step {w : World} (h : Reachable w) (e : Ev) : Reachable (w.step e) :=
  ⟨own_step w e h.own, regInv_step w e h.own h.reg, h.ops.step e, W5.step_quiet' w e h.own h.reg h.quiet⟩

theorem Reachable.steps {w : World} (h : Reachable w) (evs : List Ev) : Reachable (evs.foldl World.step w) := by
  induction evs generalizing w with
  | nil => exact h
  | cons e t ih => exact ih (h.step e)

theorem reachable_init (cfg : Cfg) : Reachable { cfg := cfg } :=
  ⟨ownInv_init cfg, regInv_init cfg, OpsInv.init cfg, W5.quiet_init cfg⟩

theorem reachable_script (cfg : Cfg) (evs : List Ev) : Reachable (evs.foldl World.step { cfg := cfg }) :=
  (reachable_init cfg).steps evs

/-- two worlds in lockstep: they look the same once `op id` is hidden, both satisfy the invariants of reachable
    worlds, and (unless the script was refused) the side conditions of the commutation -/
structure Pair (id : Nat) (a b : World) : Prop where
  eq : hide id a = hide id b
  ra : Reachable a
  rb : Reachable b
  sa : a.bad = false → Side id a
  sb : b.bad = false → Side id b

theorem Pair.bad_eq {id : Nat} {a b : World} (h : Pair id a b) : a.bad = b.bad :=
  (congrArg World.bad h.eq : (hide id a).bad = (hide id b).bad)

theorem Pair.handles_eq {id : Nat} {a b : World} (h : Pair id a b) : a.handles = b.handles :=
  (congrArg World.handles h.eq : (hide id a).handles = (hide id b).handles)

/-- the handles after an event: unchanged, except by `clone` / `dropHandle` (and the very first `setup`) -/
theorem apply_handles (w : World) (e : Ev) (hne : w.handles ≠ []) :
    (w.apply e).handles =
      match e with
      | .clone a b => if a ∉ w.handles ∨ b ∈ w.handles then w.handles else w.handles ++ [b]
      | .dropHandle x => if x ∉ w.handles then w.handles else w.handles.filter (fun y => decide (y ≠ x))
      | _ => w.handles := by
  cases e with
  | dropCtx =>
    by_cases hc : w.hasCtx = true
    · rw [apply_dropCtx _ hc]
      show (dropCtxClosed w).handles = _
      rw [(closes_inv (closes_dropCtxClosed w)).handles_eq]; rfl
    · simp only [World.apply, hc, Bool.not_eq_true, Bool.not_false, ↓reduceIte]
  | poll t =>
    simp only [World.apply]
    split
    · rw [pollTask_handles]
    · rfl
  | drop t => exact (apply_drop_frame w t).2.2.2.2.1
  | setup =>
    simp only [World.apply]
    split
    · rfl
    · split
      · simp only [hne, ne_eq, not_false_eq_true, true_or, ↓reduceIte]; rfl
      · show w.flushRaw.handles = _
        unfold flushRaw; split <;> rfl
  | clone a b =>
    simp only [World.apply]
    split <;> rfl
  | dropHandle x =>
    simp only [World.apply]
    split
    · rfl
    · simp
  | op j hd req =>
    rw [apply_op_eq]
    split
    · rfl
    · simp [addOpW]
  | feed chunks =>
    simp only [World.apply]
    split
    · rfl
    · unfold feedEvents; simp only; split <;> simp
  | feedEof =>
    simp only [World.apply]
    split
    · rfl
    · unfold feedEvents; simp only; split <;> simp
  | feedErr =>
    simp only [World.apply]
    split
    · rfl
    · unfold feedEvents; simp only; split <;> simp
  | _ =>
    simp only [World.apply]
    repeat' split
    all_goals first | rfl | simp [badScript]

theorem apply_handles_congr (w w' : World) (e : Ev) (h : w.handles = w'.handles) (hne : w.handles ≠ []) :
    (w.apply e).handles = (w'.apply e).handles := by
  rw [apply_handles w e hne, apply_handles w' e (h ▸ hne), h]

theorem settle_bad (w : World) (h : w.bad = true) : settle w = w := by
  unfold settle; simp [h]

/-- the common part of the two lockstep lemmas: two reachable, idle worlds `a`, `b` to which events have been applied
    giving `a1`, `b1` that look the same once `op id` is hidden -/
theorem pair_settle {id : Nat} {a b a1 b1 : World} (ea : Ev) (eb : Ev) (ra : Reachable a) (rb : Reachable b)
    (hba : a.bad = false) (hbb : b.bad = false)
    (ha1 : a1 = (a.emit (.ev ea)).apply ea) (hb1 : b1 = (b.emit (.ev eb)).apply eb)
    (heq : hide id a1 = hide id b1) (sa : a1.bad = false → Side id a1) (sb : b1.bad = false → Side id b1) :
    hide id (a.step ea) = hide id (b.step eb) ∧
    ((a.step ea).bad = false → Side id (a.step ea)) ∧ ((b.step eb).bad = false → Side id (b.step eb)) := by
  have qa : a.pick = none := by
    rcases ra.quiet with h | h
    · rw [hba] at h; cases h
    · exact h
  have qb : b.pick = none := by
    rcases rb.quiet with h | h
    · rw [hbb] at h; cases h
    · exact h
  rw [step_eq_settle a ea hba, step_eq_settle b eb hbb, ← ha1, ← hb1]
  have hbad : a1.bad = b1.bad := (congrArg World.bad heq : (hide id a1).bad = (hide id b1).bad)
  by_cases hb1' : a1.bad = true
  · have hb2 : b1.bad = true := by rw [← hbad]; exact hb1'
    rw [settle_bad a1 hb1', settle_bad b1 hb2]
    refine ⟨heq, ?_, ?_⟩
    · intro h; rw [hb1'] at h; cases h
    · intro h; rw [hb2] at h; cases h
  · have hb1'' : a1.bad = false := by simpa using hb1'
    have hb2 : b1.bad = false := by rw [← hbad]; exact hb1''
    obtain ⟨qa1, qa2⟩ := W5.step_drains_quiet a ea ra.own ra.reg qa
    obtain ⟨qb1, qb2⟩ := W5.step_drains_quiet b eb rb.own rb.reg qb
    rw [← ha1] at qa1 qa2
    rw [← hb1] at qb1 qb2
    obtain ⟨e, s⟩ := settle_hide_eq id a1 b1 (sa hb1'') (sb hb2) heq qa1 qb1 qa2 qb2
    exact ⟨e, fun _ => (s hb1'').1, fun _ => (s hb1'').2⟩

/-- **one more event in lockstep**: the same event, not addressed to task `op id`, leaving a handle alive -/
theorem Pair.step {id : Nat} {a b : World} (h : Pair id a b) (e : Ev) (hm : mineEv id e = false)
    (hk : a.bad = false → ((a.emit (.ev e)).apply e).handles ≠ []) : Pair id (a.step e) (b.step e) := by
  by_cases hba : a.bad = true
  · have hbb : b.bad = true := by rw [← h.bad_eq]; exact hba
    rw [step_of_bad a e hba, step_of_bad b e hbb]
    exact h
  · have hba' : a.bad = false := by simpa using hba
    have hbb' : b.bad = false := by rw [← h.bad_eq]; exact hba'
    have sa0 := (h.sa hba').emit (.ev e)
    have sb0 := (h.sb hbb').emit (.ev e)
    have hme : mine id (.ev e) = false := hm
    have e0 : hide id (a.emit (.ev e)) = hide id (b.emit (.ev e)) := by
      rw [← emit_hide id a _ hme, ← emit_hide id b _ hme, h.eq]
    have hka := hk hba'
    have hkb : ((b.emit (.ev e)).apply e).handles ≠ [] := by
      rw [← apply_handles_congr (a.emit (.ev e)) (b.emit (.ev e)) e h.handles_eq sa0.handles]; exact hka
    have e1 : hide id ((a.emit (.ev e)).apply e) = hide id ((b.emit (.ev e)).apply e) := by
      rw [← apply_hide id (a.emit (.ev e)) e hm sa0 hka, ← apply_hide id (b.emit (.ev e)) e hm sb0 hkb, e0]
    obtain ⟨r1, r2, r3⟩ := pair_settle (id := id) e e h.ra h.rb hba' hbb' rfl rfl e1
      (fun _ => sa0.apply e hm hka) (fun _ => sb0.apply e hm hkb)
    exact ⟨r1, h.ra.step e, h.rb.step e, r2, r3⟩

/-! ## the start: one script drops the future, the other holds it -/

theorem hide_eraseOps (id : Nat) (w : World) : hide id { w with ops := eraseFirst id w.ops } = hide id w := by
  apply world_ext <;> simp only [hide_cfg, hide_hasCtx, hide_ctxDropped, hide_task, hide_c, hide_rx,
    hide_reader, hide_readerReg, hide_queue, hide_queueReg, hide_handles, hide_ops, hide_slots, hide_slotReg,
    hide_chans, hide_rsps, hide_streams, hide_pidCtr, hide_subCtr, hide_woken, hide_held, hide_written,
    hide_wirePend, hide_out, hide_bad]
  exact eraseFirst_filter_not (keepK id) id w.ops (by simp)

/-- **dropping the future of `id` is invisible once `op id` is hidden** — unless it is a `subscribe()` future waiting
    for its SUBACK, whose drop also removes the receiving end of its subscription channel -/
theorem hide_dropOp (id : Nat) (w : World) (hi : OpsInv w) (hh : w.handles ≠ [])
    (hns : ∀ s, w.opSt id ≠ some (.wait s .suback)) : hide id (w.dropOp id) = hide id w := by
  unfold dropOp
  cases hst : w.opSt id with
  | none => rfl
  | some st =>
    cases st with
    | fresh hd req =>
      simp only
      rw [senderGone_of_handles _ (by simpa using hh)]
      exact hide_eraseOps id w
    | wait s k =>
      have hs : s / 2 = id := hi.owner (mem_of_opSt hst)
      have hk : k ≠ .suback := fun e => hns s (by rw [hst, e])
      simp only
      rw [senderGone_of_handles _ (by cases k <;> simpa [clearSlot, dropChanRx] using hh)]
      cases k <;> first
        | exact absurd rfl hk
        | exact (hide_eraseOps id (w.clearSlot s)).trans (clearSlot_hide_mine id w s hs)

theorem dropOp_opSt_self (w : World) (id : Nat) (hi : OpsInv w) : (w.dropOp id).opSt id = none := by
  unfold opSt
  rw [dropOp_ops_eq]
  exact User.lookupFirst_eraseFirst_self id w.ops hi.nodup

theorem hide_hold (id : Nat) (w : World) : hide id (w.apply (.hold (.op id))) = hide id w := by
  simp only [World.apply]
  split
  · rfl
  · apply world_ext <;> simp only [hide_cfg, hide_hasCtx, hide_ctxDropped, hide_task, hide_c, hide_rx,
      hide_reader, hide_readerReg, hide_queue, hide_queueReg, hide_handles, hide_ops, hide_slots, hide_slotReg,
      hide_chans, hide_rsps, hide_streams, hide_pidCtr, hide_subCtr, hide_woken, hide_held, hide_written,
      hide_wirePend, hide_out, hide_bad]
    exact filter_snoc_drop _ _ _ (by simp)

theorem hold_mem_held (id : Nat) (w : World) : Task.op id ∈ (w.apply (.hold (.op id))).held := by
  simp only [World.apply]
  split
  · assumption
  · simp

/-- **the first step in lockstep**: from a reachable world `w` in which a handle is alive and the operation `id` is not
    a `subscribe()` waiting for its SUBACK, the step `drop (op id)` and the step `hold (op id)` lead to worlds that look
    the same once `op id` is hidden -/
theorem pair_start (id : Nat) (w : World) (r : Reachable w) (hh : w.handles ≠ [])
    (hns : ∀ s, w.opSt id ≠ some (.wait s .suback)) :
    Pair id (w.step (.drop (.op id))) (w.step (.hold (.op id))) := by
  by_cases hb : w.bad = true
  · rw [step_of_bad w _ hb, step_of_bad w _ hb]
    refine ⟨rfl, r, r, ?_, ?_⟩
    · intro h; rw [hb] at h; cases h
    · intro h; rw [hb] at h; cases h
  · have hb' : w.bad = false := by simpa using hb
    have hd : mine id (.ev (.drop (.op id))) = true := by simp [mine, mineEv]
    have hl : mine id (.ev (.hold (.op id))) = true := by simp [mine, mineEv]
    have ea : hide id ((w.emit (.ev (.drop (.op id)))).apply (.drop (.op id))) = hide id w := by
      show hide id ((w.emit (.ev (.drop (.op id)))).dropOp id) = _
      rw [hide_dropOp id _ (emit_opsInv w _ r.ops) (by simpa using hh) (by simpa [opSt] using hns)]
      exact emit_hide_mine id w _ hd
    have eb : hide id ((w.emit (.ev (.hold (.op id)))).apply (.hold (.op id))) = hide id w := by
      rw [hide_hold]; exact emit_hide_mine id w _ hl
    have sa : Side id ((w.emit (.ev (.drop (.op id)))).apply (.drop (.op id))) :=
      ⟨by rw [(apply_drop_frame _ _).2.2.2.2.1]; simpa using hh, apply_opsInv _ _ (emit_opsInv w _ r.ops),
        Or.inr (dropOp_opSt_self _ id (emit_opsInv w _ r.ops))⟩
    have sb : Side id ((w.emit (.ev (.hold (.op id)))).apply (.hold (.op id))) :=
      ⟨by rw [apply_handles _ _ (by simpa using hh)]; simpa using hh, apply_opsInv _ _ (emit_opsInv w _ r.ops),
        Or.inl (hold_mem_held id _)⟩
    obtain ⟨r1, r2, r3⟩ := pair_settle (id := id) (.drop (.op id)) (.hold (.op id)) r r hb' hb' rfl rfl
      (ea.trans eb.symm) (fun _ => sa) (fun _ => sb)
    exact ⟨r1, r.step _, r.step _, r2, r3⟩

/-! ## whole scripts -/

/-- the script never drops the last handle (checked along the run from `w`) -/
def KeepsHandle (w : World) : List Ev → Prop
  | [] => True
  | e :: t => (w.bad = false → ((w.emit (.ev e)).apply e).handles ≠ []) ∧ KeepsHandle (w.step e) t

theorem Pair.steps {id : Nat} (evs : List Ev) {a b : World} (h : Pair id a b)
    (hm : ∀ e ∈ evs, mineEv id e = false) (hk : KeepsHandle a evs) :
    Pair id (evs.foldl World.step a) (evs.foldl World.step b) := by
  induction evs generalizing a b with
  | nil => exact h
  | cons e t ih =>
    simp only [List.foldl_cons]
    exact ih (h.step e (hm e List.mem_cons_self) hk.1) (fun e' he' => hm e' (List.mem_cons_of_mem _ he')) hk.2

/-- a script event that can remove a handle -/
def isDropHandle : Ev → Bool
  | .dropHandle _ => true
  | _ => false

theorem sweep_handles (x : World) : x.sweep.handles = x.handles := by
  rw [sweep_eq_fold]
  generalize ([Task.ctx] ++ (sortNat (x.ops.map (·.1))).map Task.op ++ (sortNat x.streams).map Task.st) = ts
  induction ts generalizing x with
  | nil => rfl
  | cons t ts ih =>
    simp only [List.foldl_cons]
    rw [ih]
    unfold sweepF
    split
    · exact pollTask_handles x t
    · rfl

theorem settle_handles (w : World) : (settle w).handles = w.handles := by
  unfold settle
  split
  · rfl
  · simp only
    generalize hw1 : drain w.drainFuel w = w1
    have h1 : w1.handles = w.handles := by rw [← hw1, drain_handles]
    generalize hw2 : (if w1.cfg.sweep = true then drain w1.sweep.drainFuel w1.sweep else w1) = w2
    have h2 : w2.handles = w.handles := by
      rw [← hw2]
      split
      · rw [drain_handles, sweep_handles, h1]
      · exact h1
    split
    · rw [emit_handles, h2]
    · exact h2

theorem step_handles (w : World) (e : Ev) (hb : w.bad = false) :
    (w.step e).handles = ((w.emit (.ev e)).apply e).handles := by
  rw [step_eq_settle w e hb, settle_handles]

/-- a script without `dropHandle` events keeps every handle it has -/
theorem keepsHandle_of_no_dropHandle (evs : List Ev) (w : World) (hh : w.handles ≠ [])
    (hn : ∀ e ∈ evs, isDropHandle e = false) : KeepsHandle w evs := by
  induction evs generalizing w with
  | nil => trivial
  | cons e t ih =>
    have key : ((w.emit (.ev e)).apply e).handles ≠ [] := by
      rw [apply_handles _ _ (by simpa using hh)]
      have := hn e List.mem_cons_self
      cases e <;> simp_all [isDropHandle]
      split <;> simp_all
    refine ⟨fun _ => key, ih _ ?_ (fun e' he' => hn e' (List.mem_cons_of_mem _ he'))⟩
    by_cases hb : w.bad = true
    · rw [step_of_bad w e hb]; exact hh
    · rw [step_handles w e (by simpa using hb)]; exact key

/-! ## the history a poll of `run()` serves does not depend on the hidden state -/

theorem iterIn_hide (id : Nat) (w : World) (hh : w.handles ≠ []) : (hide id w).iterIn = w.iterIn := by
  have hs : w.senders ≠ 0 := senders_ne_zero_of_handles hh
  have hs' : (hide id w).senders ≠ 0 := senders_ne_zero_hide id w hh
  unfold iterIn
  simp only [hs, hs', ↓reduceIte, hide_queue, hide_rx, hide_reader]
  rfl

/-- **the inputs the handlers see are the same with or without the waiters**: the history of a poll of the `select!`
    loop (messages popped from the queue, packets decoded from the transport, with their `wok` bits and dead
    receivers) is the same in `w` and in `w` with the private state of the future of `id` erased -/
theorem loopHist_hide (id : Nat) (f : Nat) (w : World) (hh : w.handles ≠ []) :
    loopHist f (hide id w) = loopHist f w := by
  induction f generalizing w with
  | zero => rfl
  | succ f ih =>
    simp only [loopHist, iterIn_hide id w hh, runIter_hide id w hh]
    cases w.iterIn with
    | none => rfl
    | some i =>
      simp only
      cases h : runIter w with
      | inl x => simp only; rw [ih x (by rw [runIter_handles h]; exact hh)]
      | inr x => rfl

end W11
end World
end Poster
