/-
  Lemmas/World.lean — helper lemmas about `World` (association lists, wakers, oneshot slots, subscription
  channels, transport writes, the handlers as called by `runHandler`), used by Properties/C04, C13–C16.
-/
import PosterModel.Lemmas.WorldFrame
import PosterModel.CtxRun

set_option linter.unusedVariables false
set_option linter.unusedSimpArgs false

namespace Poster
open Framing

/-! ## association lists -/

theorem eraseFirst_nil {β} (k : Nat) : eraseFirst k ([] : List (Nat × β)) = [] := rfl

theorem eraseFirst_cons {β} (k a : Nat) (b : β) (t : List (Nat × β)) :
    eraseFirst k ((a, b) :: t) = if a = k then t else (a, b) :: eraseFirst k t := by
  unfold eraseFirst
  simp only [removeFirst]
  by_cases h : a = k
  · simp [h]
  · cases h2 : removeFirst k t with
    | none => simp [h]
    | some r => simp [h]

theorem lookupFirst_setAssoc_self {β} (k : Nat) (v : β) (l : List (Nat × β)) :
    lookupFirst k (World.setAssoc k v l) = some v := by
  induction l with
  | nil => simp [World.setAssoc, lookupFirst]
  | cons x t ih =>
    obtain ⟨a, b⟩ := x
    simp only [World.setAssoc]
    split
    · simp [lookupFirst]
    · simp [lookupFirst, *]

theorem lookupFirst_setAssoc_ne {β} (j k : Nat) (v : β) (l : List (Nat × β)) (h : j ≠ k) :
    lookupFirst j (World.setAssoc k v l) = lookupFirst j l := by
  induction l with
  | nil => simp [World.setAssoc, lookupFirst, Ne.symm h]
  | cons x t ih =>
    obtain ⟨a, b⟩ := x
    simp only [World.setAssoc]
    split
    · subst_vars; simp [lookupFirst, Ne.symm h]
    · simp [lookupFirst, ih]

theorem setAssoc_lookup_self {β} (k : Nat) (v : β) (l : List (Nat × β)) (h : lookupFirst k l = some v) :
    World.setAssoc k v l = l := by
  induction l with
  | nil => simp [lookupFirst] at h
  | cons x t ih =>
    obtain ⟨a, b⟩ := x
    simp only [lookupFirst] at h
    simp only [World.setAssoc]
    split at h
    · simp_all
    · simp_all

theorem lookupFirst_eraseFirst_ne {β} (j k : Nat) (l : List (Nat × β)) (h : j ≠ k) :
    lookupFirst j (eraseFirst k l) = lookupFirst j l := by
  induction l with
  | nil => rfl
  | cons x t ih =>
    obtain ⟨a, b⟩ := x
    rw [eraseFirst_cons]
    split
    · subst_vars; simp [lookupFirst, Ne.symm h]
    · simp [lookupFirst, ih]

theorem lookupFirst_none_of_not_mem {β} (k : Nat) (l : List (Nat × β)) (h : k ∉ l.map (·.1)) :
    lookupFirst k l = none := by
  induction l with
  | nil => rfl
  | cons x t ih =>
    obtain ⟨a, b⟩ := x
    simp only [List.map_cons, List.mem_cons, not_or] at h
    simp [lookupFirst, Ne.symm h.1, ih h.2]

theorem removeFirst_none_of_not_mem {β} (k : Nat) (l : List (Nat × β)) (h : k ∉ l.map (·.1)) :
    removeFirst k l = none := by
  induction l with
  | nil => rfl
  | cons x t ih =>
    obtain ⟨a, b⟩ := x
    simp only [List.map_cons, List.mem_cons, not_or] at h
    simp [removeFirst, Ne.symm h.1, ih h.2]

theorem eraseFirst_of_not_mem {β} (k : Nat) (l : List (Nat × β)) (h : k ∉ l.map (·.1)) :
    eraseFirst k l = l := by
  simp [eraseFirst, removeFirst_none_of_not_mem k l h]

theorem eraseFirst_keys_subset {β} (k j : Nat) (l : List (Nat × β)) (h : j ∈ (eraseFirst k l).map (·.1)) :
    j ∈ l.map (·.1) := by
  induction l with
  | nil => simp [eraseFirst_nil] at h
  | cons x t ih =>
    obtain ⟨a, b⟩ := x
    rw [eraseFirst_cons] at h
    split at h
    · simp only [List.map_cons, List.mem_cons]; exact Or.inr h
    · simp only [List.map_cons, List.mem_cons] at h ⊢
      rcases h with h | h
      · exact Or.inl h
      · exact Or.inr (ih h)

/-- with distinct keys, erasing a key removes it -/
theorem lookupFirst_eraseFirst_self {β} (k : Nat) (l : List (Nat × β)) (h : (l.map (·.1)).Nodup) :
    lookupFirst k (eraseFirst k l) = none := by
  induction l with
  | nil => rfl
  | cons x t ih =>
    obtain ⟨a, b⟩ := x
    simp only [List.map_cons, List.nodup_cons] at h
    rw [eraseFirst_cons]
    split
    · subst_vars; exact lookupFirst_none_of_not_mem _ _ h.1
    · rename_i hne; simp [lookupFirst, hne, ih h.2]

theorem removeFirst_eq_lookup {β} (k : Nat) (l : List (Nat × β)) :
    (removeFirst k l).map (·.1) = lookupFirst k l := by
  induction l with
  | nil => rfl
  | cons x t ih =>
    obtain ⟨a, b⟩ := x
    simp only [removeFirst, lookupFirst]
    split
    · rfl
    · rw [← ih]; cases removeFirst k t <;> rfl

/-! ## `Ctx` -/
namespace Ctx

theorem complete_fst (c : Ctx) (aid : Nat) (p : RxPacket) :
    (c.complete aid p).1 = { c with awaiting := eraseFirst aid c.awaiting } := by
  unfold complete eraseFirst
  cases removeFirst aid c.awaiting <;> rfl

theorem complete_snd (c : Ctx) (aid : Nat) (p : RxPacket) :
    (c.complete aid p).2 = match lookupFirst aid c.awaiting with
      | some s => [.send s (.pkt p)]
      | none => [] := by
  unfold complete
  rw [← removeFirst_eq_lookup]
  cases removeFirst aid c.awaiting <;> rfl

@[simp] theorem bump_retx (c : Ctx) : c.bump.retx = c.retx := by unfold bump; split <;> rfl
@[simp] theorem bump_awaiting (c : Ctx) : c.bump.awaiting = c.awaiting := by unfold bump; split <;> rfl
@[simp] theorem bump_subs (c : Ctx) : c.bump.subs = c.subs := by unfold bump; split <;> rfl
@[simp] theorem bump_inQos2 (c : Ctx) : c.bump.inQos2 = c.inQos2 := by unfold bump; split <;> rfl

/-- the PUBLISH dispatch loop only produces deliveries to live channels and drops of dead ones -/
theorem dispatch_effs (alive : Nat → Bool) (p : PublishRx) (sids : List Nat) (subs : List (Nat × Nat)) :
    ∀ e ∈ (dispatch alive p sids subs).2,
      (∃ ch, e = .deliver ch p ∧ alive ch = true) ∨ (∃ ch, e = .dropChan ch ∧ alive ch = false) := by
  induction sids generalizing subs with
  | nil => simp [dispatch]
  | cons sid rest ih =>
    simp only [dispatch]
    split
    · exact ih subs
    · rename_i ch _
      by_cases ha : alive ch = true
      · simp only [ha, ↓reduceIte, List.mem_cons]
        rintro e (rfl | he)
        · exact Or.inl ⟨ch, rfl, ha⟩
        · exact ih subs e he
      · simp only [ha, Bool.false_eq_true, ↓reduceIte, List.mem_cons]
        rintro e (rfl | he)
        · exact Or.inr ⟨ch, rfl, by simpa using ha⟩
        · exact ih _ e he

theorem writesOf_dispatch (alive : Nat → Bool) (p : PublishRx) (sids : List Nat) (subs : List (Nat × Nat)) :
    writesOf (dispatch alive p sids subs).2 = [] := by
  unfold writesOf
  rw [List.filterMap_eq_nil_iff]
  intro e he
  rcases dispatch_effs alive p sids subs e he with ⟨ch, rfl, _⟩ | ⟨ch, rfl, _⟩ <;> rfl

theorem sendsOf_dispatch (alive : Nat → Bool) (p : PublishRx) (sids : List Nat) (subs : List (Nat × Nat)) :
    sendsOf (dispatch alive p sids subs).2 = [] := by
  unfold sendsOf
  rw [List.filterMap_eq_nil_iff]
  intro e he
  rcases dispatch_effs alive p sids subs e he with ⟨ch, rfl, _⟩ | ⟨ch, rfl, _⟩ <;> rfl

@[simp] theorem writesOf_nil : writesOf [] = [] := rfl
@[simp] theorem writesOf_write_singleton (b : Bytes) : writesOf [.write b] = [b] := rfl
@[simp] theorem writesOf_append (a b : List Eff) : writesOf (a ++ b) = writesOf a ++ writesOf b := by
  simp [writesOf, List.filterMap_append]
@[simp] theorem sendsOf_append (a b : List Eff) : sendsOf (a ++ b) = sendsOf a ++ sendsOf b := by
  simp [sendsOf, List.filterMap_append]

theorem writesOf_complete (c : Ctx) (aid : Nat) (p : RxPacket) : writesOf (c.complete aid p).2 = [] := by
  rw [complete_snd]; split <;> rfl

/-- the shape of the PUBLISH arm: dispatch effects, then the owed acknowledgement -/
theorem handlePkt_publish (c : Ctx) (alive : Nat → Bool) (pb : PublishRx) (wok : Bool) :
    ∃ effs0 : List Eff,
      (∀ e ∈ effs0, (∃ ch, e = .deliver ch pb ∧ alive ch = true) ∨ (∃ ch, e = .dropChan ch ∧ alive ch = false)) ∧
      (c.handlePkt alive (.publish pb) wok).2.1 = effs0 ++ (match pb.packetId with
        | none => []
        | some pid => [.write (ackBytes (if pb.qos = 1 then 0x40 else 0x50) pid)]) ∧
      (c.handlePkt alive (.publish pb) wok).2.2 = (match pb.packetId with
        | none => .cont
        | some _ => if wok then .cont else .exitSocket) := by
  by_cases hr : (pb.qos = 2 ∧ pb.packetId.getD 0 ∈ c.inQos2)
  · refine ⟨[], by simp, ?_, ?_⟩ <;> cases hp : pb.packetId <;> simp [handlePkt, hr, hp] <;> simp_all
  · refine ⟨(dispatch alive pb pb.subIds c.subs).2, dispatch_effs _ _ _ _, ?_, ?_⟩ <;>
      cases hp : pb.packetId <;> by_cases h2 : pb.qos = 2 <;> simp_all [handlePkt]

theorem writesOf_of_dispatchLike (alive : Nat → Bool) (pb : PublishRx) (l : List Eff)
    (h : ∀ e ∈ l, (∃ ch, e = .deliver ch pb ∧ alive ch = true) ∨ (∃ ch, e = .dropChan ch ∧ alive ch = false)) :
    writesOf l = [] ∧ sendsOf l = [] := by
  unfold writesOf sendsOf
  rw [List.filterMap_eq_nil_iff, List.filterMap_eq_nil_iff]
  constructor <;> intro e he <;> rcases h e he with ⟨ch, rfl, _⟩ | ⟨ch, rfl, _⟩ <;> rfl

end Ctx

namespace World

/-! ## wakers -/

theorem mem_wake_self (w : World) (t : Task) : t ∈ (w.wake t).woken := by
  rw [wake_eq]; simp only; split <;> simp [*]

theorem mem_wake_of_mem (w : World) (t u : Task) (h : u ∈ w.woken) : u ∈ (w.wake t).woken := by
  rw [wake_eq]; simp only; split <;> simp [*]

theorem mem_wake_iff (w : World) (t u : Task) : u ∈ (w.wake t).woken ↔ u = t ∨ u ∈ w.woken := by
  rw [wake_eq]; simp only; split
  · constructor
    · exact Or.inr
    · rintro (rfl | h) <;> assumption
  · simp [or_comm]

theorem wake_of_mem (w : World) (t : Task) (h : t ∈ w.woken) : w.wake t = w := by
  simp [wake, h]

/-! ## `runHandler` -/

/-- number of bytes a handler's effects write on the transport -/
def writeNeed (effs : List Eff) : Nat :=
  (effs.map fun e => match e with | .write bs => bs.length | _ => 0).sum

/-- `runHandler` decides one bit — can the transport take the write of `h true` — and then runs `h` on it -/
theorem runHandler_eq (w : World) (h : Bool → Ctx × List Eff × Flow) :
    w.runHandler h =
      (({ w with c := (h (w.canWrite (writeNeed (h true).2.1))).1 }).applyEffs
          (h (w.canWrite (writeNeed (h true).2.1))).2.1,
        (h (w.canWrite (writeNeed (h true).2.1))).2.2) := by
  show (let r := h true
        let r := if w.canWrite (writeNeed r.2.1) then r else h false
        (({ w with c := r.1 }).applyEffs r.2.1, r.2.2)) = _
  by_cases hc : w.canWrite (writeNeed (h true).2.1) = true
  · simp [hc]
  · simp only [Bool.not_eq_true] at hc; simp [hc]

/-! ## the message queue's senders -/

theorem senderGone_of_pos (w : World) (h : w.senders ≠ 0) : w.senderGone = w := by
  simp [senderGone, h]

theorem senderGone_eq (w : World) :
    w.senderGone = { w with woken := w.senderGone.woken, queueReg := w.senderGone.queueReg } := by
  unfold senderGone; split <;> simp [wake_eq]

@[simp] theorem slot_mk_slots (w : World) (l : List (Nat × Slot)) (s : Nat) :
    ({ w with slots := l } : World).slot s = lookupFirst s l := rfl

/-! ## the fields an operation does change -/

@[simp] theorem emit_out' (w : World) (o : Obs) : (w.emit o).out = w.out ++ [o] := rfl
@[simp] theorem finish_out' (w : World) (call : Call) (r : RetRes) :
    (w.finish call r).out = w.out ++ [.ret call r] := rfl
@[simp] theorem finish_task' (w : World) (call : Call) (r : RetRes) : (w.finish call r).task = .none := rfl
@[simp] theorem finishOp_ops' (w : World) (id : Nat) (r : DoneRes) :
    (w.finishOp id r).ops = eraseFirst id w.ops := by simp [finishOp]
@[simp] theorem finishOp_out' (w : World) (id : Nat) (r : DoneRes) :
    (w.finishOp id r).out = w.out ++ [.done id r] := by simp [finishOp]
@[simp] theorem clearSlot_slots' (w : World) (s : Nat) : (w.clearSlot s).slots = eraseFirst s w.slots := rfl
@[simp] theorem clearSlot_slotReg' (w : World) (s : Nat) :
    (w.clearSlot s).slotReg = w.slotReg.filter (· ≠ s) := rfl
@[simp] theorem dropChanRx_chans' (w : World) (c : Nat) : (w.dropChanRx c).chans = eraseFirst c w.chans := rfl
@[simp] theorem setChan_chans' (w : World) (c : Nat) (v : Chan) :
    (w.setChan c v).chans = setAssoc c v w.chans := rfl
@[simp] theorem setSlot_slots' (w : World) (s : Nat) (v : Slot) :
    (w.setSlot s v).slots = setAssoc s v w.slots := rfl
@[simp] theorem awaitSlot_ops' (w : World) (id s : Nat) (k : Wait) :
    (w.awaitSlot id s k).ops = setAssoc id (.wait s k) w.ops := rfl
@[simp] theorem awaitSlot_slots' (w : World) (id s : Nat) (k : Wait) :
    (w.awaitSlot id s k).slots = setAssoc s Slot.empty w.slots := rfl

/-- `sendMsg` fails exactly when the context is gone; otherwise it appends to the queue and wakes `run()`
    if its queue waker is registered -/
theorem sendMsg_eq (w : World) (m : Msg) :
    w.sendMsg m = if w.hasCtx then
      some { w with queue := w.queue ++ [m],
                    woken := if w.queueReg then (w.wake .ctx).woken else w.woken,
                    queueReg := false && w.queueReg } else none := by
  unfold sendMsg
  cases hc : w.hasCtx
  · simp
  · cases hq : w.queueReg <;> simp [hq, wake_eq]

theorem sendMsg_none (w : World) (m : Msg) (h : w.hasCtx = false) : w.sendMsg m = none := by
  simp [sendMsg, h]

end World
end Poster
