/-
  Lemmas/WorldIdsForm.lean — work package W10, part 7: the form of the action identifiers the client holds (C11, item 1).

    * `SlotWf w`         every packet stored in a oneshot is decoder output (`RxPacket.wf`): in particular its packet
                         identifier is in 1..65535
    * `AidForm aid`      `aid = actionId kind pid` with `kind` one of 4 (PUBACK), 5 (PUBREC), 7 (PUBCOMP), 9 (SUBACK),
                         11 (UNSUBACK) and `1 ≤ pid ≤ 65535`, or `aid = actionId 13 0` (the key all PINGREQs share)
    * `KeyForm w`        the action identifier of every queued message, every `awaiting_ack` key and every key of the
                         retransmit queue has that form
  Both hold at every moment of every execution (`during_slotWf`, `during_keyForm`).
-/
import PosterModel.Lemmas.WorldIdsErr
import PosterModel.Lemmas.WorldIdsOut

set_option linter.unusedVariables false
set_option linter.unusedSimpArgs false

namespace Poster
open Framing
namespace World
namespace W10
open W7

/-! ## packets stored in oneshots are decoder output -/

/-- a value a handler may put into a oneshot: not a packet, or a well-formed one -/
def WfVal : Nat → SlotVal → Prop := fun _ v => ∀ p, v = .pkt p → p.wf

/-- every packet stored in a oneshot is well formed -/
def SlotWf (w : World) : Prop := ∀ s p, (s, Slot.full (.pkt p)) ∈ w.slots → p.wf

theorem SlotWf.via {w w' : World} (h : SlotWf w) (hv : FullVia WfVal w w') : SlotWf w' := by
  intro s p hm
  rcases hv s _ hm with h1 | h1
  · exact h s p h1
  · exact h1 p rfl

theorem msgHandler_fullVia (w : World) (m : Msg) (q : List Msg) :
    FullVia WfVal w (({ w with queue := q }).runHandler (fun wok => w.c.handleMsg m wok)).1 := by
  obtain ⟨b, hv⟩ := runHandler_fullVia ({ w with queue := q }) (fun wok => w.c.handleMsg m wok)
  refine FullVia.trans (.of_slots_eq rfl) (hv.mono ?_)
  intro s v hm p hp
  subst hp
  rcases (msg_replies_only_to_its_own_slot w.c m b s _ hm).2.1 with h | h | h <;> cases h

theorem pktHandler_fullVia (w : World) (rx' : Rx) (rd' : List ReadEv) (p : RxPacket) (hwf : p.wf) :
    FullVia WfVal w (({ w with rx := rx', reader := rd' }).runHandler
      (fun wok => w.c.handlePkt w.chanRxAlive p wok)).1 := by
  obtain ⟨b, hv⟩ := runHandler_fullVia ({ w with rx := rx', reader := rd' })
    (fun wok => w.c.handlePkt w.chanRxAlive p wok)
  refine FullVia.trans (.of_slots_eq rfl) (hv.mono ?_)
  intro s v hm p' hp'
  subst hp'
  obtain ⟨h1, _⟩ := (only_own_ack_completes w.c w.chanRxAlive p b).2.2 s _ hm
  cases h1
  exact hwf

theorem runCont_fullVia {w w1 : World} (h : RunCont w w1) : FullVia WfVal w w1 := by
  cases h with
  | msg m q w1 hq hr =>
    have e : w1 = (World.runHandler { w with queue := q } (fun wok => w.c.handleMsg m wok)).1 := by rw [hr]
    subst e; exact msgHandler_fullVia w m q
  | pkt rx' rd' fr p w1 hq hs hp hd hr =>
    have e : w1 = (World.runHandler { w with rx := rx', reader := rd' }
        (fun wok => w.c.handlePkt w.chanRxAlive p wok)).1 := by rw [hr]
    subst e; exact pktHandler_fullVia w rx' rd' p (decodeRx_wf_aux fr p hd)

theorem runEnd_fullVia {w r : World} (h : RunEnd w r) : FullVia WfVal w r := by
  cases h with
  | msgExit m q w1 fl hq hr hne =>
    have e : w1 = (World.runHandler { w with queue := q } (fun wok => w.c.handleMsg m wok)).1 := by rw [hr]
    subst e; exact (msgHandler_fullVia w m q).trans (.of_slots_eq rfl)
  | closed hq hs => exact .of_slots_eq rfl
  | pktExit rx' rd' fr p w1 fl hq hs hp hd hr hne =>
    have e : w1 = (World.runHandler { w with rx := rx', reader := rd' }
        (fun wok => w.c.handlePkt w.chanRxAlive p wok)).1 := by rw [hr]
    subst e; exact (pktHandler_fullVia w rx' rd' p (decodeRx_wf_aux fr p hd)).trans (.of_slots_eq rfl)
  | codec rx' rd' fr hq hs hp hd => exact .of_slots_eq rfl
  | panic rx' rd' fr hq hs hp hd => exact .of_slots_eq rfl
  | sock rx' rd' hq hs hp => exact .of_slots_eq rfl
  | pending rx' rd' hq hs hp => split <;> exact .of_slots_eq (by simp)

theorem serve_fullVia {w wm : World} (hs : Serve w wm) : FullVia WfVal w wm := by
  induction hs with
  | refl w => exact .refl _ w
  | step hc _ ih => exact (runCont_fullVia hc).trans ih

theorem runLoop_fullVia (f : Nat) (w : World) : FullVia WfVal w (runLoop f w) := by
  obtain ⟨wm, hs, he⟩ := runLoop_decomp f w
  rcases he with he | he
  · rw [he]; exact serve_fullVia hs
  · exact (serve_fullVia hs).trans (runEnd_fullVia he)

theorem resumed_fullVia (w : World) : FullVia WfVal w w.resumed := by
  have hv := applyEffs_fullVia ({ w with c := w.c.resume.1, task := .running true } : World) w.c.resume.2.1
  refine FullVia.trans (.of_slots_eq rfl) (hv.mono ?_)
  intro s v h
  rw [resume_sends_nothing] at h; cases h

theorem pollCtx_fullVia (w : World) : FullVia WfVal w w.pollCtx := by
  cases ht : w.task with
  | none =>
    have e : w.pollCtx = w := by simp [pollCtx, ht]
    rw [e]; exact .refl _ w
  | connecting call t a started =>
    have e : w.pollCtx = w.pollConnect call t a started := by simp [pollCtx, ht]
    rw [e]
    have fe : ∀ (w0 : World), (w0.awaitFirst call t a).slots = w0.slots := by
      intro w0
      rcases firstEnd_out (awaitFirst_spec w0 call t a) with ⟨_, _, a3, _⟩ | ⟨_, _, _, a4, _⟩
      · exact a3
      · exact a4
    cases started with
    | true => simp only [pollConnect, ↓reduceIte]; exact .of_slots_eq (fe w)
    | false =>
      rcases pollConnect_prelude w call t a with ⟨_, h2⟩ | ⟨_, w0, _, _, _, _, a5, _, _, h2 | h2⟩
      · rw [h2]; exact .of_slots_eq (by simp)
      · rw [h2]; exact .of_slots_eq ((fe w0).trans a5)
      · rw [h2]; exact .of_slots_eq (by simpa using a5)
  | running started =>
    have e : w.pollCtx = w.pollRun started := by simp [pollCtx, ht]
    rw [e]
    cases started with
    | true => simp only [pollRun, ↓reduceIte]; exact runLoop_fullVia _ w
    | false =>
      rw [pollRun_first_eq]
      split
      · exact ((resumed_fullVia w).trans (.of_slots_eq (resent_slots w))).trans (runLoop_fullVia _ _)
      · exact (resumed_fullVia w).trans (.of_slots_eq (by simp))

theorem micro_fullVia {w w' : World} (hm : Micro w w') : FullVia WfVal w w' := by
  have nf : ∀ {a b : World}, FullVia NoFill a b → FullVia WfVal a b := fun h => h.mono (fun _ _ h => h.elim)
  cases hm with
  | ctx => exact pollCtx_fullVia w
  | user t ht =>
    cases t with
    | ctx => exact absurd rfl ht
    | op id => exact nf (FullVia.trans (.of_slots_eq rfl) (pollOp_noFill (w.unwake (.op id)) id))
    | st id => exact nf (FullVia.trans (.of_slots_eq rfl) (pollStream_noFill (w.unwake (.st id)) id))
  | unwake t => exact .of_slots_eq rfl
  | ev e hp hb => exact nf (FullVia.trans (.of_slots_eq rfl) (apply_noFill (w.emit (.ev e)) e hp))
  | logged t hb => exact .of_slots_eq rfl
  | stall => exact .of_slots_eq rfl
  | flush => exact .of_slots_eq (flushRaw_ops_slots w).2

/-- **every packet stored in a oneshot is decoder output, at every moment of every execution** -/
theorem during_slotWf {cfg : Cfg} {w : World} (h : During cfg w) : SlotWf w := by
  induction h with
  | init => intro s p hm; simp at hm
  | next _ hm ih => exact ih.via (micro_fullVia hm)


/-! ## the form of the action identifiers -/

/-- an action identifier the client uses: `actionId kind pid` for an acknowledgement kind (PUBACK 4, PUBREC 5, PUBCOMP 7,
    SUBACK 9, UNSUBACK 11) and a packet identifier in 1..65535, or the key `actionId 13 0` all PINGREQs share -/
def AidForm (aid : Nat) : Prop :=
  aid = actionId 13 0 ∨
  ∃ k p, aid = actionId k p ∧ (k = 4 ∨ k = 5 ∨ k = 7 ∨ k = 9 ∨ k = 11) ∧ 1 ≤ p ∧ p ≤ 65535

/-- the action identifier of every queued message, every key of `awaiting_ack` and every key of the retransmit queue has
    the form `AidForm` -/
structure KeyForm (w : World) : Prop where
  queue : ∀ m ∈ w.queue, ∀ aid, m.aid = some aid → AidForm aid
  awaiting : ∀ e ∈ w.c.awaiting, AidForm e.1
  retx : ∀ e ∈ w.c.retx, AidForm e.1

theorem KeyForm.congr {w w' : World} (h : KeyForm w) (hq : w'.queue = w.queue) (ha : w'.c.awaiting = w.c.awaiting)
    (hr : w'.c.retx = w.c.retx) : KeyForm w' :=
  ⟨by rw [hq]; exact h.queue, by rw [ha]; exact h.awaiting, by rw [hr]; exact h.retx⟩

/-- one handler call: the keys of `awaiting_ack` and of the retransmit queue afterwards are keys from before, or the action
    identifier of the handled message -/
theorem stepIn_keys (P : Nat → Prop) (c : Ctx) (i : CIn)
    (hm : ∀ m wok aid, i = .msg m wok → m.aid = some aid → P aid)
    (ha : ∀ e ∈ c.awaiting, P e.1) (hr : ∀ e ∈ c.retx, P e.1) :
    (∀ e ∈ (c.stepIn i).1.awaiting, P e.1) ∧ (∀ e ∈ (c.stepIn i).1.retx, P e.1) := by
  constructor
  · cases i with
    | msg m wok =>
      simp only [Ctx.stepIn]
      rcases handleMsg_awaiting_cases c m wok with e | ⟨aid, h1, e⟩
      · rw [e]; exact ha
      · rw [e]
        intro x hx
        rcases List.mem_append.mp hx with h | h
        · exact ha x h
        · simp only [List.mem_singleton] at h; subst h; exact hm m wok aid rfl h1
    | pkt p dead wok =>
      simp only [Ctx.stepIn]
      rcases ack_completion_cases c (fun ch => ch ∉ dead) p wok with ⟨_, e, _⟩ | ⟨aid, slot, rest, _, hrm, _, e⟩
      · rw [e]; exact ha
      · rw [e]
        obtain ⟨pre, post, e1, _, e3⟩ := (User.removeFirst_some_iff _ _ _ _).1 hrm
        intro x hx
        rw [e3] at hx
        apply ha x
        rw [e1]
        rcases List.mem_append.mp hx with h | h
        · exact List.mem_append_left _ h
        · exact List.mem_append_right _ (List.mem_cons_of_mem _ h)
  · rw [step_retx]
    cases i with
    | msg m wok =>
      cases m with
      | ff pkt slot => exact hr
      | subscribe aid sid pkt slot chan => exact hr
      | awaitAck aid pkt slot =>
        have hP := hm (.awaitAck aid pkt slot) wok aid rfl rfl
        simp only [Ctx.stepIn, retxStep]
        have app : ∀ b, ∀ e ∈ c.retx ++ [(aid, b)], P e.1 := by
          intro b x hx
          rcases List.mem_append.mp hx with h | h
          · exact hr x h
          · simp only [List.mem_singleton] at h; subst h; exact hP
        split
        · split
          · exact app _
          · split
            · exact app _
            · exact hr
        · exact hr
    | pkt p dead wok =>
      intro x hx
      have sub : ∀ k, x ∈ eraseFirst k c.retx → x ∈ c.retx := fun k hk => (User.eraseFirst_sublist k c.retx).subset hk
      cases p <;> simp only [Ctx.stepIn, retxStep] at hx <;> first | exact hr x hx | exact hr x (sub _ hx)

theorem keyForm_msg (w : World) (m : Msg) (q : List Msg) (hq : w.queue = m :: q) (hi : KeyForm w) :
    KeyForm (({ w with queue := q }).runHandler (fun wok => w.c.handleMsg m wok)).1 := by
  rw [runHandler_eq_stepIn_msg]
  obtain ⟨h1, h2⟩ := stepIn_keys AidForm w.c (w.inMsg m)
    (fun m' wok aid e h => by cases e; exact hi.queue m (by rw [hq]; exact List.mem_cons_self) aid h)
    hi.awaiting hi.retx
  refine ⟨?_, by simpa using h1, by simpa using h2⟩
  intro m' hm'
  simp only [applyEffs_queue] at hm'
  exact hi.queue m' (by rw [hq]; exact List.mem_cons_of_mem _ hm')

theorem keyForm_pkt (w : World) (rx' : Rx) (rd' : List ReadEv) (p : RxPacket) (hi : KeyForm w) :
    KeyForm (({ w with rx := rx', reader := rd' }).runHandler (fun wok => w.c.handlePkt w.chanRxAlive p wok)).1 := by
  rw [runHandler_eq_stepIn_pkt]
  obtain ⟨h1, h2⟩ := stepIn_keys AidForm w.c (w.inPkt p) (fun m' wok aid e h => by cases e) hi.awaiting hi.retx
  refine ⟨?_, by simpa using h1, by simpa using h2⟩
  intro m' hm'
  simp only [applyEffs_queue] at hm'
  exact hi.queue m' hm'

theorem keyForm_runCont {w w1 : World} (h : RunCont w w1) (hi : KeyForm w) : KeyForm w1 := by
  cases h with
  | msg m q w1 hq hr =>
    have e : w1 = (World.runHandler { w with queue := q } (fun wok => w.c.handleMsg m wok)).1 := by rw [hr]
    subst e; exact keyForm_msg w m q hq hi
  | pkt rx' rd' fr p w1 hq hs hp hd hr =>
    have e : w1 = (World.runHandler { w with rx := rx', reader := rd' }
        (fun wok => w.c.handlePkt w.chanRxAlive p wok)).1 := by rw [hr]
    subst e; exact keyForm_pkt w rx' rd' p hi

theorem keyForm_runEnd {w r : World} (h : RunEnd w r) (hi : KeyForm w) : KeyForm r := by
  cases h with
  | msgExit m q w1 fl hq hr hne =>
    have e : w1 = (World.runHandler { w with queue := q } (fun wok => w.c.handleMsg m wok)).1 := by rw [hr]
    subst e; exact (keyForm_msg w m q hq hi).congr rfl rfl rfl
  | closed hq hs => exact hi.congr rfl rfl rfl
  | pktExit rx' rd' fr p w1 fl hq hs hp hd hr hne =>
    have e : w1 = (World.runHandler { w with rx := rx', reader := rd' }
        (fun wok => w.c.handlePkt w.chanRxAlive p wok)).1 := by rw [hr]
    subst e; exact (keyForm_pkt w rx' rd' p hi).congr rfl rfl rfl
  | codec rx' rd' fr hq hs hp hd => exact hi.congr rfl rfl rfl
  | panic rx' rd' fr hq hs hp hd => exact hi.congr rfl rfl rfl
  | sock rx' rd' hq hs hp => exact hi.congr rfl rfl rfl
  | pending rx' rd' hq hs hp =>
    by_cases hrd : rd' = []
    · rw [if_pos hrd]; exact hi.congr rfl rfl rfl
    · rw [if_neg hrd]; exact hi.congr (by simp) (by simp) (by simp)

theorem keyForm_runLoop (f : Nat) (w : World) (hi : KeyForm w) : KeyForm (runLoop f w) := by
  obtain ⟨wm, hs, he⟩ := runLoop_decomp f w
  have hm : KeyForm wm := by
    clear he
    induction hs with
    | refl => exact hi
    | step hc _ ih => exact ih (keyForm_runCont hc hi)
  rcases he with he | he
  · rw [he]; exact hm
  · exact keyForm_runEnd he hm

theorem keyForm_firstEnd {w0 r : World} {call : Call} {t : ConnectTx} {a : AuthTx}
    (hf : FirstEnd w0 call t a r) (h0 : KeyForm w0) : KeyForm r := by
  cases hf with
  | connack rx' rd' fr k =>
    exact h0.congr rfl (Ctx.handleConnack_frame _ _).2.1 (Ctx.handleConnack_frame _ _).2.2.2.1
  | refused rx' rd' fr k =>
    exact h0.congr rfl (Ctx.handleConnack_frame _ _).2.1 (Ctx.handleConnack_frame _ _).2.2.2.1
  | assertSubId rx' rd' fr k =>
    exact h0.congr rfl (Ctx.handleConnack_frame _ _).2.1 (Ctx.handleConnack_frame _ _).2.2.2.1
  | auth rx' rd' fr au => exact h0.congr rfl rfl rfl
  | unexpected rx' rd' fr p => exact h0.congr rfl rfl rfl
  | codec rx' rd' fr => exact h0.congr rfl rfl rfl
  | panic rx' rd' fr => exact h0.congr rfl rfl rfl
  | sock rx' rd' => exact h0.congr rfl rfl rfl
  | pending rx' rd' =>
    by_cases hrd : rd' = []
    · rw [if_pos hrd]; exact h0.congr rfl rfl rfl
    · rw [if_neg hrd]; exact h0.congr (by simp) (by simp) (by simp)

theorem keyForm_pollCtx (w : World) (hi : KeyForm w) : KeyForm w.pollCtx := by
  unfold pollCtx
  cases ht : w.task with
  | none => exact hi
  | connecting call t a started =>
    simp only
    have fe : ∀ (w0 : World), KeyForm w0 → KeyForm (w0.awaitFirst call t a) :=
      fun w0 h0 => keyForm_firstEnd (awaitFirst_spec w0 call t a) h0
    cases started with
    | true => simp only [pollConnect, ↓reduceIte]; exact fe w hi
    | false =>
      cases call <;> simp only [pollConnect, Bool.false_eq_true, ↓reduceIte] <;> (repeat' split) <;>
        first
        | exact hi.congr rfl rfl rfl
        | exact fe _ (hi.congr (by simp) (by simp) (by simp))
        | exact hi.congr (by simp) (by simp) (by simp)
  | running started =>
    simp only
    cases started with
    | true => simp only [pollRun, ↓reduceIte]; exact keyForm_runLoop _ w hi
    | false =>
      rw [pollRun_first_eq]
      have hres : (∀ e ∈ w.c.resume.1.awaiting, AidForm e.1) ∧ (∀ e ∈ w.c.resume.1.retx, AidForm e.1) := by
        rcases Ctx.resume_fst_cases w.c with e | e | e <;> rw [e]
        · exact ⟨hi.awaiting, hi.retx⟩
        · exact ⟨hi.awaiting, hi.retx⟩
        · exact ⟨by simp, by simp⟩
      split
      · exact keyForm_runLoop _ _ ⟨by rw [resent_queue]; exact hi.queue, by rw [resent_c]; exact hres.1,
          by rw [resent_c]; exact hres.2⟩
      · refine ⟨?_, ?_, ?_⟩
        · simp only [finish_queue, writeBytes_queue]
          simpa [resumed] using hi.queue
        · simp only [finish_c, writeBytes_c, resumed_c]; exact hres.1
        · simp only [finish_c, writeBytes_c, resumed_c]; exact hres.2

/-- the message a poll of a handle future queues has an action identifier of the right form -/
theorem pollOp_keyForm (w : World) (id : Nat) (hp : PidOk w.pidCtr) (hw : SlotWf w) (hi : KeyForm w) :
    KeyForm (w.pollOp id) := by
  refine ⟨?_, by rw [pollOp_c]; exact hi.awaiting, by rw [pollOp_c]; exact hi.retx⟩
  have hrange : 1 ≤ w.pidCtr ∧ w.pidCtr ≤ 65535 := hp
  have form : ∀ k, (k = 4 ∨ k = 5 ∨ k = 7 ∨ k = 9 ∨ k = 11) → AidForm (actionId k w.pidCtr) :=
    fun k hk => Or.inr ⟨k, w.pidCtr, rfl, hk, hrange.1, hrange.2⟩
  have sa : ∀ (w0 : World) (m : Msg) (s : Nat) (k : Wait), w0.queue = w.queue →
      (∀ aid, m.aid = some aid → AidForm aid) →
      ∀ m' ∈ (w0.sendAwait m id s k).queue, ∀ aid, m'.aid = some aid → AidForm aid := by
    intro w0 m s k h0 hm m' hm' aid ha
    by_cases hc : w0.hasCtx = true
    · obtain ⟨wk, qr, e⟩ := User.sendAwait_ctx w0 m id s k hc
      rw [e] at hm'
      simp only [h0] at hm'
      rcases List.mem_append.mp hm' with h | h
      · exact hi.queue m' h aid ha
      · simp only [List.mem_singleton] at h; subst h; exact hm aid ha
    · rw [User.sendAwait_no_ctx w0 m id s k (by simpa using hc)] at hm'
      simp only [User.finishOp_queue, h0] at hm'
      exact hi.queue m' hm' aid ha
  unfold pollOp
  cases hop : w.opSt id with
  | none => exact hi.queue
  | some st =>
    cases st with
    | fresh h req =>
      simp only
      cases req with
      | publish t =>
        by_cases hq0 : t.qos = 0
        · rw [User.startOp_publish0 w id t hq0]
          split
          · simpa using hi.queue
          · exact sa w _ _ _ rfl (fun aid h => by cases h)
        · rw [User.startOp_publish12 w id t hq0]
          split
          · simpa [allocPid] using hi.queue
          · refine sa (w.allocPid.2) _ _ _ rfl (fun aid h => ?_)
            simp only [Msg.aid, Option.some.injEq] at h
            subst h
            split
            · exact form 4 (Or.inl rfl)
            · exact form 5 (Or.inr (Or.inl rfl))
      | subscribe t =>
        rw [User.startOp_subscribe]
        simp only
        split
        · simpa [allocPid, allocSub] using hi.queue
        · split
          · simpa [allocPid, allocSub, dropChanRx, setChan] using hi.queue
          · next w' hs =>
            by_cases hc : w.hasCtx = true
            · obtain ⟨wk, qr, e⟩ := User.sendMsg_shape (((w.allocPid.2).allocSub.2).setChan id {})
                (.subscribe (actionId 9 w.pidCtr) w.subCtr
                  ({ t with packetId := w.pidCtr, subId := some w.subCtr } : SubscribeTx).encode (2 * id) id) hc
              rw [e] at hs; cases hs
              intro m' hm' aid ha
              simp only [awaitSlot, setChan, allocPid, allocSub] at hm'
              rcases List.mem_append.mp hm' with h | h
              · exact hi.queue m' h aid ha
              · simp only [List.mem_singleton] at h; subst h
                simp only [Msg.aid, Option.some.injEq] at ha
                subst ha
                exact form 9 (Or.inr (Or.inr (Or.inr (Or.inl rfl))))
            · rw [User.sendMsg_none _ _ (by simpa [setChan, allocPid, allocSub] using hc)] at hs; cases hs
      | unsubscribe t =>
        rw [User.startOp_unsubscribe]
        split
        · simpa [allocPid] using hi.queue
        · refine sa (w.allocPid.2) _ _ _ rfl (fun aid h => ?_)
          simp only [Msg.aid, Option.some.injEq] at h
          subst h
          exact form 11 (Or.inr (Or.inr (Or.inr (Or.inr rfl))))
      | ping =>
        rw [User.startOp_ping]
        refine sa w _ _ _ rfl (fun aid h => ?_)
        simp only [Msg.aid, Option.some.injEq] at h
        subst h
        exact Or.inl rfl
      | disconnect t =>
        rw [User.startOp_disconnect]
        exact sa w _ _ _ rfl (fun aid h => by cases h)
    | wait s k =>
      simp only
      cases hs : w.slot s with
      | none => exact hi.queue
      | some sl =>
        cases sl with
        | empty => exact hi.queue
        | closed => simpa [clearSlot] using hi.queue
        | full v =>
          rcases (pubrel_only_from_pubrec w id).2 s k v with e | ⟨a, rfl, rfl, ha, hc, e⟩
          · rw [e]; exact hi.queue
          · rw [e]
            intro m' hm' aid haid
            rcases List.mem_append.mp hm' with h | h
            · exact hi.queue m' h aid haid
            · simp only [List.mem_singleton] at h; subst h
              simp only [Msg.aid, Option.some.injEq] at haid
              subst haid
              have hwf : (RxPacket.pubrec a).wf := hw s _ (User.lookupFirst_mem s _ w.slots hs)
              exact Or.inr ⟨7, a.packetId, rfl, Or.inr (Or.inr (Or.inl rfl)), hwf.1, by have := hwf.2; omega⟩

theorem keyForm_micro {w w' : World} (hi : OpsInv w) (hw : SlotWf w) (h : KeyForm w) (hm : Micro w w') : KeyForm w' := by
  cases hm with
  | ctx => exact keyForm_pollCtx w h
  | user t ht =>
    cases t with
    | ctx => exact absurd rfl ht
    | op id => exact pollOp_keyForm (w.unwake (.op id)) id hi.pid hw (h.congr rfl rfl rfl)
    | st id =>
      show KeyForm ((w.unwake (.st id)).pollStream id)
      exact h.congr (pollStream_queue _ _) (by rw [pollStream_c]; rfl) (by rw [pollStream_c]; rfl)
  | unwake t => exact h.congr rfl rfl rfl
  | ev e hp hb =>
    rcases apply_cases (w.emit (.ev e)) e with ⟨t, rfl, _⟩ | ⟨tk, _, _, _, h4⟩ | hpas
    · exact absurd rfl (hp t)
    · rw [h4]; exact h.congr (by simp) (by simp) (by simp)
    · -- passive events: the queue and the retransmit queue are kept or emptied; `awaiting_ack` likewise
      have hc := apply_ctxTrans (w.emit (.ev e)) e
      refine ⟨?_, ?_, ?_⟩
      · rcases hpas.queue with e1 | e1 <;> rw [e1]
        · exact h.queue
        · simp
      · have : ((w.emit (.ev e)).apply e).c.awaiting = w.c.awaiting ∨ ((w.emit (.ev e)).apply e).c.awaiting = [] := by
          cases e with
          | poll t => exact absurd rfl (hp t)
          | dropCtx =>
            cases hcx : w.hasCtx with
            | false => left; simp [World.apply, emit, hcx]
            | true => right; rw [apply_dropCtx _ (by simpa [emit] using hcx)]
          | setup => simp only [World.apply]; (repeat' split) <;> simp [badScript, emit, flushRaw_c]
          | drop t =>
            cases t with
            | ctx => left; rfl
            | op id => left; show ((w.emit _).dropOp id).c.awaiting = _; rw [dropOp_c]; rfl
            | st id => left; simp only [World.apply]; split <;> simp [dropChanRx, emit]
          | feed chunks => left; simp only [World.apply]; split <;> simp [badScript, emit, feedEvents_c]
          | feedEof => left; simp only [World.apply]; split <;> simp [badScript, emit, feedEvents_c]
          | feedErr => left; simp only [World.apply]; split <;> simp [badScript, emit, feedEvents_c]
          | _ => left; simp only [World.apply] <;> (repeat' split) <;> simp [badScript, emit, dropChanRx]
        rcases this with e1 | e1 <;> rw [e1]
        · exact h.awaiting
        · simp
      · rcases hpas.retx with e1 | e1 <;> rw [e1]
        · exact h.retx
        · simp
  | logged t hb => exact h.congr rfl rfl rfl
  | stall => exact h.congr rfl rfl rfl
  | flush => exact h.congr (flushRaw_queue w) (by rw [flushRaw_c]) (by rw [flushRaw_c])

/-- **the action identifiers the client holds have the right form, at every moment of every execution** -/
theorem during_keyForm {cfg : Cfg} {w : World} (h : During cfg w) : KeyForm w := by
  induction h with
  | init => exact ⟨by simp, by simp, by simp⟩
  | next hd hm ih => exact keyForm_micro (during_opsInv hd) (during_slotWf hd) ih hm

end W10
end World
end Poster
