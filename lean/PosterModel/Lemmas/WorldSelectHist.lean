/-
  Lemmas/WorldSelectHist.lean — one poll of the `select!` loop under ANY scheduler is a served history
  (`runLoopS_pollServe`): the `PollServe` facts of Lemmas/WorldCtx.lean for `runLoopS`, with the history
  `loopHistS sched f w` — an interleaving of the queued messages (in queue order) with the decoded frames (in
  frame order).
-/
import PosterModel.Lemmas.WorldSelect

set_option linter.unusedVariables false
set_option linter.unusedSimpArgs false

namespace Poster
open Framing
namespace World

/-- the input the iteration hands to a handler (`none`: the iteration ends the poll before any handler is called) -/
def iterInS (pf : Bool) (w : World) : Option CIn :=
  if pf then
    match pollNext w.rx w.reader with
    | (_, _, .item fr) =>
      (match decodeRx fr with
       | .ok p => some (w.inPkt p)
       | _ => none)
    | (_, _, .none) => none
    | (_, _, .pending) =>
      (match w.queue with
       | m :: _ => some (w.inMsg m)
       | [] => none)
  else w.iterIn

/-- the history of one poll of the loop under `sched`: the inputs its iterations hand to the handlers, in order -/
def loopHistS (sched : Nat → Bool) : Nat → World → List CIn
  | 0, _ => []
  | f+1, w =>
    match iterInS (sched f) w with
    | none => []
    | some i => i :: (match runIterS (sched f) w with | .inl w1 => loopHistS sched f w1 | .inr _ => [])

theorem loopHistS_succ (sched : Nat → Bool) (f : Nat) (w : World) :
    loopHistS sched (f + 1) w = match iterInS (sched f) w with
      | none => []
      | some i => i :: (match runIterS (sched f) w with | .inl w1 => loopHistS sched f w1 | .inr _ => []) := rfl

theorem iterInS_false (w : World) : iterInS false w = w.iterIn := rfl

theorem loopHistS_false (f : Nat) (w : World) : loopHistS (fun _ => false) f w = loopHist f w := by
  induction f generalizing w with
  | zero => rfl
  | succ f ih =>
    rw [loopHistS_succ, loopHist_succ, iterInS_false, runIterS_false]
    cases w.iterIn with
    | none => rfl
    | some i =>
      simp only
      cases runIter w with
      | inl w1 => simp only [ih]
      | inr r => rfl

/-! ## one iteration -/

theorem IterStep.of_eq {wa w w1 : World} {i : CIn} (h : IterStep wa w1 i) (hc : wa.c = w.c) (hs : wa.sent = w.sent)
    (hw : ∀ n, wa.canWrite n = w.canWrite n) : IterStep w w1 i where
  wf := h.wf
  c_eq := by rw [← hc]; exact h.c_eq
  sent_eq := fun hcw => by rw [← hs, ← hc]; exact h.sent_eq (by rw [hw, hc]; exact hcw)
  sent_prefix := by rw [← hs]; exact h.sent_prefix
  wok_can := fun hk => by rw [← hw, ← hc]; exact h.wok_can hk

theorem inMsg_congr {wa w : World} (hc : wa.c = w.c) (hw : ∀ n, wa.canWrite n = w.canWrite n) (m : Msg) :
    wa.inMsg m = w.inMsg m := by
  simp only [inMsg, wokMsg, hc, hw]

/-- what an iteration did, as seen from the context: `.inl` — the input `i` was handled with flow `cont`;
    `.inr` — no handler was called, or the input `i` was handled and ended `run()` -/
def IterFacts (w : World) (i? : Option CIn) : World ⊕ World → Prop
  | .inl w1 => ∃ i, i? = some i ∧ (w.c.stepIn i).2.flow = .cont ∧ IterStep w w1 i ∧ w1.cfg = w.cfg
  | .inr r => (i? = none ∧ r.c = w.c ∧ r.sent = w.sent) ∨
      (∃ i, i? = some i ∧ (w.c.stepIn i).2.flow ≠ .cont ∧ IterStep w r i ∧
        r.task = .none ∧ ∃ pre, r.out = pre ++ [.ret .run (flowRet (w.c.stepIn i).2.flow)])

theorem msgBranch_facts (w : World) (m : Msg) (q : List Msg) :
    IterFacts w (some (w.inMsg m)) (msgBranch w m q) := by
  unfold msgBranch
  simp only
  rw [runHandler_eq_stepIn_msg]
  simp only
  split
  · rename_i hfl
    exact ⟨_, rfl, hfl, iterStep_msg w q m, by simp⟩
  · rename_i fl hne
    exact Or.inr ⟨_, rfl, (by intro h; exact hne h), iterStep_finish (iterStep_msg w q m) _ _, rfl, _, rfl⟩

theorem pktBranch_facts (w : World) (rx' : Rx) (rd' : List ReadEv) (fr : Bytes) :
    IterFacts w (match decodeRx fr with | .ok p => some (w.inPkt p) | _ => none) (pktBranch w rx' rd' fr) := by
  unfold pktBranch
  simp only
  cases hd : decodeRx fr with
  | ok p =>
    simp only
    rw [runHandler_eq_stepIn_pkt]
    simp only
    split
    · rename_i hfl
      exact ⟨_, rfl, hfl, iterStep_pkt w rx' rd' p (decodeRx_wf_aux fr p hd), by simp⟩
    · rename_i fl hne
      exact Or.inr ⟨_, rfl, (by intro h; exact hne h),
        iterStep_finish (iterStep_pkt w rx' rd' p (decodeRx_wf_aux fr p hd)) _ _, rfl, _, rfl⟩
  | err => exact Or.inl ⟨rfl, rfl, sent_finish _ _ _⟩
  | panic => exact Or.inl ⟨rfl, rfl, sent_emit _ _ rfl⟩

theorem IterFacts.of_eq {wa w : World} {i? : Option CIn} {x : World ⊕ World} (h : IterFacts wa i? x)
    (hc : wa.c = w.c) (hs : wa.sent = w.sent) (hcfg : wa.cfg = w.cfg) (hwr : wa.written = w.written) :
    IterFacts w i? x := by
  have hw : ∀ n, wa.canWrite n = w.canWrite n := canWrite_congr hcfg hwr
  cases x with
  | inl w1 =>
    obtain ⟨i, h1, h2, h3, h4⟩ := h
    exact ⟨i, h1, by rw [← hc]; exact h2, h3.of_eq hc hs hw, h4.trans hcfg⟩
  | inr r =>
    rcases h with ⟨h1, h2, h3⟩ | ⟨i, h1, h2, h3, h4, h5⟩
    · exact Or.inl ⟨h1, h2.trans hc, h3.trans hs⟩
    · exact Or.inr ⟨i, h1, by rw [← hc]; exact h2, h3.of_eq hc hs hw, h4, by rw [← hc]; exact h5⟩

theorem armReader_sent (w : World) : (armReader w).sent = w.sent := sent_congr (by simp) (by simp)

/-- **one iteration under any scheduler**, at the level of the context -/
theorem runIterS_facts (pf : Bool) (w : World) : IterFacts w (iterInS pf w) (runIterS pf w) := by
  cases pf with
  | false =>
    rw [iterInS_false, runIterS_false]
    cases h : runIter w with
    | inl w1 =>
      have hc := runIter_inl h
      obtain ⟨i, hi, hfl, hst⟩ := runCont_iter hc
      exact ⟨i, hi, hfl, hst, (runCont_frame hc).2.2.2.2.1⟩
    | inr r =>
      rcases runEnd_iter (runIter_inr h) with ⟨hi, hc, hs⟩ | ⟨i, hi, hne, hst, ht, ho⟩
      · exact Or.inl ⟨hi, hc, hs⟩
      · exact Or.inr ⟨i, hi, hne, hst, ht, ho⟩
  | true =>
    simp only [runIterS, iterInS, ↓reduceIte]
    generalize hp : pollNext w.rx w.reader = r
    obtain ⟨rx', rd', o⟩ := r
    cases o with
    | item fr => exact pktBranch_facts w rx' rd' fr
    | none => exact Or.inl ⟨rfl, rfl, sent_finish _ _ _⟩
    | pending =>
      simp only
      have a1 : (armReader { w with rx := rx', reader := rd' }).queue = w.queue := by simp
      have a2 : (armReader { w with rx := rx', reader := rd' }).c = w.c := by simp
      have a3 : (armReader { w with rx := rx', reader := rd' }).sent = w.sent :=
        (armReader_sent _).trans (sent_congr rfl rfl)
      have a4 : (armReader { w with rx := rx', reader := rd' }).cfg = w.cfg := by simp
      have a5 : (armReader { w with rx := rx', reader := rd' }).written = w.written := by simp
      have a6 : (armReader { w with rx := rx', reader := rd' }).senders = w.senders := by simp [senders]
      generalize armReader { w with rx := rx', reader := rd' } = wa at a1 a2 a3 a4 a5 a6 ⊢
      rw [← a1]
      cases hqq : wa.queue with
      | cons m q =>
        simp only
        have := msgBranch_facts wa m q
        rw [inMsg_congr (w := w) a2 (canWrite_congr a4 a5)] at this
        exact this.of_eq a2 a3 a4 a5
      | nil =>
        simp only
        split
        · exact Or.inl ⟨rfl, a2, (sent_finish _ _ _).trans a3⟩
        · exact Or.inl ⟨rfl, a2, (sent_congr rfl rfl).trans a3⟩

/-- **One poll of the `select!` loop under any scheduler is a served history**: with any fuel, from any world, the
    context is driven through exactly the served history `loopHistS sched f w` -/
theorem runLoopS_pollServe (sched : Nat → Bool) (f : Nat) (w : World) :
    PollServe w (runLoopS sched f w) (loopHistS sched f w) := by
  induction f generalizing w with
  | zero => exact pollServe_nil rfl rfl
  | succ f ih =>
    rw [runLoopS_succ, loopHistS_succ]
    have hf := runIterS_facts (sched f) w
    cases h : runIterS (sched f) w with
    | inl w1 =>
      rw [h] at hf
      obtain ⟨i, hi, hfl, hst, hcfg⟩ := hf
      simp only [hi]
      exact pollServe_cons hfl hst hcfg (ih w1)
    | inr r =>
      rw [h] at hf
      rcases hf with ⟨hi, hc, hs⟩ | ⟨i, hi, hne, hst, ht, ho⟩
      · simp only [hi]; exact pollServe_nil hc hs
      · simp only [hi]; exact pollServe_single hne hst ht ho

/-! ## evaluating an iteration once the framing layer's answer is known -/

theorem runIterS_true_item (w : World) (rx' : Rx) (rd' : List ReadEv) (fr : Bytes)
    (hp : pollNext w.rx w.reader = (rx', rd', .item fr)) : runIterS true w = pktBranch w rx' rd' fr := by
  simp only [runIterS, ↓reduceIte, hp]

theorem runIterS_true_pending (w : World) (rx' : Rx) (rd' : List ReadEv)
    (hp : pollNext w.rx w.reader = (rx', rd', .pending)) :
    runIterS true w =
      (match (armReader { w with rx := rx', reader := rd' }).queue with
       | m :: q => msgBranch (armReader { w with rx := rx', reader := rd' }) m q
       | [] =>
         if (armReader { w with rx := rx', reader := rd' }).senders = 0 then
           .inr ((armReader { w with rx := rx', reader := rd' }).finish .run (.err .handleClosed))
         else .inr { armReader { w with rx := rx', reader := rd' } with queueReg := true }) := by
  simp only [runIterS, ↓reduceIte, hp]
  rfl

theorem runIterS_true_none (w : World) (rx' : Rx) (rd' : List ReadEv)
    (hp : pollNext w.rx w.reader = (rx', rd', .none)) :
    runIterS true w = .inr (({ w with rx := rx', reader := rd' }).finish .run (.err .socketClosed)) := by
  simp only [runIterS, ↓reduceIte, hp]

theorem runIterS_false_msg (w : World) (m : Msg) (q : List Msg) (hq : w.queue = m :: q) :
    runIterS false w = msgBranch w m q := by
  simp only [runIterS, Bool.false_eq_true, ↓reduceIte, hq]

theorem runIterS_false_item (w : World) (rx' : Rx) (rd' : List ReadEv) (fr : Bytes) (hq : w.queue = [])
    (hs : w.senders ≠ 0) (hp : pollNext w.rx w.reader = (rx', rd', .item fr)) :
    runIterS false w = pktBranch w rx' rd' fr := by
  simp only [runIterS, Bool.false_eq_true, ↓reduceIte, hq, hs, hp]

theorem runIterS_false_pending (w : World) (rx' : Rx) (rd' : List ReadEv) (hq : w.queue = [])
    (hs : w.senders ≠ 0) (hp : pollNext w.rx w.reader = (rx', rd', .pending)) :
    runIterS false w = .inr (armReader { w with rx := rx', reader := rd', queueReg := true }) := by
  simp only [runIterS, Bool.false_eq_true, ↓reduceIte, hq, hs, hp]

theorem iterInS_true_item (w : World) (rx' : Rx) (rd' : List ReadEv) (fr : Bytes) (p : RxPacket)
    (hp : pollNext w.rx w.reader = (rx', rd', .item fr)) (hd : decodeRx fr = .ok p) :
    iterInS true w = some (w.inPkt p) := by
  simp only [iterInS, ↓reduceIte, hp, hd]

theorem iterInS_true_pending_msg (w : World) (rx' : Rx) (rd' : List ReadEv) (m : Msg) (q : List Msg)
    (hp : pollNext w.rx w.reader = (rx', rd', .pending)) (hq : w.queue = m :: q) :
    iterInS true w = some (w.inMsg m) := by
  simp only [iterInS, ↓reduceIte, hp, hq]

theorem iterInS_true_pending_nil (w : World) (rx' : Rx) (rd' : List ReadEv)
    (hp : pollNext w.rx w.reader = (rx', rd', .pending)) (hq : w.queue = []) : iterInS true w = none := by
  simp only [iterInS, ↓reduceIte, hp, hq]

theorem iterInS_true_none (w : World) (rx' : Rx) (rd' : List ReadEv)
    (hp : pollNext w.rx w.reader = (rx', rd', .none)) : iterInS true w = none := by
  simp only [iterInS, ↓reduceIte, hp]

theorem iterInS_false_msg (w : World) (m : Msg) (q : List Msg) (hq : w.queue = m :: q) :
    iterInS false w = some (w.inMsg m) := by
  simp only [iterInS, iterIn, Bool.false_eq_true, ↓reduceIte, hq]

theorem iterInS_false_item (w : World) (rx' : Rx) (rd' : List ReadEv) (fr : Bytes) (p : RxPacket) (hq : w.queue = [])
    (hs : w.senders ≠ 0) (hp : pollNext w.rx w.reader = (rx', rd', .item fr)) (hd : decodeRx fr = .ok p) :
    iterInS false w = some (w.inPkt p) := by
  simp only [iterInS, iterIn, Bool.false_eq_true, ↓reduceIte, hq, hs, hp, hd]

theorem iterInS_false_pending (w : World) (rx' : Rx) (rd' : List ReadEv) (hq : w.queue = [])
    (hs : w.senders ≠ 0) (hp : pollNext w.rx w.reader = (rx', rd', .pending)) : iterInS false w = none := by
  simp only [iterInS, iterIn, Bool.false_eq_true, ↓reduceIte, hq, hs, hp]


theorem iterInS_false_closed (w : World) (hq : w.queue = []) (hs : w.senders = 0) : iterInS false w = none := by
  simp only [iterInS, iterIn, Bool.false_eq_true, ↓reduceIte, hq, hs]

theorem iterInS_false_item_bad (w : World) (rx' : Rx) (rd' : List ReadEv) (fr : Bytes) (hq : w.queue = [])
    (hp : pollNext w.rx w.reader = (rx', rd', .item fr)) (hd : ∀ p, decodeRx fr ≠ .ok p) :
    iterInS false w = none := by
  cases hdd : decodeRx fr with
  | ok p => exact absurd hdd (hd p)
  | err => simp only [iterInS, iterIn, Bool.false_eq_true, ↓reduceIte, hq, hp, hdd]; split <;> rfl
  | panic => simp only [iterInS, iterIn, Bool.false_eq_true, ↓reduceIte, hq, hp, hdd]; split <;> rfl

theorem iterInS_false_none (w : World) (rx' : Rx) (rd' : List ReadEv) (hq : w.queue = [])
    (hp : pollNext w.rx w.reader = (rx', rd', .none)) : iterInS false w = none := by
  simp only [iterInS, iterIn, Bool.false_eq_true, ↓reduceIte, hq, hp]
  split <;> rfl

theorem iterInS_false_pending' (w : World) (rx' : Rx) (rd' : List ReadEv) (hq : w.queue = [])
    (hp : pollNext w.rx w.reader = (rx', rd', .pending)) : iterInS false w = none := by
  simp only [iterInS, iterIn, Bool.false_eq_true, ↓reduceIte, hq, hp]
  split <;> rfl

theorem iterInS_true_item_bad (w : World) (rx' : Rx) (rd' : List ReadEv) (fr : Bytes)
    (hp : pollNext w.rx w.reader = (rx', rd', .item fr)) (hd : ∀ p, decodeRx fr ≠ .ok p) :
    iterInS true w = none := by
  cases hdd : decodeRx fr with
  | ok p => exact absurd hdd (hd p)
  | err => simp only [iterInS, ↓reduceIte, hp, hdd]
  | panic => simp only [iterInS, ↓reduceIte, hp, hdd]

end World
end Poster
