/-
  Lemmas/WorldSelectEx.lean — the one real race of the `select!` of `run()`, as a concrete world with both
  resolutions evaluated: the send quota is exactly 0, the PUBACK that frees a slot is ready at the transport, and a
  QoS 1 PUBLISH is queued.
    * messages first (`World.runLoop`): the PUBLISH is refused with `QuotaExceeded`, then the PUBACK frees the slot;
    * packets first: the PUBACK frees the slot, the PUBLISH takes it and is written.
  `Framing.pollNext` is opaque to `decide` (well-founded recursion): the iterations are evaluated by rewriting.
-/
import PosterModel.Lemmas.WorldSelectIndep
import PosterModel.Lemmas.WorldOpsEx

set_option linter.unusedVariables false
set_option linter.unusedSimpArgs false

namespace Poster
open Framing
namespace Ex

/-- PUBACK for packet identifier 1, short form (reason 0) -/
def puback1 : Bytes := [0x40, 2, 0, 1]
/-- QoS 1 PUBLISH, topic "a", packet identifier 2, no properties, empty payload -/
def pub2 : Bytes := [0x32, 6, 0, 1, 0x61, 0, 2, 0]

theorem dec_puback1 : decodeRx puback1 = .ok (.puback { packetId := 1 }) := by decide
theorem pn_puback1 : pollNext {} [.data puback1] = ({}, [], .item puback1) :=
  pollNext_whole _ (by decide) (by decide) (by decide)

/-- **the race**: Receive Maximum 1, the one slot taken by the QoS 1 publish of operation 1 (packet 1, waiting on
    oneshot 2); operation 2 has queued a QoS 1 PUBLISH (packet 2, oneshot 4); the PUBACK of packet 1 is ready at the
    transport -/
def wRace : World :=
  { hasCtx := true, handles := [0], task := .running true,
    c := { quota := 0, recvMax := 1, awaiting := [(actionId 4 1, 2)], retx := [(actionId 4 1, [0x3A, 0])] },
    ops := [(1, .wait 2 .puback), (2, .wait 4 .puback)], slots := [(2, .empty), (4, .empty)], slotReg := [2, 4],
    queue := [.awaitAck (actionId 4 2) pub2 4], reader := [.data puback1] }

/-- messages first, after the message: the PUBLISH was refused -/
def wRaceM1 : World :=
  { wRace with queue := [], slots := [(2, .empty), (4, .full .errQuota)], slotReg := [2], woken := [.op 2] }

/-- messages first, after the PUBACK: the slot is free again, operation 1 completed -/
def wRaceM2 : World :=
  { wRaceM1 with rx := {}, reader := [], c := { quota := 1, recvMax := 1 },
                 slots := [(2, .full (.pkt (.puback { packetId := 1 }))), (4, .full .errQuota)], slotReg := [],
                 woken := [.op 2, .op 1] }

/-- packets first, after the PUBACK -/
def wRaceP1 : World :=
  { wRace with rx := {}, reader := [], c := { quota := 1, recvMax := 1 },
               slots := [(2, .full (.pkt (.puback { packetId := 1 }))), (4, .empty)], slotReg := [4],
               woken := [.op 1] }

/-- packets first, after the message: the PUBLISH took the slot and is on the wire -/
def wRaceP2 : World :=
  { wRaceP1 with queue := [], readerReg := true,
                 c := { quota := 0, recvMax := 1, awaiting := [(actionId 4 2, 4)],
                        retx := [(actionId 4 2, setDup pub2)] },
                 written := 8, out := [.wire pub2] }

open World in
theorem race_msgs_first_iter1 : runIterS false wRace = .inl wRaceM1 := by
  rw [runIterS_false_msg wRace _ _ rfl]; decide

open World in
theorem race_msgs_first_iter2 : runIterS false wRaceM1 = .inl wRaceM2 := by
  rw [runIterS_false_item wRaceM1 {} [] puback1 rfl (by decide) pn_puback1]
  simp only [pktBranch, dec_puback1]
  decide

open World in
theorem race_msgs_first_iter3 :
    runIterS false wRaceM2 = .inr { wRaceM2 with queueReg := true, readerReg := true } := by
  rw [runIterS_false_pending wRaceM2 {} [] rfl (by decide) World.pn_nil]
  decide

open World in
theorem race_pkts_first_iter1 : runIterS true wRace = .inl wRaceP1 := by
  rw [runIterS_true_item wRace {} [] puback1 pn_puback1]
  simp only [pktBranch, dec_puback1]
  decide

open World in
theorem race_pkts_first_iter2 : runIterS true wRaceP1 = .inl wRaceP2 := by
  rw [runIterS_true_pending wRaceP1 {} [] World.pn_nil]
  decide

open World in
theorem race_pkts_first_iter3 : runIterS true wRaceP2 = .inr { wRaceP2 with queueReg := true } := by
  rw [runIterS_true_pending wRaceP2 {} [] World.pn_nil]
  decide

/-- the poll of the loop with the messages first (this is `World.runLoop`) -/
theorem race_msgs_first (f : Nat) :
    World.runLoopS (fun _ => false) (f + 3) wRace = { wRaceM2 with queueReg := true, readerReg := true } := by
  rw [World.runLoopS_succ, race_msgs_first_iter1]
  simp only
  rw [World.runLoopS_succ, race_msgs_first_iter2]
  simp only
  rw [World.runLoopS_succ, race_msgs_first_iter3]

/-- the poll of the loop with the packets first -/
theorem race_pkts_first (f : Nat) :
    World.runLoopS (fun _ => true) (f + 3) wRace = { wRaceP2 with queueReg := true } := by
  rw [World.runLoopS_succ, race_pkts_first_iter1]
  simp only
  rw [World.runLoopS_succ, race_pkts_first_iter2]
  simp only
  rw [World.runLoopS_succ, race_pkts_first_iter3]

/-- the request and the acknowledgement of the race, as inputs of the serving loop -/
def raceMsg : CIn := .msg (.awaitAck (actionId 4 2) pub2 4) true
def racePkt : CIn := .pkt (.puback { packetId := 1 }) [] true

/-- the history of the poll with the messages first: the PUBLISH request, then the PUBACK -/
theorem race_hist_msgs_first (f : Nat) : World.loopHistS (fun _ => false) (f + 3) wRace = [raceMsg, racePkt] := by
  rw [World.loopHistS_succ, World.iterInS_false_msg wRace _ _ rfl, race_msgs_first_iter1]
  simp only
  rw [World.loopHistS_succ, World.iterInS_false_item wRaceM1 {} [] puback1 _ rfl (by decide) pn_puback1 dec_puback1,
    race_msgs_first_iter2]
  simp only
  rw [World.loopHistS_succ, World.iterInS_false_pending wRaceM2 {} [] rfl (by decide) World.pn_nil]
  simp only
  decide

/-- the history of the poll with the packets first: the PUBACK, then the PUBLISH request -/
theorem race_hist_pkts_first (f : Nat) : World.loopHistS (fun _ => true) (f + 3) wRace = [racePkt, raceMsg] := by
  rw [World.loopHistS_succ, World.iterInS_true_item wRace {} [] puback1 _ pn_puback1 dec_puback1, race_pkts_first_iter1]
  simp only
  rw [World.loopHistS_succ, World.iterInS_true_pending_msg wRaceP1 {} [] _ _ World.pn_nil rfl, race_pkts_first_iter2]
  simp only
  rw [World.loopHistS_succ, World.iterInS_true_pending_nil wRaceP2 {} [] World.pn_nil rfl]
  simp only
  decide

/-! ## end of stream with a message queued: `SocketClosed` or the message first -/

/-- `run()` with the user's DISCONNECT queued while the transport is at end of stream -/
def wByeEof : World := { wBye with reader := [.eof] }

/-- packets first: `run()` returns `SocketClosed` at once; the DISCONNECT stays in the queue, nothing is written -/
theorem eof_pkts_first (f : Nat) :
    World.runLoopS (fun _ => true) (f + 1) wByeEof = wByeEof.finish .run (.err .socketClosed) := by
  rw [World.runLoopS_succ, World.runIterS_true_none wByeEof {} [.eof] pn_eof]
  rfl

/-- the world after the DISCONNECT was handled -/
def wByeDone : World :=
  { wByeEof with task := .none, queue := [.awaitAck (actionId 13 0) pingreqBytes 6],
                 slots := [(4, .full .unit), (6, .empty)], slotReg := [6], woken := [.op 2], written := 2,
                 out := [.wire [0xE0, 0], .ret .run .ok] }

/-- messages first: the DISCONNECT is written and `run()` returns `Ok`; the transport is not even looked at -/
theorem eof_msgs_first (f : Nat) : World.runLoopS (fun _ => false) (f + 1) wByeEof = wByeDone := by
  rw [World.runLoopS_succ, World.runIterS_false_msg wByeEof _ _ rfl]
  have h : World.msgBranch wByeEof (.ff [0xE0, 0] 4) [.awaitAck (actionId 13 0) pingreqBytes 6] = .inr wByeDone := by
    decide
  rw [h]

/-! ## the same request and acknowledgement with a slot to spare: no race -/

/-- as `wRace`, but Receive Maximum 2: one slot is free -/
def wRace2 : World := { wRace with c := { wRace.c with quota := 1, recvMax := 2 } }
def wRace2P1 : World := { wRaceP1 with c := { quota := 2, recvMax := 2 } }
def wRace2P2 : World :=
  { wRaceP2 with c := { quota := 1, recvMax := 2, awaiting := [(actionId 4 2, 4)],
                        retx := [(actionId 4 2, setDup pub2)] } }

open World in
theorem race2_pkts_first_iter1 : runIterS true wRace2 = .inl wRace2P1 := by
  rw [runIterS_true_item wRace2 {} [] puback1 pn_puback1]
  simp only [pktBranch, dec_puback1]
  decide

open World in
theorem race2_pkts_first_iter2 : runIterS true wRace2P1 = .inl wRace2P2 := by
  rw [runIterS_true_pending wRace2P1 {} [] World.pn_nil]
  decide

/-- the history of the packets-first poll of `wRace2`: the PUBACK, then the PUBLISH request — which is accepted -/
theorem race2_hist_pkts_first (f : Nat) : World.loopHistS (fun _ => true) (f + 3) wRace2 = [racePkt, raceMsg] := by
  rw [World.loopHistS_succ, World.iterInS_true_item wRace2 {} [] puback1 _ pn_puback1 dec_puback1,
    race2_pkts_first_iter1]
  simp only
  rw [World.loopHistS_succ, World.iterInS_true_pending_msg wRace2P1 {} [] _ _ World.pn_nil rfl, race2_pkts_first_iter2]
  simp only
  rw [World.loopHistS_succ, World.iterInS_true_pending_nil wRace2P2 {} [] World.pn_nil rfl]
  simp only
  decide

end Ex
end Poster
