/-
  Lemmas/WorldOwnFuel.lean — once the context is gone the executor always runs to quiescence within the fuel
  `drainFuel` gives it: every poll of an operation completes it, every poll of a stream yields an item, ends
  the stream, or (an orphaned stream) consumes its flag; a potential function decreases with every poll.
-/
import PosterModel.Lemmas.WorldOwnDrop

set_option linter.unusedVariables false
set_option linter.unusedSimpArgs false

namespace Poster
open Framing
namespace World

/-! ## what `pick` returns -/

theorem minNat_mem {l : List Nat} {n : Nat} (h : minNat l = some n) : n ∈ l := by
  induction l generalizing n with
  | nil => simp [minNat] at h
  | cons a t ih =>
    simp only [minNat] at h
    split at h
    · simp only [Option.some.injEq] at h; subst h; exact List.mem_cons_self
    · rename_i b hb
      simp only [Option.some.injEq] at h
      split at h
      · subst h; exact List.mem_cons_self
      · subst h; exact List.mem_cons_of_mem _ (ih hb)

/-- the executor only picks a flagged, live task that the script does not hold -/
theorem pick_some_spec (w : World) (t : Task) (hp : w.pick = some t) :
    t ∈ w.woken ∧ w.taskLive t = true ∧ t ∉ w.held := by
  unfold pick at hp
  simp only at hp
  generalize hready : w.woken.filter _ = ready at hp
  have key : ∀ t, t ∈ ready → t ∈ w.woken ∧ w.taskLive t = true ∧ t ∉ w.held := by
    intro t ht; rw [← hready] at ht; simpa [List.mem_filter] using ht
  split at hp
  · rename_i hctx
    simp only [Option.some.injEq] at hp; subst hp; exact key _ hctx
  · split at hp
    · rename_i n hn
      simp only [Option.some.injEq] at hp; subst hp
      obtain ⟨t', ht', e⟩ := List.mem_filterMap.mp (minNat_mem hn)
      cases t' <;> simp at e
      subst e; exact key _ ht'
    · split at hp
      · rename_i n hn
        simp only [Option.some.injEq] at hp; subst hp
        obtain ⟨t', ht', e⟩ := List.mem_filterMap.mp (minNat_mem hn)
        cases t' <;> simp at e
        subst e; exact key _ ht'
      · cases hp

/-! ## counting -/

theorem length_filter_le_of_imp {α} (p q : α → Bool) (l : List α) (h : ∀ x ∈ l, p x = true → q x = true) :
    (l.filter p).length ≤ (l.filter q).length := by
  induction l with
  | nil => simp
  | cons a t ih =>
    have iht := ih (fun x hx => h x (List.mem_cons_of_mem _ hx))
    have ha := h a List.mem_cons_self
    simp only [List.filter_cons]
    cases hp : p a <;> cases hq : q a <;> simp only [hp, hq, ↓reduceIte, Bool.false_eq_true, List.length_cons]
    · exact iht
    · omega
    · rw [hp] at ha; simp [hq] at ha
    · omega

theorem length_filter_lt_of_imp {α} (p q : α → Bool) (l : List α) (h : ∀ x ∈ l, p x = true → q x = true)
    (a : α) (ha : a ∈ l) (hq : q a = true) (hp : p a = false) :
    (l.filter p).length < (l.filter q).length := by
  induction l with
  | nil => simp at ha
  | cons b t ih =>
    have ht : ∀ x ∈ t, p x = true → q x = true := fun x hx => h x (List.mem_cons_of_mem _ hx)
    have hb := h b List.mem_cons_self
    have le := length_filter_le_of_imp p q t ht
    simp only [List.mem_cons] at ha
    simp only [List.filter_cons]
    rcases ha with rfl | ha
    · simp only [hp, hq, ↓reduceIte, Bool.false_eq_true, List.length_cons]; omega
    · have lt := ih ht ha
      cases hpb : p b <;> cases hqb : q b <;>
        simp only [hpb, hqb, ↓reduceIte, Bool.false_eq_true, List.length_cons]
      · exact lt
      · omega
      · rw [hpb] at hb; simp [hqb] at hb
      · omega

theorem filter_const_true {α} (l : List α) : l.filter (fun _ => true) = l := by
  induction l with
  | nil => rfl
  | cons a t ih => simp [List.filter_cons, ih]

theorem bufs_setAssoc_tail (id : Nat) (ch : Chan) (p : PublishRx) (rest : List PublishRx) (l : List (Nat × Chan))
    (hl : lookupFirst id l = some ch) (hb : ch.buf = p :: rest) :
    ((setAssoc id { ch with buf := rest } l).map fun c => c.2.buf.length).sum + 1 =
      (l.map fun c => c.2.buf.length).sum := by
  induction l with
  | nil => simp [lookupFirst] at hl
  | cons x t ih =>
    obtain ⟨a, b⟩ := x
    simp only [lookupFirst] at hl
    simp only [setAssoc]
    split
    · rename_i hk
      simp only [hk, ↓reduceIte, Option.some.injEq] at hl
      subst hl
      simp [hb]; omega
    · rename_i hk
      simp only [hk, ↓reduceIte] at hl
      have := ih hl
      simp only [List.map_cons, List.sum_cons]; omega

/-! ## the potential -/

/-- live streams whose task is flagged -/
def stFlags (w : World) : Nat := (w.streams.filter (fun n => decide (Task.st n ∈ w.woken))).length

/-- the potential that every poll decreases once the context is gone -/
def pot (w : World) : Nat := 2 * w.ops.length + 2 * bufSum w + w.streams.length + stFlags w

theorem pot_lt_drainFuel (w : World) : pot w < w.drainFuel := by
  have : stFlags w ≤ w.streams.length := List.length_filter_le _ _
  simp only [pot, drainFuel, bufSum] at *
  omega

/-- a poll of an operation, context gone: the operation is removed, nothing else grows -/
theorem pot_pollOp (w : World) (id : Nat) (h : OwnInv w) (hc : w.hasCtx = false) (st : OpSt)
    (hop : w.opSt id = some st) : pot ((w.unwake (.op id)).pollOp id) + 2 ≤ pot w := by
  have f := (own_pollOp_task w id h).frame
  obtain ⟨e1, _, _⟩ := pollOp_no_ctx' (w.unwake (.op id)) (by simpa using h.nodup) (by simpa using hc) id st
    (by simpa using hop) (fun s k e => by
      have := h.wait_settled hc id s k (e ▸ hop)
      simpa using this)
  have hl := length_eraseFirst_of_lookup id st w.ops hop
  have hlen : ((w.unwake (.op id)).pollOp id).ops.length + 1 = w.ops.length := by
    rw [e1]; simpa using hl
  have hfl : stFlags ((w.unwake (.op id)).pollOp id) ≤ stFlags w := by
    unfold stFlags
    rw [f.streams_eq]
    refine length_filter_le_of_imp _ _ _ (fun n _ hn => ?_)
    simp only [decide_eq_true_eq] at hn ⊢
    exact f.wokenSt n hn
  have hb := f.bufLe
  have hs := f.streams_eq
  simp only [pot]
  rw [hs]
  omega

/-- a poll of a stream, context gone: an item is taken, or the stream ends, or (no channel) its flag is used up -/
theorem pot_pollStream (w : World) (id : Nat) (h : OwnInv w) (hc : w.hasCtx = false) (hs : id ∈ w.streams)
    (hw : Task.st id ∈ w.woken) : pot ((w.unwake (.st id)).pollStream id) < pot w := by
  -- the flag is consumed
  have hflag : stFlags (w.unwake (.st id)) < stFlags w := by
    unfold stFlags
    refine length_filter_lt_of_imp _ _ w.streams (fun n _ hn => ?_) id hs (by simpa using hw) (by simp [unwake])
    simp only [decide_eq_true_eq, unwake, List.mem_filter] at hn ⊢
    exact hn.1
  cases hch : w.chan id with
  | none =>
    have e : (w.unwake (.st id)).pollStream id = w.unwake (.st id) :=
      User.pollStream_noop _ _ (Or.inr (by simpa using hch))
    rw [e]
    simp only [pot, bufSum, unwake_ops, unwake_chans, unwake_streams] at *
    omega
  | some ch =>
    have hs1 : id ∈ (w.unwake (.st id)).streams := by simpa using hs
    have hch1 : (w.unwake (.st id)).chan id = some ch := by simpa using hch
    cases hb : ch.buf with
    | cons p rest =>
      have e : (w.unwake (.st id)).pollStream id =
          (((w.unwake (.st id)).setChan id { ch with buf := rest }).emit (.item id p)).wake (.st id) := by
        simp [pollStream, hs, hs1, hch1, hb]
      rw [e]
      have hbuf : bufSum ((((w.unwake (.st id)).setChan id { ch with buf := rest }).emit (.item id p)).wake
          (.st id)) + 1 = bufSum w := by
        simp only [bufSum, wake_chans, emit_chans, setChan_chans', unwake_chans]
        exact bufs_setAssoc_tail id ch p rest w.chans hch hb
      have hfl : stFlags ((((w.unwake (.st id)).setChan id { ch with buf := rest }).emit (.item id p)).wake
          (.st id)) ≤ stFlags w := by
        unfold stFlags
        simp only [wake_streams, emit_streams, setChan_streams, unwake_streams]
        refine length_filter_le_of_imp _ _ _ (fun n _ hn => ?_)
        simp only [decide_eq_true_eq, mem_wake_iff, emit_woken, setChan_woken] at hn ⊢
        rcases hn with hn | hn
        · cases hn; exact hw
        · simp only [unwake, List.mem_filter] at hn; exact hn.1
      simp only [pot, wake_ops, emit_ops, setChan_ops, unwake_ops, wake_streams, emit_streams, setChan_streams,
        unwake_streams] at *
      omega
    | nil =>
      have ht : ch.txAlive = false := h.chan_shut hc id ch hch
      have e : (w.unwake (.st id)).pollStream id =
          (({ (w.unwake (.st id)) with streams := (w.unwake (.st id)).streams.filter (· ≠ id) }).dropChanRx id).emit
            (.endStream id) := by
        simp [pollStream, hs, hs1, hch1, hb, ht]
      rw [e]
      have hlen : (w.streams.filter (· ≠ id)).length < w.streams.length := by
        have := length_filter_lt_of_imp (fun n => decide (n ≠ id)) (fun _ => true) w.streams (fun _ _ _ => rfl) id hs
          rfl (by simp)
        rw [filter_const_true] at this
        exact this
      have hbuf := bufs_eraseFirst_le id w.chans
      have hfl : (List.filter (fun n => decide (Task.st n ∈ (w.unwake (.st id)).woken))
          (w.streams.filter (· ≠ id))).length ≤ stFlags w := by
        unfold stFlags
        rw [List.filter_filter]
        refine length_filter_le_of_imp _ _ _ (fun n _ hn => ?_)
        simp only [Bool.and_eq_true, decide_eq_true_eq, unwake, List.mem_filter] at hn ⊢
        exact hn.1.1
      simp only [pot, stFlags, bufSum, emit_ops, emit_chans, emit_streams, emit_woken, dropChanRx_chans',
        dropChanRx_ops, dropChanRx_streams, dropChanRx_woken, unwake_ops, unwake_chans, unwake_streams] at *
      omega

/-! ## `ctxDropped` is never reset -/

theorem pollStream_ctxDropped (w : World) (id : Nat) : (w.pollStream id).ctxDropped = w.ctxDropped := by
  unfold pollStream
  split
  · rfl
  · split
    · rfl
    · split
      · simp
      · split <;> simp

theorem pollTask_ctxDropped (w : World) (t : Task) (h : OwnInv w) : (w.pollTask t).ctxDropped = w.ctxDropped := by
  cases t with
  | ctx => exact (hand_pollCtx (w.unwake .ctx)).act.ctxDropped_eq
  | op id => exact (own_pollOp_task w id h).frame.ctxDropped_eq
  | st id => simp [pollTask, pollStream_ctxDropped]

theorem drain_ctxDropped (f : Nat) (w : World) (h : OwnInv w) : (drain f w).ctxDropped = w.ctxDropped := by
  induction f generalizing w with
  | zero => rfl
  | succ f ih =>
    simp only [drain]
    split
    · rfl
    · rename_i t _
      rw [ih _ (own_pollTask w t h), pollTask_ctxDropped w t h]

/-! ## the executor runs to quiescence -/

/-- one poll by the executor, context gone: the potential decreases -/
theorem pot_pollTask (w : World) (t : Task) (h : OwnInv w) (hd : w.ctxDropped = true) (hp : w.pick = some t) :
    pot (w.pollTask t) < pot w := by
  have hc := h.dropped hd
  obtain ⟨hw, hl, _⟩ := pick_some_spec w t hp
  cases t with
  | ctx =>
    simp only [taskLive, h.noTask hc] at hl
    simp at hl
  | op id =>
    simp only [taskLive] at hl
    cases hop : w.opSt id with
    | none => rw [hop] at hl; cases hl
    | some st =>
      have := pot_pollOp w id h hc st hop
      simp only [pollTask]; omega
  | st id =>
    simp only [taskLive, decide_eq_true_eq] at hl
    exact pot_pollStream w id h hc hl hw

/-- **with the context gone, the executor reaches quiescence** as soon as its fuel exceeds the potential -/
theorem drain_quiet (f : Nat) (w : World) (h : OwnInv w) (hd : w.ctxDropped = true) (hf : pot w < f) :
    (drain f w).pick = none := by
  induction f generalizing w with
  | zero => omega
  | succ f ih =>
    simp only [drain]
    split
    · assumption
    · rename_i t ht
      have h1 := own_pollTask w t h
      have h2 := pot_pollTask w t h hd ht
      exact ih _ h1 (by rw [pollTask_ctxDropped w t h]; exact hd) (by omega)

theorem drain_fuel_quiet (w : World) (h : OwnInv w) (hd : w.ctxDropped = true) :
    (drain w.drainFuel w).pick = none := drain_quiet _ w h hd (pot_lt_drainFuel w)

/-! ## only a malformed script sets `bad` -/

theorem pollStream_bad (w : World) (id : Nat) : (w.pollStream id).bad = w.bad := by
  unfold pollStream
  split
  · rfl
  · split
    · rfl
    · split
      · simp
      · split <;> simp

theorem pollTask_bad (w : World) (t : Task) (h : OwnInv w) : (w.pollTask t).bad = w.bad := by
  cases t with
  | ctx => exact (hand_pollCtx (w.unwake .ctx)).act.bad_eq
  | op id => exact (own_pollOp_task w id h).frame.bad_eq
  | st id => simp [pollTask, pollStream_bad]

theorem feedEvents_bad (w : World) (evs : List ReadEv) : (w.feedEvents evs).bad = w.bad := by
  unfold feedEvents
  simp only
  split <;> simp

theorem flushRaw_bad (w : World) : w.flushRaw.bad = w.bad := by
  unfold flushRaw; split <;> simp

/-- an event either is refused (`badScript`: nothing but the log and the `bad` flag change) or leaves `bad` alone -/
theorem apply_bad_cases (w : World) (e : Ev) (h : OwnInv w) : w.apply e = w.badScript ∨ (w.apply e).bad = w.bad := by
  cases e with
  | setup =>
    simp only [apply]
    split
    · exact Or.inl rfl
    · split
      · split
        · exact Or.inl rfl
        · exact Or.inr rfl
      · exact Or.inr (by simp [flushRaw_bad])
  | connect t => simp only [apply]; split <;> first | exact Or.inl rfl | exact Or.inr (by simp)
  | authorize a => simp only [apply]; split <;> first | exact Or.inl rfl | exact Or.inr (by simp)
  | run => simp only [apply]; split <;> first | exact Or.inl rfl | exact Or.inr (by simp)
  | dropFut => exact Or.inr rfl
  | dropCtx =>
    right
    cases hc : w.hasCtx with
    | false => simp [apply, hc]
    | true =>
      rw [apply_dropCtx w hc]
      exact (closes_inv (closes_dropCtxClosed w)).bad_eq
  | markDisc secs => simp only [apply]; split <;> first | exact Or.inl rfl | exact Or.inr rfl
  | snap => simp only [apply]; split <;> first | exact Or.inl rfl | exact Or.inr (by simp)
  | feed chunks => simp only [apply]; split <;> first | exact Or.inl rfl | exact Or.inr (feedEvents_bad _ _)
  | feedEof => simp only [apply]; split <;> first | exact Or.inl rfl | exact Or.inr (feedEvents_bad _ _)
  | feedErr => simp only [apply]; split <;> first | exact Or.inl rfl | exact Or.inr (feedEvents_bad _ _)
  | op id hd req => simp only [apply]; split <;> first | exact Or.inl rfl | exact Or.inr (by simp)
  | poll t =>
    simp only [apply]; split
    · exact Or.inr (pollTask_bad w t h)
    · exact Or.inr rfl
  | hold t => simp only [apply]; split <;> exact Or.inr rfl
  | release t => exact Or.inr rfl
  | drop t =>
    cases t with
    | ctx => exact Or.inr rfl
    | op id => exact Or.inr (own_dropOp w id h).frame.bad_eq
    | st id => simp only [apply]; split <;> exact Or.inr (by simp)
  | dropRsp id => simp only [apply]; split <;> exact Or.inr (by simp)
  | stream id => simp only [apply]; split <;> first | exact Or.inl rfl | exact Or.inr (by simp)
  | clone hd h2 => simp only [apply]; split <;> first | exact Or.inl rfl | exact Or.inr rfl
  | dropHandle hd => simp only [apply]; split <;> first | exact Or.inl rfl | exact Or.inr (by simp)

/-! ## every script -/

theorem pick_emit (w : World) (o : Obs) : (w.emit o).pick = w.pick := by
  simp [pick, taskLive]

theorem pick_badScript (w : World) : w.badScript.pick = w.pick := by
  simp [badScript, pick, taskLive, opSt]

/-- a script step ends with the executor quiescent if the context is gone -/
theorem step_quiet (w : World) (e : Ev) (h : OwnInv w)
    (hq : w.ctxDropped = true → w.pick = none) :
    (w.step e).ctxDropped = true → (w.step e).pick = none := by
  unfold step
  split
  · exact hq
  · rename_i hb0
    have h0 := own_emit w (.ev e) h
    have h1 : OwnInv ((w.emit (.ev e)).apply e) := own_apply _ e h0
    have hbc := apply_bad_cases (w.emit (.ev e)) e h0
    generalize (w.emit (.ev e)).apply e = w1 at h1 hbc ⊢
    simp only
    split
    · rename_i hb
      -- the event was refused: nothing but the log changed
      rcases hbc with hbc | hbc
      · subst hbc
        intro hd
        rw [pick_badScript, pick_emit]
        exact hq (by simpa [badScript] using hd)
      · rw [hb] at hbc; simp only [emit_bad] at hbc
        exact absurd hbc.symm hb0
    · have h2 : OwnInv (drain w1.drainFuel w1) := own_drain _ _ h1
      have q2 : (drain w1.drainFuel w1).ctxDropped = true → (drain w1.drainFuel w1).pick = none := by
        intro hd
        exact drain_fuel_quiet w1 h1 (by rw [← drain_ctxDropped _ w1 h1]; exact hd)
      generalize drain w1.drainFuel w1 = w2 at h2 q2 ⊢
      have q3 : (if w2.cfg.sweep = true then drain w2.sweep.drainFuel w2.sweep else w2).ctxDropped = true →
          (if w2.cfg.sweep = true then drain w2.sweep.drainFuel w2.sweep else w2).pick = none := by
        split
        · intro hd
          have hs := own_sweep w2 h2
          exact drain_fuel_quiet _ hs (by rw [← drain_ctxDropped _ _ hs]; exact hd)
        · exact q2
      generalize (if w2.cfg.sweep = true then drain w2.sweep.drainFuel w2.sweep else w2) = w3 at q3 ⊢
      split
      · intro hd; rw [pick_emit]; exact q3 (by simpa using hd)
      · exact q3

theorem steps_quiet (evs : List Ev) (w : World) (h : OwnInv w)
    (hq : w.ctxDropped = true → w.pick = none) :
    (evs.foldl step w).ctxDropped = true → (evs.foldl step w).pick = none := by
  induction evs generalizing w with
  | nil => exact hq
  | cons e t ih => exact ih _ (own_step w e h) (step_quiet w e h hq)

/-- **after every step of every script, if the context is gone the executor is quiescent** -/
theorem quiet_script (cfg : Cfg) (evs : List Ev)
    (hd : (evs.foldl step { cfg := cfg }).ctxDropped = true) : (evs.foldl step { cfg := cfg }).pick = none :=
  steps_quiet evs _ (ownInv_init cfg) (fun hd => by simp at hd) hd

end World
end Poster
