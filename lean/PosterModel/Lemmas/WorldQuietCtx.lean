/-
  Lemmas/WorldQuietCtx.lean — the registration invariant through one poll of the context future
  (`connect()` / `authorize()` / `run()`): the user side is only touched through oneshot / channel effects, and
  when the future stays pending it is parked with both wakers registered (or has flagged itself).
-/
import PosterModel.Lemmas.WorldQuietInv

set_option linter.unusedVariables false
set_option linter.unusedSimpArgs false

namespace Poster
open Framing
namespace World

/-- changes of the fields only the context task reads, while that task is exempt -/
theorem Inv.ctxFrame {E : Task → Prop} {w w' : World} (h : Inv E w) (hE : E .ctx)
    (hwoken : ∀ t, t ∈ w.woken → t ∈ w'.woken)
    (hops : w'.ops = w.ops) (hslots : w'.slots = w.slots) (hsr : w'.slotReg = w.slotReg)
    (hst : w'.streams = w.streams) (hch : w'.chans = w.chans) (hrsps : w'.rsps = w.rsps)
    (hhc : w'.task ≠ .none → w'.hasCtx = true) : Inv E w' :=
  h.frame hwoken hops hslots hsr hst hch hrsps hhc (Or.inr (Or.inl hE))

/-- close a goal `Inv E w'` where `w'` differs from `w` in context-only fields -/
macro "ctxfr" h:ident hE:ident : tactic =>
  `(tactic| (have hh := Inv.hasCtx $h; exact Inv.ctxFrame $h $hE (fun _ x => x) rfl rfl rfl rfl rfl rfl hh))

theorem Inv.runCont {E : Task → Prop} {w w1 : World} (hc : RunCont w w1) (h : Inv E w) (hE : E .ctx) :
    Inv E w1 := by
  cases hc with
  | msg m q w1 hq hr =>
    have e : w1 = (World.runHandler { w with queue := q } (fun wok => w.c.handleMsg m wok)).1 := by rw [hr]
    subst e
    refine Inv.runHandler ?_ _
    ctxfr h hE
  | pkt rx' rd' fr p w1 hq hs hp hd hr =>
    have e : w1 = (World.runHandler { w with rx := rx', reader := rd' }
        (fun wok => w.c.handlePkt w.chanRxAlive p wok)).1 := by rw [hr]
    subst e
    refine Inv.runHandler ?_ _
    ctxfr h hE

theorem Inv.serve {E : Task → Prop} {w wm : World} (hs : Serve w wm) (h : Inv E w) (hE : E .ctx) : Inv E wm := by
  induction hs with
  | refl => exact h
  | step hc _ ih => exact ih (h.runCont hc hE)

theorem taskOk_ctx_of_none {w : World} (h : w.task = .none) : TaskOk w .ctx := fun hne => absurd h hne

/-- the last iteration of a poll of `run()` -/
theorem Inv.runEnd {E : Task → Prop} {w r : World} (he : RunEnd w r) (h : Inv E w) (hE : E .ctx)
    (hok : w.rx.Ok) (ht : w.task = .running true) :
    Inv E r ∧ (Task.ctx ∈ r.woken ∨ TaskOk r .ctx) := by
  have hhc : w.hasCtx = true := h.hasCtx (by rw [ht]; simp)
  cases he with
  | msgExit m q w1 fl hq hr hne =>
    have e : w1 = (World.runHandler { w with queue := q } (fun wok => w.c.handleMsg m wok)).1 := by rw [hr]
    subst e
    refine ⟨Inv.finish (Inv.runHandler ?_ _) _ _, Or.inr (taskOk_ctx_of_none rfl)⟩
    ctxfr h hE
  | closed hq hs => exact ⟨h.finish _ _, Or.inr (taskOk_ctx_of_none rfl)⟩
  | pktExit rx' rd' fr p w1 fl hq hs hp hd hr hne =>
    have e : w1 = (World.runHandler { w with rx := rx', reader := rd' }
        (fun wok => w.c.handlePkt w.chanRxAlive p wok)).1 := by rw [hr]
    subst e
    refine ⟨Inv.finish (Inv.runHandler ?_ _) _ _, Or.inr (taskOk_ctx_of_none rfl)⟩
    ctxfr h hE
  | codec rx' rd' fr hq hs hp hd =>
    refine ⟨Inv.finish ?_ _ _, Or.inr (taskOk_ctx_of_none rfl)⟩
    ctxfr h hE
  | panic rx' rd' fr hq hs hp hd =>
    exact ⟨h.taskNone (fun _ x => x) rfl rfl rfl rfl rfl rfl rfl, Or.inr (taskOk_ctx_of_none rfl)⟩
  | sock rx' rd' hq hs hp =>
    refine ⟨Inv.finish ?_ _ _, Or.inr (taskOk_ctx_of_none rfl)⟩
    ctxfr h hE
  | pending rx' rd' hq hs hp =>
    have hidle : rx'.st = .idle := (pollNext_pending hok hp).2.2
    by_cases hrd : rd' = []
    · rw [if_pos hrd]
      refine ⟨h.ctxFrame hE (fun _ x => x) rfl rfl rfl rfl rfl rfl h.hasCtx, Or.inr ?_⟩
      intro _
      exact ⟨hrd, rfl, hidle, Or.inl ⟨ht, hq, rfl, by simpa [senders] using hs⟩⟩
    · rw [if_neg hrd]
      refine ⟨Inv.wake ?_ _, Or.inl (mem_wake_self _ _)⟩
      ctxfr h hE

/-- a poll of the loop of `run()` -/
theorem Inv.runLoop {E : Task → Prop} {w : World} (h : Inv E w) (hE : E .ctx) (hok : w.rx.Ok)
    (ht : w.task = .running true) :
    Inv E (runLoop w.loopFuel w) ∧
      (Task.ctx ∈ (runLoop w.loopFuel w).woken ∨ TaskOk (runLoop w.loopFuel w) .ctx) := by
  obtain ⟨wm, hs, he⟩ := runLoop_full w hok
  obtain ⟨a1, _, _, _, _, _, _, _, _, _, a11, _⟩ := serve_frame hs
  exact Inv.runEnd he (h.serve hs hE) hE (a11 hok).1 (a1.trans ht)

/-- the wait for the first response of `connect()` / `authorize()` -/
theorem Inv.firstEnd {E : Task → Prop} {w r : World} {call : Call} {t : ConnectTx} {a : AuthTx}
    (he : FirstEnd w call t a r) (h : Inv E w) (hE : E .ctx) (hok : w.rx.Ok) (hhc : w.hasCtx = true) :
    Inv E r ∧ (Task.ctx ∈ r.woken ∨ TaskOk r .ctx) := by
  have fr0 : ∀ (w' : World), (∀ t, t ∈ w.woken → t ∈ w'.woken) → w'.ops = w.ops → w'.slots = w.slots →
      w'.slotReg = w.slotReg → w'.streams = w.streams → w'.chans = w.chans → w'.rsps = w.rsps →
      w'.hasCtx = w.hasCtx → Inv E w' := fun w' a1 a2 a3 a4 a5 a6 a7 a8 =>
    h.ctxFrame hE a1 a2 a3 a4 a5 a6 a7 (fun _ => a8.trans hhc)
  cases he with
  | connack rx' rd' fr k hp hd hk hs => refine ⟨Inv.finish ?_ _ _, Or.inr (taskOk_ctx_of_none rfl)⟩; exact fr0 _ (fun _ x => x) rfl rfl rfl rfl rfl rfl rfl
  | refused rx' rd' fr k hp hd hk => refine ⟨Inv.finish ?_ _ _, Or.inr (taskOk_ctx_of_none rfl)⟩; exact fr0 _ (fun _ x => x) rfl rfl rfl rfl rfl rfl rfl
  | assertSubId rx' rd' fr k hp hd hk hs =>
    refine ⟨Inv.emit ?_ _, Or.inr (taskOk_ctx_of_none rfl)⟩; exact fr0 _ (fun _ x => x) rfl rfl rfl rfl rfl rfl rfl
  | auth rx' rd' fr au hp hd => refine ⟨Inv.finish ?_ _ _, Or.inr (taskOk_ctx_of_none rfl)⟩; exact fr0 _ (fun _ x => x) rfl rfl rfl rfl rfl rfl rfl
  | unexpected rx' rd' fr p hp hd h1 h2 => refine ⟨Inv.finish ?_ _ _, Or.inr (taskOk_ctx_of_none rfl)⟩; exact fr0 _ (fun _ x => x) rfl rfl rfl rfl rfl rfl rfl
  | codec rx' rd' fr hp hd => refine ⟨Inv.finish ?_ _ _, Or.inr (taskOk_ctx_of_none rfl)⟩; exact fr0 _ (fun _ x => x) rfl rfl rfl rfl rfl rfl rfl
  | panic rx' rd' fr hp hd =>
    refine ⟨Inv.emit ?_ _, Or.inr (taskOk_ctx_of_none rfl)⟩; exact fr0 _ (fun _ x => x) rfl rfl rfl rfl rfl rfl rfl
  | sock rx' rd' hp => refine ⟨Inv.finish ?_ _ _, Or.inr (taskOk_ctx_of_none rfl)⟩; exact fr0 _ (fun _ x => x) rfl rfl rfl rfl rfl rfl rfl
  | pending rx' rd' hp =>
    have hidle : rx'.st = .idle := (pollNext_pending hok hp).2.2
    by_cases hrd : rd' = []
    · rw [if_pos hrd]
      refine ⟨fr0 _ (fun _ x => x) rfl rfl rfl rfl rfl rfl rfl, Or.inr ?_⟩
      intro _
      exact ⟨hrd, rfl, hidle, Or.inr ⟨call, t, a, rfl⟩⟩
    · rw [if_neg hrd]
      refine ⟨Inv.wake ?_ _, Or.inl (mem_wake_self _ _)⟩; exact fr0 _ (fun _ x => x) rfl rfl rfl rfl rfl rfl rfl

theorem Inv.foldlWrite {E : Task → Prop} (pkts : List Bytes) {w : World} (h : Inv E w) :
    Inv E (pkts.foldl (fun w p => w.writeBytes p) w) := by
  induction pkts generalizing w with
  | nil => exact h
  | cons p t ih => exact ih (h.writeBytes p)

theorem Inv.connectTail {E : Task → Prop} {w1 : World} (h : Inv E w1) (hE : E .ctx) (hok : w1.rx.Ok)
    (hhc : w1.hasCtx = true) (call : Call) (t : ConnectTx) (a : AuthTx) (pkt : Bytes) :
    Inv E (if w1.canWrite pkt.length then (w1.writeBytes pkt).awaitFirst call t a
      else (w1.writeBytes pkt).finish call (.err .socketClosed)) ∧
    (Task.ctx ∈ (if w1.canWrite pkt.length then (w1.writeBytes pkt).awaitFirst call t a
      else (w1.writeBytes pkt).finish call (.err .socketClosed)).woken ∨
     TaskOk (if w1.canWrite pkt.length then (w1.writeBytes pkt).awaitFirst call t a
      else (w1.writeBytes pkt).finish call (.err .socketClosed)) .ctx) := by
  split
  · exact Inv.firstEnd (awaitFirst_spec _ call t a) (h.writeBytes pkt) hE (by simpa using hok) (by simpa using hhc)
  · exact ⟨(h.writeBytes pkt).finish _ _, Or.inr (taskOk_ctx_of_none rfl)⟩

/-- **one poll of the context future** keeps the invariant (for everybody else) and leaves the future finished,
    flagged, or parked with its wakers registered -/
theorem Inv.pollCtx {E : Task → Prop} {w : World} (h : Inv E w) (hE : E .ctx) (hr : Reach w.rx) :
    Inv E w.pollCtx ∧ (Task.ctx ∈ w.pollCtx.woken ∨ TaskOk w.pollCtx .ctx) := by
  have hok := reach_ok hr
  unfold World.pollCtx
  cases ht : w.task with
  | none => exact ⟨h, Or.inr (taskOk_ctx_of_none ht)⟩
  | connecting call t a started =>
    have hhc : w.hasCtx = true := h.hasCtx (by rw [ht]; simp)
    simp only
    cases started with
    | true =>
      simp only [pollConnect, ↓reduceIte]
      exact Inv.firstEnd (awaitFirst_spec w call t a) h hE hok hhc
    | false =>
      cases call with
      | connect =>
        simp only [pollConnect, Bool.false_eq_true, ↓reduceIte]
        split
        · exact ⟨h.finish _ _, Or.inr (taskOk_ctx_of_none rfl)⟩
        · refine Inv.connectTail ?_ hE ?_ ?_ _ _ _ _
          · exact h.setC _
          · exact hok
          · exact hhc
      | authorize =>
        simp only [pollConnect, Bool.false_eq_true, ↓reduceIte]
        split
        · exact ⟨h.finish _ _, Or.inr (taskOk_ctx_of_none rfl)⟩
        · exact Inv.connectTail h hE hok hhc _ _ _ _
      | run =>
        simp only [pollConnect, Bool.false_eq_true, ↓reduceIte]
        split
        · exact ⟨h.finish _ _, Or.inr (taskOk_ctx_of_none rfl)⟩
        · exact Inv.connectTail h hE hok hhc _ _ _ _
  | running started =>
    have hhc : w.hasCtx = true := h.hasCtx (by rw [ht]; simp)
    simp only
    cases started with
    | true =>
      simp only [pollRun, ↓reduceIte]
      exact h.runLoop hE hok ht
    | false =>
      simp only [pollRun, Bool.false_eq_true, ↓reduceIte]
      have h1 : Inv E (({ w with c := (w.c.resume).1, task := .running true } : World).applyEffs (w.c.resume).2.1) := by
        refine Inv.applyEffs ?_ _
        exact h.ctxFrame hE (fun _ x => x) rfl rfl rfl rfl rfl rfl (fun _ => hhc)
      split
      · obtain ⟨a1, _, _, _, _, a6, _⟩ := foldl_writeBytes_frame (w.c.resume).2.2
          (({ w with c := (w.c.resume).1, task := .running true } : World).applyEffs (w.c.resume).2.1)
        refine (h1.foldlWrite _).runLoop hE ?_ ?_
        · rw [a1]; simpa using hok
        · rw [a6]; simp
      · exact ⟨(h1.writeBytes _).finish _ _, Or.inr (taskOk_ctx_of_none rfl)⟩

end World
end Poster
