/-
  Lemmas/WorldFrame.lean — frame lemmas for the primitive operations of `World` (generated, one per
  operation and untouched field): which fields of the world each operation leaves alone.
  All are `@[simp]`.
-/
import PosterModel.World

set_option linter.unusedVariables false
set_option linter.unusedSimpArgs false

namespace Poster
namespace World
open Framing

/-- `wake` only touches the `woken` list -/
theorem wake_eq (w : World) (t : Task) :
    w.wake t = { w with woken := if t ∈ w.woken then w.woken else w.woken ++ [t] } := by
  unfold wake; split <;> simp [*]

@[simp] theorem emit_cfg (w : World) (o : Obs) : (w.emit o).cfg = w.cfg := by
  rfl
@[simp] theorem emit_hasCtx (w : World) (o : Obs) : (w.emit o).hasCtx = w.hasCtx := by
  rfl
@[simp] theorem emit_ctxDropped (w : World) (o : Obs) : (w.emit o).ctxDropped = w.ctxDropped := by
  rfl
@[simp] theorem emit_task (w : World) (o : Obs) : (w.emit o).task = w.task := by
  rfl
@[simp] theorem emit_c (w : World) (o : Obs) : (w.emit o).c = w.c := by
  rfl
@[simp] theorem emit_rx (w : World) (o : Obs) : (w.emit o).rx = w.rx := by
  rfl
@[simp] theorem emit_reader (w : World) (o : Obs) : (w.emit o).reader = w.reader := by
  rfl
@[simp] theorem emit_readerReg (w : World) (o : Obs) : (w.emit o).readerReg = w.readerReg := by
  rfl
@[simp] theorem emit_queue (w : World) (o : Obs) : (w.emit o).queue = w.queue := by
  rfl
@[simp] theorem emit_queueReg (w : World) (o : Obs) : (w.emit o).queueReg = w.queueReg := by
  rfl
@[simp] theorem emit_handles (w : World) (o : Obs) : (w.emit o).handles = w.handles := by
  rfl
@[simp] theorem emit_ops (w : World) (o : Obs) : (w.emit o).ops = w.ops := by
  rfl
@[simp] theorem emit_slots (w : World) (o : Obs) : (w.emit o).slots = w.slots := by
  rfl
@[simp] theorem emit_slotReg (w : World) (o : Obs) : (w.emit o).slotReg = w.slotReg := by
  rfl
@[simp] theorem emit_chans (w : World) (o : Obs) : (w.emit o).chans = w.chans := by
  rfl
@[simp] theorem emit_rsps (w : World) (o : Obs) : (w.emit o).rsps = w.rsps := by
  rfl
@[simp] theorem emit_streams (w : World) (o : Obs) : (w.emit o).streams = w.streams := by
  rfl
@[simp] theorem emit_pidCtr (w : World) (o : Obs) : (w.emit o).pidCtr = w.pidCtr := by
  rfl
@[simp] theorem emit_subCtr (w : World) (o : Obs) : (w.emit o).subCtr = w.subCtr := by
  rfl
@[simp] theorem emit_woken (w : World) (o : Obs) : (w.emit o).woken = w.woken := by
  rfl
@[simp] theorem emit_held (w : World) (o : Obs) : (w.emit o).held = w.held := by
  rfl
@[simp] theorem emit_written (w : World) (o : Obs) : (w.emit o).written = w.written := by
  rfl
@[simp] theorem emit_wirePend (w : World) (o : Obs) : (w.emit o).wirePend = w.wirePend := by
  rfl
@[simp] theorem emit_bad (w : World) (o : Obs) : (w.emit o).bad = w.bad := by
  rfl
@[simp] theorem emit_slot (w : World) (o : Obs) (s0 : Nat) : (w.emit o).slot s0 = w.slot s0 := by
  simp [slot]
@[simp] theorem emit_chan (w : World) (o : Obs) (c0 : Nat) : (w.emit o).chan c0 = w.chan c0 := by
  simp [chan]
@[simp] theorem emit_opSt (w : World) (o : Obs) (i0 : Nat) : (w.emit o).opSt i0 = w.opSt i0 := by
  simp [opSt]
@[simp] theorem emit_senders (w : World) (o : Obs)  : (w.emit o).senders = w.senders := by
  simp [senders]
@[simp] theorem emit_canWrite (w : World) (o : Obs) (n0 : Nat) : (w.emit o).canWrite n0 = w.canWrite n0 := by
  simp [canWrite]
@[simp] theorem emit_chanRxAlive (w : World) (o : Obs) (c0 : Nat) : (w.emit o).chanRxAlive c0 = w.chanRxAlive c0 := by
  simp [chanRxAlive]
@[simp] theorem wake_cfg (w : World) (t : Task) : (w.wake t).cfg = w.cfg := by
  rw [wake_eq]
@[simp] theorem wake_hasCtx (w : World) (t : Task) : (w.wake t).hasCtx = w.hasCtx := by
  rw [wake_eq]
@[simp] theorem wake_ctxDropped (w : World) (t : Task) : (w.wake t).ctxDropped = w.ctxDropped := by
  rw [wake_eq]
@[simp] theorem wake_task (w : World) (t : Task) : (w.wake t).task = w.task := by
  rw [wake_eq]
@[simp] theorem wake_c (w : World) (t : Task) : (w.wake t).c = w.c := by
  rw [wake_eq]
@[simp] theorem wake_rx (w : World) (t : Task) : (w.wake t).rx = w.rx := by
  rw [wake_eq]
@[simp] theorem wake_reader (w : World) (t : Task) : (w.wake t).reader = w.reader := by
  rw [wake_eq]
@[simp] theorem wake_readerReg (w : World) (t : Task) : (w.wake t).readerReg = w.readerReg := by
  rw [wake_eq]
@[simp] theorem wake_queue (w : World) (t : Task) : (w.wake t).queue = w.queue := by
  rw [wake_eq]
@[simp] theorem wake_queueReg (w : World) (t : Task) : (w.wake t).queueReg = w.queueReg := by
  rw [wake_eq]
@[simp] theorem wake_handles (w : World) (t : Task) : (w.wake t).handles = w.handles := by
  rw [wake_eq]
@[simp] theorem wake_ops (w : World) (t : Task) : (w.wake t).ops = w.ops := by
  rw [wake_eq]
@[simp] theorem wake_slots (w : World) (t : Task) : (w.wake t).slots = w.slots := by
  rw [wake_eq]
@[simp] theorem wake_slotReg (w : World) (t : Task) : (w.wake t).slotReg = w.slotReg := by
  rw [wake_eq]
@[simp] theorem wake_chans (w : World) (t : Task) : (w.wake t).chans = w.chans := by
  rw [wake_eq]
@[simp] theorem wake_rsps (w : World) (t : Task) : (w.wake t).rsps = w.rsps := by
  rw [wake_eq]
@[simp] theorem wake_streams (w : World) (t : Task) : (w.wake t).streams = w.streams := by
  rw [wake_eq]
@[simp] theorem wake_pidCtr (w : World) (t : Task) : (w.wake t).pidCtr = w.pidCtr := by
  rw [wake_eq]
@[simp] theorem wake_subCtr (w : World) (t : Task) : (w.wake t).subCtr = w.subCtr := by
  rw [wake_eq]
@[simp] theorem wake_held (w : World) (t : Task) : (w.wake t).held = w.held := by
  rw [wake_eq]
@[simp] theorem wake_written (w : World) (t : Task) : (w.wake t).written = w.written := by
  rw [wake_eq]
@[simp] theorem wake_wirePend (w : World) (t : Task) : (w.wake t).wirePend = w.wirePend := by
  rw [wake_eq]
@[simp] theorem wake_out (w : World) (t : Task) : (w.wake t).out = w.out := by
  rw [wake_eq]
@[simp] theorem wake_bad (w : World) (t : Task) : (w.wake t).bad = w.bad := by
  rw [wake_eq]
@[simp] theorem wake_slot (w : World) (t : Task) (s0 : Nat) : (w.wake t).slot s0 = w.slot s0 := by
  simp [slot]
@[simp] theorem wake_chan (w : World) (t : Task) (c0 : Nat) : (w.wake t).chan c0 = w.chan c0 := by
  simp [chan]
@[simp] theorem wake_opSt (w : World) (t : Task) (i0 : Nat) : (w.wake t).opSt i0 = w.opSt i0 := by
  simp [opSt]
@[simp] theorem wake_senders (w : World) (t : Task)  : (w.wake t).senders = w.senders := by
  simp [senders]
@[simp] theorem wake_canWrite (w : World) (t : Task) (n0 : Nat) : (w.wake t).canWrite n0 = w.canWrite n0 := by
  simp [canWrite]
@[simp] theorem wake_chanRxAlive (w : World) (t : Task) (c0 : Nat) : (w.wake t).chanRxAlive c0 = w.chanRxAlive c0 := by
  simp [chanRxAlive]
@[simp] theorem unwake_cfg (w : World) (t : Task) : (w.unwake t).cfg = w.cfg := by
  rfl
@[simp] theorem unwake_hasCtx (w : World) (t : Task) : (w.unwake t).hasCtx = w.hasCtx := by
  rfl
@[simp] theorem unwake_ctxDropped (w : World) (t : Task) : (w.unwake t).ctxDropped = w.ctxDropped := by
  rfl
@[simp] theorem unwake_task (w : World) (t : Task) : (w.unwake t).task = w.task := by
  rfl
@[simp] theorem unwake_c (w : World) (t : Task) : (w.unwake t).c = w.c := by
  rfl
@[simp] theorem unwake_rx (w : World) (t : Task) : (w.unwake t).rx = w.rx := by
  rfl
@[simp] theorem unwake_reader (w : World) (t : Task) : (w.unwake t).reader = w.reader := by
  rfl
@[simp] theorem unwake_readerReg (w : World) (t : Task) : (w.unwake t).readerReg = w.readerReg := by
  rfl
@[simp] theorem unwake_queue (w : World) (t : Task) : (w.unwake t).queue = w.queue := by
  rfl
@[simp] theorem unwake_queueReg (w : World) (t : Task) : (w.unwake t).queueReg = w.queueReg := by
  rfl
@[simp] theorem unwake_handles (w : World) (t : Task) : (w.unwake t).handles = w.handles := by
  rfl
@[simp] theorem unwake_ops (w : World) (t : Task) : (w.unwake t).ops = w.ops := by
  rfl
@[simp] theorem unwake_slots (w : World) (t : Task) : (w.unwake t).slots = w.slots := by
  rfl
@[simp] theorem unwake_slotReg (w : World) (t : Task) : (w.unwake t).slotReg = w.slotReg := by
  rfl
@[simp] theorem unwake_chans (w : World) (t : Task) : (w.unwake t).chans = w.chans := by
  rfl
@[simp] theorem unwake_rsps (w : World) (t : Task) : (w.unwake t).rsps = w.rsps := by
  rfl
@[simp] theorem unwake_streams (w : World) (t : Task) : (w.unwake t).streams = w.streams := by
  rfl
@[simp] theorem unwake_pidCtr (w : World) (t : Task) : (w.unwake t).pidCtr = w.pidCtr := by
  rfl
@[simp] theorem unwake_subCtr (w : World) (t : Task) : (w.unwake t).subCtr = w.subCtr := by
  rfl
@[simp] theorem unwake_held (w : World) (t : Task) : (w.unwake t).held = w.held := by
  rfl
@[simp] theorem unwake_written (w : World) (t : Task) : (w.unwake t).written = w.written := by
  rfl
@[simp] theorem unwake_wirePend (w : World) (t : Task) : (w.unwake t).wirePend = w.wirePend := by
  rfl
@[simp] theorem unwake_out (w : World) (t : Task) : (w.unwake t).out = w.out := by
  rfl
@[simp] theorem unwake_bad (w : World) (t : Task) : (w.unwake t).bad = w.bad := by
  rfl
@[simp] theorem unwake_slot (w : World) (t : Task) (s0 : Nat) : (w.unwake t).slot s0 = w.slot s0 := by
  simp [slot]
@[simp] theorem unwake_chan (w : World) (t : Task) (c0 : Nat) : (w.unwake t).chan c0 = w.chan c0 := by
  simp [chan]
@[simp] theorem unwake_opSt (w : World) (t : Task) (i0 : Nat) : (w.unwake t).opSt i0 = w.opSt i0 := by
  simp [opSt]
@[simp] theorem unwake_senders (w : World) (t : Task)  : (w.unwake t).senders = w.senders := by
  simp [senders]
@[simp] theorem unwake_canWrite (w : World) (t : Task) (n0 : Nat) : (w.unwake t).canWrite n0 = w.canWrite n0 := by
  simp [canWrite]
@[simp] theorem unwake_chanRxAlive (w : World) (t : Task) (c0 : Nat) : (w.unwake t).chanRxAlive c0 = w.chanRxAlive c0 := by
  simp [chanRxAlive]
@[simp] theorem setSlot_cfg (w : World) (s : Nat) (v : Slot) : (w.setSlot s v).cfg = w.cfg := by
  rfl
@[simp] theorem setSlot_hasCtx (w : World) (s : Nat) (v : Slot) : (w.setSlot s v).hasCtx = w.hasCtx := by
  rfl
@[simp] theorem setSlot_ctxDropped (w : World) (s : Nat) (v : Slot) : (w.setSlot s v).ctxDropped = w.ctxDropped := by
  rfl
@[simp] theorem setSlot_task (w : World) (s : Nat) (v : Slot) : (w.setSlot s v).task = w.task := by
  rfl
@[simp] theorem setSlot_c (w : World) (s : Nat) (v : Slot) : (w.setSlot s v).c = w.c := by
  rfl
@[simp] theorem setSlot_rx (w : World) (s : Nat) (v : Slot) : (w.setSlot s v).rx = w.rx := by
  rfl
@[simp] theorem setSlot_reader (w : World) (s : Nat) (v : Slot) : (w.setSlot s v).reader = w.reader := by
  rfl
@[simp] theorem setSlot_readerReg (w : World) (s : Nat) (v : Slot) : (w.setSlot s v).readerReg = w.readerReg := by
  rfl
@[simp] theorem setSlot_queue (w : World) (s : Nat) (v : Slot) : (w.setSlot s v).queue = w.queue := by
  rfl
@[simp] theorem setSlot_queueReg (w : World) (s : Nat) (v : Slot) : (w.setSlot s v).queueReg = w.queueReg := by
  rfl
@[simp] theorem setSlot_handles (w : World) (s : Nat) (v : Slot) : (w.setSlot s v).handles = w.handles := by
  rfl
@[simp] theorem setSlot_ops (w : World) (s : Nat) (v : Slot) : (w.setSlot s v).ops = w.ops := by
  rfl
@[simp] theorem setSlot_slotReg (w : World) (s : Nat) (v : Slot) : (w.setSlot s v).slotReg = w.slotReg := by
  rfl
@[simp] theorem setSlot_chans (w : World) (s : Nat) (v : Slot) : (w.setSlot s v).chans = w.chans := by
  rfl
@[simp] theorem setSlot_rsps (w : World) (s : Nat) (v : Slot) : (w.setSlot s v).rsps = w.rsps := by
  rfl
@[simp] theorem setSlot_streams (w : World) (s : Nat) (v : Slot) : (w.setSlot s v).streams = w.streams := by
  rfl
@[simp] theorem setSlot_pidCtr (w : World) (s : Nat) (v : Slot) : (w.setSlot s v).pidCtr = w.pidCtr := by
  rfl
@[simp] theorem setSlot_subCtr (w : World) (s : Nat) (v : Slot) : (w.setSlot s v).subCtr = w.subCtr := by
  rfl
@[simp] theorem setSlot_woken (w : World) (s : Nat) (v : Slot) : (w.setSlot s v).woken = w.woken := by
  rfl
@[simp] theorem setSlot_held (w : World) (s : Nat) (v : Slot) : (w.setSlot s v).held = w.held := by
  rfl
@[simp] theorem setSlot_written (w : World) (s : Nat) (v : Slot) : (w.setSlot s v).written = w.written := by
  rfl
@[simp] theorem setSlot_wirePend (w : World) (s : Nat) (v : Slot) : (w.setSlot s v).wirePend = w.wirePend := by
  rfl
@[simp] theorem setSlot_out (w : World) (s : Nat) (v : Slot) : (w.setSlot s v).out = w.out := by
  rfl
@[simp] theorem setSlot_bad (w : World) (s : Nat) (v : Slot) : (w.setSlot s v).bad = w.bad := by
  rfl
@[simp] theorem setSlot_chan (w : World) (s : Nat) (v : Slot) (c0 : Nat) : (w.setSlot s v).chan c0 = w.chan c0 := by
  simp [chan]
@[simp] theorem setSlot_opSt (w : World) (s : Nat) (v : Slot) (i0 : Nat) : (w.setSlot s v).opSt i0 = w.opSt i0 := by
  simp [opSt]
@[simp] theorem setSlot_senders (w : World) (s : Nat) (v : Slot)  : (w.setSlot s v).senders = w.senders := by
  simp [senders]
@[simp] theorem setSlot_canWrite (w : World) (s : Nat) (v : Slot) (n0 : Nat) : (w.setSlot s v).canWrite n0 = w.canWrite n0 := by
  simp [canWrite]
@[simp] theorem setSlot_chanRxAlive (w : World) (s : Nat) (v : Slot) (c0 : Nat) : (w.setSlot s v).chanRxAlive c0 = w.chanRxAlive c0 := by
  simp [chanRxAlive]
@[simp] theorem setChan_cfg (w : World) (c : Nat) (v : Chan) : (w.setChan c v).cfg = w.cfg := by
  rfl
@[simp] theorem setChan_hasCtx (w : World) (c : Nat) (v : Chan) : (w.setChan c v).hasCtx = w.hasCtx := by
  rfl
@[simp] theorem setChan_ctxDropped (w : World) (c : Nat) (v : Chan) : (w.setChan c v).ctxDropped = w.ctxDropped := by
  rfl
@[simp] theorem setChan_task (w : World) (c : Nat) (v : Chan) : (w.setChan c v).task = w.task := by
  rfl
@[simp] theorem setChan_c (w : World) (c : Nat) (v : Chan) : (w.setChan c v).c = w.c := by
  rfl
@[simp] theorem setChan_rx (w : World) (c : Nat) (v : Chan) : (w.setChan c v).rx = w.rx := by
  rfl
@[simp] theorem setChan_reader (w : World) (c : Nat) (v : Chan) : (w.setChan c v).reader = w.reader := by
  rfl
@[simp] theorem setChan_readerReg (w : World) (c : Nat) (v : Chan) : (w.setChan c v).readerReg = w.readerReg := by
  rfl
@[simp] theorem setChan_queue (w : World) (c : Nat) (v : Chan) : (w.setChan c v).queue = w.queue := by
  rfl
@[simp] theorem setChan_queueReg (w : World) (c : Nat) (v : Chan) : (w.setChan c v).queueReg = w.queueReg := by
  rfl
@[simp] theorem setChan_handles (w : World) (c : Nat) (v : Chan) : (w.setChan c v).handles = w.handles := by
  rfl
@[simp] theorem setChan_ops (w : World) (c : Nat) (v : Chan) : (w.setChan c v).ops = w.ops := by
  rfl
@[simp] theorem setChan_slots (w : World) (c : Nat) (v : Chan) : (w.setChan c v).slots = w.slots := by
  rfl
@[simp] theorem setChan_slotReg (w : World) (c : Nat) (v : Chan) : (w.setChan c v).slotReg = w.slotReg := by
  rfl
@[simp] theorem setChan_rsps (w : World) (c : Nat) (v : Chan) : (w.setChan c v).rsps = w.rsps := by
  rfl
@[simp] theorem setChan_streams (w : World) (c : Nat) (v : Chan) : (w.setChan c v).streams = w.streams := by
  rfl
@[simp] theorem setChan_pidCtr (w : World) (c : Nat) (v : Chan) : (w.setChan c v).pidCtr = w.pidCtr := by
  rfl
@[simp] theorem setChan_subCtr (w : World) (c : Nat) (v : Chan) : (w.setChan c v).subCtr = w.subCtr := by
  rfl
@[simp] theorem setChan_woken (w : World) (c : Nat) (v : Chan) : (w.setChan c v).woken = w.woken := by
  rfl
@[simp] theorem setChan_held (w : World) (c : Nat) (v : Chan) : (w.setChan c v).held = w.held := by
  rfl
@[simp] theorem setChan_written (w : World) (c : Nat) (v : Chan) : (w.setChan c v).written = w.written := by
  rfl
@[simp] theorem setChan_wirePend (w : World) (c : Nat) (v : Chan) : (w.setChan c v).wirePend = w.wirePend := by
  rfl
@[simp] theorem setChan_out (w : World) (c : Nat) (v : Chan) : (w.setChan c v).out = w.out := by
  rfl
@[simp] theorem setChan_bad (w : World) (c : Nat) (v : Chan) : (w.setChan c v).bad = w.bad := by
  rfl
@[simp] theorem setChan_slot (w : World) (c : Nat) (v : Chan) (s0 : Nat) : (w.setChan c v).slot s0 = w.slot s0 := by
  simp [slot]
@[simp] theorem setChan_opSt (w : World) (c : Nat) (v : Chan) (i0 : Nat) : (w.setChan c v).opSt i0 = w.opSt i0 := by
  simp [opSt]
@[simp] theorem setChan_senders (w : World) (c : Nat) (v : Chan)  : (w.setChan c v).senders = w.senders := by
  simp [senders]
@[simp] theorem setChan_canWrite (w : World) (c : Nat) (v : Chan) (n0 : Nat) : (w.setChan c v).canWrite n0 = w.canWrite n0 := by
  simp [canWrite]
@[simp] theorem dropChanRx_cfg (w : World) (c : Nat) : (w.dropChanRx c).cfg = w.cfg := by
  rfl
@[simp] theorem dropChanRx_hasCtx (w : World) (c : Nat) : (w.dropChanRx c).hasCtx = w.hasCtx := by
  rfl
@[simp] theorem dropChanRx_ctxDropped (w : World) (c : Nat) : (w.dropChanRx c).ctxDropped = w.ctxDropped := by
  rfl
@[simp] theorem dropChanRx_task (w : World) (c : Nat) : (w.dropChanRx c).task = w.task := by
  rfl
@[simp] theorem dropChanRx_c (w : World) (c : Nat) : (w.dropChanRx c).c = w.c := by
  rfl
@[simp] theorem dropChanRx_rx (w : World) (c : Nat) : (w.dropChanRx c).rx = w.rx := by
  rfl
@[simp] theorem dropChanRx_reader (w : World) (c : Nat) : (w.dropChanRx c).reader = w.reader := by
  rfl
@[simp] theorem dropChanRx_readerReg (w : World) (c : Nat) : (w.dropChanRx c).readerReg = w.readerReg := by
  rfl
@[simp] theorem dropChanRx_queue (w : World) (c : Nat) : (w.dropChanRx c).queue = w.queue := by
  rfl
@[simp] theorem dropChanRx_queueReg (w : World) (c : Nat) : (w.dropChanRx c).queueReg = w.queueReg := by
  rfl
@[simp] theorem dropChanRx_handles (w : World) (c : Nat) : (w.dropChanRx c).handles = w.handles := by
  rfl
@[simp] theorem dropChanRx_ops (w : World) (c : Nat) : (w.dropChanRx c).ops = w.ops := by
  rfl
@[simp] theorem dropChanRx_slots (w : World) (c : Nat) : (w.dropChanRx c).slots = w.slots := by
  rfl
@[simp] theorem dropChanRx_slotReg (w : World) (c : Nat) : (w.dropChanRx c).slotReg = w.slotReg := by
  rfl
@[simp] theorem dropChanRx_rsps (w : World) (c : Nat) : (w.dropChanRx c).rsps = w.rsps := by
  rfl
@[simp] theorem dropChanRx_streams (w : World) (c : Nat) : (w.dropChanRx c).streams = w.streams := by
  rfl
@[simp] theorem dropChanRx_pidCtr (w : World) (c : Nat) : (w.dropChanRx c).pidCtr = w.pidCtr := by
  rfl
@[simp] theorem dropChanRx_subCtr (w : World) (c : Nat) : (w.dropChanRx c).subCtr = w.subCtr := by
  rfl
@[simp] theorem dropChanRx_woken (w : World) (c : Nat) : (w.dropChanRx c).woken = w.woken := by
  rfl
@[simp] theorem dropChanRx_held (w : World) (c : Nat) : (w.dropChanRx c).held = w.held := by
  rfl
@[simp] theorem dropChanRx_written (w : World) (c : Nat) : (w.dropChanRx c).written = w.written := by
  rfl
@[simp] theorem dropChanRx_wirePend (w : World) (c : Nat) : (w.dropChanRx c).wirePend = w.wirePend := by
  rfl
@[simp] theorem dropChanRx_out (w : World) (c : Nat) : (w.dropChanRx c).out = w.out := by
  rfl
@[simp] theorem dropChanRx_bad (w : World) (c : Nat) : (w.dropChanRx c).bad = w.bad := by
  rfl
@[simp] theorem dropChanRx_slot (w : World) (c : Nat) (s0 : Nat) : (w.dropChanRx c).slot s0 = w.slot s0 := by
  simp [slot]
@[simp] theorem dropChanRx_opSt (w : World) (c : Nat) (i0 : Nat) : (w.dropChanRx c).opSt i0 = w.opSt i0 := by
  simp [opSt]
@[simp] theorem dropChanRx_senders (w : World) (c : Nat)  : (w.dropChanRx c).senders = w.senders := by
  simp [senders]
@[simp] theorem dropChanRx_canWrite (w : World) (c : Nat) (n0 : Nat) : (w.dropChanRx c).canWrite n0 = w.canWrite n0 := by
  simp [canWrite]
@[simp] theorem clearSlot_cfg (w : World) (s : Nat) : (w.clearSlot s).cfg = w.cfg := by
  rfl
@[simp] theorem clearSlot_hasCtx (w : World) (s : Nat) : (w.clearSlot s).hasCtx = w.hasCtx := by
  rfl
@[simp] theorem clearSlot_ctxDropped (w : World) (s : Nat) : (w.clearSlot s).ctxDropped = w.ctxDropped := by
  rfl
@[simp] theorem clearSlot_task (w : World) (s : Nat) : (w.clearSlot s).task = w.task := by
  rfl
@[simp] theorem clearSlot_c (w : World) (s : Nat) : (w.clearSlot s).c = w.c := by
  rfl
@[simp] theorem clearSlot_rx (w : World) (s : Nat) : (w.clearSlot s).rx = w.rx := by
  rfl
@[simp] theorem clearSlot_reader (w : World) (s : Nat) : (w.clearSlot s).reader = w.reader := by
  rfl
@[simp] theorem clearSlot_readerReg (w : World) (s : Nat) : (w.clearSlot s).readerReg = w.readerReg := by
  rfl
@[simp] theorem clearSlot_queue (w : World) (s : Nat) : (w.clearSlot s).queue = w.queue := by
  rfl
@[simp] theorem clearSlot_queueReg (w : World) (s : Nat) : (w.clearSlot s).queueReg = w.queueReg := by
  rfl
@[simp] theorem clearSlot_handles (w : World) (s : Nat) : (w.clearSlot s).handles = w.handles := by
  rfl
@[simp] theorem clearSlot_ops (w : World) (s : Nat) : (w.clearSlot s).ops = w.ops := by
  rfl
@[simp] theorem clearSlot_chans (w : World) (s : Nat) : (w.clearSlot s).chans = w.chans := by
  rfl
@[simp] theorem clearSlot_rsps (w : World) (s : Nat) : (w.clearSlot s).rsps = w.rsps := by
  rfl
@[simp] theorem clearSlot_streams (w : World) (s : Nat) : (w.clearSlot s).streams = w.streams := by
  rfl
@[simp] theorem clearSlot_pidCtr (w : World) (s : Nat) : (w.clearSlot s).pidCtr = w.pidCtr := by
  rfl
@[simp] theorem clearSlot_subCtr (w : World) (s : Nat) : (w.clearSlot s).subCtr = w.subCtr := by
  rfl
@[simp] theorem clearSlot_woken (w : World) (s : Nat) : (w.clearSlot s).woken = w.woken := by
  rfl
@[simp] theorem clearSlot_held (w : World) (s : Nat) : (w.clearSlot s).held = w.held := by
  rfl
@[simp] theorem clearSlot_written (w : World) (s : Nat) : (w.clearSlot s).written = w.written := by
  rfl
@[simp] theorem clearSlot_wirePend (w : World) (s : Nat) : (w.clearSlot s).wirePend = w.wirePend := by
  rfl
@[simp] theorem clearSlot_out (w : World) (s : Nat) : (w.clearSlot s).out = w.out := by
  rfl
@[simp] theorem clearSlot_bad (w : World) (s : Nat) : (w.clearSlot s).bad = w.bad := by
  rfl
@[simp] theorem clearSlot_chan (w : World) (s : Nat) (c0 : Nat) : (w.clearSlot s).chan c0 = w.chan c0 := by
  simp [chan]
@[simp] theorem clearSlot_opSt (w : World) (s : Nat) (i0 : Nat) : (w.clearSlot s).opSt i0 = w.opSt i0 := by
  simp [opSt]
@[simp] theorem clearSlot_senders (w : World) (s : Nat)  : (w.clearSlot s).senders = w.senders := by
  simp [senders]
@[simp] theorem clearSlot_canWrite (w : World) (s : Nat) (n0 : Nat) : (w.clearSlot s).canWrite n0 = w.canWrite n0 := by
  simp [canWrite]
@[simp] theorem clearSlot_chanRxAlive (w : World) (s : Nat) (c0 : Nat) : (w.clearSlot s).chanRxAlive c0 = w.chanRxAlive c0 := by
  simp [chanRxAlive]
@[simp] theorem senderGone_cfg (w : World)  : w.senderGone.cfg = w.cfg := by
  simp only [senderGone, wake_eq, emit, setSlot, setChan, slot, chan]; repeat' split
  all_goals rfl
@[simp] theorem senderGone_hasCtx (w : World)  : w.senderGone.hasCtx = w.hasCtx := by
  simp only [senderGone, wake_eq, emit, setSlot, setChan, slot, chan]; repeat' split
  all_goals rfl
@[simp] theorem senderGone_ctxDropped (w : World)  : w.senderGone.ctxDropped = w.ctxDropped := by
  simp only [senderGone, wake_eq, emit, setSlot, setChan, slot, chan]; repeat' split
  all_goals rfl
@[simp] theorem senderGone_task (w : World)  : w.senderGone.task = w.task := by
  simp only [senderGone, wake_eq, emit, setSlot, setChan, slot, chan]; repeat' split
  all_goals rfl
@[simp] theorem senderGone_c (w : World)  : w.senderGone.c = w.c := by
  simp only [senderGone, wake_eq, emit, setSlot, setChan, slot, chan]; repeat' split
  all_goals rfl
@[simp] theorem senderGone_rx (w : World)  : w.senderGone.rx = w.rx := by
  simp only [senderGone, wake_eq, emit, setSlot, setChan, slot, chan]; repeat' split
  all_goals rfl
@[simp] theorem senderGone_reader (w : World)  : w.senderGone.reader = w.reader := by
  simp only [senderGone, wake_eq, emit, setSlot, setChan, slot, chan]; repeat' split
  all_goals rfl
@[simp] theorem senderGone_readerReg (w : World)  : w.senderGone.readerReg = w.readerReg := by
  simp only [senderGone, wake_eq, emit, setSlot, setChan, slot, chan]; repeat' split
  all_goals rfl
@[simp] theorem senderGone_queue (w : World)  : w.senderGone.queue = w.queue := by
  simp only [senderGone, wake_eq, emit, setSlot, setChan, slot, chan]; repeat' split
  all_goals rfl
@[simp] theorem senderGone_handles (w : World)  : w.senderGone.handles = w.handles := by
  simp only [senderGone, wake_eq, emit, setSlot, setChan, slot, chan]; repeat' split
  all_goals rfl
@[simp] theorem senderGone_ops (w : World)  : w.senderGone.ops = w.ops := by
  simp only [senderGone, wake_eq, emit, setSlot, setChan, slot, chan]; repeat' split
  all_goals rfl
@[simp] theorem senderGone_slots (w : World)  : w.senderGone.slots = w.slots := by
  simp only [senderGone, wake_eq, emit, setSlot, setChan, slot, chan]; repeat' split
  all_goals rfl
@[simp] theorem senderGone_slotReg (w : World)  : w.senderGone.slotReg = w.slotReg := by
  simp only [senderGone, wake_eq, emit, setSlot, setChan, slot, chan]; repeat' split
  all_goals rfl
@[simp] theorem senderGone_chans (w : World)  : w.senderGone.chans = w.chans := by
  simp only [senderGone, wake_eq, emit, setSlot, setChan, slot, chan]; repeat' split
  all_goals rfl
@[simp] theorem senderGone_rsps (w : World)  : w.senderGone.rsps = w.rsps := by
  simp only [senderGone, wake_eq, emit, setSlot, setChan, slot, chan]; repeat' split
  all_goals rfl
@[simp] theorem senderGone_streams (w : World)  : w.senderGone.streams = w.streams := by
  simp only [senderGone, wake_eq, emit, setSlot, setChan, slot, chan]; repeat' split
  all_goals rfl
@[simp] theorem senderGone_pidCtr (w : World)  : w.senderGone.pidCtr = w.pidCtr := by
  simp only [senderGone, wake_eq, emit, setSlot, setChan, slot, chan]; repeat' split
  all_goals rfl
@[simp] theorem senderGone_subCtr (w : World)  : w.senderGone.subCtr = w.subCtr := by
  simp only [senderGone, wake_eq, emit, setSlot, setChan, slot, chan]; repeat' split
  all_goals rfl
@[simp] theorem senderGone_held (w : World)  : w.senderGone.held = w.held := by
  simp only [senderGone, wake_eq, emit, setSlot, setChan, slot, chan]; repeat' split
  all_goals rfl
@[simp] theorem senderGone_written (w : World)  : w.senderGone.written = w.written := by
  simp only [senderGone, wake_eq, emit, setSlot, setChan, slot, chan]; repeat' split
  all_goals rfl
@[simp] theorem senderGone_wirePend (w : World)  : w.senderGone.wirePend = w.wirePend := by
  simp only [senderGone, wake_eq, emit, setSlot, setChan, slot, chan]; repeat' split
  all_goals rfl
@[simp] theorem senderGone_out (w : World)  : w.senderGone.out = w.out := by
  simp only [senderGone, wake_eq, emit, setSlot, setChan, slot, chan]; repeat' split
  all_goals rfl
@[simp] theorem senderGone_bad (w : World)  : w.senderGone.bad = w.bad := by
  simp only [senderGone, wake_eq, emit, setSlot, setChan, slot, chan]; repeat' split
  all_goals rfl
@[simp] theorem senderGone_slot (w : World)  (s0 : Nat) : w.senderGone.slot s0 = w.slot s0 := by
  simp [slot]
@[simp] theorem senderGone_chan (w : World)  (c0 : Nat) : w.senderGone.chan c0 = w.chan c0 := by
  simp [chan]
@[simp] theorem senderGone_opSt (w : World)  (i0 : Nat) : w.senderGone.opSt i0 = w.opSt i0 := by
  simp [opSt]
@[simp] theorem senderGone_senders (w : World)   : w.senderGone.senders = w.senders := by
  simp [senders]
@[simp] theorem senderGone_canWrite (w : World)  (n0 : Nat) : w.senderGone.canWrite n0 = w.canWrite n0 := by
  simp [canWrite]
@[simp] theorem senderGone_chanRxAlive (w : World)  (c0 : Nat) : w.senderGone.chanRxAlive c0 = w.chanRxAlive c0 := by
  simp [chanRxAlive]
@[simp] theorem flushWire_cfg (w : World)  : w.flushWire.cfg = w.cfg := by
  simp only [flushWire, wake_eq, emit, setSlot, setChan, slot, chan]; repeat' split
  all_goals rfl
@[simp] theorem flushWire_hasCtx (w : World)  : w.flushWire.hasCtx = w.hasCtx := by
  simp only [flushWire, wake_eq, emit, setSlot, setChan, slot, chan]; repeat' split
  all_goals rfl
@[simp] theorem flushWire_ctxDropped (w : World)  : w.flushWire.ctxDropped = w.ctxDropped := by
  simp only [flushWire, wake_eq, emit, setSlot, setChan, slot, chan]; repeat' split
  all_goals rfl
@[simp] theorem flushWire_task (w : World)  : w.flushWire.task = w.task := by
  simp only [flushWire, wake_eq, emit, setSlot, setChan, slot, chan]; repeat' split
  all_goals rfl
@[simp] theorem flushWire_c (w : World)  : w.flushWire.c = w.c := by
  simp only [flushWire, wake_eq, emit, setSlot, setChan, slot, chan]; repeat' split
  all_goals rfl
@[simp] theorem flushWire_rx (w : World)  : w.flushWire.rx = w.rx := by
  simp only [flushWire, wake_eq, emit, setSlot, setChan, slot, chan]; repeat' split
  all_goals rfl
@[simp] theorem flushWire_reader (w : World)  : w.flushWire.reader = w.reader := by
  simp only [flushWire, wake_eq, emit, setSlot, setChan, slot, chan]; repeat' split
  all_goals rfl
@[simp] theorem flushWire_readerReg (w : World)  : w.flushWire.readerReg = w.readerReg := by
  simp only [flushWire, wake_eq, emit, setSlot, setChan, slot, chan]; repeat' split
  all_goals rfl
@[simp] theorem flushWire_queue (w : World)  : w.flushWire.queue = w.queue := by
  simp only [flushWire, wake_eq, emit, setSlot, setChan, slot, chan]; repeat' split
  all_goals rfl
@[simp] theorem flushWire_queueReg (w : World)  : w.flushWire.queueReg = w.queueReg := by
  simp only [flushWire, wake_eq, emit, setSlot, setChan, slot, chan]; repeat' split
  all_goals rfl
@[simp] theorem flushWire_handles (w : World)  : w.flushWire.handles = w.handles := by
  simp only [flushWire, wake_eq, emit, setSlot, setChan, slot, chan]; repeat' split
  all_goals rfl
@[simp] theorem flushWire_ops (w : World)  : w.flushWire.ops = w.ops := by
  simp only [flushWire, wake_eq, emit, setSlot, setChan, slot, chan]; repeat' split
  all_goals rfl
@[simp] theorem flushWire_slots (w : World)  : w.flushWire.slots = w.slots := by
  simp only [flushWire, wake_eq, emit, setSlot, setChan, slot, chan]; repeat' split
  all_goals rfl
@[simp] theorem flushWire_slotReg (w : World)  : w.flushWire.slotReg = w.slotReg := by
  simp only [flushWire, wake_eq, emit, setSlot, setChan, slot, chan]; repeat' split
  all_goals rfl
@[simp] theorem flushWire_chans (w : World)  : w.flushWire.chans = w.chans := by
  simp only [flushWire, wake_eq, emit, setSlot, setChan, slot, chan]; repeat' split
  all_goals rfl
@[simp] theorem flushWire_rsps (w : World)  : w.flushWire.rsps = w.rsps := by
  simp only [flushWire, wake_eq, emit, setSlot, setChan, slot, chan]; repeat' split
  all_goals rfl
@[simp] theorem flushWire_streams (w : World)  : w.flushWire.streams = w.streams := by
  simp only [flushWire, wake_eq, emit, setSlot, setChan, slot, chan]; repeat' split
  all_goals rfl
@[simp] theorem flushWire_pidCtr (w : World)  : w.flushWire.pidCtr = w.pidCtr := by
  simp only [flushWire, wake_eq, emit, setSlot, setChan, slot, chan]; repeat' split
  all_goals rfl
@[simp] theorem flushWire_subCtr (w : World)  : w.flushWire.subCtr = w.subCtr := by
  simp only [flushWire, wake_eq, emit, setSlot, setChan, slot, chan]; repeat' split
  all_goals rfl
@[simp] theorem flushWire_woken (w : World)  : w.flushWire.woken = w.woken := by
  simp only [flushWire, wake_eq, emit, setSlot, setChan, slot, chan]; repeat' split
  all_goals rfl
@[simp] theorem flushWire_held (w : World)  : w.flushWire.held = w.held := by
  simp only [flushWire, wake_eq, emit, setSlot, setChan, slot, chan]; repeat' split
  all_goals rfl
@[simp] theorem flushWire_written (w : World)  : w.flushWire.written = w.written := by
  simp only [flushWire, wake_eq, emit, setSlot, setChan, slot, chan]; repeat' split
  all_goals rfl
@[simp] theorem flushWire_bad (w : World)  : w.flushWire.bad = w.bad := by
  simp only [flushWire, wake_eq, emit, setSlot, setChan, slot, chan]; repeat' split
  all_goals rfl
@[simp] theorem flushWire_slot (w : World)  (s0 : Nat) : w.flushWire.slot s0 = w.slot s0 := by
  simp [slot]
@[simp] theorem flushWire_chan (w : World)  (c0 : Nat) : w.flushWire.chan c0 = w.chan c0 := by
  simp [chan]
@[simp] theorem flushWire_opSt (w : World)  (i0 : Nat) : w.flushWire.opSt i0 = w.opSt i0 := by
  simp [opSt]
@[simp] theorem flushWire_senders (w : World)   : w.flushWire.senders = w.senders := by
  simp [senders]
@[simp] theorem flushWire_canWrite (w : World)  (n0 : Nat) : w.flushWire.canWrite n0 = w.canWrite n0 := by
  simp [canWrite]
@[simp] theorem flushWire_chanRxAlive (w : World)  (c0 : Nat) : w.flushWire.chanRxAlive c0 = w.chanRxAlive c0 := by
  simp [chanRxAlive]
@[simp] theorem writeBytes_cfg (w : World) (bs : Bytes) : (w.writeBytes bs).cfg = w.cfg := by
  simp only [writeBytes]; split <;> simp
@[simp] theorem writeBytes_hasCtx (w : World) (bs : Bytes) : (w.writeBytes bs).hasCtx = w.hasCtx := by
  simp only [writeBytes]; split <;> simp
@[simp] theorem writeBytes_ctxDropped (w : World) (bs : Bytes) : (w.writeBytes bs).ctxDropped = w.ctxDropped := by
  simp only [writeBytes]; split <;> simp
@[simp] theorem writeBytes_task (w : World) (bs : Bytes) : (w.writeBytes bs).task = w.task := by
  simp only [writeBytes]; split <;> simp
@[simp] theorem writeBytes_c (w : World) (bs : Bytes) : (w.writeBytes bs).c = w.c := by
  simp only [writeBytes]; split <;> simp
@[simp] theorem writeBytes_rx (w : World) (bs : Bytes) : (w.writeBytes bs).rx = w.rx := by
  simp only [writeBytes]; split <;> simp
@[simp] theorem writeBytes_reader (w : World) (bs : Bytes) : (w.writeBytes bs).reader = w.reader := by
  simp only [writeBytes]; split <;> simp
@[simp] theorem writeBytes_readerReg (w : World) (bs : Bytes) : (w.writeBytes bs).readerReg = w.readerReg := by
  simp only [writeBytes]; split <;> simp
@[simp] theorem writeBytes_queue (w : World) (bs : Bytes) : (w.writeBytes bs).queue = w.queue := by
  simp only [writeBytes]; split <;> simp
@[simp] theorem writeBytes_queueReg (w : World) (bs : Bytes) : (w.writeBytes bs).queueReg = w.queueReg := by
  simp only [writeBytes]; split <;> simp
@[simp] theorem writeBytes_handles (w : World) (bs : Bytes) : (w.writeBytes bs).handles = w.handles := by
  simp only [writeBytes]; split <;> simp
@[simp] theorem writeBytes_ops (w : World) (bs : Bytes) : (w.writeBytes bs).ops = w.ops := by
  simp only [writeBytes]; split <;> simp
@[simp] theorem writeBytes_slots (w : World) (bs : Bytes) : (w.writeBytes bs).slots = w.slots := by
  simp only [writeBytes]; split <;> simp
@[simp] theorem writeBytes_slotReg (w : World) (bs : Bytes) : (w.writeBytes bs).slotReg = w.slotReg := by
  simp only [writeBytes]; split <;> simp
@[simp] theorem writeBytes_chans (w : World) (bs : Bytes) : (w.writeBytes bs).chans = w.chans := by
  simp only [writeBytes]; split <;> simp
@[simp] theorem writeBytes_rsps (w : World) (bs : Bytes) : (w.writeBytes bs).rsps = w.rsps := by
  simp only [writeBytes]; split <;> simp
@[simp] theorem writeBytes_streams (w : World) (bs : Bytes) : (w.writeBytes bs).streams = w.streams := by
  simp only [writeBytes]; split <;> simp
@[simp] theorem writeBytes_pidCtr (w : World) (bs : Bytes) : (w.writeBytes bs).pidCtr = w.pidCtr := by
  simp only [writeBytes]; split <;> simp
@[simp] theorem writeBytes_subCtr (w : World) (bs : Bytes) : (w.writeBytes bs).subCtr = w.subCtr := by
  simp only [writeBytes]; split <;> simp
@[simp] theorem writeBytes_woken (w : World) (bs : Bytes) : (w.writeBytes bs).woken = w.woken := by
  simp only [writeBytes]; split <;> simp
@[simp] theorem writeBytes_held (w : World) (bs : Bytes) : (w.writeBytes bs).held = w.held := by
  simp only [writeBytes]; split <;> simp
@[simp] theorem writeBytes_bad (w : World) (bs : Bytes) : (w.writeBytes bs).bad = w.bad := by
  simp only [writeBytes]; split <;> simp
@[simp] theorem writeBytes_slot (w : World) (bs : Bytes) (s0 : Nat) : (w.writeBytes bs).slot s0 = w.slot s0 := by
  simp [slot]
@[simp] theorem writeBytes_chan (w : World) (bs : Bytes) (c0 : Nat) : (w.writeBytes bs).chan c0 = w.chan c0 := by
  simp [chan]
@[simp] theorem writeBytes_opSt (w : World) (bs : Bytes) (i0 : Nat) : (w.writeBytes bs).opSt i0 = w.opSt i0 := by
  simp [opSt]
@[simp] theorem writeBytes_senders (w : World) (bs : Bytes)  : (w.writeBytes bs).senders = w.senders := by
  simp [senders]
@[simp] theorem writeBytes_chanRxAlive (w : World) (bs : Bytes) (c0 : Nat) : (w.writeBytes bs).chanRxAlive c0 = w.chanRxAlive c0 := by
  simp [chanRxAlive]
@[simp] theorem sendSlot_cfg (w : World) (s : Nat) (v : SlotVal) : (w.sendSlot s v).cfg = w.cfg := by
  simp only [sendSlot, wake_eq, emit, setSlot, setChan, slot, chan]; repeat' split
  all_goals rfl
@[simp] theorem sendSlot_hasCtx (w : World) (s : Nat) (v : SlotVal) : (w.sendSlot s v).hasCtx = w.hasCtx := by
  simp only [sendSlot, wake_eq, emit, setSlot, setChan, slot, chan]; repeat' split
  all_goals rfl
@[simp] theorem sendSlot_ctxDropped (w : World) (s : Nat) (v : SlotVal) : (w.sendSlot s v).ctxDropped = w.ctxDropped := by
  simp only [sendSlot, wake_eq, emit, setSlot, setChan, slot, chan]; repeat' split
  all_goals rfl
@[simp] theorem sendSlot_task (w : World) (s : Nat) (v : SlotVal) : (w.sendSlot s v).task = w.task := by
  simp only [sendSlot, wake_eq, emit, setSlot, setChan, slot, chan]; repeat' split
  all_goals rfl
@[simp] theorem sendSlot_c (w : World) (s : Nat) (v : SlotVal) : (w.sendSlot s v).c = w.c := by
  simp only [sendSlot, wake_eq, emit, setSlot, setChan, slot, chan]; repeat' split
  all_goals rfl
@[simp] theorem sendSlot_rx (w : World) (s : Nat) (v : SlotVal) : (w.sendSlot s v).rx = w.rx := by
  simp only [sendSlot, wake_eq, emit, setSlot, setChan, slot, chan]; repeat' split
  all_goals rfl
@[simp] theorem sendSlot_reader (w : World) (s : Nat) (v : SlotVal) : (w.sendSlot s v).reader = w.reader := by
  simp only [sendSlot, wake_eq, emit, setSlot, setChan, slot, chan]; repeat' split
  all_goals rfl
@[simp] theorem sendSlot_readerReg (w : World) (s : Nat) (v : SlotVal) : (w.sendSlot s v).readerReg = w.readerReg := by
  simp only [sendSlot, wake_eq, emit, setSlot, setChan, slot, chan]; repeat' split
  all_goals rfl
@[simp] theorem sendSlot_queue (w : World) (s : Nat) (v : SlotVal) : (w.sendSlot s v).queue = w.queue := by
  simp only [sendSlot, wake_eq, emit, setSlot, setChan, slot, chan]; repeat' split
  all_goals rfl
@[simp] theorem sendSlot_queueReg (w : World) (s : Nat) (v : SlotVal) : (w.sendSlot s v).queueReg = w.queueReg := by
  simp only [sendSlot, wake_eq, emit, setSlot, setChan, slot, chan]; repeat' split
  all_goals rfl
@[simp] theorem sendSlot_handles (w : World) (s : Nat) (v : SlotVal) : (w.sendSlot s v).handles = w.handles := by
  simp only [sendSlot, wake_eq, emit, setSlot, setChan, slot, chan]; repeat' split
  all_goals rfl
@[simp] theorem sendSlot_ops (w : World) (s : Nat) (v : SlotVal) : (w.sendSlot s v).ops = w.ops := by
  simp only [sendSlot, wake_eq, emit, setSlot, setChan, slot, chan]; repeat' split
  all_goals rfl
@[simp] theorem sendSlot_chans (w : World) (s : Nat) (v : SlotVal) : (w.sendSlot s v).chans = w.chans := by
  simp only [sendSlot, wake_eq, emit, setSlot, setChan, slot, chan]; repeat' split
  all_goals rfl
@[simp] theorem sendSlot_rsps (w : World) (s : Nat) (v : SlotVal) : (w.sendSlot s v).rsps = w.rsps := by
  simp only [sendSlot, wake_eq, emit, setSlot, setChan, slot, chan]; repeat' split
  all_goals rfl
@[simp] theorem sendSlot_streams (w : World) (s : Nat) (v : SlotVal) : (w.sendSlot s v).streams = w.streams := by
  simp only [sendSlot, wake_eq, emit, setSlot, setChan, slot, chan]; repeat' split
  all_goals rfl
@[simp] theorem sendSlot_pidCtr (w : World) (s : Nat) (v : SlotVal) : (w.sendSlot s v).pidCtr = w.pidCtr := by
  simp only [sendSlot, wake_eq, emit, setSlot, setChan, slot, chan]; repeat' split
  all_goals rfl
@[simp] theorem sendSlot_subCtr (w : World) (s : Nat) (v : SlotVal) : (w.sendSlot s v).subCtr = w.subCtr := by
  simp only [sendSlot, wake_eq, emit, setSlot, setChan, slot, chan]; repeat' split
  all_goals rfl
@[simp] theorem sendSlot_held (w : World) (s : Nat) (v : SlotVal) : (w.sendSlot s v).held = w.held := by
  simp only [sendSlot, wake_eq, emit, setSlot, setChan, slot, chan]; repeat' split
  all_goals rfl
@[simp] theorem sendSlot_written (w : World) (s : Nat) (v : SlotVal) : (w.sendSlot s v).written = w.written := by
  simp only [sendSlot, wake_eq, emit, setSlot, setChan, slot, chan]; repeat' split
  all_goals rfl
@[simp] theorem sendSlot_wirePend (w : World) (s : Nat) (v : SlotVal) : (w.sendSlot s v).wirePend = w.wirePend := by
  simp only [sendSlot, wake_eq, emit, setSlot, setChan, slot, chan]; repeat' split
  all_goals rfl
@[simp] theorem sendSlot_out (w : World) (s : Nat) (v : SlotVal) : (w.sendSlot s v).out = w.out := by
  simp only [sendSlot, wake_eq, emit, setSlot, setChan, slot, chan]; repeat' split
  all_goals rfl
@[simp] theorem sendSlot_bad (w : World) (s : Nat) (v : SlotVal) : (w.sendSlot s v).bad = w.bad := by
  simp only [sendSlot, wake_eq, emit, setSlot, setChan, slot, chan]; repeat' split
  all_goals rfl
@[simp] theorem sendSlot_chan (w : World) (s : Nat) (v : SlotVal) (c0 : Nat) : (w.sendSlot s v).chan c0 = w.chan c0 := by
  simp [chan]
@[simp] theorem sendSlot_opSt (w : World) (s : Nat) (v : SlotVal) (i0 : Nat) : (w.sendSlot s v).opSt i0 = w.opSt i0 := by
  simp [opSt]
@[simp] theorem sendSlot_senders (w : World) (s : Nat) (v : SlotVal)  : (w.sendSlot s v).senders = w.senders := by
  simp [senders]
@[simp] theorem sendSlot_canWrite (w : World) (s : Nat) (v : SlotVal) (n0 : Nat) : (w.sendSlot s v).canWrite n0 = w.canWrite n0 := by
  simp [canWrite]
@[simp] theorem sendSlot_chanRxAlive (w : World) (s : Nat) (v : SlotVal) (c0 : Nat) : (w.sendSlot s v).chanRxAlive c0 = w.chanRxAlive c0 := by
  simp [chanRxAlive]
@[simp] theorem dropSlotTx_cfg (w : World) (s : Nat) : (w.dropSlotTx s).cfg = w.cfg := by
  simp only [dropSlotTx, wake_eq, emit, setSlot, setChan, slot, chan]; repeat' split
  all_goals rfl
@[simp] theorem dropSlotTx_hasCtx (w : World) (s : Nat) : (w.dropSlotTx s).hasCtx = w.hasCtx := by
  simp only [dropSlotTx, wake_eq, emit, setSlot, setChan, slot, chan]; repeat' split
  all_goals rfl
@[simp] theorem dropSlotTx_ctxDropped (w : World) (s : Nat) : (w.dropSlotTx s).ctxDropped = w.ctxDropped := by
  simp only [dropSlotTx, wake_eq, emit, setSlot, setChan, slot, chan]; repeat' split
  all_goals rfl
@[simp] theorem dropSlotTx_task (w : World) (s : Nat) : (w.dropSlotTx s).task = w.task := by
  simp only [dropSlotTx, wake_eq, emit, setSlot, setChan, slot, chan]; repeat' split
  all_goals rfl
@[simp] theorem dropSlotTx_c (w : World) (s : Nat) : (w.dropSlotTx s).c = w.c := by
  simp only [dropSlotTx, wake_eq, emit, setSlot, setChan, slot, chan]; repeat' split
  all_goals rfl
@[simp] theorem dropSlotTx_rx (w : World) (s : Nat) : (w.dropSlotTx s).rx = w.rx := by
  simp only [dropSlotTx, wake_eq, emit, setSlot, setChan, slot, chan]; repeat' split
  all_goals rfl
@[simp] theorem dropSlotTx_reader (w : World) (s : Nat) : (w.dropSlotTx s).reader = w.reader := by
  simp only [dropSlotTx, wake_eq, emit, setSlot, setChan, slot, chan]; repeat' split
  all_goals rfl
@[simp] theorem dropSlotTx_readerReg (w : World) (s : Nat) : (w.dropSlotTx s).readerReg = w.readerReg := by
  simp only [dropSlotTx, wake_eq, emit, setSlot, setChan, slot, chan]; repeat' split
  all_goals rfl
@[simp] theorem dropSlotTx_queue (w : World) (s : Nat) : (w.dropSlotTx s).queue = w.queue := by
  simp only [dropSlotTx, wake_eq, emit, setSlot, setChan, slot, chan]; repeat' split
  all_goals rfl
@[simp] theorem dropSlotTx_queueReg (w : World) (s : Nat) : (w.dropSlotTx s).queueReg = w.queueReg := by
  simp only [dropSlotTx, wake_eq, emit, setSlot, setChan, slot, chan]; repeat' split
  all_goals rfl
@[simp] theorem dropSlotTx_handles (w : World) (s : Nat) : (w.dropSlotTx s).handles = w.handles := by
  simp only [dropSlotTx, wake_eq, emit, setSlot, setChan, slot, chan]; repeat' split
  all_goals rfl
@[simp] theorem dropSlotTx_ops (w : World) (s : Nat) : (w.dropSlotTx s).ops = w.ops := by
  simp only [dropSlotTx, wake_eq, emit, setSlot, setChan, slot, chan]; repeat' split
  all_goals rfl
@[simp] theorem dropSlotTx_chans (w : World) (s : Nat) : (w.dropSlotTx s).chans = w.chans := by
  simp only [dropSlotTx, wake_eq, emit, setSlot, setChan, slot, chan]; repeat' split
  all_goals rfl
@[simp] theorem dropSlotTx_rsps (w : World) (s : Nat) : (w.dropSlotTx s).rsps = w.rsps := by
  simp only [dropSlotTx, wake_eq, emit, setSlot, setChan, slot, chan]; repeat' split
  all_goals rfl
@[simp] theorem dropSlotTx_streams (w : World) (s : Nat) : (w.dropSlotTx s).streams = w.streams := by
  simp only [dropSlotTx, wake_eq, emit, setSlot, setChan, slot, chan]; repeat' split
  all_goals rfl
@[simp] theorem dropSlotTx_pidCtr (w : World) (s : Nat) : (w.dropSlotTx s).pidCtr = w.pidCtr := by
  simp only [dropSlotTx, wake_eq, emit, setSlot, setChan, slot, chan]; repeat' split
  all_goals rfl
@[simp] theorem dropSlotTx_subCtr (w : World) (s : Nat) : (w.dropSlotTx s).subCtr = w.subCtr := by
  simp only [dropSlotTx, wake_eq, emit, setSlot, setChan, slot, chan]; repeat' split
  all_goals rfl
@[simp] theorem dropSlotTx_held (w : World) (s : Nat) : (w.dropSlotTx s).held = w.held := by
  simp only [dropSlotTx, wake_eq, emit, setSlot, setChan, slot, chan]; repeat' split
  all_goals rfl
@[simp] theorem dropSlotTx_written (w : World) (s : Nat) : (w.dropSlotTx s).written = w.written := by
  simp only [dropSlotTx, wake_eq, emit, setSlot, setChan, slot, chan]; repeat' split
  all_goals rfl
@[simp] theorem dropSlotTx_wirePend (w : World) (s : Nat) : (w.dropSlotTx s).wirePend = w.wirePend := by
  simp only [dropSlotTx, wake_eq, emit, setSlot, setChan, slot, chan]; repeat' split
  all_goals rfl
@[simp] theorem dropSlotTx_out (w : World) (s : Nat) : (w.dropSlotTx s).out = w.out := by
  simp only [dropSlotTx, wake_eq, emit, setSlot, setChan, slot, chan]; repeat' split
  all_goals rfl
@[simp] theorem dropSlotTx_bad (w : World) (s : Nat) : (w.dropSlotTx s).bad = w.bad := by
  simp only [dropSlotTx, wake_eq, emit, setSlot, setChan, slot, chan]; repeat' split
  all_goals rfl
@[simp] theorem dropSlotTx_chan (w : World) (s : Nat) (c0 : Nat) : (w.dropSlotTx s).chan c0 = w.chan c0 := by
  simp [chan]
@[simp] theorem dropSlotTx_opSt (w : World) (s : Nat) (i0 : Nat) : (w.dropSlotTx s).opSt i0 = w.opSt i0 := by
  simp [opSt]
@[simp] theorem dropSlotTx_senders (w : World) (s : Nat)  : (w.dropSlotTx s).senders = w.senders := by
  simp [senders]
@[simp] theorem dropSlotTx_canWrite (w : World) (s : Nat) (n0 : Nat) : (w.dropSlotTx s).canWrite n0 = w.canWrite n0 := by
  simp [canWrite]
@[simp] theorem dropSlotTx_chanRxAlive (w : World) (s : Nat) (c0 : Nat) : (w.dropSlotTx s).chanRxAlive c0 = w.chanRxAlive c0 := by
  simp [chanRxAlive]
@[simp] theorem deliver_cfg (w : World) (c : Nat) (p : PublishRx) : (w.deliver c p).cfg = w.cfg := by
  simp only [deliver, wake_eq, emit, setSlot, setChan, slot, chan]; repeat' split
  all_goals rfl
@[simp] theorem deliver_hasCtx (w : World) (c : Nat) (p : PublishRx) : (w.deliver c p).hasCtx = w.hasCtx := by
  simp only [deliver, wake_eq, emit, setSlot, setChan, slot, chan]; repeat' split
  all_goals rfl
@[simp] theorem deliver_ctxDropped (w : World) (c : Nat) (p : PublishRx) : (w.deliver c p).ctxDropped = w.ctxDropped := by
  simp only [deliver, wake_eq, emit, setSlot, setChan, slot, chan]; repeat' split
  all_goals rfl
@[simp] theorem deliver_task (w : World) (c : Nat) (p : PublishRx) : (w.deliver c p).task = w.task := by
  simp only [deliver, wake_eq, emit, setSlot, setChan, slot, chan]; repeat' split
  all_goals rfl
@[simp] theorem deliver_c (w : World) (c : Nat) (p : PublishRx) : (w.deliver c p).c = w.c := by
  simp only [deliver, wake_eq, emit, setSlot, setChan, slot, chan]; repeat' split
  all_goals rfl
@[simp] theorem deliver_rx (w : World) (c : Nat) (p : PublishRx) : (w.deliver c p).rx = w.rx := by
  simp only [deliver, wake_eq, emit, setSlot, setChan, slot, chan]; repeat' split
  all_goals rfl
@[simp] theorem deliver_reader (w : World) (c : Nat) (p : PublishRx) : (w.deliver c p).reader = w.reader := by
  simp only [deliver, wake_eq, emit, setSlot, setChan, slot, chan]; repeat' split
  all_goals rfl
@[simp] theorem deliver_readerReg (w : World) (c : Nat) (p : PublishRx) : (w.deliver c p).readerReg = w.readerReg := by
  simp only [deliver, wake_eq, emit, setSlot, setChan, slot, chan]; repeat' split
  all_goals rfl
@[simp] theorem deliver_queue (w : World) (c : Nat) (p : PublishRx) : (w.deliver c p).queue = w.queue := by
  simp only [deliver, wake_eq, emit, setSlot, setChan, slot, chan]; repeat' split
  all_goals rfl
@[simp] theorem deliver_queueReg (w : World) (c : Nat) (p : PublishRx) : (w.deliver c p).queueReg = w.queueReg := by
  simp only [deliver, wake_eq, emit, setSlot, setChan, slot, chan]; repeat' split
  all_goals rfl
@[simp] theorem deliver_handles (w : World) (c : Nat) (p : PublishRx) : (w.deliver c p).handles = w.handles := by
  simp only [deliver, wake_eq, emit, setSlot, setChan, slot, chan]; repeat' split
  all_goals rfl
@[simp] theorem deliver_ops (w : World) (c : Nat) (p : PublishRx) : (w.deliver c p).ops = w.ops := by
  simp only [deliver, wake_eq, emit, setSlot, setChan, slot, chan]; repeat' split
  all_goals rfl
@[simp] theorem deliver_slots (w : World) (c : Nat) (p : PublishRx) : (w.deliver c p).slots = w.slots := by
  simp only [deliver, wake_eq, emit, setSlot, setChan, slot, chan]; repeat' split
  all_goals rfl
@[simp] theorem deliver_slotReg (w : World) (c : Nat) (p : PublishRx) : (w.deliver c p).slotReg = w.slotReg := by
  simp only [deliver, wake_eq, emit, setSlot, setChan, slot, chan]; repeat' split
  all_goals rfl
@[simp] theorem deliver_rsps (w : World) (c : Nat) (p : PublishRx) : (w.deliver c p).rsps = w.rsps := by
  simp only [deliver, wake_eq, emit, setSlot, setChan, slot, chan]; repeat' split
  all_goals rfl
@[simp] theorem deliver_streams (w : World) (c : Nat) (p : PublishRx) : (w.deliver c p).streams = w.streams := by
  simp only [deliver, wake_eq, emit, setSlot, setChan, slot, chan]; repeat' split
  all_goals rfl
@[simp] theorem deliver_pidCtr (w : World) (c : Nat) (p : PublishRx) : (w.deliver c p).pidCtr = w.pidCtr := by
  simp only [deliver, wake_eq, emit, setSlot, setChan, slot, chan]; repeat' split
  all_goals rfl
@[simp] theorem deliver_subCtr (w : World) (c : Nat) (p : PublishRx) : (w.deliver c p).subCtr = w.subCtr := by
  simp only [deliver, wake_eq, emit, setSlot, setChan, slot, chan]; repeat' split
  all_goals rfl
@[simp] theorem deliver_held (w : World) (c : Nat) (p : PublishRx) : (w.deliver c p).held = w.held := by
  simp only [deliver, wake_eq, emit, setSlot, setChan, slot, chan]; repeat' split
  all_goals rfl
@[simp] theorem deliver_written (w : World) (c : Nat) (p : PublishRx) : (w.deliver c p).written = w.written := by
  simp only [deliver, wake_eq, emit, setSlot, setChan, slot, chan]; repeat' split
  all_goals rfl
@[simp] theorem deliver_wirePend (w : World) (c : Nat) (p : PublishRx) : (w.deliver c p).wirePend = w.wirePend := by
  simp only [deliver, wake_eq, emit, setSlot, setChan, slot, chan]; repeat' split
  all_goals rfl
@[simp] theorem deliver_out (w : World) (c : Nat) (p : PublishRx) : (w.deliver c p).out = w.out := by
  simp only [deliver, wake_eq, emit, setSlot, setChan, slot, chan]; repeat' split
  all_goals rfl
@[simp] theorem deliver_bad (w : World) (c : Nat) (p : PublishRx) : (w.deliver c p).bad = w.bad := by
  simp only [deliver, wake_eq, emit, setSlot, setChan, slot, chan]; repeat' split
  all_goals rfl
@[simp] theorem deliver_slot (w : World) (c : Nat) (p : PublishRx) (s0 : Nat) : (w.deliver c p).slot s0 = w.slot s0 := by
  simp [slot]
@[simp] theorem deliver_opSt (w : World) (c : Nat) (p : PublishRx) (i0 : Nat) : (w.deliver c p).opSt i0 = w.opSt i0 := by
  simp [opSt]
@[simp] theorem deliver_senders (w : World) (c : Nat) (p : PublishRx)  : (w.deliver c p).senders = w.senders := by
  simp [senders]
@[simp] theorem deliver_canWrite (w : World) (c : Nat) (p : PublishRx) (n0 : Nat) : (w.deliver c p).canWrite n0 = w.canWrite n0 := by
  simp [canWrite]
@[simp] theorem dropChanTx_cfg (w : World) (c : Nat) : (w.dropChanTx c).cfg = w.cfg := by
  simp only [dropChanTx, wake_eq, emit, setSlot, setChan, slot, chan]; repeat' split
  all_goals rfl
@[simp] theorem dropChanTx_hasCtx (w : World) (c : Nat) : (w.dropChanTx c).hasCtx = w.hasCtx := by
  simp only [dropChanTx, wake_eq, emit, setSlot, setChan, slot, chan]; repeat' split
  all_goals rfl
@[simp] theorem dropChanTx_ctxDropped (w : World) (c : Nat) : (w.dropChanTx c).ctxDropped = w.ctxDropped := by
  simp only [dropChanTx, wake_eq, emit, setSlot, setChan, slot, chan]; repeat' split
  all_goals rfl
@[simp] theorem dropChanTx_task (w : World) (c : Nat) : (w.dropChanTx c).task = w.task := by
  simp only [dropChanTx, wake_eq, emit, setSlot, setChan, slot, chan]; repeat' split
  all_goals rfl
@[simp] theorem dropChanTx_c (w : World) (c : Nat) : (w.dropChanTx c).c = w.c := by
  simp only [dropChanTx, wake_eq, emit, setSlot, setChan, slot, chan]; repeat' split
  all_goals rfl
@[simp] theorem dropChanTx_rx (w : World) (c : Nat) : (w.dropChanTx c).rx = w.rx := by
  simp only [dropChanTx, wake_eq, emit, setSlot, setChan, slot, chan]; repeat' split
  all_goals rfl
@[simp] theorem dropChanTx_reader (w : World) (c : Nat) : (w.dropChanTx c).reader = w.reader := by
  simp only [dropChanTx, wake_eq, emit, setSlot, setChan, slot, chan]; repeat' split
  all_goals rfl
@[simp] theorem dropChanTx_readerReg (w : World) (c : Nat) : (w.dropChanTx c).readerReg = w.readerReg := by
  simp only [dropChanTx, wake_eq, emit, setSlot, setChan, slot, chan]; repeat' split
  all_goals rfl
@[simp] theorem dropChanTx_queue (w : World) (c : Nat) : (w.dropChanTx c).queue = w.queue := by
  simp only [dropChanTx, wake_eq, emit, setSlot, setChan, slot, chan]; repeat' split
  all_goals rfl
@[simp] theorem dropChanTx_queueReg (w : World) (c : Nat) : (w.dropChanTx c).queueReg = w.queueReg := by
  simp only [dropChanTx, wake_eq, emit, setSlot, setChan, slot, chan]; repeat' split
  all_goals rfl
@[simp] theorem dropChanTx_handles (w : World) (c : Nat) : (w.dropChanTx c).handles = w.handles := by
  simp only [dropChanTx, wake_eq, emit, setSlot, setChan, slot, chan]; repeat' split
  all_goals rfl
@[simp] theorem dropChanTx_ops (w : World) (c : Nat) : (w.dropChanTx c).ops = w.ops := by
  simp only [dropChanTx, wake_eq, emit, setSlot, setChan, slot, chan]; repeat' split
  all_goals rfl
@[simp] theorem dropChanTx_slots (w : World) (c : Nat) : (w.dropChanTx c).slots = w.slots := by
  simp only [dropChanTx, wake_eq, emit, setSlot, setChan, slot, chan]; repeat' split
  all_goals rfl
@[simp] theorem dropChanTx_slotReg (w : World) (c : Nat) : (w.dropChanTx c).slotReg = w.slotReg := by
  simp only [dropChanTx, wake_eq, emit, setSlot, setChan, slot, chan]; repeat' split
  all_goals rfl
@[simp] theorem dropChanTx_rsps (w : World) (c : Nat) : (w.dropChanTx c).rsps = w.rsps := by
  simp only [dropChanTx, wake_eq, emit, setSlot, setChan, slot, chan]; repeat' split
  all_goals rfl
@[simp] theorem dropChanTx_streams (w : World) (c : Nat) : (w.dropChanTx c).streams = w.streams := by
  simp only [dropChanTx, wake_eq, emit, setSlot, setChan, slot, chan]; repeat' split
  all_goals rfl
@[simp] theorem dropChanTx_pidCtr (w : World) (c : Nat) : (w.dropChanTx c).pidCtr = w.pidCtr := by
  simp only [dropChanTx, wake_eq, emit, setSlot, setChan, slot, chan]; repeat' split
  all_goals rfl
@[simp] theorem dropChanTx_subCtr (w : World) (c : Nat) : (w.dropChanTx c).subCtr = w.subCtr := by
  simp only [dropChanTx, wake_eq, emit, setSlot, setChan, slot, chan]; repeat' split
  all_goals rfl
@[simp] theorem dropChanTx_held (w : World) (c : Nat) : (w.dropChanTx c).held = w.held := by
  simp only [dropChanTx, wake_eq, emit, setSlot, setChan, slot, chan]; repeat' split
  all_goals rfl
@[simp] theorem dropChanTx_written (w : World) (c : Nat) : (w.dropChanTx c).written = w.written := by
  simp only [dropChanTx, wake_eq, emit, setSlot, setChan, slot, chan]; repeat' split
  all_goals rfl
@[simp] theorem dropChanTx_wirePend (w : World) (c : Nat) : (w.dropChanTx c).wirePend = w.wirePend := by
  simp only [dropChanTx, wake_eq, emit, setSlot, setChan, slot, chan]; repeat' split
  all_goals rfl
@[simp] theorem dropChanTx_out (w : World) (c : Nat) : (w.dropChanTx c).out = w.out := by
  simp only [dropChanTx, wake_eq, emit, setSlot, setChan, slot, chan]; repeat' split
  all_goals rfl
@[simp] theorem dropChanTx_bad (w : World) (c : Nat) : (w.dropChanTx c).bad = w.bad := by
  simp only [dropChanTx, wake_eq, emit, setSlot, setChan, slot, chan]; repeat' split
  all_goals rfl
@[simp] theorem dropChanTx_slot (w : World) (c : Nat) (s0 : Nat) : (w.dropChanTx c).slot s0 = w.slot s0 := by
  simp [slot]
@[simp] theorem dropChanTx_opSt (w : World) (c : Nat) (i0 : Nat) : (w.dropChanTx c).opSt i0 = w.opSt i0 := by
  simp [opSt]
@[simp] theorem dropChanTx_senders (w : World) (c : Nat)  : (w.dropChanTx c).senders = w.senders := by
  simp [senders]
@[simp] theorem dropChanTx_canWrite (w : World) (c : Nat) (n0 : Nat) : (w.dropChanTx c).canWrite n0 = w.canWrite n0 := by
  simp [canWrite]
@[simp] theorem applyEff_cfg (w : World) (e : Eff) : (w.applyEff e).cfg = w.cfg := by
  cases e <;> simp [applyEff]
@[simp] theorem applyEff_hasCtx (w : World) (e : Eff) : (w.applyEff e).hasCtx = w.hasCtx := by
  cases e <;> simp [applyEff]
@[simp] theorem applyEff_ctxDropped (w : World) (e : Eff) : (w.applyEff e).ctxDropped = w.ctxDropped := by
  cases e <;> simp [applyEff]
@[simp] theorem applyEff_task (w : World) (e : Eff) : (w.applyEff e).task = w.task := by
  cases e <;> simp [applyEff]
@[simp] theorem applyEff_c (w : World) (e : Eff) : (w.applyEff e).c = w.c := by
  cases e <;> simp [applyEff]
@[simp] theorem applyEff_rx (w : World) (e : Eff) : (w.applyEff e).rx = w.rx := by
  cases e <;> simp [applyEff]
@[simp] theorem applyEff_reader (w : World) (e : Eff) : (w.applyEff e).reader = w.reader := by
  cases e <;> simp [applyEff]
@[simp] theorem applyEff_readerReg (w : World) (e : Eff) : (w.applyEff e).readerReg = w.readerReg := by
  cases e <;> simp [applyEff]
@[simp] theorem applyEff_queue (w : World) (e : Eff) : (w.applyEff e).queue = w.queue := by
  cases e <;> simp [applyEff]
@[simp] theorem applyEff_queueReg (w : World) (e : Eff) : (w.applyEff e).queueReg = w.queueReg := by
  cases e <;> simp [applyEff]
@[simp] theorem applyEff_handles (w : World) (e : Eff) : (w.applyEff e).handles = w.handles := by
  cases e <;> simp [applyEff]
@[simp] theorem applyEff_ops (w : World) (e : Eff) : (w.applyEff e).ops = w.ops := by
  cases e <;> simp [applyEff]
@[simp] theorem applyEff_rsps (w : World) (e : Eff) : (w.applyEff e).rsps = w.rsps := by
  cases e <;> simp [applyEff]
@[simp] theorem applyEff_streams (w : World) (e : Eff) : (w.applyEff e).streams = w.streams := by
  cases e <;> simp [applyEff]
@[simp] theorem applyEff_pidCtr (w : World) (e : Eff) : (w.applyEff e).pidCtr = w.pidCtr := by
  cases e <;> simp [applyEff]
@[simp] theorem applyEff_subCtr (w : World) (e : Eff) : (w.applyEff e).subCtr = w.subCtr := by
  cases e <;> simp [applyEff]
@[simp] theorem applyEff_held (w : World) (e : Eff) : (w.applyEff e).held = w.held := by
  cases e <;> simp [applyEff]
@[simp] theorem applyEff_bad (w : World) (e : Eff) : (w.applyEff e).bad = w.bad := by
  cases e <;> simp [applyEff]
@[simp] theorem applyEff_opSt (w : World) (e : Eff) (i0 : Nat) : (w.applyEff e).opSt i0 = w.opSt i0 := by
  simp [opSt]
@[simp] theorem applyEff_senders (w : World) (e : Eff)  : (w.applyEff e).senders = w.senders := by
  simp [senders]
@[simp] theorem applyEffs_cfg (w : World) (es : List Eff) : (w.applyEffs es).cfg = w.cfg := by
  unfold applyEffs; induction es generalizing w <;> simp [List.foldl, *]
@[simp] theorem applyEffs_hasCtx (w : World) (es : List Eff) : (w.applyEffs es).hasCtx = w.hasCtx := by
  unfold applyEffs; induction es generalizing w <;> simp [List.foldl, *]
@[simp] theorem applyEffs_ctxDropped (w : World) (es : List Eff) : (w.applyEffs es).ctxDropped = w.ctxDropped := by
  unfold applyEffs; induction es generalizing w <;> simp [List.foldl, *]
@[simp] theorem applyEffs_task (w : World) (es : List Eff) : (w.applyEffs es).task = w.task := by
  unfold applyEffs; induction es generalizing w <;> simp [List.foldl, *]
@[simp] theorem applyEffs_c (w : World) (es : List Eff) : (w.applyEffs es).c = w.c := by
  unfold applyEffs; induction es generalizing w <;> simp [List.foldl, *]
@[simp] theorem applyEffs_rx (w : World) (es : List Eff) : (w.applyEffs es).rx = w.rx := by
  unfold applyEffs; induction es generalizing w <;> simp [List.foldl, *]
@[simp] theorem applyEffs_reader (w : World) (es : List Eff) : (w.applyEffs es).reader = w.reader := by
  unfold applyEffs; induction es generalizing w <;> simp [List.foldl, *]
@[simp] theorem applyEffs_readerReg (w : World) (es : List Eff) : (w.applyEffs es).readerReg = w.readerReg := by
  unfold applyEffs; induction es generalizing w <;> simp [List.foldl, *]
@[simp] theorem applyEffs_queue (w : World) (es : List Eff) : (w.applyEffs es).queue = w.queue := by
  unfold applyEffs; induction es generalizing w <;> simp [List.foldl, *]
@[simp] theorem applyEffs_queueReg (w : World) (es : List Eff) : (w.applyEffs es).queueReg = w.queueReg := by
  unfold applyEffs; induction es generalizing w <;> simp [List.foldl, *]
@[simp] theorem applyEffs_handles (w : World) (es : List Eff) : (w.applyEffs es).handles = w.handles := by
  unfold applyEffs; induction es generalizing w <;> simp [List.foldl, *]
@[simp] theorem applyEffs_ops (w : World) (es : List Eff) : (w.applyEffs es).ops = w.ops := by
  unfold applyEffs; induction es generalizing w <;> simp [List.foldl, *]
@[simp] theorem applyEffs_rsps (w : World) (es : List Eff) : (w.applyEffs es).rsps = w.rsps := by
  unfold applyEffs; induction es generalizing w <;> simp [List.foldl, *]
@[simp] theorem applyEffs_streams (w : World) (es : List Eff) : (w.applyEffs es).streams = w.streams := by
  unfold applyEffs; induction es generalizing w <;> simp [List.foldl, *]
@[simp] theorem applyEffs_pidCtr (w : World) (es : List Eff) : (w.applyEffs es).pidCtr = w.pidCtr := by
  unfold applyEffs; induction es generalizing w <;> simp [List.foldl, *]
@[simp] theorem applyEffs_subCtr (w : World) (es : List Eff) : (w.applyEffs es).subCtr = w.subCtr := by
  unfold applyEffs; induction es generalizing w <;> simp [List.foldl, *]
@[simp] theorem applyEffs_held (w : World) (es : List Eff) : (w.applyEffs es).held = w.held := by
  unfold applyEffs; induction es generalizing w <;> simp [List.foldl, *]
@[simp] theorem applyEffs_bad (w : World) (es : List Eff) : (w.applyEffs es).bad = w.bad := by
  unfold applyEffs; induction es generalizing w <;> simp [List.foldl, *]
@[simp] theorem applyEffs_opSt (w : World) (es : List Eff) (i0 : Nat) : (w.applyEffs es).opSt i0 = w.opSt i0 := by
  simp [opSt]
@[simp] theorem applyEffs_senders (w : World) (es : List Eff)  : (w.applyEffs es).senders = w.senders := by
  simp [senders]
@[simp] theorem finish_cfg (w : World) (call : Call) (r : RetRes) : (w.finish call r).cfg = w.cfg := by
  rfl
@[simp] theorem finish_hasCtx (w : World) (call : Call) (r : RetRes) : (w.finish call r).hasCtx = w.hasCtx := by
  rfl
@[simp] theorem finish_ctxDropped (w : World) (call : Call) (r : RetRes) : (w.finish call r).ctxDropped = w.ctxDropped := by
  rfl
@[simp] theorem finish_c (w : World) (call : Call) (r : RetRes) : (w.finish call r).c = w.c := by
  rfl
@[simp] theorem finish_rx (w : World) (call : Call) (r : RetRes) : (w.finish call r).rx = w.rx := by
  rfl
@[simp] theorem finish_reader (w : World) (call : Call) (r : RetRes) : (w.finish call r).reader = w.reader := by
  rfl
@[simp] theorem finish_readerReg (w : World) (call : Call) (r : RetRes) : (w.finish call r).readerReg = w.readerReg := by
  rfl
@[simp] theorem finish_queue (w : World) (call : Call) (r : RetRes) : (w.finish call r).queue = w.queue := by
  rfl
@[simp] theorem finish_queueReg (w : World) (call : Call) (r : RetRes) : (w.finish call r).queueReg = w.queueReg := by
  rfl
@[simp] theorem finish_handles (w : World) (call : Call) (r : RetRes) : (w.finish call r).handles = w.handles := by
  rfl
@[simp] theorem finish_ops (w : World) (call : Call) (r : RetRes) : (w.finish call r).ops = w.ops := by
  rfl
@[simp] theorem finish_slots (w : World) (call : Call) (r : RetRes) : (w.finish call r).slots = w.slots := by
  rfl
@[simp] theorem finish_slotReg (w : World) (call : Call) (r : RetRes) : (w.finish call r).slotReg = w.slotReg := by
  rfl
@[simp] theorem finish_chans (w : World) (call : Call) (r : RetRes) : (w.finish call r).chans = w.chans := by
  rfl
@[simp] theorem finish_rsps (w : World) (call : Call) (r : RetRes) : (w.finish call r).rsps = w.rsps := by
  rfl
@[simp] theorem finish_streams (w : World) (call : Call) (r : RetRes) : (w.finish call r).streams = w.streams := by
  rfl
@[simp] theorem finish_pidCtr (w : World) (call : Call) (r : RetRes) : (w.finish call r).pidCtr = w.pidCtr := by
  rfl
@[simp] theorem finish_subCtr (w : World) (call : Call) (r : RetRes) : (w.finish call r).subCtr = w.subCtr := by
  rfl
@[simp] theorem finish_woken (w : World) (call : Call) (r : RetRes) : (w.finish call r).woken = w.woken := by
  rfl
@[simp] theorem finish_held (w : World) (call : Call) (r : RetRes) : (w.finish call r).held = w.held := by
  rfl
@[simp] theorem finish_written (w : World) (call : Call) (r : RetRes) : (w.finish call r).written = w.written := by
  rfl
@[simp] theorem finish_wirePend (w : World) (call : Call) (r : RetRes) : (w.finish call r).wirePend = w.wirePend := by
  rfl
@[simp] theorem finish_bad (w : World) (call : Call) (r : RetRes) : (w.finish call r).bad = w.bad := by
  rfl
@[simp] theorem finish_slot (w : World) (call : Call) (r : RetRes) (s0 : Nat) : (w.finish call r).slot s0 = w.slot s0 := by
  simp [slot]
@[simp] theorem finish_chan (w : World) (call : Call) (r : RetRes) (c0 : Nat) : (w.finish call r).chan c0 = w.chan c0 := by
  simp [chan]
@[simp] theorem finish_opSt (w : World) (call : Call) (r : RetRes) (i0 : Nat) : (w.finish call r).opSt i0 = w.opSt i0 := by
  simp [opSt]
@[simp] theorem finish_senders (w : World) (call : Call) (r : RetRes)  : (w.finish call r).senders = w.senders := by
  simp [senders]
@[simp] theorem finish_canWrite (w : World) (call : Call) (r : RetRes) (n0 : Nat) : (w.finish call r).canWrite n0 = w.canWrite n0 := by
  simp [canWrite]
@[simp] theorem finish_chanRxAlive (w : World) (call : Call) (r : RetRes) (c0 : Nat) : (w.finish call r).chanRxAlive c0 = w.chanRxAlive c0 := by
  simp [chanRxAlive]
@[simp] theorem finishOp_cfg (w : World) (id : Nat) (r : DoneRes) : (w.finishOp id r).cfg = w.cfg := by
  simp [finishOp]
@[simp] theorem finishOp_hasCtx (w : World) (id : Nat) (r : DoneRes) : (w.finishOp id r).hasCtx = w.hasCtx := by
  simp [finishOp]
@[simp] theorem finishOp_ctxDropped (w : World) (id : Nat) (r : DoneRes) : (w.finishOp id r).ctxDropped = w.ctxDropped := by
  simp [finishOp]
@[simp] theorem finishOp_task (w : World) (id : Nat) (r : DoneRes) : (w.finishOp id r).task = w.task := by
  simp [finishOp]
@[simp] theorem finishOp_c (w : World) (id : Nat) (r : DoneRes) : (w.finishOp id r).c = w.c := by
  simp [finishOp]
@[simp] theorem finishOp_rx (w : World) (id : Nat) (r : DoneRes) : (w.finishOp id r).rx = w.rx := by
  simp [finishOp]
@[simp] theorem finishOp_reader (w : World) (id : Nat) (r : DoneRes) : (w.finishOp id r).reader = w.reader := by
  simp [finishOp]
@[simp] theorem finishOp_readerReg (w : World) (id : Nat) (r : DoneRes) : (w.finishOp id r).readerReg = w.readerReg := by
  simp [finishOp]
@[simp] theorem finishOp_queue (w : World) (id : Nat) (r : DoneRes) : (w.finishOp id r).queue = w.queue := by
  simp [finishOp]
@[simp] theorem finishOp_handles (w : World) (id : Nat) (r : DoneRes) : (w.finishOp id r).handles = w.handles := by
  simp [finishOp]
@[simp] theorem finishOp_slots (w : World) (id : Nat) (r : DoneRes) : (w.finishOp id r).slots = w.slots := by
  simp [finishOp]
@[simp] theorem finishOp_slotReg (w : World) (id : Nat) (r : DoneRes) : (w.finishOp id r).slotReg = w.slotReg := by
  simp [finishOp]
@[simp] theorem finishOp_chans (w : World) (id : Nat) (r : DoneRes) : (w.finishOp id r).chans = w.chans := by
  simp [finishOp]
@[simp] theorem finishOp_rsps (w : World) (id : Nat) (r : DoneRes) : (w.finishOp id r).rsps = w.rsps := by
  simp [finishOp]
@[simp] theorem finishOp_streams (w : World) (id : Nat) (r : DoneRes) : (w.finishOp id r).streams = w.streams := by
  simp [finishOp]
@[simp] theorem finishOp_pidCtr (w : World) (id : Nat) (r : DoneRes) : (w.finishOp id r).pidCtr = w.pidCtr := by
  simp [finishOp]
@[simp] theorem finishOp_subCtr (w : World) (id : Nat) (r : DoneRes) : (w.finishOp id r).subCtr = w.subCtr := by
  simp [finishOp]
@[simp] theorem finishOp_held (w : World) (id : Nat) (r : DoneRes) : (w.finishOp id r).held = w.held := by
  simp [finishOp]
@[simp] theorem finishOp_written (w : World) (id : Nat) (r : DoneRes) : (w.finishOp id r).written = w.written := by
  simp [finishOp]
@[simp] theorem finishOp_wirePend (w : World) (id : Nat) (r : DoneRes) : (w.finishOp id r).wirePend = w.wirePend := by
  simp [finishOp]
@[simp] theorem finishOp_bad (w : World) (id : Nat) (r : DoneRes) : (w.finishOp id r).bad = w.bad := by
  simp [finishOp]
@[simp] theorem finishOp_slot (w : World) (id : Nat) (r : DoneRes) (s0 : Nat) : (w.finishOp id r).slot s0 = w.slot s0 := by
  simp [slot]
@[simp] theorem finishOp_chan (w : World) (id : Nat) (r : DoneRes) (c0 : Nat) : (w.finishOp id r).chan c0 = w.chan c0 := by
  simp [chan]
@[simp] theorem finishOp_canWrite (w : World) (id : Nat) (r : DoneRes) (n0 : Nat) : (w.finishOp id r).canWrite n0 = w.canWrite n0 := by
  simp [canWrite]
@[simp] theorem finishOp_chanRxAlive (w : World) (id : Nat) (r : DoneRes) (c0 : Nat) : (w.finishOp id r).chanRxAlive c0 = w.chanRxAlive c0 := by
  simp [chanRxAlive]
@[simp] theorem awaitSlot_cfg (w : World) (id s : Nat) (k : Wait) : (w.awaitSlot id s k).cfg = w.cfg := by
  rfl
@[simp] theorem awaitSlot_hasCtx (w : World) (id s : Nat) (k : Wait) : (w.awaitSlot id s k).hasCtx = w.hasCtx := by
  rfl
@[simp] theorem awaitSlot_ctxDropped (w : World) (id s : Nat) (k : Wait) : (w.awaitSlot id s k).ctxDropped = w.ctxDropped := by
  rfl
@[simp] theorem awaitSlot_task (w : World) (id s : Nat) (k : Wait) : (w.awaitSlot id s k).task = w.task := by
  rfl
@[simp] theorem awaitSlot_c (w : World) (id s : Nat) (k : Wait) : (w.awaitSlot id s k).c = w.c := by
  rfl
@[simp] theorem awaitSlot_rx (w : World) (id s : Nat) (k : Wait) : (w.awaitSlot id s k).rx = w.rx := by
  rfl
@[simp] theorem awaitSlot_reader (w : World) (id s : Nat) (k : Wait) : (w.awaitSlot id s k).reader = w.reader := by
  rfl
@[simp] theorem awaitSlot_readerReg (w : World) (id s : Nat) (k : Wait) : (w.awaitSlot id s k).readerReg = w.readerReg := by
  rfl
@[simp] theorem awaitSlot_queue (w : World) (id s : Nat) (k : Wait) : (w.awaitSlot id s k).queue = w.queue := by
  rfl
@[simp] theorem awaitSlot_queueReg (w : World) (id s : Nat) (k : Wait) : (w.awaitSlot id s k).queueReg = w.queueReg := by
  rfl
@[simp] theorem awaitSlot_handles (w : World) (id s : Nat) (k : Wait) : (w.awaitSlot id s k).handles = w.handles := by
  rfl
@[simp] theorem awaitSlot_chans (w : World) (id s : Nat) (k : Wait) : (w.awaitSlot id s k).chans = w.chans := by
  rfl
@[simp] theorem awaitSlot_rsps (w : World) (id s : Nat) (k : Wait) : (w.awaitSlot id s k).rsps = w.rsps := by
  rfl
@[simp] theorem awaitSlot_streams (w : World) (id s : Nat) (k : Wait) : (w.awaitSlot id s k).streams = w.streams := by
  rfl
@[simp] theorem awaitSlot_pidCtr (w : World) (id s : Nat) (k : Wait) : (w.awaitSlot id s k).pidCtr = w.pidCtr := by
  rfl
@[simp] theorem awaitSlot_subCtr (w : World) (id s : Nat) (k : Wait) : (w.awaitSlot id s k).subCtr = w.subCtr := by
  rfl
@[simp] theorem awaitSlot_woken (w : World) (id s : Nat) (k : Wait) : (w.awaitSlot id s k).woken = w.woken := by
  rfl
@[simp] theorem awaitSlot_held (w : World) (id s : Nat) (k : Wait) : (w.awaitSlot id s k).held = w.held := by
  rfl
@[simp] theorem awaitSlot_written (w : World) (id s : Nat) (k : Wait) : (w.awaitSlot id s k).written = w.written := by
  rfl
@[simp] theorem awaitSlot_wirePend (w : World) (id s : Nat) (k : Wait) : (w.awaitSlot id s k).wirePend = w.wirePend := by
  rfl
@[simp] theorem awaitSlot_out (w : World) (id s : Nat) (k : Wait) : (w.awaitSlot id s k).out = w.out := by
  rfl
@[simp] theorem awaitSlot_bad (w : World) (id s : Nat) (k : Wait) : (w.awaitSlot id s k).bad = w.bad := by
  rfl
@[simp] theorem awaitSlot_chan (w : World) (id s : Nat) (k : Wait) (c0 : Nat) : (w.awaitSlot id s k).chan c0 = w.chan c0 := by
  simp [chan]
@[simp] theorem awaitSlot_canWrite (w : World) (id s : Nat) (k : Wait) (n0 : Nat) : (w.awaitSlot id s k).canWrite n0 = w.canWrite n0 := by
  simp [canWrite]
@[simp] theorem awaitSlot_chanRxAlive (w : World) (id s : Nat) (k : Wait) (c0 : Nat) : (w.awaitSlot id s k).chanRxAlive c0 = w.chanRxAlive c0 := by
  simp [chanRxAlive]
@[simp] theorem allocPid_cfg (w : World) : w.allocPid.2.cfg = w.cfg := rfl
@[simp] theorem allocPid_hasCtx (w : World) : w.allocPid.2.hasCtx = w.hasCtx := rfl
@[simp] theorem allocPid_ctxDropped (w : World) : w.allocPid.2.ctxDropped = w.ctxDropped := rfl
@[simp] theorem allocPid_task (w : World) : w.allocPid.2.task = w.task := rfl
@[simp] theorem allocPid_c (w : World) : w.allocPid.2.c = w.c := rfl
@[simp] theorem allocPid_rx (w : World) : w.allocPid.2.rx = w.rx := rfl
@[simp] theorem allocPid_reader (w : World) : w.allocPid.2.reader = w.reader := rfl
@[simp] theorem allocPid_readerReg (w : World) : w.allocPid.2.readerReg = w.readerReg := rfl
@[simp] theorem allocPid_queue (w : World) : w.allocPid.2.queue = w.queue := rfl
@[simp] theorem allocPid_queueReg (w : World) : w.allocPid.2.queueReg = w.queueReg := rfl
@[simp] theorem allocPid_handles (w : World) : w.allocPid.2.handles = w.handles := rfl
@[simp] theorem allocPid_ops (w : World) : w.allocPid.2.ops = w.ops := rfl
@[simp] theorem allocPid_slots (w : World) : w.allocPid.2.slots = w.slots := rfl
@[simp] theorem allocPid_slotReg (w : World) : w.allocPid.2.slotReg = w.slotReg := rfl
@[simp] theorem allocPid_chans (w : World) : w.allocPid.2.chans = w.chans := rfl
@[simp] theorem allocPid_rsps (w : World) : w.allocPid.2.rsps = w.rsps := rfl
@[simp] theorem allocPid_streams (w : World) : w.allocPid.2.streams = w.streams := rfl
@[simp] theorem allocPid_subCtr (w : World) : w.allocPid.2.subCtr = w.subCtr := rfl
@[simp] theorem allocPid_woken (w : World) : w.allocPid.2.woken = w.woken := rfl
@[simp] theorem allocPid_held (w : World) : w.allocPid.2.held = w.held := rfl
@[simp] theorem allocPid_written (w : World) : w.allocPid.2.written = w.written := rfl
@[simp] theorem allocPid_wirePend (w : World) : w.allocPid.2.wirePend = w.wirePend := rfl
@[simp] theorem allocPid_out (w : World) : w.allocPid.2.out = w.out := rfl
@[simp] theorem allocPid_bad (w : World) : w.allocPid.2.bad = w.bad := rfl
@[simp] theorem allocPid_slot (w : World) (s0 : Nat) : w.allocPid.2.slot s0 = w.slot s0 := rfl
@[simp] theorem allocPid_chan (w : World) (c0 : Nat) : w.allocPid.2.chan c0 = w.chan c0 := rfl
@[simp] theorem allocPid_opSt (w : World) (i0 : Nat) : w.allocPid.2.opSt i0 = w.opSt i0 := rfl
@[simp] theorem allocPid_senders (w : World)  : w.allocPid.2.senders = w.senders := rfl
@[simp] theorem allocPid_canWrite (w : World) (n0 : Nat) : w.allocPid.2.canWrite n0 = w.canWrite n0 := rfl
@[simp] theorem allocPid_chanRxAlive (w : World) (c0 : Nat) : w.allocPid.2.chanRxAlive c0 = w.chanRxAlive c0 := rfl
@[simp] theorem allocSub_cfg (w : World) : w.allocSub.2.cfg = w.cfg := rfl
@[simp] theorem allocSub_hasCtx (w : World) : w.allocSub.2.hasCtx = w.hasCtx := rfl
@[simp] theorem allocSub_ctxDropped (w : World) : w.allocSub.2.ctxDropped = w.ctxDropped := rfl
@[simp] theorem allocSub_task (w : World) : w.allocSub.2.task = w.task := rfl
@[simp] theorem allocSub_c (w : World) : w.allocSub.2.c = w.c := rfl
@[simp] theorem allocSub_rx (w : World) : w.allocSub.2.rx = w.rx := rfl
@[simp] theorem allocSub_reader (w : World) : w.allocSub.2.reader = w.reader := rfl
@[simp] theorem allocSub_readerReg (w : World) : w.allocSub.2.readerReg = w.readerReg := rfl
@[simp] theorem allocSub_queue (w : World) : w.allocSub.2.queue = w.queue := rfl
@[simp] theorem allocSub_queueReg (w : World) : w.allocSub.2.queueReg = w.queueReg := rfl
@[simp] theorem allocSub_handles (w : World) : w.allocSub.2.handles = w.handles := rfl
@[simp] theorem allocSub_ops (w : World) : w.allocSub.2.ops = w.ops := rfl
@[simp] theorem allocSub_slots (w : World) : w.allocSub.2.slots = w.slots := rfl
@[simp] theorem allocSub_slotReg (w : World) : w.allocSub.2.slotReg = w.slotReg := rfl
@[simp] theorem allocSub_chans (w : World) : w.allocSub.2.chans = w.chans := rfl
@[simp] theorem allocSub_rsps (w : World) : w.allocSub.2.rsps = w.rsps := rfl
@[simp] theorem allocSub_streams (w : World) : w.allocSub.2.streams = w.streams := rfl
@[simp] theorem allocSub_pidCtr (w : World) : w.allocSub.2.pidCtr = w.pidCtr := rfl
@[simp] theorem allocSub_woken (w : World) : w.allocSub.2.woken = w.woken := rfl
@[simp] theorem allocSub_held (w : World) : w.allocSub.2.held = w.held := rfl
@[simp] theorem allocSub_written (w : World) : w.allocSub.2.written = w.written := rfl
@[simp] theorem allocSub_wirePend (w : World) : w.allocSub.2.wirePend = w.wirePend := rfl
@[simp] theorem allocSub_out (w : World) : w.allocSub.2.out = w.out := rfl
@[simp] theorem allocSub_bad (w : World) : w.allocSub.2.bad = w.bad := rfl
@[simp] theorem allocSub_slot (w : World) (s0 : Nat) : w.allocSub.2.slot s0 = w.slot s0 := rfl
@[simp] theorem allocSub_chan (w : World) (c0 : Nat) : w.allocSub.2.chan c0 = w.chan c0 := rfl
@[simp] theorem allocSub_opSt (w : World) (i0 : Nat) : w.allocSub.2.opSt i0 = w.opSt i0 := rfl
@[simp] theorem allocSub_senders (w : World)  : w.allocSub.2.senders = w.senders := rfl
@[simp] theorem allocSub_canWrite (w : World) (n0 : Nat) : w.allocSub.2.canWrite n0 = w.canWrite n0 := rfl
@[simp] theorem allocSub_chanRxAlive (w : World) (c0 : Nat) : w.allocSub.2.chanRxAlive c0 = w.chanRxAlive c0 := rfl

end World
end Poster
