/-
  Lemmas/TxPublish.lean — PUBLISH: lengths, layout, and the body parses to the caller's values.
-/
import PosterModel.Lemmas.CodecTx

namespace Poster
open Spec

theorem publishProps_typeOk (t : PublishTx) : ∀ p ∈ publishProps t, TypeOk p := by
  unfold publishProps; props_fields; simp [TypeOk]

/-- the code's sum formula is the size of the property bytes -/
theorem publish_propertyLen_eq (t : PublishTx) : t.propertyLen = (encProps (publishProps t)).length := by
  rw [← propsLen_eq_length _ (publishProps_typeOk t)]
  simp only [PublishTx.propertyLen, publishProps, propsLen_append, oLen_pNum, oLen_pBool, oLen_pStr, userLen_eq]

/-- everything after the remaining-length field -/
def publishBody (t : PublishTx) : Bytes :=
  encStr t.topicBytes ++ (oEnc encU16 t.packetId ++ (encVar (encProps (publishProps t)).length
    ++ (encProps (publishProps t) ++ oEnc id t.payload)))

theorem publish_encode_eq (t : PublishTx) :
    t.encode = UInt8.ofNat t.fixedHdr :: (encVar t.remainingLen ++ publishBody t) := by
  simp only [PublishTx.encode, publishBody, publish_propertyLen_eq, publishProps, encProps_append, oEnc_pNum,
    oEnc_pBool, oEnc_pStr, userEnc_eq, encU8, List.append_assoc, List.cons_append, List.nil_append]

theorem publish_remainingLen_eq (t : PublishTx) : t.remainingLen = (publishBody t).length := by
  simp only [PublishTx.remainingLen, publishBody, List.length_append, publish_propertyLen_eq, varLen_eq]
  cases t.packetId <;> cases t.payload <;> simp [oLen, oEnc, encStr, strLen, encU16] <;> omega

theorem publishProps_wf (t : PublishTx) (hd : PublishInDomain t) : ∀ p ∈ publishProps t, PropWF p := by
  unfold publishProps; props_fields
  refine ⟨?_, ?_, ?_, ?_, ?_, ?_, ?_⟩
  · intro a _; simp [PropWF]
  · intro a ha; have := hd.topicAlias a ha; simp [PropWF, nonZeroProp]; omega
  · intro a ha; have := hd.mei a ha; simp [PropWF, nonZeroProp]; omega
  · intro a ha; have := hd.correlationData a ha; simp [PropWF, StrOk] at *; omega
  · intro a ha; have := hd.responseTopic a ha; simp [PropWF, StrOk] at *; omega
  · intro a ha; have := hd.contentType a ha; simp [PropWF, StrOk] at *; omega
  · intro kv hkv; have := hd.userProps kv hkv; simp [PropWF]; omega

theorem publishProps_legal (t : PublishTx) : propsLegal publishPropIds (publishProps t) = true := by
  apply propsLegal_of
  · unfold publishProps; props_fields; simp [publishPropIds]
  · simp [publishPropIds, publishProps, countId_append, countId_optP_ne, countId_userPs, countId_optP_le]

theorem publish_flags (d r : Bool) (q : Nat) (hq : q ≤ 2) :
    (48 + b2n d * 8 + q * 2 + b2n r) / 16 = 3 ∧
    (48 + b2n d * 8 + q * 2 + b2n r) % 16 / 2 % 4 = q ∧
    ((48 + b2n d * 8 + q * 2 + b2n r) % 16 / 8 % 2 == 1) = d ∧
    ((48 + b2n d * 8 + q * 2 + b2n r) % 16 % 2 == 1) = r := by
  cases d <;> cases r <;> simp [b2n] <;> omega

theorem publish_body_parses (t : PublishTx) (hv : t.valid = true) (hd : PublishInDomain t) :
    parseBody (t.fixedHdr / 16) (t.fixedHdr % 16) (publishBody t) = some (ofPublish t) := by
  obtain ⟨h16, hq, hdup, hret⟩ := publish_flags t.dup t.retain t.qos hd.qos
  have hq2 := hd.qos
  have hpl : (encProps (publishProps t)).length < 268435456 := by
    have := hd.size; rw [publish_remainingLen_eq] at this
    simp only [publishBody, List.length_append] at this; omega
  have hq3 : ¬ t.qos = 3 := by omega
  have hblock := pPropBlock_enc _ (publishProps_wf t hd) hpl (t.payload.getD [])
  simp only [PublishTx.valid, Bool.and_eq_true, Bool.or_eq_true, beq_iff_eq] at hv
  obtain ⟨htop, hpid⟩ := hv
  obtain ⟨topic, htopic⟩ := Option.isSome_iff_exists.mp htop
  have htl : topic.length < 65536 := by have := hd.topic topic htopic; simp [StrOk] at this; omega
  simp only [PublishTx.fixedHdr] at h16 hq hdup hret ⊢
  simp only [Nat.reduceMul] at h16 hq hdup hret ⊢
  simp only [h16, parseBody, parsePublish, hq, hdup, hret, hq3, ↓reduceIte, publishBody, PublishTx.topicBytes, htopic,
    Option.getD_some, pStr_enc _ htl, oEnc_id]
  cases hp : t.packetId with
  | none =>
    have hq0 : t.qos = 0 := by simpa [hp] using hpid
    have hd0 := hd.dup hq0
    simp [hq0, hd0, hblock, publishProps_legal, ofPublish, htopic, hp]
  | some p =>
    obtain ⟨hp1, hp2, hq0⟩ := hd.packetId p hp
    have hp0 : ¬ p = 0 := by omega
    simp [hq0, pPacketId, pU16_enc p (by omega), hp0, hblock, publishProps_legal, ofPublish, htopic, hp]

end Poster
