/-
  Lemmas/WorldIdsSub.lean — work package W10, part 5: subscription identifiers along traces of stream moves (C11).

    * `SubOk w`                 the subscription-identifier counter and every subscription identifier in flight (queued
                                SUBSCRIBE messages, subscription table) lie in 1..268435455
    * `strace_subOk`            preserved along every trace; `strace_subCtr_iter`: along a trace the counter advances by one
                                `nextSub` step per `subscribe()` future first polled, and not otherwise
    * `strace_started_gets_counter`   the `k`-th `subscribe()` future first polled along a trace finds the counter at
                                `iter nextSub k` of its initial value, and only that value can newly be in flight afterwards
-/
import PosterModel.Lemmas.WorldStreamSid
import PosterModel.Lemmas.WorldStreamStep
import PosterModel.Properties.C11

set_option linter.unusedVariables false
set_option linter.unusedSimpArgs false

namespace Poster
open Framing
namespace World
namespace W10

/-- the subscription-identifier counter and all subscription identifiers in flight are in 1..268435455: non-zero (the
    `NonZero` conversion cannot fail) and encodable as a variable byte integer -/
structure SubOk (w : World) : Prop where
  ctr : 1 ≤ w.subCtr ∧ w.subCtr ≤ 268435455
  ids : ∀ s ∈ psids w, 1 ≤ s ∧ s ≤ 268435455

theorem subOk_init (cfg : Cfg) : SubOk { cfg := cfg } := ⟨⟨Nat.le_refl 1, (by decide : (1 : Nat) ≤ 268435455)⟩, by simp [psids]⟩

theorem SubOk.move {l : SLab} {w w' : World} (h : SubOk w) (m : SMove l w w') : SubOk w' := by
  rcases m.subRel with ⟨_, sc, _, sub⟩ | ⟨_, sc, _, sub⟩
  · exact ⟨by rw [sc]; exact h.ctr, fun s hs => h.ids s (sub s hs)⟩
  · refine ⟨by rw [sc]; exact User.nextSub_range _, fun s hs => ?_⟩
    rcases sub s hs with h1 | h1
    · exact h.ids s h1
    · rw [h1]; exact h.ctr

theorem strace_subOk {tr : List SLab} {w w' : World} (t : STrace w tr w') (h : SubOk w) : SubOk w' := by
  induction t with
  | refl => exact h
  | cons m _ ih => exact ih (h.move m)

/-- along a trace the counter advances by exactly one `nextSub` step per `subscribe()` future first polled -/
theorem strace_subCtr_iter {tr : List SLab} {w w' : World} (t : STrace w tr w') :
    w'.subCtr = iter nextSub (startedOf tr).length w.subCtr := by
  induction t with
  | refl => rfl
  | @cons a b c l tr' m _ ih =>
    rw [startedOf_cons, List.length_append, ih]
    rcases m.subRel with ⟨hs, sc, _, _⟩ | ⟨hs, sc, _, _⟩
    · rw [hs, sc]; simp
    · cases hst : l.started with
      | none => exact absurd hst hs
      | some x =>
        rw [sc]
        show iter nextSub (startedOf tr').length (nextSub a.subCtr) = iter nextSub (1 + (startedOf tr').length) a.subCtr
        rw [Nat.add_comm]; rfl

/-- **Every `subscribe()` gets the counter's value.** If `l` is the move in which a `subscribe()` future is first polled
    (`l.started ≠ none`), at position `t1.length` of a trace from `w`: in the world `wa` before that move the counter stands
    at `iter nextSub k w.subCtr`, `k` = the number of `subscribe()` futures first polled before; the move advances the
    counter by one step; and the only subscription identifier that can newly be in flight after the move is that value. -/
theorem strace_started_gets_counter {tr : List SLab} {w w' : World} (t : STrace w tr w') (t1 t2 : List SLab) (l : SLab)
    (e : tr = t1 ++ l :: t2) (hl : l.started ≠ none) :
    ∃ wa wb, STrace w t1 wa ∧ SMove l wa wb ∧ STrace wb t2 w' ∧
      wa.subCtr = iter nextSub (startedOf t1).length w.subCtr ∧ wb.subCtr = nextSub wa.subCtr ∧
      ∀ s ∈ psids wb, s ∈ psids wa ∨ s = wa.subCtr := by
  subst e
  obtain ⟨wa, wb, s1, m, s2⟩ := t.split_at
  refine ⟨wa, wb, s1, m, s2, strace_subCtr_iter s1, ?_⟩
  rcases m.subRel with ⟨hs, _⟩ | ⟨_, sc, _, sub⟩
  · exact absurd hs hl
  · exact ⟨sc, sub⟩

end W10
end World
end Poster
