/-
  Lemmas/CtxQuota.lean — the simulation relation between the context and the send-quota monitor `QMon` of CtxRun.lean
  (property C10), and the bookkeeping lemmas about `bump` it needs.
-/
import PosterModel.Lemmas.CtxPkt

set_option linter.unusedVariables false
set_option linter.unusedSimpArgs false

namespace Poster

/-- the context and the monitor agree: free slots + outstanding QoS>0 publishes = Receive Maximum -/
def QRel (c : Ctx) (m : QMon) : Prop := c.quota + m.out.length = c.recvMax ∧ m.R = c.recvMax

/-- a completion of something outstanding frees exactly one slot -/
theorem bump_rel_erase (c : Ctx) (m : QMon) (e : Nat × Nat) (h : QRel c m) (he : e ∈ m.out) (c' : Ctx)
    (hq : c'.quota = c.bump.quota) (hr : c'.recvMax = c.recvMax) :
    QRel c' { m with out := m.out.erase e } := by
  obtain ⟨h1, h2⟩ := h
  have hl := List.length_erase_of_mem he
  have hpos : 0 < m.out.length := List.length_pos_of_mem he
  unfold QRel
  rw [hq, hr]
  unfold Ctx.bump
  split
  · simp; omega
  · rename_i hne; simp at hne; simp; omega

end Poster
