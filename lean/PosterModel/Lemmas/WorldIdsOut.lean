/-
  Lemmas/WorldIdsOut.lean — work package W10, part 3: the packet identifiers in flight (C11).

    * `Outstanding w`   the packet identifiers of the identifier-carrying requests in flight in `w`: those of the queued
                        messages (PUBLISH QoS>0, SUBSCRIBE, UNSUBSCRIBE, PUBREL), those registered in `awaiting_ack`
                        (kinds 4, 5, 7, 9, 11 — everything but the key all PINGREQs share), and those of the QoS 2
                        publishes whose future holds a successful PUBREC in its oneshot and has not yet sent the PUBREL
                        (which will carry the SAME identifier)
    * `Shrinks w w'`    no identifier becomes outstanding and the counter stands still
    * `IdStep w w'`     at most the counter's value `w.pidCtr` becomes outstanding, once, and only together with an
                        advance of the counter by one `nextPid` step
  Every elementary transition (`World.W7.Micro`) is an `IdStep` (`micro_idStep`).
-/
import PosterModel.Lemmas.WorldIdsMax
import PosterModel.Lemmas.UserAlloc

set_option linter.unusedVariables false
set_option linter.unusedSimpArgs false

namespace Poster
open Framing
namespace World
namespace W10
open W7

/-! ## action identifiers and packet identifiers -/

theorem aidKind_actionId (k pid : Nat) (h : pid < 65536) : aidKind (actionId k pid) = k := by
  unfold aidKind actionId; omega

theorem aidPid_actionId (k pid : Nat) : aidPid (actionId k pid) = pid % 65536 := by
  unfold aidPid actionId; omega

theorem nextPid_ne (c : Nat) : nextPid c ≠ c := by
  unfold nextPid; split <;> omega

/-- the packet identifier an action identifier stands for; none for the key `actionId 13 0` all PINGREQs share -/
def aidPidOf (aid : Nat) : Option Nat := if aidKind aid = 13 then none else some (aidPid aid)

/-- the packet identifier a queued message carries -/
def msgPid (m : Msg) : Option Nat := m.aid.bind aidPidOf

/-- the packet identifiers of the queued messages -/
def qpids (q : List Msg) : List Nat := q.filterMap msgPid

/-- the packet identifiers registered in `awaiting_ack` -/
def apids (aw : List (Nat × Nat)) : List Nat := aw.filterMap fun e => aidPidOf e.1

/-- the packet identifier of the PUBREL a future will send when it finds this in its oneshot -/
def relPid : Option Slot → Option Nat
  | some (.full (.pkt (.pubrec a))) => if a.reason < 128 then aidPidOf (actionId 7 a.packetId) else none
  | _ => none

/-- the PUBREL the operation-table entry `e` is about to send in `w` -/
def opRel (w : World) (e : Nat × OpSt) : Option Nat :=
  match e.2 with
  | .wait s .pubrec => relPid (w.slot s)
  | _ => none

/-- the identifiers of the QoS 2 publishes between their PUBREC and their PUBREL -/
def ppids (w : World) : List Nat := w.ops.filterMap (opRel w)

/-- **the packet identifiers in flight** -/
def Outstanding (w : World) : List Nat := qpids w.queue ++ apids w.c.awaiting ++ ppids w

theorem aidPidOf_actionId (k pid : Nat) (hk : k ≠ 13) (hp : pid < 65536) : aidPidOf (actionId k pid) = some pid := by
  unfold aidPidOf
  rw [aidKind_actionId k pid hp, if_neg hk, aidPid_actionId, Nat.mod_eq_of_lt hp]

theorem aidPidOf_ping : aidPidOf (actionId 13 0) = none := by decide

theorem msgPid_ff (p : Bytes) (s : Nat) : msgPid (.ff p s) = none := rfl
theorem msgPid_awaitAck (aid : Nat) (p : Bytes) (s : Nat) : msgPid (.awaitAck aid p s) = aidPidOf aid := rfl
theorem msgPid_subscribe (aid sid : Nat) (p : Bytes) (s ch : Nat) : msgPid (.subscribe aid sid p s ch) = aidPidOf aid := rfl
theorem relPid_pubrec (a : AckRx) :
    relPid (some (.full (.pkt (.pubrec a)))) = if a.reason < 128 then aidPidOf (actionId 7 a.packetId) else none := rfl

theorem qpids_cons (m : Msg) (q : List Msg) : qpids (m :: q) = (msgPid m).toList ++ qpids q := by
  simp only [qpids, List.filterMap_cons]
  cases msgPid m <;> rfl

@[simp] theorem qpids_nil : qpids [] = [] := rfl

theorem qpids_append (a b : List Msg) : qpids (a ++ b) = qpids a ++ qpids b := by
  simp [qpids, List.filterMap_append]

theorem apids_append (a b : List (Nat × Nat)) : apids (a ++ b) = apids a ++ apids b := by
  simp [apids, List.filterMap_append]

theorem apids_cons (e : Nat × Nat) (t : List (Nat × Nat)) : apids (e :: t) = (aidPidOf e.1).toList ++ apids t := by
  simp only [apids, List.filterMap_cons]
  cases aidPidOf e.1 <;> rfl

theorem count_toList (o : Option Nat) (x : Nat) : o.toList.count x = if o = some x then 1 else 0 := by
  cases o with
  | none => simp
  | some y =>
    simp only [Option.toList, List.count_singleton, Option.some.injEq, beq_iff_eq]

/-! ## the operation table as `pre ++ (id, st) :: post` -/

theorem ops_split {β} (k : Nat) (v : β) (l : List (Nat × β)) (hn : (l.map (·.1)).Nodup) (h : lookupFirst k l = some v) :
    ∃ pre post, l = pre ++ (k, v) :: post ∧ k ∉ pre.map (·.1) ∧ k ∉ post.map (·.1) ∧
      eraseFirst k l = pre ++ post ∧ ∀ v', setAssoc k v' l = pre ++ (k, v') :: post := by
  induction l with
  | nil => simp [lookupFirst] at h
  | cons x t ih =>
    obtain ⟨a, b⟩ := x
    simp only [List.map_cons, List.nodup_cons] at hn
    by_cases hk : a = k
    · subst hk
      simp only [lookupFirst, if_true, Option.some.injEq] at h
      subst h
      refine ⟨[], t, rfl, by simp, hn.1, ?_, fun v' => ?_⟩
      · simp [eraseFirst, removeFirst]
      · simp [setAssoc]
    · simp only [lookupFirst, hk, if_false] at h
      obtain ⟨pre, post, e, h1, h2, h3, h4⟩ := ih hn.2 h
      refine ⟨(a, b) :: pre, post, by rw [e]; rfl, ?_, h2, ?_, fun v' => ?_⟩
      · simp only [List.map_cons, List.mem_cons, not_or]; exact ⟨fun e' => hk e'.symm, h1⟩
      · rw [eraseFirst_cons, if_neg hk, h3]; rfl
      · simp only [setAssoc, hk, if_false]; rw [h4]; rfl

/-! ## the pending PUBRELs under changes of the oneshots -/

theorem ppids_congr {w w' : World} (ops : w'.ops = w.ops)
    (h : ∀ id s, (id, OpSt.wait s .pubrec) ∈ w.ops → relPid (w'.slot s) = relPid (w.slot s)) : ppids w' = ppids w := by
  unfold ppids
  rw [ops]
  apply User.filterMap_congr'
  intro e he
  obtain ⟨id, st⟩ := e
  cases st with
  | fresh hh r => rfl
  | wait s k => cases k <;> first | rfl | exact h id s he

/-- a oneshot that changes from empty to closed or to a value that is not a packet carries no pending PUBREL, before or
    after -/
theorem relPid_of_slotRel {P : Nat → SlotVal → Prop} {w w' : World} (h : SlotRel P w w')
    (hP : ∀ s v, P s v → ∀ p, v ≠ .pkt p) (s : Nat) : relPid (w'.slot s) = relPid (w.slot s) := by
  rcases h s with e | ⟨e0, e | ⟨v, e, hv⟩⟩
  · rw [e]
  · rw [e, e0]; rfl
  · rw [e, e0]
    cases v with
    | pkt p => exact absurd rfl (hP s _ hv p)
    | _ => rfl

/-- one oneshot `slot` may receive the packet `p`: at most one pending PUBREL appears, the one `p` stands for -/
theorem ppids_fill {w w' : World} (hi : OpsInv w) (ops : w'.ops = w.ops) (slot : Nat) (p : RxPacket)
    (h : SlotRel (fun s v => s = slot ∧ v = .pkt p) w w') (x : Nat) :
    (ppids w').count x ≤ (ppids w).count x + (if relPid (some (.full (.pkt p))) = some x then 1 else 0) := by
  -- what each entry contributes
  have hent : ∀ e ∈ w.ops, opRel w' e = opRel w e ∨
      (opRel w e = none ∧ e.1 = slot / 2 ∧ opRel w' e = relPid (some (.full (.pkt p)))) := by
    intro e he
    obtain ⟨id, st⟩ := e
    cases st with
    | fresh hh r => exact Or.inl rfl
    | wait s k =>
      cases k <;> try exact Or.inl rfl
      rcases h s with e | ⟨e0, e | ⟨v, e, rfl, rfl⟩⟩
      · left; simp only [opRel, e]
      · left; simp only [opRel, e, e0]; rfl
      · right
        refine ⟨by simp only [opRel, e0]; rfl, (hi.owner he).symm, by simp only [opRel, e]⟩
  unfold ppids
  rw [ops]
  have hn := hi.nodup
  generalize w.ops = l at hent hn
  induction l with
  | nil => simp
  | cons e t ih =>
    simp only [List.map_cons, List.nodup_cons] at hn
    have iht := ih (fun e' he' => hent e' (List.mem_cons_of_mem _ he')) hn.2
    rcases hent e (by simp) with h1 | ⟨h1, h2, h3⟩
    · rw [List.filterMap_cons, List.filterMap_cons, h1]
      cases opRel w e with
      | none => exact iht
      | some y => simp only [List.count_cons]; omega
    · -- no other entry has this key, so the rest of the table contributes as before
      have hrest : t.filterMap (opRel w') = t.filterMap (opRel w) := by
        apply User.filterMap_congr'
        intro e' he'
        rcases hent e' (List.mem_cons_of_mem _ he') with h' | ⟨_, h', _⟩
        · exact h'
        · exfalso
          apply hn.1
          rw [h2, ← h']
          exact List.mem_map.2 ⟨e', he', rfl⟩
      rw [List.filterMap_cons, List.filterMap_cons, h1, h3, hrest]
      cases hr : relPid (some (.full (.pkt p))) with
      | none => simp
      | some y =>
        simp only [List.count_cons, Option.some.injEq, beq_iff_eq]
        split <;> omega

/-- a successful PUBREC addressed to `aid` stands for the packet identifier registered under `aid` -/
theorem relPid_of_ack (p : RxPacket) (aid x : Nat) (hwf : p.wf) (haid : rxActionId p = some aid)
    (h : relPid (some (.full (.pkt p))) = some x) : aidPidOf aid = some x := by
  cases p with
  | pubrec a =>
    rw [relPid_pubrec] at h
    split at h
    · simp only [rxActionId, Option.some.injEq] at haid
      have hlt : a.packetId < 65536 := hwf.2
      rw [aidPidOf_actionId 7 _ (by decide) hlt] at h
      rw [← haid, aidPidOf_actionId 5 _ (by decide) hlt, h]
    · cases h
  | _ => simp [relPid] at h

/-! ## no identifier becomes outstanding -/

/-- the counter stands still and no identifier becomes outstanding (identifiers can only leave) -/
def Shrinks (w w' : World) : Prop := w'.pidCtr = w.pidCtr ∧ ∀ p, (Outstanding w').count p ≤ (Outstanding w).count p

theorem Shrinks.refl (w : World) : Shrinks w w := ⟨rfl, fun _ => Nat.le_refl _⟩

theorem Shrinks.trans {a b c : World} (h1 : Shrinks a b) (h2 : Shrinks b c) : Shrinks a c :=
  ⟨h2.1.trans h1.1, fun p => Nat.le_trans (h2.2 p) (h1.2 p)⟩

theorem Shrinks.of_eq {w w' : World} (hp : w'.pidCtr = w.pidCtr) (hq : w'.queue = w.queue)
    (ha : w'.c.awaiting = w.c.awaiting) (ho : w'.ops = w.ops) (hs : ∀ s, w'.slot s = w.slot s) : Shrinks w w' := by
  refine ⟨hp, fun p => ?_⟩
  have : ppids w' = ppids w := ppids_congr ho (fun id s _ => by rw [hs s])
  simp only [Outstanding, hq, ha, this]
  exact Nat.le_refl _

/-- **a move of the context (or a passive move) lets no identifier become outstanding** -/
theorem shrinks_of_move_none {w w' : World} (hi : OpsInv w) (m : Move none w w') : Shrinks w w' := by
  cases m with
  | cmsg m q hq queue ops pid out aw slots =>
    refine ⟨pid, fun p => ?_⟩
    have hpp : ppids w' = ppids w :=
      ppids_congr ops (fun id s _ => relPid_of_slotRel slots (fun s v h => h.2) s)
    simp only [Outstanding, hpp, queue, hq, qpids_cons, List.count_append, count_toList]
    rcases aw with e | ⟨aid, h1, e⟩
    · rw [e]; omega
    · rw [e, apids_append, apids_cons, List.count_append, List.count_append, count_toList]
      have : msgPid m = aidPidOf aid := by simp [msgPid, h1]
      simp only [apids, List.filterMap_nil, List.count_nil, this]
      omega
  | cpkt p aid slot pre post wf haid haw hpre aw queue ops pid out slots =>
    refine ⟨pid, fun x => ?_⟩
    have hpp := ppids_fill hi ops slot p slots x
    simp only [Outstanding, queue, aw, haw, apids_append, apids_cons, List.count_append, count_toList]
    by_cases hr : relPid (some (.full (.pkt p))) = some x
    · rw [if_pos hr] at hpp
      rw [if_pos (relPid_of_ack p aid x wf haid hr)]
      omega
    · rw [if_neg hr] at hpp
      omega
  | drop queue aw ops pid out slots =>
    refine ⟨pid, fun p => ?_⟩
    have hpp : ppids w' = ppids w :=
      ppids_congr ops (fun id s _ => relPid_of_slotRel slots (fun s v h => h.elim) s)
    simp only [Outstanding, hpp, List.count_append]
    have h1 := (queue.filterMap msgPid).count_le p
    have h2 := (aw.filterMap (fun e => aidPidOf e.1)).count_le p
    simp only [qpids, apids]
    omega

theorem shrinks_of_moves_ctx {w w' : World} (hi : OpsInv w) (m : Moves CtxTag w w') : Shrinks w w' := by
  induction m with
  | refl w => exact .refl w
  | @cons t a b c ht hm _ ih =>
    cases ht
    exact (shrinks_of_move_none hi hm).trans (ih (hi.move hm))


/-! ## what a poll of a handle future does to the counter and to the queue -/

theorem resumeOp_pidCtr (w : World) (id s : Nat) (k : Wait) (v : SlotVal) : (w.resumeOp id s k v).pidCtr = w.pidCtr := by
  have fin : ∀ r, ((w.clearSlot s).finishOp id r).pidCtr = w.pidCtr := fun r => by simp
  cases v with
  | errSize => exact fin _
  | errQuota => exact fin _
  | unit => simp only [resumeOp]; split <;> exact fin _
  | pkt p =>
    cases ha : Wait.accepts k p with
    | false => rw [resumeOp_mismatch w id s k p ha]; simp
    | true =>
      cases k <;> cases p <;> simp [Wait.accepts] at ha <;> simp only [resumeOp]
      · split <;> exact fin _
      · rename_i a
        split
        · exact fin _
        · exact (User.sendAwait_pidCtr (w.clearSlot s) _ id (s + 1) .pubcomp).trans (by simp)
      · split <;> exact fin _
      · simp
      · exact fin _
      · exact fin _

/-- the requests that take a packet identifier: PUBLISH with QoS > 0, SUBSCRIBE, UNSUBSCRIBE -/
def Req.consumes : Req → Bool
  | .publish t => t.qos ≠ 0
  | .subscribe _ => true
  | .unsubscribe _ => true
  | .ping => false
  | .disconnect _ => false

/-- **First poll of a handle future: the identifier is the counter's value.** The counter advances by exactly one step iff
    the request takes an identifier; the queue gains at most one message; and if it gains one, the message carries no
    packet identifier (QoS 0 PUBLISH, PINGREQ, DISCONNECT) or — for a request that takes an identifier — exactly the value
    the counter had before the poll. -/
theorem startOp_ids (w : World) (id : Nat) (req : Req) (hp : PidOk w.pidCtr) :
    (w.startOp id req).pidCtr = (if Req.consumes req then nextPid w.pidCtr else w.pidCtr) ∧
    ((w.startOp id req).queue = w.queue ∨
      ∃ m, (w.startOp id req).queue = w.queue ++ [m] ∧
        msgPid m = (if Req.consumes req then some w.pidCtr else none)) := by
  have hlt : w.pidCtr < 65536 := by unfold PidOk at hp; omega
  have sa : ∀ (w0 : World) (m : Msg) (s : Nat) (k : Wait), w0.queue = w.queue →
      (w0.sendAwait m id s k).queue = w.queue ∨ (w0.sendAwait m id s k).queue = w.queue ++ [m] := by
    intro w0 m s k h0
    by_cases hc : w0.hasCtx = true
    · obtain ⟨wk, qr, e⟩ := User.sendAwait_ctx w0 m id s k hc
      right; rw [e]; simp [h0]
    · left; rw [User.sendAwait_no_ctx w0 m id s k (by simpa using hc)]; simpa using h0
  cases req with
  | publish t =>
    by_cases hq0 : t.qos = 0
    · rw [User.startOp_publish0 w id t hq0]
      have hcons : Req.consumes (.publish t) = false := by simp [Req.consumes, hq0]
      simp only [hcons]
      split
      · exact ⟨by simp, Or.inl (by simp)⟩
      · refine ⟨by simp, ?_⟩
        rcases sa w (.ff t.encode (2 * id)) (2 * id) .ff rfl with e | e
        · exact Or.inl e
        · exact Or.inr ⟨_, e, rfl⟩
    · rw [User.startOp_publish12 w id t hq0]
      have hcons : Req.consumes (.publish t) = true := by simp [Req.consumes, hq0]
      simp only [hcons]
      split
      · exact ⟨by simp; rfl, Or.inl (by simp [allocPid])⟩
      · refine ⟨by simp; rfl, ?_⟩
        rcases sa (w.allocPid.2) (.awaitAck (actionId (if t.qos = 1 then 4 else 5) w.pidCtr)
            ({ t with packetId := some w.pidCtr } : PublishTx).encode (2 * id)) (2 * id)
            (if t.qos = 1 then .puback else .pubrec) rfl with e | e
        · exact Or.inl e
        · refine Or.inr ⟨_, e, ?_⟩
          rw [msgPid_awaitAck, if_pos trivial]
          have h : ∀ k, k ≠ 13 → aidPidOf (actionId k w.pidCtr) = some w.pidCtr :=
            fun k hk => aidPidOf_actionId k _ hk hlt
          apply h
          split <;> omega
  | subscribe t =>
    rw [User.startOp_subscribe]
    simp only [Req.consumes, ↓reduceIte]
    split
    · exact ⟨by simp [allocSub]; rfl, Or.inl (by simp [allocPid, allocSub])⟩
    · split
      · exact ⟨by simp [allocSub, dropChanRx, setChan]; rfl,
          Or.inl (by simp [allocPid, allocSub, dropChanRx, setChan])⟩
      · next w' hs =>
        by_cases hc : w.hasCtx = true
        · obtain ⟨wk, qr, e⟩ := User.sendMsg_shape (((w.allocPid.2).allocSub.2).setChan id {})
            (.subscribe (actionId 9 w.pidCtr) w.subCtr
              ({ t with packetId := w.pidCtr, subId := some w.subCtr } : SubscribeTx).encode (2 * id) id) hc
          rw [e] at hs; cases hs
          refine ⟨by simp [allocSub, setChan]; rfl, Or.inr ⟨_, rfl, ?_⟩⟩
          rw [msgPid_subscribe]
          exact aidPidOf_actionId 9 _ (by omega) hlt
        · rw [User.sendMsg_none _ _ (by simpa [setChan, allocPid, allocSub] using hc)] at hs; cases hs
  | unsubscribe t =>
    rw [User.startOp_unsubscribe]
    simp only [Req.consumes, ↓reduceIte]
    split
    · exact ⟨by simp; rfl, Or.inl (by simp [allocPid])⟩
    · refine ⟨by simp; rfl, ?_⟩
      rcases sa (w.allocPid.2) (.awaitAck (actionId 11 w.pidCtr)
          ({ t with packetId := w.pidCtr } : UnsubscribeTx).encode (2 * id)) (2 * id) .unsuback rfl with e | e
      · exact Or.inl e
      · refine Or.inr ⟨_, e, ?_⟩
        rw [msgPid_awaitAck]
        exact aidPidOf_actionId 11 _ (by omega) hlt
  | ping =>
    rw [User.startOp_ping]
    simp only [Req.consumes, Bool.false_eq_true, ↓reduceIte]
    refine ⟨by simp, ?_⟩
    rcases sa w (.awaitAck (actionId 13 0) pingreqBytes (2 * id)) (2 * id) .pingresp rfl with e | e
    · exact Or.inl e
    · exact Or.inr ⟨_, e, by rw [msgPid_awaitAck]; exact aidPidOf_ping⟩
  | disconnect t =>
    rw [User.startOp_disconnect]
    simp only [Req.consumes, Bool.false_eq_true, ↓reduceIte]
    refine ⟨by simp, ?_⟩
    rcases sa w (.ff t.encode (2 * id)) (2 * id) .ff rfl with e | e
    · exact Or.inl e
    · exact Or.inr ⟨_, e, rfl⟩

/-- **A resumed future queues nothing but the PUBREL, which carries the identifier of the PUBREC it answers.** -/
theorem resumeOp_ids (w : World) (id s : Nat) (k : Wait) (v : SlotVal) :
    (w.resumeOp id s k v).pidCtr = w.pidCtr ∧
    ((w.resumeOp id s k v).queue = w.queue ∨
      ∃ m, (w.resumeOp id s k v).queue = w.queue ++ [m] ∧ k = .pubrec ∧
        msgPid m = relPid (some (.full v))) := by
  refine ⟨resumeOp_pidCtr w id s k v, ?_⟩
  rcases (pubrel_only_from_pubrec w id).2 s k v with e | ⟨a, rfl, rfl, ha, hc, e⟩
  · exact Or.inl e
  · refine Or.inr ⟨_, e, rfl, ?_⟩
    rw [msgPid_awaitAck, relPid_pubrec, if_pos ha]


/-! ## at most the counter's value becomes outstanding -/

/-- **one elementary transition and the identifiers in flight**: the counter stands still or advances by one step; the
    multiset of outstanding identifiers grows by at most one element, which is then the value the counter had before, and
    only when the counter advances -/
structure IdStep (w w' : World) : Prop where
  ctr : w'.pidCtr = w.pidCtr ∨ w'.pidCtr = nextPid w.pidCtr
  cnt : ∀ p, (Outstanding w').count p ≤
    (Outstanding w).count p + (if w'.pidCtr ≠ w.pidCtr ∧ p = w.pidCtr then 1 else 0)

theorem IdStep.of_shrinks {w w' : World} (h : Shrinks w w') : IdStep w w' :=
  ⟨Or.inl h.1, fun p => Nat.le_trans (h.2 p) (Nat.le_add_right _ _)⟩

theorem IdStep.refl (w : World) : IdStep w w := .of_shrinks (.refl w)

theorem IdStep.shrinks_left {a b c : World} (h1 : Shrinks a b) (h2 : IdStep b c) : IdStep a c := by
  refine ⟨by rw [← h1.1]; exact h2.ctr, fun p => ?_⟩
  have := h2.cnt p
  have := h1.2 p
  rw [h1.1] at *
  omega

theorem IdStep.shrinks_right {a b c : World} (h1 : IdStep a b) (h2 : Shrinks b c) : IdStep a c := by
  refine ⟨by rw [h2.1]; exact h1.ctr, fun p => ?_⟩
  have := h1.cnt p
  have := h2.2 p
  rw [h2.1]
  omega

theorem OpsInv.pubrec_slot {w : World} (hi : OpsInv w) {j s : Nat} (hm : (j, OpSt.wait s .pubrec) ∈ w.ops) : s = 2 * j := by
  rcases (hi.shape j s .pubrec hm).1 with ⟨h, _⟩ | ⟨_, h⟩
  · exact h
  · cases h

/-- the entries of the operation table other than `id` contribute the same pending PUBRELs when the oneshots of the
    other operations are untouched -/
theorem opRel_congr_others {w w' : World} (hi : OpsInv w) {id : Nat} {st : OpSt} (hst : w.opSt id = some st)
    (l : List (Nat × OpSt)) (hl : ∀ e ∈ l, e ∈ w.ops ∧ e.1 ≠ id)
    (hs : ∀ j s', j ≠ id → (j, OpSt.wait s' .pubrec) ∈ w.ops → (∀ k0, st ≠ .wait s' k0) → w'.slot s' = w.slot s') :
    l.filterMap (opRel w') = l.filterMap (opRel w) := by
  apply User.filterMap_congr'
  intro e he
  obtain ⟨hm, hne⟩ := hl e he
  obtain ⟨j, stj⟩ := e
  cases stj with
  | fresh hh r => rfl
  | wait sj kj =>
    cases kj <;> try rfl
    simp only [opRel]
    rw [hs j sj hne hm (hi.other_slot hst hne hm)]

/-- **a move of the future of `id`**, given what its poll does to the counter and what the message it queues carries -/
theorem idStep_of_move_some {w w' : World} {id : Nat} (hi : OpsInv w) (m : Move (some id) w w')
    (hctr : w'.pidCtr = w.pidCtr ∨ w'.pidCtr = nextPid w.pidCtr)
    (hmsg : ∀ m0, w'.queue = w.queue ++ [m0] →
      msgPid m0 = none ∨ (msgPid m0 = some w.pidCtr ∧ w'.pidCtr ≠ w.pidCtr) ∨
      ∃ s0, w.opSt id = some (.wait s0 .pubrec) ∧ msgPid m0 = relPid (w.slot s0)) : IdStep w w' := by
  refine ⟨hctr, fun x => ?_⟩
  cases m with
  | finish _ st hst ops queue aw pid slots out =>
    obtain ⟨pre, post, e, h1, h2, h3, _⟩ := ops_split id st w.ops hi.nodup hst
    have hmem : ∀ e' ∈ pre ++ post, e' ∈ w.ops ∧ e'.1 ≠ id := by
      intro e' he'
      rw [e]
      rcases List.mem_append.mp he' with h | h
      · exact ⟨List.mem_append_left _ h, fun hx => h1 (List.mem_map.2 ⟨e', h, hx⟩)⟩
      · exact ⟨List.mem_append_right _ (List.mem_cons_of_mem _ h), fun hx => h2 (List.mem_map.2 ⟨e', h, hx⟩)⟩
    have hpp : ppids w' = (pre ++ post).filterMap (opRel w) := by
      unfold ppids
      rw [ops, h3]
      exact opRel_congr_others hi hst _ hmem (fun j s' _ _ h => slots s' h)
    have hsub : ((pre ++ post).filterMap (opRel w)).Sublist (ppids w) := by
      unfold ppids
      rw [e]
      exact List.Sublist.filterMap _ (List.Sublist.append (List.Sublist.refl _) (List.sublist_cons_self _ _))
    simp only [Outstanding, queue, aw, hpp, List.count_append]
    have := hsub.count_le x
    omega
  | send _ st m s k hst shape ops queue mslot aw pid slotNew slots out msgok =>
    obtain ⟨pre, post, e, h1, h2, _, h4⟩ := ops_split id st w.ops hi.nodup hst
    have hmem : ∀ e' ∈ pre ++ post, e' ∈ w.ops ∧ e'.1 ≠ id := by
      intro e' he'
      rw [e]
      rcases List.mem_append.mp he' with h | h
      · exact ⟨List.mem_append_left _ h, fun hx => h1 (List.mem_map.2 ⟨e', h, hx⟩)⟩
      · exact ⟨List.mem_append_right _ (List.mem_cons_of_mem _ h), fun hx => h2 (List.mem_map.2 ⟨e', h, hx⟩)⟩
    -- the new oneshot belongs to `id`
    have hs2 : s = 2 * id ∨ s = 2 * id + 1 := by
      rcases shape with ⟨_, _, _, h, _⟩ | ⟨s0, hs0, h, _⟩
      · exact Or.inl h
      · subst hs0
        have := OpsInv.pubrec_slot hi (mem_of_opSt hst)
        omega
    have hothers : (pre ++ post).filterMap (opRel w') = (pre ++ post).filterMap (opRel w) := by
      refine opRel_congr_others hi hst _ hmem (fun j s' hj hm h => slots s' ?_ h)
      have := OpsInv.pubrec_slot hi hm
      omega
    have hown : opRel w' (id, .wait s k) = none := by
      cases k <;> try rfl
      simp only [opRel, slotNew]; rfl
    have hpp' : ppids w' = pre.filterMap (opRel w) ++ post.filterMap (opRel w) := by
      unfold ppids
      rw [ops, h4, List.filterMap_append, List.filterMap_cons, hown, ← List.filterMap_append, hothers,
        List.filterMap_append]
    have hpp : ppids w = pre.filterMap (opRel w) ++ (opRel w (id, st)).toList ++ post.filterMap (opRel w) := by
      unfold ppids
      rw [e, List.filterMap_append, List.filterMap_cons]
      cases opRel w (id, st) <;> simp
    simp only [Outstanding, queue, aw, hpp, hpp', qpids_append, qpids_cons, qpids_nil, List.count_append, count_toList,
      List.count_nil]
    rcases hmsg m queue with h | ⟨h, hne⟩ | ⟨s0, hs0, h⟩
    · rw [h]; simp only [reduceCtorEq, if_false]; omega
    · rw [h]
      by_cases hx : w.pidCtr = x
      · subst hx
        have e1 : (if w'.pidCtr ≠ w.pidCtr ∧ w.pidCtr = w.pidCtr then 1 else 0) = 1 := if_pos ⟨hne, rfl⟩
        rw [e1]; simp only [if_true]; omega
      · have : ¬ (some w.pidCtr = some x) := fun hh => hx (Option.some.inj hh)
        simp only [this, if_false]; omega
    · rw [hst] at hs0
      simp only [Option.some.injEq] at hs0
      subst hs0
      have : opRel w (id, .wait s0 .pubrec) = relPid (w.slot s0) := rfl
      rw [this, h]
      omega


theorem not_eq_append_singleton {α} (l : List α) (a : α) : l ≠ l ++ [a] := by
  intro h
  have := congrArg List.length h
  simp at this

/-- **one poll of a handle future**: what it does to the counter, and what the message it queues — if any — carries -/
theorem pollOp_ids (w : World) (id : Nat) (hp : PidOk w.pidCtr) :
    ((w.pollOp id).pidCtr = w.pidCtr ∨ (w.pollOp id).pidCtr = nextPid w.pidCtr) ∧
    ∀ m0, (w.pollOp id).queue = w.queue ++ [m0] →
      msgPid m0 = none ∨ (msgPid m0 = some w.pidCtr ∧ (w.pollOp id).pidCtr ≠ w.pidCtr) ∨
      ∃ s0, w.opSt id = some (.wait s0 .pubrec) ∧ msgPid m0 = relPid (w.slot s0) := by
  unfold pollOp
  cases hop : w.opSt id with
  | none => exact ⟨Or.inl rfl, fun m0 h => absurd h (not_eq_append_singleton _ _)⟩
  | some st =>
    cases st with
    | fresh h req =>
      simp only
      obtain ⟨hc, hq⟩ := startOp_ids w id req hp
      refine ⟨?_, fun m0 hm0 => ?_⟩
      · rw [hc]; split
        · exact Or.inr rfl
        · exact Or.inl rfl
      · rcases hq with e | ⟨m, e, hm⟩
        · rw [e] at hm0; exact absurd hm0 (not_eq_append_singleton _ _)
        · rw [e] at hm0
          have := List.append_cancel_left hm0
          simp only [List.cons.injEq, and_true] at this
          subst this
          cases hcons : Req.consumes req with
          | false => left; rw [hm, hcons]; rfl
          | true =>
            right; left
            rw [hm, hc, hcons]
            exact ⟨rfl, nextPid_ne _⟩
    | wait s k =>
      simp only
      cases hs : w.slot s with
      | none => exact ⟨Or.inl rfl, fun m0 h => absurd h (not_eq_append_singleton _ _)⟩
      | some sl =>
        cases sl with
        | empty => exact ⟨Or.inl rfl, fun m0 h => absurd h (not_eq_append_singleton _ _)⟩
        | closed =>
          refine ⟨Or.inl (by simp), fun m0 h => ?_⟩
          have : ((w.clearSlot s).finishOp id (.err .contextExited)).queue = w.queue := by simp [clearSlot]
          rw [this] at h
          exact absurd h (not_eq_append_singleton _ _)
        | full v =>
          obtain ⟨hc, hq⟩ := resumeOp_ids w id s k v
          refine ⟨Or.inl hc, fun m0 hm0 => ?_⟩
          rcases hq with e | ⟨m, e, hk, hm⟩
          · rw [e] at hm0; exact absurd hm0 (not_eq_append_singleton _ _)
          · rw [e] at hm0
            have := List.append_cancel_left hm0
            simp only [List.cons.injEq, and_true] at this
            subst this
            subst hk
            exact Or.inr (Or.inr ⟨s, rfl, by rw [hm, hs]⟩)

theorem pollOp_idStep (w : World) (id : Nat) (hi : OpsInv w) : IdStep w (w.pollOp id) := by
  obtain ⟨hc, hm⟩ := pollOp_ids w id hi.pid
  rcases pollOp_one w id with h | h | h
  · rw [h]; exact .refl w
  · exact .of_shrinks (shrinks_of_move_none hi h)
  · exact idStep_of_move_some hi h hc hm

/-- dropping a handle future: its messages stay with the context; a pending PUBREL is given up -/
theorem dropOp_shrinks (w : World) (id : Nat) (hi : OpsInv w) : Shrinks w (w.dropOp id) := by
  have key : ∀ st, w.opSt id = some st → (w.dropOp id).ops = eraseFirst id w.ops →
      (w.dropOp id).queue = w.queue → (w.dropOp id).c.awaiting = w.c.awaiting → (w.dropOp id).pidCtr = w.pidCtr →
      (∀ s', (∀ k0, st ≠ .wait s' k0) → (w.dropOp id).slot s' = w.slot s') → Shrinks w (w.dropOp id) := by
    intro st hst a1 a2 a3 a4 a5
    have m : Move (some id) w (w.dropOp id) :=
      .finish id st hst a1 a2 a3 (fun h => by rw [a4]; exact h) a5 (Or.inl (dropOp_rx_out w id).2)
    have := idStep_of_move_some hi m (Or.inl a4)
      (fun m0 h => by rw [a2] at h; exact absurd h (not_eq_append_singleton _ _))
    refine ⟨a4, fun p => ?_⟩
    have := this.cnt p
    simp only [a4, ne_eq, not_true_eq_false, false_and, if_false, Nat.add_zero] at this
    exact this
  cases hop : w.opSt id with
  | none =>
    have : w.dropOp id = w := by simp [dropOp, hop]
    rw [this]; exact .refl w
  | some st =>
    cases st with
    | fresh h req =>
      refine key _ hop ?_ ?_ ?_ ?_ ?_ <;> simp only [dropOp, hop]
      · simp
      · simp
      · simp
      · simp
      · intro s' _; simp [slot]
    | wait s k =>
      refine key _ hop ?_ ?_ ?_ ?_ ?_ <;> simp only [dropOp, hop]
      · cases k <;> simp [clearSlot, dropChanRx]
      · cases k <;> simp [clearSlot, dropChanRx]
      · cases k <;> simp [clearSlot, dropChanRx]
      · cases k <;> simp [clearSlot, dropChanRx]
      · intro s' h2
        have hne : s' ≠ s := by intro e; subst e; exact h2 k rfl
        have := clearSlot_slot_ne w s s' hne
        cases k <;> simpa [slot, dropChanRx] using this


/-! ## every elementary transition -/

theorem opsInv_micro {w w' : World} (hi : OpsInv w) (hm : Micro w w') : OpsInv w' := by
  cases hm with
  | ctx => exact hi.moves (pollCtx_moves w)
  | user t ht => exact hi.moves (pollTask_moves w t)
  | unwake t => exact ⟨hi.nodup, hi.shape, hi.pid⟩
  | ev e hp hb =>
    have h1 : OpsInv (w.emit (.ev e)) := ⟨hi.nodup, hi.shape, hi.pid⟩
    rcases apply_decomp (w.emit (.ev e)) e with ⟨id, hh, req, rfl, ha⟩ | hmv
    · exact h1.addOp ha
    · exact h1.moves hmv
  | logged t hb => exact ⟨hi.nodup, hi.shape, hi.pid⟩
  | stall => exact ⟨hi.nodup, hi.shape, hi.pid⟩
  | flush => exact hi.move (flushRaw_move w)

theorem during_opsInv {cfg : Cfg} {w : World} (h : During cfg w) : OpsInv w := by
  induction h with
  | init => exact OpsInv.init cfg
  | next _ hm ih => exact opsInv_micro ih hm

/-- an accepted `op` event adds a future that has not been polled: nothing becomes outstanding -/
theorem shrinks_of_addOp {w w' : World} {id h : Nat} {req : Req} (a : AddOp id h req w w') : Shrinks w w' := by
  refine ⟨a.pid, fun p => ?_⟩
  have hpp : ppids w' = ppids w := by
    unfold ppids
    rw [a.ops, List.filterMap_append]
    have : [(id, OpSt.fresh h req)].filterMap (opRel w') = [] := rfl
    rw [this, List.append_nil]
    apply User.filterMap_congr'
    intro e _
    obtain ⟨j, st⟩ := e
    cases st with
    | fresh hh r => rfl
    | wait s k => cases k <;> first | rfl | (simp only [opRel]; rw [a.slots s])
  simp only [Outstanding, a.queue, a.aw, hpp]
  exact Nat.le_refl _

/-- a script event other than a poll lets no identifier become outstanding -/
theorem apply_shrinks (w : World) (e : Ev) (he : ∀ t, e ≠ .poll t) (hi : OpsInv w) : Shrinks w (w.apply e) := by
  by_cases hd : ∃ id, e = .drop (.op id)
  · obtain ⟨id, rfl⟩ := hd
    exact dropOp_shrinks w id hi
  · rcases apply_decomp w e with ⟨id, hh, req, rfl, ha⟩ | hmv
    · exact shrinks_of_addOp ha
    · refine shrinks_of_moves_ctx hi ?_
      cases e with
      | poll t => exact absurd rfl (he t)
      | drop t =>
        cases t with
        | op id => exact absurd ⟨id, rfl⟩ hd
        | ctx => exact hmv
        | st id => exact hmv
      | _ => exact hmv

/-- **every elementary transition is an `IdStep`** (in a world with a well-formed operation table — every moment of every
    execution, `during_opsInv`) -/
theorem micro_idStep {w w' : World} (hi : OpsInv w) (hm : Micro w w') : IdStep w w' := by
  have same : ∀ (w0 : World), w0.pidCtr = w.pidCtr → w0.queue = w.queue → w0.c.awaiting = w.c.awaiting →
      w0.ops = w.ops → (∀ s, w0.slot s = w.slot s) → Shrinks w w0 := fun w0 a b c d e => .of_eq a b c d e
  cases hm with
  | ctx => exact .of_shrinks (shrinks_of_moves_ctx hi (pollCtx_moves w))
  | user t ht =>
    have h0 : Shrinks w (w.unwake t) := same _ rfl rfl rfl rfl (fun _ => rfl)
    have hi0 : OpsInv (w.unwake t) := ⟨hi.nodup, hi.shape, hi.pid⟩
    cases t with
    | ctx => exact absurd rfl ht
    | op id => exact .shrinks_left h0 (pollOp_idStep (w.unwake (.op id)) id hi0)
    | st id => exact .of_shrinks (h0.trans (shrinks_of_moves_ctx hi0 (pollStream_moves (w.unwake (.st id)) id)))
  | unwake t => exact .of_shrinks (same _ rfl rfl rfl rfl (fun _ => rfl))
  | ev e hp hb =>
    have h0 : Shrinks w (w.emit (.ev e)) := same _ rfl rfl rfl rfl (fun _ => rfl)
    exact .of_shrinks (h0.trans (apply_shrinks (w.emit (.ev e)) e hp ⟨hi.nodup, hi.shape, hi.pid⟩))
  | logged t hb => exact .of_shrinks (same _ rfl rfl rfl rfl (fun _ => rfl))
  | stall => exact .of_shrinks (same _ rfl rfl rfl rfl (fun _ => rfl))
  | flush => exact .of_shrinks (shrinks_of_move_none hi (flushRaw_move w))

/-- membership form: an identifier outstanding after a transition was outstanding before, or is the value the counter
    had before the transition (and the counter advanced) -/
theorem IdStep.mem {w w' : World} (h : IdStep w w') {p : Nat} (hp : p ∈ Outstanding w') :
    p ∈ Outstanding w ∨ (p = w.pidCtr ∧ w'.pidCtr = nextPid w.pidCtr) := by
  have h1 := h.cnt p
  have h2 : 0 < (Outstanding w').count p := List.count_pos_iff.mpr hp
  by_cases hx : w'.pidCtr ≠ w.pidCtr ∧ p = w.pidCtr
  · right
    refine ⟨hx.2, ?_⟩
    rcases h.ctr with e | e
    · exact absurd e hx.1
    · exact e
  · left
    rw [if_neg hx] at h1
    exact List.count_pos_iff.mp (by omega)

end W10
end World
end Poster
