/-
  Lemmas/WorldOwnDrop.lean — consequences of `OwnInv` once the context is gone, the executor's `pick`, and
  what a poll of an operation does when there is no context.
-/
import PosterModel.Lemmas.WorldOwn

set_option linter.unusedVariables false
set_option linter.unusedSimpArgs false

namespace Poster
open Framing
namespace World

/-! ## the executor's choice -/

theorem minNat_eq_none {l : List Nat} (h : minNat l = none) : l = [] := by
  cases l with
  | nil => rfl
  | cons a t => simp only [minNat] at h; split at h <;> cases h

/-- the executor is quiescent: every flagged live task is held by the script -/
theorem pick_none_held (w : World) (t : Task) (hp : w.pick = none) (hw : t ∈ w.woken)
    (hl : w.taskLive t = true) : t ∈ w.held := by
  apply Classical.byContradiction
  intro hh
  unfold pick at hp
  simp only at hp
  generalize hready : w.woken.filter _ = ready at hp
  have hr : t ∈ ready := by rw [← hready]; simp [hw, hl, hh]
  split at hp
  · cases hp
  · rename_i hctx
    split at hp
    · cases hp
    · rename_i hops
      split at hp
      · cases hp
      · rename_i hsts
        cases t with
        | ctx => exact hctx hr
        | op n =>
          have := List.filterMap_eq_nil_iff.mp (minNat_eq_none hops) (.op n) hr
          simp at this
        | st n =>
          have := List.filterMap_eq_nil_iff.mp (minNat_eq_none hsts) (.st n) hr
          simp at this

/-! ## `OwnInv` with the context gone -/

/-- no context: no waiting operation has an `empty` oneshot -/
theorem OwnInv.wait_settled {w : World} (h : OwnInv w) (hc : w.hasCtx = false) (id s : Nat) (k : Wait)
    (hop : w.opSt id = some (.wait s k)) : w.slot s = some .closed ∨ ∃ v, w.slot s = some (.full v) := by
  cases hs : w.slot s with
  | none => exact absurd hs (h.slotSome id s k hop)
  | some x =>
    cases x with
    | empty => have := (h.waitOwn id s k hop hs).1; rw [hc] at this; cases this
    | full v => exact Or.inr ⟨v, rfl⟩
    | closed => exact Or.inl rfl

/-- no context: every operation is flagged for the executor -/
theorem OwnInv.op_flagged {w : World} (h : OwnInv w) (hc : w.hasCtx = false) (id : Nat) (st : OpSt)
    (hop : w.opSt id = some st) : Task.op id ∈ w.woken := by
  cases st with
  | fresh hd req => exact h.freshWoken id hd req hop
  | wait s k =>
    refine h.waitDone id s k hop ?_
    rcases h.wait_settled hc id s k hop with e | ⟨v, e⟩ <;> rw [e] <;> simp

/-- no context: no channel has a live sender -/
theorem OwnInv.chan_shut {w : World} (h : OwnInv w) (hc : w.hasCtx = false) (ch : Nat) (c0 : Chan)
    (hch : w.chan ch = some c0) : c0.txAlive = false := by
  cases ht : c0.txAlive with
  | false => rfl
  | true => have := (h.chanOwn ch c0 hch ht).1; rw [hc] at this; cases this

theorem OwnInv.opSt_of_mem {w : World} (h : OwnInv w) {id : Nat} {st : OpSt} (hm : (id, st) ∈ w.ops) :
    w.opSt id = some st := lookupFirst_of_mem_nodup id st w.ops h.nodup hm

/-! ## a handle future resumed when there is no context -/

/-- the outcome of a poll that completes the operation: `DONE`, or the `unreachable!` of a mismatched reply -/
def OpEnd (id : Nat) (o : Obs) : Prop := (∃ r, o = .done id r) ∨ o = .panic (.op id) "unreachable"

theorem finishOp_end (w : World) (id : Nat) (r : DoneRes) :
    (w.finishOp id r).ops = eraseFirst id w.ops ∧ ∃ o, OpEnd id o ∧ (w.finishOp id r).out = w.out ++ [o] :=
  ⟨by simp, _, Or.inl ⟨r, rfl⟩, by simp⟩

/-- **with the context gone, a resumed operation always completes in that poll** (also the second phase of a
    QoS 2 publish: the PUBREL cannot be sent any more) -/
theorem resumeOp_no_ctx (w : World) (id s : Nat) (k : Wait) (v : SlotVal) (hc : w.hasCtx = false) :
    (w.resumeOp id s k v).ops = eraseFirst id w.ops ∧
    ∃ o, OpEnd id o ∧ (w.resumeOp id s k v).out = w.out ++ [o] := by
  have hfin : ∀ (w1 : World) (r : DoneRes), w1.ops = w.ops → w1.out = w.out →
      (w1.finishOp id r).ops = eraseFirst id w.ops ∧ ∃ o, OpEnd id o ∧ (w1.finishOp id r).out = w.out ++ [o] := by
    intro w1 r h1 h2
    obtain ⟨a, o, b, c⟩ := finishOp_end w1 id r
    exact ⟨by rw [a, h1], o, b, by rw [c, h2]⟩
  cases v with
  | errSize => simp only [resumeOp]; exact hfin _ _ rfl rfl
  | errQuota => simp only [resumeOp]; exact hfin _ _ rfl rfl
  | unit => simp only [resumeOp]; split <;> exact hfin _ _ rfl rfl
  | pkt p =>
    cases k <;> cases p <;> simp only [resumeOp] <;>
      first
      | (refine ⟨?_, _, Or.inr rfl, ?_⟩ <;> (simp; done))
      | (split <;> first | exact hfin _ _ rfl rfl | skip)
      | exact hfin _ _ rfl rfl
    · rw [sendMsg_none _ _ (by simpa using hc)]
      exact hfin _ _ rfl rfl

/-- **with the context gone, one poll completes any operation** whose oneshot (if it waits on one) is settled -/
theorem pollOp_no_ctx' (w : World) (hn : (w.ops.map (·.1)).Nodup) (hc : w.hasCtx = false) (id : Nat) (st : OpSt)
    (hop : w.opSt id = some st)
    (hset : ∀ s k, st = .wait s k → w.slot s = some .closed ∨ ∃ v, w.slot s = some (.full v)) :
    (w.pollOp id).ops = eraseFirst id w.ops ∧ (w.pollOp id).opSt id = none ∧
    ∃ o, OpEnd id o ∧ (w.pollOp id).out = w.out ++ [o] := by
  have key : (w.pollOp id).ops = eraseFirst id w.ops ∧ ∃ o, OpEnd id o ∧ (w.pollOp id).out = w.out ++ [o] := by
    cases st with
    | fresh hd req =>
      have e : w.pollOp id = w.startOp id req := by simp [pollOp, hop]
      rw [e]
      have hn : ∀ (w' : World) (m : Msg), w'.hasCtx = false → w'.sendMsg m = none :=
        fun w' m h' => sendMsg_none w' m h'
      have hfin : ∀ (w1 : World) (r : DoneRes), w1.ops = w.ops → w1.out = w.out →
          (w1.finishOp id r).ops = eraseFirst id w.ops ∧
          ∃ o, OpEnd id o ∧ (w1.finishOp id r).out = w.out ++ [o] := by
        intro w1 r h1 h2
        obtain ⟨a, o, b, c⟩ := finishOp_end w1 id r
        exact ⟨by rw [a, h1], o, b, by rw [c, h2]⟩
      cases req with
      | publish t =>
        simp only [startOp]
        split
        · split
          · exact hfin _ _ rfl rfl
          · rw [hn _ _ hc]; exact hfin _ _ rfl rfl
        · split
          · exact hfin _ _ rfl rfl
          · rw [hn _ _ (by simpa using hc)]; exact hfin _ _ rfl rfl
      | subscribe t =>
        simp only [startOp]
        split
        · exact hfin _ _ rfl rfl
        · rw [hn _ _ (by simpa using hc)]; exact hfin _ _ rfl rfl
      | unsubscribe t =>
        simp only [startOp]
        split
        · exact hfin _ _ rfl rfl
        · rw [hn _ _ (by simpa using hc)]; exact hfin _ _ rfl rfl
      | ping => simp only [startOp]; rw [hn _ _ hc]; exact hfin _ _ rfl rfl
      | disconnect t => simp only [startOp]; rw [hn _ _ hc]; exact hfin _ _ rfl rfl
    | wait s k =>
      rcases hset s k rfl with e | ⟨v, e⟩
      · have e2 : w.pollOp id = (w.clearSlot s).finishOp id (.err .contextExited) := by simp [pollOp, hop, e]
        rw [e2]
        obtain ⟨a, o, b, c⟩ := finishOp_end (w.clearSlot s) id (.err .contextExited)
        exact ⟨a, o, b, c⟩
      · have e2 : w.pollOp id = w.resumeOp id s k v := by simp [pollOp, hop, e]
        rw [e2]; exact resumeOp_no_ctx w id s k v hc
  refine ⟨key.1, ?_, key.2⟩
  simp only [opSt, key.1]
  exact lookupFirst_eraseFirst_self _ _ hn

theorem pollOp_no_ctx (w : World) (h : OwnInv w) (hc : w.hasCtx = false) (id : Nat) (st : OpSt)
    (hop : w.opSt id = some st) :
    (w.pollOp id).ops = eraseFirst id w.ops ∧ (w.pollOp id).opSt id = none ∧
    ∃ o, OpEnd id o ∧ (w.pollOp id).out = w.out ++ [o] :=
  pollOp_no_ctx' w h.nodup hc id st hop (fun s k e => h.wait_settled hc id s k (e ▸ hop))

end World
end Poster
