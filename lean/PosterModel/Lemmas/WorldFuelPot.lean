/-
  Lemmas/WorldFuelPot.lean — the potential `W5.phi` that every poll of the executor decreases (C04: the drain
  always reaches quiescence): definitions, arithmetic of sums over the operation table / the stream list, and
  the effect of the channel primitives (`sendSlot`, `dropSlotTx`, `deliver`, `dropChanTx`) on it.

    phi w = [context flagged] + [context alive with a sender] + mu rx reader + opsPot w + stPot w

  * an operation that is not held costs 6 while it was never polled, 3 while it waits for its PUBREC, 1 otherwise,
    plus 1 when it is flagged although its oneshot has no value yet (a poll would only register);
  * a stream that is not held costs 2 when flagged (or registered on a channel whose sender is gone), 1 otherwise,
    plus 1 while the sender of its channel is alive; every buffered message costs 1;
  * `mu` is the framing measure (bytes and events still to be read, bytes buffered).
-/
import PosterModel.Lemmas.WorldOwnFuel
import PosterModel.Lemmas.WorldQuietInv

set_option linter.unusedVariables false
set_option linter.unusedSimpArgs false

namespace Poster
open Framing
namespace World
namespace W5

/-! ## sums -/

theorem sum_map_le {α} (f g : α → Nat) (l : List α) (h : ∀ x ∈ l, f x ≤ g x) :
    (l.map f).sum ≤ (l.map g).sum := by
  induction l with
  | nil => simp
  | cons a t ih =>
    have h1 := h a List.mem_cons_self
    have h2 := ih (fun x hx => h x (List.mem_cons_of_mem _ hx))
    simp only [List.map_cons, List.sum_cons]; omega

/-- pointwise `≤`, and at one member a gap of `d` -/
theorem sum_map_le_gap {α} (f g : α → Nat) (l : List α) (h : ∀ x ∈ l, f x ≤ g x) (a : α) (ha : a ∈ l) (d : Nat)
    (hd : f a + d ≤ g a) : (l.map f).sum + d ≤ (l.map g).sum := by
  induction l with
  | nil => cases ha
  | cons b t ih =>
    have ht : ∀ x ∈ t, f x ≤ g x := fun x hx => h x (List.mem_cons_of_mem _ hx)
    have hb := h b List.mem_cons_self
    simp only [List.map_cons, List.sum_cons]
    rcases List.mem_cons.mp ha with rfl | ha'
    · have := sum_map_le f g t ht; omega
    · have := ih ht ha'; omega

theorem sum_map_filter_le {α} (f : α → Nat) (p : α → Bool) (l : List α) :
    ((l.filter p).map f).sum ≤ (l.map f).sum := by
  induction l with
  | nil => simp
  | cons a t ih =>
    simp only [List.filter_cons]
    split
    · simp only [List.map_cons, List.sum_cons]; omega
    · simp only [List.map_cons, List.sum_cons]; omega

/-- removing all occurrences of a member loses at least its value -/
theorem sum_map_filter_gap {α} [DecidableEq α] (f : α → Nat) (a : α) (l : List α) (ha : a ∈ l) :
    ((l.filter (fun x => decide (x ≠ a))).map f).sum + f a ≤ (l.map f).sum := by
  induction l with
  | nil => cases ha
  | cons b t ih =>
    simp only [List.filter_cons]
    by_cases hb : b = a
    · subst hb
      have := sum_map_filter_le f (fun x => decide (x ≠ b)) t
      simp only [ne_eq] at this
      simp only [ne_eq, not_true_eq_false, decide_false, Bool.false_eq_true, ↓reduceIte, List.map_cons,
        List.sum_cons]
      omega
    · have ha' : a ∈ t := by
        rcases List.mem_cons.mp ha with h | h
        · exact absurd h.symm hb
        · exact h
      have := ih ha'
      simp only [ne_eq] at this
      simp only [ne_eq, hb, not_false_eq_true, decide_true, ↓reduceIte, List.map_cons, List.sum_cons]
      omega

theorem sum_map_eraseFirst {β} (f : Nat × β → Nat) (k : Nat) (v : β) (l : List (Nat × β))
    (h : lookupFirst k l = some v) : ((eraseFirst k l).map f).sum + f (k, v) = (l.map f).sum := by
  induction l with
  | nil => simp [lookupFirst] at h
  | cons x t ih =>
    obtain ⟨a, b⟩ := x
    rw [eraseFirst_cons]
    simp only [lookupFirst] at h
    split
    · rename_i hk
      simp only [hk, ↓reduceIte, Option.some.injEq] at h
      subst h; subst hk
      simp only [List.map_cons, List.sum_cons]; omega
    · rename_i hk
      simp only [hk, ↓reduceIte] at h
      have := ih h
      simp only [List.map_cons, List.sum_cons]; omega

theorem sum_map_setAssoc {β} (f : Nat × β → Nat) (k : Nat) (v v' : β) (l : List (Nat × β))
    (h : lookupFirst k l = some v) : ((setAssoc k v' l).map f).sum + f (k, v) = (l.map f).sum + f (k, v') := by
  induction l with
  | nil => simp [lookupFirst] at h
  | cons x t ih =>
    obtain ⟨a, b⟩ := x
    simp only [lookupFirst] at h
    simp only [setAssoc]
    split
    · rename_i hk
      simp only [hk, ↓reduceIte, Option.some.injEq] at h
      subst h; subst hk
      simp only [List.map_cons, List.sum_cons]; omega
    · rename_i hk
      simp only [hk, ↓reduceIte] at h
      have := ih h
      simp only [List.map_cons, List.sum_cons]; omega

theorem mem_of_lookupFirst {β} (k : Nat) (v : β) (l : List (Nat × β)) (h : lookupFirst k l = some v) :
    (k, v) ∈ l := by
  induction l with
  | nil => simp [lookupFirst] at h
  | cons x t ih =>
    obtain ⟨a, b⟩ := x
    simp only [lookupFirst] at h
    split at h
    · rename_i hk
      simp only [Option.some.injEq] at h
      subst h; subst hk; exact List.mem_cons_self
    · exact List.mem_cons_of_mem _ (ih h)

/-! ## the distinct members of a list (the stream list may name a stream twice when a script re-uses an id) -/

def uniq : List Nat → List Nat
  | [] => []
  | a :: t => a :: (uniq t).filter (fun x => decide (x ≠ a))

theorem mem_uniq (x : Nat) (l : List Nat) : x ∈ uniq l ↔ x ∈ l := by
  induction l with
  | nil => simp [uniq]
  | cons a t ih =>
    simp only [uniq, List.mem_cons, List.mem_filter, ih, decide_eq_true_eq]
    constructor
    · rintro (h | ⟨h, _⟩)
      · exact Or.inl h
      · exact Or.inr h
    · rintro (h | h)
      · exact Or.inl h
      · by_cases hx : x = a
        · exact Or.inl hx
        · exact Or.inr ⟨h, hx⟩

theorem nodup_uniq (l : List Nat) : (uniq l).Nodup := by
  induction l with
  | nil => simp [uniq]
  | cons a t ih =>
    simp only [uniq, List.nodup_cons, List.mem_filter, decide_eq_true_eq]
    exact ⟨fun h => h.2 rfl, ih.filter _⟩

theorem length_uniq_le (l : List Nat) : (uniq l).length ≤ l.length := by
  induction l with
  | nil => simp [uniq]
  | cons a t ih =>
    have := List.length_filter_le (fun x => decide (x ≠ a)) (uniq t)
    simp only [uniq, List.length_cons]; omega

theorem uniq_filter (p : Nat → Bool) (l : List Nat) : uniq (l.filter p) = (uniq l).filter p := by
  induction l with
  | nil => simp [uniq]
  | cons a t ih =>
    simp only [List.filter_cons]
    by_cases hp : p a = true
    · simp only [hp, ↓reduceIte, uniq, List.filter_cons, ih, List.filter_filter]
      congr 1
      apply List.filter_congr
      intro x _
      exact Bool.and_comm _ _
    · simp only [hp, Bool.false_eq_true, ↓reduceIte, uniq, List.filter_cons, ih, List.filter_filter]
      apply List.filter_congr
      intro x hx
      by_cases hxa : x = a
      · subst hxa; simp [hp]
      · simp [hxa]

/-- pointwise `≤` away from `c`, which occurs at most once and may grow by `d` -/
theorem sum_map_le_one {l : List Nat} (hn : l.Nodup) (c d : Nat) (f g : Nat → Nat)
    (h : ∀ x ∈ l, x ≠ c → f x ≤ g x) (hc : f c ≤ g c + d) : (l.map f).sum ≤ (l.map g).sum + d := by
  induction l with
  | nil => simp
  | cons a t ih =>
    obtain ⟨hat, hnt⟩ := List.nodup_cons.mp hn
    have ht : ∀ x ∈ t, x ≠ c → f x ≤ g x := fun x hx => h x (List.mem_cons_of_mem _ hx)
    simp only [List.map_cons, List.sum_cons]
    by_cases hac : a = c
    · subst hac
      have : (t.map f).sum ≤ (t.map g).sum :=
        sum_map_le f g t (fun x hx => ht x hx (fun e => hat (e ▸ hx)))
      omega
    · have := ih hnt ht
      have := h a List.mem_cons_self hac
      omega

/-! ## the potential -/

def opBase : OpSt → Nat
  | .fresh _ _ => 6
  | .wait _ .pubrec => 3
  | .wait _ _ => 1

/-- the oneshot `s` has no value: a poll of the operation waiting on it only registers the waker -/
def idle (slots : List (Nat × Slot)) (s : Nat) : Prop :=
  lookupFirst s slots = some .empty ∨ lookupFirst s slots = none

instance (slots : List (Nat × Slot)) (s : Nat) : Decidable (idle slots s) := by unfold idle; infer_instance

/-- flagged although the oneshot has no value yet -/
def opSpur (woken : List Task) (slots : List (Nat × Slot)) (id : Nat) : OpSt → Nat
  | .fresh _ _ => 0
  | .wait s _ => if Task.op id ∈ woken ∧ idle slots s then 1 else 0

def opCost (held woken : List Task) (slots : List (Nat × Slot)) (e : Nat × OpSt) : Nat :=
  if Task.op e.1 ∈ held then 0 else opBase e.2 + opSpur woken slots e.1 e.2

def opsPot (w : World) : Nat := (w.ops.map (opCost w.held w.woken w.slots)).sum

def stCost (held woken : List Task) (chans : List (Nat × Chan)) (id : Nat) : Nat :=
  if Task.st id ∈ held then 0 else
  match lookupFirst id chans with
  | none => if Task.st id ∈ woken then 2 else 1
  | some ch =>
    (if Task.st id ∈ woken ∨ (ch.reg = true ∧ ch.txAlive = false) then 2 else 1) + (if ch.txAlive = true then 1 else 0)

def stSum (w : World) : Nat := ((uniq w.streams).map (stCost w.held w.woken w.chans)).sum

def stPot (w : World) : Nat := stSum w + bufSum w

def ctxFlag (w : World) : Nat := if w.task ≠ .none ∧ Task.ctx ∈ w.woken then 1 else 0
def ctxZ (w : World) : Nat := if w.task ≠ .none ∧ w.senders ≠ 0 then 1 else 0

/-- the part of the potential the user side owns -/
def phiU (w : World) : Nat := opsPot w + stPot w

/-- **the potential** -/
def phi (w : World) : Nat := ctxFlag w + ctxZ w + mu w.rx w.reader + phiU w

theorem opBase_le (st : OpSt) : opBase st ≤ 6 := by
  cases st with
  | fresh h r => simp [opBase]
  | wait s k => cases k <;> simp [opBase]

theorem opBase_pos (st : OpSt) : 1 ≤ opBase st := by
  cases st with
  | fresh h r => simp [opBase]
  | wait s k => cases k <;> simp [opBase]

theorem opSpur_le (woken : List Task) (slots : List (Nat × Slot)) (id : Nat) (st : OpSt) :
    opSpur woken slots id st ≤ 1 := by
  cases st with
  | fresh h r => simp [opSpur]
  | wait s k => simp only [opSpur]; split <;> omega

theorem stCost_le (held woken : List Task) (chans : List (Nat × Chan)) (id : Nat) :
    stCost held woken chans id ≤ 3 := by
  unfold stCost
  split
  · omega
  · split
    · split <;> omega
    · split <;> split <;> omega

/-! ## monotonicity in the fields the components read -/

theorem ctxFlag_le {w w' : World} (h1 : w'.task ≠ .none → w.task ≠ .none)
    (h2 : w'.task ≠ .none → Task.ctx ∈ w'.woken → Task.ctx ∈ w.woken) : ctxFlag w' ≤ ctxFlag w := by
  unfold ctxFlag
  by_cases h : w'.task ≠ .none ∧ Task.ctx ∈ w'.woken
  · have : w.task ≠ .none ∧ Task.ctx ∈ w.woken := ⟨h1 h.1, h2 h.1 h.2⟩
    simp [h, this]
  · simp only [h, ↓reduceIte]; omega

theorem ctxZ_le {w w' : World} (h1 : w'.task ≠ .none → w.task ≠ .none)
    (h2 : w'.senders ≠ 0 → w.senders ≠ 0) : ctxZ w' ≤ ctxZ w := by
  unfold ctxZ
  by_cases h : w'.task ≠ .none ∧ w'.senders ≠ 0
  · have : w.task ≠ .none ∧ w.senders ≠ 0 := ⟨h1 h.1, h2 h.2⟩
    simp [h, this]
  · simp only [h, ↓reduceIte]; omega

theorem ctxFlag_of_none {w : World} (h : w.task = .none) : ctxFlag w = 0 := by simp [ctxFlag, h]
theorem ctxZ_of_none {w : World} (h : w.task = .none) : ctxZ w = 0 := by simp [ctxZ, h]
theorem ctxFlag_le_one (w : World) : ctxFlag w ≤ 1 := by unfold ctxFlag; split <;> omega
theorem ctxZ_le_one (w : World) : ctxZ w ≤ 1 := by unfold ctxZ; split <;> omega

/-- the operations' part does not grow when the table and the held set stay and no waiting operation becomes
    "flagged with an idle oneshot" -/
theorem opsPot_le {w w' : World} (hops : w'.ops = w.ops) (hheld : w'.held = w.held)
    (h : ∀ id s k, (id, OpSt.wait s k) ∈ w.ops → Task.op id ∉ w.held → Task.op id ∈ w'.woken → idle w'.slots s →
      Task.op id ∈ w.woken ∧ idle w.slots s) : opsPot w' ≤ opsPot w := by
  unfold opsPot
  rw [hops, hheld]
  refine sum_map_le _ _ _ (fun e he => ?_)
  obtain ⟨id, st⟩ := e
  unfold opCost
  split
  · omega
  · rename_i hh
    cases st with
    | fresh hd r => simp [opSpur]
    | wait s k =>
      simp only [opSpur]
      by_cases hc : Task.op id ∈ w'.woken ∧ idle w'.slots s
      · have := h id s k he hh hc.1 hc.2
        simp [hc, this]
      · simp only [hc, ↓reduceIte]; omega

theorem opsPot_congr {w w' : World} (hops : w'.ops = w.ops) (hheld : w'.held = w.held) (hw : w'.woken = w.woken)
    (hs : w'.slots = w.slots) : opsPot w' = opsPot w := by
  unfold opsPot; rw [hops, hheld, hw, hs]

theorem stSum_le {w w' : World} (hst : w'.streams = w.streams) (hheld : w'.held = w.held)
    (h : ∀ id, id ∈ w.streams → stCost w.held w'.woken w'.chans id ≤ stCost w.held w.woken w.chans id) :
    stSum w' ≤ stSum w := by
  unfold stSum
  rw [hst, hheld]
  exact sum_map_le _ _ _ (fun id hid => h id ((mem_uniq id _).mp hid))

theorem stPot_congr {w w' : World} (hst : w'.streams = w.streams) (hheld : w'.held = w.held)
    (hw : ∀ n, Task.st n ∈ w'.woken ↔ Task.st n ∈ w.woken) (hc : w'.chans = w.chans) : stPot w' = stPot w := by
  unfold stPot stSum bufSum
  rw [hst, hheld, hc]
  congr 2
  apply List.map_congr_left
  intro id _
  unfold stCost
  simp only [hw]

/-- only the flags of stream tasks matter to the streams' part -/
theorem stCost_woken_congr (held woken woken' : List Task) (chans : List (Nat × Chan)) (id : Nat)
    (h : Task.st id ∈ woken' ↔ Task.st id ∈ woken) : stCost held woken' chans id = stCost held woken chans id := by
  unfold stCost; simp only [h]

/-! ## buffered messages under `setAssoc` -/

theorem bufs_setAssoc_same (id : Nat) (ch v : Chan) (l : List (Nat × Chan)) (hl : lookupFirst id l = some ch)
    (hb : v.buf = ch.buf) :
    ((setAssoc id v l).map fun c => c.2.buf.length).sum = (l.map fun c => c.2.buf.length).sum := by
  induction l with
  | nil => simp [lookupFirst] at hl
  | cons x t ih =>
    obtain ⟨a, b⟩ := x
    simp only [lookupFirst] at hl
    simp only [setAssoc]
    split
    · rename_i hk
      simp only [hk, ↓reduceIte, Option.some.injEq] at hl
      subst hl
      simp [hb]
    · rename_i hk
      simp only [hk, ↓reduceIte] at hl
      have := ih hl
      simp only [List.map_cons, List.sum_cons]; omega

theorem bufs_setAssoc_snoc (id : Nat) (ch v : Chan) (p : PublishRx) (l : List (Nat × Chan))
    (hl : lookupFirst id l = some ch) (hb : v.buf = ch.buf ++ [p]) :
    ((setAssoc id v l).map fun c => c.2.buf.length).sum = (l.map fun c => c.2.buf.length).sum + 1 := by
  induction l with
  | nil => simp [lookupFirst] at hl
  | cons x t ih =>
    obtain ⟨a, b⟩ := x
    simp only [lookupFirst] at hl
    simp only [setAssoc]
    split
    · rename_i hk
      simp only [hk, ↓reduceIte, Option.some.injEq] at hl
      subst hl
      simp [hb]; omega
    · rename_i hk
      simp only [hk, ↓reduceIte] at hl
      have := ih hl
      simp only [List.map_cons, List.sum_cons]; omega

end W5
end World
end Poster
