/-
  Lemmas/WorldCancelVeil.lean — `veil id w` is the world `w` with everything that belongs to the receiving end of
  subscription channel `id` erased: the channel itself (with its buffer), its registrations in the context's
  subscription table, the stream `id`, the `woken` / `held` flags of task `st id`, and the lines of the transcript that
  belong to that stream (its items, its end, the markers of the events that address it, and the snapshots of the
  session, which show the subscription table). Every state-transforming function of `World` that does not act on
  behalf of that stream commutes with `veil id`, provided every subscription identifier is registered once.
-/
import PosterModel.Lemmas.WorldCancelSub
import PosterModel.Lemmas.WorldCancelEv
import PosterModel.Lemmas.WorldStreamSid

set_option linter.unusedVariables false
set_option linter.unusedSimpArgs false

namespace Poster
open Framing
namespace World
namespace W11

/-! ## what belongs to stream `id` -/

/-- the script events that address the receiving end of channel `id` (or would re-create it, or show the
    subscription table) -/
def mineStEv (id : Nat) : Ev → Bool
  | .poll (.st i) => i == id
  | .hold (.st i) => i == id
  | .release (.st i) => i == id
  | .drop (.st i) => i == id
  | .stream i => i == id
  | .dropRsp i => i == id
  | .op i _ _ => i == id
  | .snap => true
  | _ => false

/-- the transcript lines of stream `id` -/
def mineSt (id : Nat) : Obs → Bool
  | .ev e => mineStEv id e
  | .item i _ => i == id
  | .endStream i => i == id
  | .state _ => true
  | _ => false

/-- the transcript without the lines of stream `id` -/
def othersSt (id : Nat) (out : List Obs) : List Obs := out.filter (fun o => !mineSt id o)

def keepV (id : Nat) (t : Task) : Bool := decide (t ≠ .st id)
@[simp] theorem keepV_true (id : Nat) (t : Task) : keepV id t = true ↔ t ≠ .st id := by simp [keepV]
@[simp] theorem keepV_false (id : Nat) (t : Task) : keepV id t = false ↔ t = .st id := by simp [keepV]

/-- the session without the registrations of channel `id` -/
def cOff (id : Nat) (c : Ctx) : Ctx := { c with subs := subsOff id c.subs }

/-- `w` without the receiving end of subscription channel `id` -/
def veil (id : Nat) (w : World) : World :=
  { w with c := cOff id w.c,
           chans := w.chans.filter (fun x => keepK id x.1),
           streams := w.streams.filter (keepK id),
           woken := w.woken.filter (keepV id),
           held := w.held.filter (keepV id),
           out := othersSt id w.out }

/-! ## projections -/

@[simp] theorem veil_cfg (id) (w : World) : (veil id w).cfg = w.cfg := rfl
@[simp] theorem veil_hasCtx (id) (w : World) : (veil id w).hasCtx = w.hasCtx := rfl
@[simp] theorem veil_ctxDropped (id) (w : World) : (veil id w).ctxDropped = w.ctxDropped := rfl
@[simp] theorem veil_task (id) (w : World) : (veil id w).task = w.task := rfl
@[simp] theorem veil_c (id) (w : World) : (veil id w).c = cOff id w.c := rfl
@[simp] theorem veil_rx (id) (w : World) : (veil id w).rx = w.rx := rfl
@[simp] theorem veil_reader (id) (w : World) : (veil id w).reader = w.reader := rfl
@[simp] theorem veil_readerReg (id) (w : World) : (veil id w).readerReg = w.readerReg := rfl
@[simp] theorem veil_queue (id) (w : World) : (veil id w).queue = w.queue := rfl
@[simp] theorem veil_queueReg (id) (w : World) : (veil id w).queueReg = w.queueReg := rfl
@[simp] theorem veil_handles (id) (w : World) : (veil id w).handles = w.handles := rfl
@[simp] theorem veil_ops (id) (w : World) : (veil id w).ops = w.ops := rfl
@[simp] theorem veil_slots (id) (w : World) : (veil id w).slots = w.slots := rfl
@[simp] theorem veil_slotReg (id) (w : World) : (veil id w).slotReg = w.slotReg := rfl
@[simp] theorem veil_chans (id) (w : World) : (veil id w).chans = w.chans.filter (fun x => keepK id x.1) := rfl
@[simp] theorem veil_rsps (id) (w : World) : (veil id w).rsps = w.rsps := rfl
@[simp] theorem veil_streams (id) (w : World) : (veil id w).streams = w.streams.filter (keepK id) := rfl
@[simp] theorem veil_pidCtr (id) (w : World) : (veil id w).pidCtr = w.pidCtr := rfl
@[simp] theorem veil_subCtr (id) (w : World) : (veil id w).subCtr = w.subCtr := rfl
@[simp] theorem veil_woken (id) (w : World) : (veil id w).woken = w.woken.filter (keepV id) := rfl
@[simp] theorem veil_held (id) (w : World) : (veil id w).held = w.held.filter (keepV id) := rfl
@[simp] theorem veil_written (id) (w : World) : (veil id w).written = w.written := rfl
@[simp] theorem veil_wirePend (id) (w : World) : (veil id w).wirePend = w.wirePend := rfl
@[simp] theorem veil_out (id) (w : World) : (veil id w).out = othersSt id w.out := rfl
@[simp] theorem veil_bad (id) (w : World) : (veil id w).bad = w.bad := rfl

/-- normalise the projections of `veil id w` -/
syntax "w11_vln" (Lean.Parser.Tactic.location)? : tactic
macro_rules
  | `(tactic| w11_vln $[$loc]?) => `(tactic| simp only [veil_cfg, veil_hasCtx, veil_ctxDropped, veil_task, veil_c,
      veil_rx, veil_reader, veil_readerReg, veil_queue, veil_queueReg, veil_handles, veil_ops, veil_slots,
      veil_slotReg, veil_chans, veil_rsps, veil_streams, veil_pidCtr, veil_subCtr, veil_woken, veil_held,
      veil_written, veil_wirePend, veil_out, veil_bad] $[$loc]?)

/-- a record built over the veiled parts is the `veil` of the record built over the full parts -/
theorem mk_veil (id : Nat) (cfg hasCtx ctxDropped task) (c : Ctx) (rx reader readerReg queue queueReg handles ops slots
    slotReg) (chans : List (Nat × Chan)) (rsps) (streams : List Nat) (pidCtr subCtr) (woken held : List Task)
    (written wirePend) (out : List Obs) (bad) :
    (⟨cfg, hasCtx, ctxDropped, task, cOff id c, rx, reader, readerReg, queue, queueReg, handles, ops, slots, slotReg,
      chans.filter (fun x => keepK id x.1), rsps, streams.filter (keepK id), pidCtr, subCtr,
      woken.filter (keepV id), held.filter (keepV id), written, wirePend, othersSt id out, bad⟩ : World) =
    veil id ⟨cfg, hasCtx, ctxDropped, task, c, rx, reader, readerReg, queue, queueReg, handles, ops, slots,
      slotReg, chans, rsps, streams, pidCtr, subCtr, woken, held, written, wirePend, out, bad⟩ := rfl

/-! ## derived readers -/

@[simp] theorem slot_veil (id) (w : World) (s : Nat) : (veil id w).slot s = w.slot s := rfl
@[simp] theorem opSt_veil (id) (w : World) (j : Nat) : (veil id w).opSt j = w.opSt j := rfl
@[simp] theorem canWrite_veil (id) (w : World) (n : Nat) : (veil id w).canWrite n = w.canWrite n := rfl
@[simp] theorem loopFuel_veil (id) (w : World) : (veil id w).loopFuel = w.loopFuel := rfl
@[simp] theorem senders_veil (id) (w : World) : (veil id w).senders = w.senders := rfl

theorem chan_veil (id) (w : World) (c : Nat) (h : c ≠ id) : (veil id w).chan c = w.chan c :=
  lookupFirst_filter (keepK id) c w.chans (by simpa using h)

theorem chan_veil_mine (id) (w : World) : (veil id w).chan id = none :=
  lookupFirst_filter_not (keepK id) id w.chans (by simp)

theorem chanRxAlive_veil (id) (w : World) (c : Nat) (h : c ≠ id) : (veil id w).chanRxAlive c = w.chanRxAlive c := by
  simp only [chanRxAlive, chan_veil id w c h]

theorem chanRxAlive_veil_mine (id) (w : World) : (veil id w).chanRxAlive id = false := by
  simp only [chanRxAlive, chan_veil_mine]

theorem mem_woken_veil (id) (w : World) (t : Task) (h : t ≠ .st id) : t ∈ (veil id w).woken ↔ t ∈ w.woken := by
  simp [h]

theorem mem_held_veil (id) (w : World) (t : Task) (h : t ≠ .st id) : t ∈ (veil id w).held ↔ t ∈ w.held := by
  simp [h]

theorem mem_streams_veil (id) (w : World) (j : Nat) (h : j ≠ id) : j ∈ (veil id w).streams ↔ j ∈ w.streams := by
  simp [h]

/-! ## transcripts -/

theorem othersSt_append (id) (a b : List Obs) : othersSt id (a ++ b) = othersSt id a ++ othersSt id b := by
  simp [othersSt, List.filter_append]

theorem othersSt_keep (id) (l : List Obs) (h : ∀ o ∈ l, mineSt id o = false) : othersSt id l = l := by
  unfold othersSt
  rw [List.filter_eq_self]
  intro o ho
  simp [h o ho]

theorem othersSt_snoc_keep (id) (l : List Obs) (o : Obs) (h : mineSt id o = false) :
    othersSt id (l ++ [o]) = othersSt id l ++ [o] := by
  rw [othersSt_append, othersSt_keep id [o] (by simpa using h)]

theorem othersSt_snoc_mine (id) (l : List Obs) (o : Obs) (h : mineSt id o = true) :
    othersSt id (l ++ [o]) = othersSt id l := by
  simp [othersSt, List.filter_append, h]

theorem othersSt_wire (id) (ps : List Bytes) : othersSt id (ps.map Obs.wire) = ps.map Obs.wire :=
  othersSt_keep id _ (by intro o ho; obtain ⟨b, _, rfl⟩ := List.mem_map.mp ho; rfl)

/-! ## primitives -/

theorem emit_veil (id) (w : World) (o : Obs) (h : mineSt id o = false) : (veil id w).emit o = veil id (w.emit o) := by
  simp only [emit, veil, othersSt_snoc_keep id _ o h]

theorem emit_veil_mine (id) (w : World) (o : Obs) (h : mineSt id o = true) : veil id (w.emit o) = veil id w := by
  simp only [emit, veil, othersSt_snoc_mine id _ o h]

theorem wake_veil (id) (w : World) (t : Task) (h : t ≠ .st id) : (veil id w).wake t = veil id (w.wake t) := by
  by_cases hm : t ∈ w.woken
  · have hm' : t ∈ (veil id w).woken := (mem_woken_veil id w t h).mpr hm
    rw [wake_of_mem _ _ hm, wake_of_mem _ _ hm']
  · have hm' : t ∉ (veil id w).woken := fun x => hm ((mem_woken_veil id w t h).mp x)
    rw [wake_eq, wake_eq]
    simp only [hm, hm', ↓reduceIte]
    apply world_ext <;> simp [List.filter_append, h]

theorem wake_veil_mine (id) (w : World) : veil id (w.wake (.st id)) = veil id w := by
  by_cases hm : Task.st id ∈ w.woken
  · rw [wake_of_mem _ _ hm]
  · rw [wake_eq]
    simp only [hm, ↓reduceIte]
    apply world_ext <;> simp [List.filter_append]

theorem unwake_veil (id) (w : World) (t : Task) : (veil id w).unwake t = veil id (w.unwake t) := by
  simp only [unwake, veil, filter_filter_comm]

theorem setSlot_veil (id) (w : World) (s : Nat) (v : Slot) : (veil id w).setSlot s v = veil id (w.setSlot s v) := rfl
theorem clearSlot_veil (id) (w : World) (s : Nat) : (veil id w).clearSlot s = veil id (w.clearSlot s) := rfl

theorem setChan_veil (id) (w : World) (c : Nat) (v : Chan) (h : c ≠ id) :
    (veil id w).setChan c v = veil id (w.setChan c v) := by
  simp only [setChan, veil]
  rw [setAssoc_filter (keepK id) c v w.chans (by simpa using h)]

theorem setChan_veil_mine (id) (w : World) (v : Chan) : veil id (w.setChan id v) = veil id w := by
  simp only [setChan, veil]
  rw [setAssoc_filter_not (keepK id) id v w.chans (by simp)]

theorem dropChanRx_veil (id) (w : World) (c : Nat) (h : c ≠ id) :
    (veil id w).dropChanRx c = veil id (w.dropChanRx c) := by
  simp only [dropChanRx, veil]
  rw [eraseFirst_filter (keepK id) c w.chans (by simpa using h)]

theorem dropChanRx_veil_mine (id) (w : World) : veil id (w.dropChanRx id) = veil id w := by
  simp only [dropChanRx, veil]
  rw [eraseFirst_filter_not (keepK id) id w.chans (by simp)]

theorem allocPid_veil_snd (id) (w : World) : (veil id w).allocPid.2 = veil id w.allocPid.2 := rfl
theorem allocSub_veil_snd (id) (w : World) : (veil id w).allocSub.2 = veil id w.allocSub.2 := rfl

theorem flushWire_veil (id) (w : World) : (veil id w).flushWire = veil id w.flushWire := by
  unfold flushWire
  simp only [veil_wirePend]
  cases h : frames w.wirePend with
  | none => simp only [veil, othersSt_snoc_keep id _ (Obs.wraw w.wirePend) rfl]
  | some r =>
    obtain ⟨ps, tl⟩ := r
    simp only [veil, othersSt_append, othersSt_wire]

theorem writeBytes_veil (id) (w : World) (bs : Bytes) : (veil id w).writeBytes bs = veil id (w.writeBytes bs) := by
  cases h : w.canWrite bs.length
  · simp only [writeBytes, canWrite_veil, h, Bool.false_eq_true, ↓reduceIte]
    exact flushWire_veil id
      { w with written := w.written + (w.cfg.wlimit.getD 0 - w.written),
               wirePend := w.wirePend ++ bs.take (w.cfg.wlimit.getD 0 - w.written) }
  · simp only [writeBytes, canWrite_veil, h, ↓reduceIte]
    exact flushWire_veil id { w with written := w.written + bs.length, wirePend := w.wirePend ++ bs }

/-! ## channel effects -/

theorem fillSlot_veil (id) (w : World) (s : Nat) (x : Slot) : fillSlot (veil id w) s x = veil id (fillSlot w s x) := by
  have hop : Task.op (s / 2) ≠ Task.st id := by intro e; cases e
  have hwk : Task.op (s / 2) ∈ w.woken.filter (keepV id) ↔ Task.op (s / 2) ∈ w.woken := by simp [hop]
  apply world_ext <;> simp only [fillSlot, veil_cfg, veil_hasCtx, veil_ctxDropped, veil_task, veil_c,
      veil_rx, veil_reader, veil_readerReg, veil_queue, veil_queueReg, veil_handles, veil_ops, veil_slots,
      veil_slotReg, veil_chans, veil_rsps, veil_streams, veil_pidCtr, veil_subCtr, veil_woken, veil_held,
      veil_written, veil_wirePend, veil_out, veil_bad, hwk]
  all_goals
    by_cases hr : s ∈ w.slotReg <;> by_cases hm : Task.op (s / 2) ∈ w.woken <;>
      simp [hr, hm, List.filter_append, hop]

theorem sendSlot_veil (id) (w : World) (s : Nat) (v : SlotVal) :
    (veil id w).sendSlot s v = veil id (w.sendSlot s v) := by
  rw [sendSlot_eq, sendSlot_eq, slot_veil]
  split
  · exact fillSlot_veil id w s _
  · rfl

theorem dropSlotTx_veil (id) (w : World) (s : Nat) : (veil id w).dropSlotTx s = veil id (w.dropSlotTx s) := by
  rw [dropSlotTx_eq', dropSlotTx_eq', slot_veil]
  split
  · exact fillSlot_veil id w s _
  · rfl

/-- **a delivery commutes with veiling — whatever the channel**: into another channel both sides do the same; into
    channel `id` the veiled world has no such channel (nothing happens), and what happens in the full world (the
    message is buffered, task `st id` is flagged) is veiled -/
theorem deliver_veil (id) (w : World) (c : Nat) (x : PublishRx) :
    (veil id w).deliver c x = veil id (w.deliver c x) := by
  by_cases hc : c = id
  · subst hc
    rw [User.deliver_none _ c x (chan_veil_mine c w)]
    unfold deliver
    cases h : w.chan c with
    | none => rfl
    | some ch =>
      simp only
      split
      · rw [wake_veil_mine, setChan_veil_mine]
      · rw [setChan_veil_mine]
  · unfold deliver
    rw [chan_veil id w c hc]
    cases h : w.chan c with
    | none => rfl
    | some ch =>
      simp only [setChan_veil id w c _ hc]
      split
      · exact wake_veil id _ _ (by intro e; cases e; exact hc rfl)
      · rfl

theorem dropChanTx_veil (id) (w : World) (c : Nat) : (veil id w).dropChanTx c = veil id (w.dropChanTx c) := by
  by_cases hc : c = id
  · subst hc
    rw [User.dropChanTx_none _ c (chan_veil_mine c w)]
    unfold dropChanTx
    cases h : w.chan c with
    | none => rfl
    | some ch =>
      simp only
      split
      · rw [wake_veil_mine, setChan_veil_mine]
      · rw [setChan_veil_mine]
  · unfold dropChanTx
    rw [chan_veil id w c hc]
    cases h : w.chan c with
    | none => rfl
    | some ch =>
      simp only [setChan_veil id w c _ hc]
      split
      · exact wake_veil id _ _ (by intro e; cases e; exact hc rfl)
      · rfl

theorem applyEff_veil (id) (w : World) (e : Eff) : (veil id w).applyEff e = veil id (w.applyEff e) := by
  cases e with
  | write bs => exact writeBytes_veil id w bs
  | send s v => exact sendSlot_veil id w s v
  | dropSlot s => exact dropSlotTx_veil id w s
  | deliver c x => exact deliver_veil id w c x
  | dropChan c => exact dropChanTx_veil id w c

theorem applyEffs_veil (id) (w : World) (es : List Eff) : (veil id w).applyEffs es = veil id (w.applyEffs es) := by
  unfold applyEffs
  induction es generalizing w with
  | nil => rfl
  | cons e t ih => simp only [List.foldl_cons, applyEff_veil, ih]

/-- in the veiled world an effect on channel `id` does nothing -/
theorem applyEff_veil_on (id) (w : World) (e : Eff) (h : offCh id e = false) : (veil id w).applyEff e = veil id w := by
  cases e with
  | write bs => cases h
  | send s v => cases h
  | dropSlot s => cases h
  | deliver c x =>
    have hc : c = id := by simpa [offCh] using h
    subst hc
    exact User.deliver_none _ c x (chan_veil_mine c w)
  | dropChan c =>
    have hc : c = id := by simpa [offCh] using h
    subst hc
    exact User.dropChanTx_none _ c (chan_veil_mine c w)

/-- … so the effects on channel `id` can be dropped from a batch applied to a veiled world -/
theorem applyEffs_veil_filter (id) (w : World) (es : List Eff) :
    (veil id w).applyEffs (es.filter (offCh id)) = (veil id w).applyEffs es := by
  unfold applyEffs
  induction es generalizing w with
  | nil => rfl
  | cons e t ih =>
    by_cases he : offCh id e = true
    · simp only [List.filter_cons, he, ↓reduceIte, List.foldl_cons, applyEff_veil, ih]
    · have he' : offCh id e = false := by simpa using he
      simp only [List.filter_cons, he', Bool.false_eq_true, ↓reduceIte, List.foldl_cons, applyEff_veil_on id w e he']
      exact ih w

/-! ## the handlers on a session without the registrations of `id` -/

theorem subsOff_idem (id : Nat) (l : List (Nat × Nat)) : subsOff id (subsOff id l) = subsOff id l := by
  simp [subsOff, List.filter_filter]

theorem subsOff_self_of_no (id : Nat) (l : List (Nat × Nat)) (h : ∀ x ∈ l, x.2 ≠ id) : subsOff id l = l := by
  unfold subsOff
  rw [List.filter_eq_self]
  intro x hx
  simpa using h x hx

theorem subsOff_snoc (id sid ch : Nat) (l : List (Nat × Nat)) (h : ch ≠ id) :
    subsOff id (l ++ [(sid, ch)]) = subsOff id l ++ [(sid, ch)] := by
  simp [subsOff, List.filter_append, h]

/-- the message is the SUBSCRIBE request that registers channel `id` -/
def isSubFor (id : Nat) : Msg → Bool
  | .subscribe _ _ _ _ ch => ch == id
  | _ => false

/-- a request that does not register channel `id`, handled by the session without the registrations of `id` -/
theorem handleMsg_cOff (id : Nat) (c : Ctx) (m : Msg) (wok : Bool) (hm : isSubFor id m = false) :
    (cOff id c).handleMsg m wok =
      (cOff id (c.handleMsg m wok).1, (c.handleMsg m wok).2.1, (c.handleMsg m wok).2.2) := by
  have e : ∀ pkt, (cOff id c).sizeOk pkt = c.sizeOk pkt := fun _ => rfl
  cases m with
  | ff pkt slot =>
    simp only [Ctx.handleMsg, e]
    cases c.sizeOk pkt <;> cases wok <;> simp [cOff]
  | awaitAck aid pkt slot =>
    simp only [Ctx.handleMsg, e]
    cases c.sizeOk pkt <;> cases wok <;> by_cases h3 : pktType pkt = 3 <;> by_cases h6 : pktType pkt = 6 <;>
      by_cases hq : c.quota = 0 <;> simp [cOff, h3, h6, hq]
  | subscribe aid sid pkt slot chan =>
    have hc : chan ≠ id := by simpa [isSubFor] using hm
    simp only [Ctx.handleMsg, e]
    cases c.sizeOk pkt <;> cases wok <;> simp [cOff, subsOff_snoc id sid chan _ hc]

theorem dispatch_sublist (alive : Nat → Bool) (p : PublishRx) (sids : List Nat) (subs : List (Nat × Nat)) :
    (Ctx.dispatch alive p sids subs).1.Sublist subs := by
  induction sids generalizing subs with
  | nil => exact List.Sublist.refl _
  | cons sid rest ih =>
    simp only [Ctx.dispatch]
    split
    · exact ih subs
    · split
      · exact ih subs
      · exact (ih _).trans (User.eraseFirst_sublist sid subs)

theorem handlePkt_subs_sublist (c : Ctx) (alive : Nat → Bool) (p : RxPacket) (wok : Bool) :
    (c.handlePkt alive p wok).1.subs.Sublist c.subs := by
  cases p with
  | publish pb =>
    by_cases hq : pb.qos = 2
    · rw [handlePkt_publish_q2 c alive pb wok hq]
      split
      · exact List.Sublist.refl _
      · exact dispatch_sublist _ _ _ _
    · rw [Ctx.handlePkt_publish_other c alive pb wok hq]
      cases pb.packetId <;> exact dispatch_sublist _ _ _ _
  | puback a => simp only [Ctx.handlePkt, Ctx.complete, Ctx.bump]; (repeat' split) <;> simp
  | pubrec a => simp only [Ctx.handlePkt, Ctx.complete, Ctx.bump]; (repeat' split) <;> simp
  | pubcomp a => simp only [Ctx.handlePkt, Ctx.complete, Ctx.bump]; (repeat' split) <;> simp
  | suback a => simp only [Ctx.handlePkt, Ctx.complete]; (repeat' split) <;> simp
  | unsuback a => simp only [Ctx.handlePkt, Ctx.complete]; (repeat' split) <;> simp
  | pingresp => simp only [Ctx.handlePkt, Ctx.complete]; (repeat' split) <;> simp
  | pubrel a => simp [Ctx.handlePkt]
  | disconnect d => simp [Ctx.handlePkt]
  | connack k => simp [Ctx.handlePkt]
  | auth au => simp [Ctx.handlePkt]

theorem ctx_eq_of_noSubs {x y : Ctx} (h1 : noSubs x = noSubs y) (h2 : x.subs = y.subs) : x = y := by
  cases x; cases y
  simp only [noSubs, Ctx.mk.injEq] at h1
  simp_all

/-- **an inbound packet handled by the session without the registrations of `id`** (the receiver of `id` counting as
    dead or alive, it does not matter): the same flow, the session of the full handler without the registrations of
    `id`, and the same effects except those on channel `id` -/
theorem handlePkt_cOff (id : Nat) (c : Ctx) (alive alive' : Nat → Bool) (hag : ∀ x, x ≠ id → alive x = alive' x)
    (hn : (c.subs.map (·.1)).Nodup) (p : RxPacket) (wok : Bool) :
    ((cOff id c).handlePkt alive' p wok).2.2 = (c.handlePkt alive p wok).2.2 ∧
    ((cOff id c).handlePkt alive' p wok).1 = cOff id (c.handlePkt alive p wok).1 ∧
    ((cOff id c).handlePkt alive' p wok).2.1.filter (offCh id) = (c.handlePkt alive p wok).2.1.filter (offCh id) := by
  obtain ⟨h1, h2, h3, h4, _, _⟩ := handlePkt_sim id c (subsOff id c.subs) alive alive' hag hn
    (subsOff_nodup id c.subs hn) (subsOff_idem id c.subs).symm p wok
  refine ⟨h1.symm, ?_, h2.symm⟩
  have hno : ∀ x ∈ ((cOff id c).handlePkt alive' p wok).1.subs, x.2 ≠ id := by
    intro x hx
    exact subsOff_no_ch id c.subs x ((handlePkt_subs_sublist (cOff id c) alive' p wok).subset hx)
  apply ctx_eq_of_noSubs
  · exact h3.symm
  · show _ = subsOff id _
    rw [h4]
    exact (subsOff_self_of_no id _ hno).symm

theorem writeNeed_filter_offCh (id : Nat) (es : List Eff) : writeNeed (es.filter (offCh id)) = writeNeed es := by
  unfold writeNeed
  induction es with
  | nil => rfl
  | cons e t ih =>
    cases e <;> simp [List.filter_cons, offCh, ih] <;> split <;> simp [ih]

/-- **the request branch of the loop commutes with veiling** -/
theorem runHandler_msg_veil (id : Nat) (w : World) (q : List Msg) (m : Msg) (hm : isSubFor id m = false) :
    ({ veil id w with queue := q } : World).runHandler (fun wok => (veil id w).c.handleMsg m wok) =
      (veil id (({ w with queue := q } : World).runHandler (fun wok => w.c.handleMsg m wok)).1,
        (({ w with queue := q } : World).runHandler (fun wok => w.c.handleMsg m wok)).2) := by
  have hf : (fun wok => (veil id w).c.handleMsg m wok) =
      fun wok => (cOff id (w.c.handleMsg m wok).1, (w.c.handleMsg m wok).2.1, (w.c.handleMsg m wok).2.2) := by
    funext wok; exact handleMsg_cOff id w.c m wok hm
  rw [hf, runHandler_eq, runHandler_eq]
  have hcw : ∀ n, ({ veil id w with queue := q } : World).canWrite n = ({ w with queue := q } : World).canWrite n :=
    fun _ => rfl
  simp only [hcw]
  generalize ({ w with queue := q } : World).canWrite _ = b
  exact congrArg (fun x => (x, (w.c.handleMsg m b).2.2))
    (applyEffs_veil id { { w with queue := q } with c := (w.c.handleMsg m b).1 } (w.c.handleMsg m b).2.1)

/-- **the packet branch of the loop commutes with veiling**, every subscription identifier being registered once -/
theorem runHandler_pkt_veil (id : Nat) (w : World) (rx' : Rx) (rd' : List ReadEv) (p : RxPacket)
    (hn : (w.c.subs.map (·.1)).Nodup) :
    ({ veil id w with rx := rx', reader := rd' } : World).runHandler
        (fun wok => (veil id w).c.handlePkt (veil id w).chanRxAlive p wok) =
      (veil id (({ w with rx := rx', reader := rd' } : World).runHandler
          (fun wok => w.c.handlePkt w.chanRxAlive p wok)).1,
        (({ w with rx := rx', reader := rd' } : World).runHandler
          (fun wok => w.c.handlePkt w.chanRxAlive p wok)).2) := by
  have hag : ∀ x, x ≠ id → w.chanRxAlive x = (veil id w).chanRxAlive x :=
    fun x hx => (chanRxAlive_veil id w x hx).symm
  have key : ∀ wok,
      ((veil id w).c.handlePkt (veil id w).chanRxAlive p wok).2.2 = (w.c.handlePkt w.chanRxAlive p wok).2.2 ∧
      ((veil id w).c.handlePkt (veil id w).chanRxAlive p wok).1 = cOff id (w.c.handlePkt w.chanRxAlive p wok).1 ∧
      ((veil id w).c.handlePkt (veil id w).chanRxAlive p wok).2.1.filter (offCh id) =
        (w.c.handlePkt w.chanRxAlive p wok).2.1.filter (offCh id) :=
    fun wok => handlePkt_cOff id w.c w.chanRxAlive (veil id w).chanRxAlive hag hn p wok
  rw [runHandler_eq, runHandler_eq]
  have hcw : ∀ n, ({ veil id w with rx := rx', reader := rd' } : World).canWrite n =
      ({ w with rx := rx', reader := rd' } : World).canWrite n := fun _ => rfl
  have hneed : writeNeed ((veil id w).c.handlePkt (veil id w).chanRxAlive p true).2.1 =
      writeNeed (w.c.handlePkt w.chanRxAlive p true).2.1 := by
    rw [← writeNeed_filter_offCh id, ← writeNeed_filter_offCh id (w.c.handlePkt w.chanRxAlive p true).2.1]
    exact congrArg writeNeed (key true).2.2
  simp only [hcw, hneed]
  generalize ({ w with rx := rx', reader := rd' } : World).canWrite _ = b
  obtain ⟨k1, k2, k3⟩ := key b
  rw [k1, k2]
  refine congrArg (fun x => (x, (w.c.handlePkt w.chanRxAlive p b).2.2)) ?_
  have e0 : ({ ({ veil id w with rx := rx', reader := rd' } : World) with
      c := cOff id (w.c.handlePkt w.chanRxAlive p b).1 } : World) =
      veil id { ({ w with rx := rx', reader := rd' } : World) with c := (w.c.handlePkt w.chanRxAlive p b).1 } := rfl
  rw [e0, ← applyEffs_veil_filter, k3, applyEffs_veil_filter, applyEffs_veil]

/-! ## the context task -/

/-- no queued request registers channel `id` (its SUBSCRIBE has been handled, or was never sent) -/
def NoMsgFor (id : Nat) (w : World) : Prop := ∀ m ∈ w.queue, isSubFor id m = false

theorem finish_veil (id) (w : World) (call : Call) (r : RetRes) :
    (veil id w).finish call r = veil id (w.finish call r) := by
  unfold finish
  exact emit_veil id { w with task := .none } _ rfl

theorem runHandler_msg_veil' (id : Nat) (w : World) (q : List Msg) (m : Msg) (hm : isSubFor id m = false) :
    (veil id { w with queue := q }).runHandler (fun wok => (cOff id w.c).handleMsg m wok) =
      (veil id (({ w with queue := q } : World).runHandler (fun wok => w.c.handleMsg m wok)).1,
        (({ w with queue := q } : World).runHandler (fun wok => w.c.handleMsg m wok)).2) :=
  runHandler_msg_veil id w q m hm

theorem runHandler_pkt_veil' (id : Nat) (w : World) (rx' : Rx) (rd' : List ReadEv) (p : RxPacket)
    (hn : (w.c.subs.map (·.1)).Nodup) :
    (veil id { w with rx := rx', reader := rd' }).runHandler
        (fun wok => (cOff id w.c).handlePkt (veil id { w with rx := rx', reader := rd' }).chanRxAlive p wok) =
      (veil id (({ w with rx := rx', reader := rd' } : World).runHandler
          (fun wok => w.c.handlePkt ({ w with rx := rx', reader := rd' } : World).chanRxAlive p wok)).1,
        (({ w with rx := rx', reader := rd' } : World).runHandler
          (fun wok => w.c.handlePkt ({ w with rx := rx', reader := rd' } : World).chanRxAlive p wok)).2) :=
  runHandler_pkt_veil id w rx' rd' p hn

theorem runHandler_pkt_veil'' (id : Nat) (x : World) (p : RxPacket) (hn : (x.c.subs.map (·.1)).Nodup) :
    (veil id x).runHandler (fun wok => (cOff id x.c).handlePkt (veil id x).chanRxAlive p wok) =
      (veil id (x.runHandler (fun wok => x.c.handlePkt x.chanRxAlive p wok)).1,
        (x.runHandler (fun wok => x.c.handlePkt x.chanRxAlive p wok)).2) :=
  runHandler_pkt_veil id x x.rx x.reader p hn

theorem runIter_veil (id) (w : World) (hq : NoMsgFor id w) (hn : (w.c.subs.map (·.1)).Nodup) :
    runIter (veil id w) =
      match runIter w with
      | .inl x => .inl (veil id x)
      | .inr x => .inr (veil id x) := by
  unfold runIter
  simp only [senders_veil]
  w11_vln
  cases hqq : w.queue with
  | cons m q =>
    have hm : isSubFor id m = false := hq m (by rw [hqq]; exact List.mem_cons_self)
    simp only [mk_veil, runHandler_msg_veil' id w q m hm]
    generalize World.runHandler _ _ = r
    obtain ⟨w1, fl⟩ := r
    cases fl <;> simp only [finish_veil]
  | nil =>
    simp only
    by_cases hs : w.senders = 0
    · simp only [hs, ↓reduceIte, finish_veil]
    · simp only [hs, ↓reduceIte]
      generalize pollNext w.rx w.reader = r
      obtain ⟨rx', rd', res⟩ := r
      cases res with
      | none => simp only [mk_veil, finish_veil]
      | pending =>
        by_cases hr : rd' = []
        · simp only [hr, ↓reduceIte, mk_veil]
        · simp only [hr, ↓reduceIte, mk_veil]
          exact congrArg Sum.inr (wake_veil id _ _ (by simp))
      | item fr =>
        simp only [mk_veil]
        cases hd : decodeRx fr with
        | err => simp only [finish_veil]
        | panic => exact congrArg Sum.inr (emit_veil id _ _ rfl)
        | ok pk =>
          have e := runHandler_pkt_veil'' id { w with rx := rx', reader := rd' } pk hn
          rw [hqq] at e
          simp only [veil_c]
          rw [e]
          generalize World.runHandler _ _ = r
          obtain ⟨w1, fl⟩ := r
          cases fl <;> simp only [finish_veil]

/-- what the loop needs of a world to commute with veiling: no queued request registers channel `id`, and the
    subscription identifiers in flight (queued SUBSCRIBEs and the subscription table) are pairwise distinct -/
structure CtxOK (id : Nat) (w : World) : Prop where
  noMsg : NoMsgFor id w
  nodup : (psids w).Nodup

theorem CtxOK.subs_nodup {id : Nat} {w : World} (h : CtxOK id w) : (w.c.subs.map (·.1)).Nodup :=
  (List.sublist_append_right _ _).nodup h.nodup

theorem CtxOK.runCont {id : Nat} {w w1 : World} (h : CtxOK id w) (hc : RunCont w w1) : CtxOK id w1 := by
  refine ⟨?_, ?_⟩
  · intro m hm
    rcases W7.runCont_queue hc with ⟨m0, e⟩ | e
    · exact h.noMsg m (by rw [e]; exact List.mem_cons_of_mem _ hm)
    · exact h.noMsg m (by rw [← e]; exact hm)
  · obtain ⟨i, mv⟩ := runCont_smove hc
    rcases mv.subRel with ⟨_, sf⟩ | ⟨hne, _⟩
    · exact sf.2.1 h.nodup
    · exact absurd rfl hne

theorem CtxOK.congr {id : Nat} {w w' : World} (h : CtxOK id w) (hq : w'.queue = w.queue) (hs : w'.c.subs = w.c.subs) :
    CtxOK id w' :=
  ⟨fun m hm => h.noMsg m (hq ▸ hm), by unfold psids; rw [hq, hs]; exact h.nodup⟩

theorem runLoop_veil (id) (f : Nat) (w : World) (h : CtxOK id w) : runLoop f (veil id w) = veil id (runLoop f w) := by
  induction f generalizing w with
  | zero => rfl
  | succ f ih =>
    rw [runLoop_succ, runLoop_succ, runIter_veil id w h.noMsg h.subs_nodup]
    cases hr : runIter w with
    | inl x => exact ih x (h.runCont (runIter_inl hr))
    | inr x => rfl

theorem foldl_writeBytes_veil (id) (pkts : List Bytes) (w : World) :
    pkts.foldl (fun w x => w.writeBytes x) (veil id w) = veil id (pkts.foldl (fun w x => w.writeBytes x) w) := by
  induction pkts generalizing w with
  | nil => rfl
  | cons x t ih => simp only [List.foldl_cons, writeBytes_veil, ih]

theorem map_dropChan_subsOff (id : Nat) (l : List (Nat × Nat)) :
    (subsOff id l).map (fun x => Eff.dropChan x.2) = (l.map (fun x => Eff.dropChan x.2)).filter (offCh id) := by
  induction l with
  | nil => rfl
  | cons x t ih =>
    obtain ⟨a, b⟩ := x
    rw [subsOff_cons]
    by_cases hb : b = id
    · have : offCh id (Eff.dropChan b) = false := by simp [offCh, hb]
      simp only [hb, ne_eq, not_true_eq_false, ↓reduceIte, List.map_cons, List.filter_cons]
      rw [hb] at this
      simp only [this, Bool.false_eq_true, ↓reduceIte]
      exact ih
    · have : offCh id (Eff.dropChan b) = true := by simp [offCh, hb]
      simp only [hb, ne_eq, not_false_eq_true, ↓reduceIte, List.map_cons, List.filter_cons, this]
      rw [ih]

theorem resume_cOff (id : Nat) (c : Ctx) :
    (cOff id c).resume = (cOff id c.resume.1, c.resume.2.1.filter (offCh id), c.resume.2.2) := by
  unfold Ctx.resume
  cases hd : c.disc with
  | none => simp [cOff, hd]
  | some el =>
    have e1 : (cOff id c).disc = some el := hd
    have e2 : (cOff id c).sessionExpired el = c.sessionExpired el := rfl
    simp only [e1, e2]
    by_cases hx : c.sessionExpired el = true
    · simp only [hx, ↓reduceIte, Ctx.resetSession]
      refine Prod.ext rfl (Prod.ext ?_ rfl)
      show (cOff id c).awaiting.map _ ++ (subsOff id c.subs).map _ = _
      rw [List.filter_append, map_dropChan_subsOff]
      congr 1
      rw [List.filter_eq_self.mpr]
      · rfl
      · intro e he
        obtain ⟨x, _, rfl⟩ := List.mem_map.mp he
        rfl
    · simp only [hx, Bool.false_eq_true, ↓reduceIte]
      rfl

theorem veil_ite (id) (c : Prop) [Decidable c] (x y : World) :
    veil id (if c then x else y) = if c then veil id x else veil id y := apply_ite _ _ _ _

theorem pollRun_veil (id) (w : World) (started : Bool) (h : CtxOK id w) :
    (veil id w).pollRun started = veil id (w.pollRun started) := by
  cases started with
  | true => simp only [pollRun, ↓reduceIte, loopFuel_veil, runLoop_veil id _ w h]
  | false =>
    simp only [pollRun, Bool.false_eq_true, ↓reduceIte, veil_c, resume_cOff]
    have e0 : ({ veil id w with c := cOff id w.c.resume.1, task := .running true } : World) =
        veil id { w with c := w.c.resume.1, task := .running true } := rfl
    rw [e0, applyEffs_veil_filter, applyEffs_veil]
    simp only [canWrite_veil]
    by_cases hcw : (({ w with c := w.c.resume.1, task := .running true } : World).applyEffs w.c.resume.2.1).canWrite
        (w.c.resume.2.2.map List.length).sum = true
    · simp only [hcw, ↓reduceIte]
      rw [foldl_writeBytes_veil]
      simp only [loopFuel_veil]
      apply runLoop_veil
      have hq : (w.c.resume.2.2.foldl (fun w x => w.writeBytes x)
          (({ w with c := w.c.resume.1, task := .running true } : World).applyEffs w.c.resume.2.1)).queue = w.queue := by
        rw [(foldl_writeBytes_frame _ _).2.2.1]; simp
      have hc : (w.c.resume.2.2.foldl (fun w x => w.writeBytes x)
          (({ w with c := w.c.resume.1, task := .running true } : World).applyEffs w.c.resume.2.1)).c = w.c.resume.1 := by
        rw [(foldl_writeBytes_frame _ _).2.2.2.2.2.2.1]; simp
      refine ⟨fun m hm => h.noMsg m (hq ▸ hm), ?_⟩
      unfold psids
      rw [hq, hc]
      have hsub : (w.c.resume.1.subs.map (·.1)).Sublist (w.c.subs.map (·.1)) := by
        rcases Ctx.resume_fst_cases w.c with e | e | e <;> rw [e] <;> simp
      exact (List.Sublist.append (List.Sublist.refl _) hsub).nodup h.nodup
    · simp only [hcw, Bool.false_eq_true, ↓reduceIte]
      rw [writeBytes_veil, finish_veil]

theorem handleConnack_cOff (id : Nat) (c : Ctx) (k : ConnackRx) :
    (cOff id c).handleConnack k = cOff id (c.handleConnack k) := by
  unfold Ctx.handleConnack
  cases k.sessionExpiry <;> cases k.maxPacketSize <;> rfl

theorem awaitFirst_veil (id) (w : World) (call : Call) (t : ConnectTx) (a : AuthTx) :
    (veil id w).awaitFirst call t a = veil id (w.awaitFirst call t a) := by
  unfold awaitFirst
  w11_vln
  generalize pollNext w.rx w.reader = r
  obtain ⟨rx', rd', res⟩ := r
  cases res with
  | none => simp only [mk_veil, finish_veil]
  | pending =>
    by_cases hr : rd' = []
    · simp only [hr, ↓reduceIte, mk_veil]
    · simp only [hr, ↓reduceIte, mk_veil]
      exact wake_veil id _ _ (by simp)
  | item fr =>
    simp only [mk_veil]
    cases hd : decodeRx fr with
    | err => simp only [finish_veil]
    | panic => exact emit_veil id _ _ rfl
    | ok pk =>
      cases pk <;> simp only [finish_veil]
      case connack k =>
        simp only [veil_c, handleConnack_cOff, mk_veil]
        by_cases h1 : k.reason ≥ 128
        · simp only [h1, ↓reduceIte, finish_veil]
        · by_cases h2 : (!k.subIdAvail) = true
          · simp only [h1, h2, ↓reduceIte]
            exact emit_veil id _ _ rfl
          · simp only [h1, h2, Bool.false_eq_true, ↓reduceIte, finish_veil]

/-- the tail of the first poll of `connect()` / `authorize()`: write the request, then await the first response -/
def connectTail (x : World) (call : Call) (t : ConnectTx) (a : AuthTx) (pkt : Bytes) : World :=
  if x.canWrite pkt.length then (x.writeBytes pkt).awaitFirst call t a
  else (x.writeBytes pkt).finish call (.err .socketClosed)

theorem connectTail_veil (id) (x : World) (call : Call) (t : ConnectTx) (a : AuthTx) (pkt : Bytes) :
    connectTail (veil id x) call t a pkt = veil id (connectTail x call t a pkt) := by
  unfold connectTail
  simp only [canWrite_veil, writeBytes_veil, awaitFirst_veil, finish_veil, veil_ite]

theorem pollConnect_false_eq' (x : World) (call : Call) (t : ConnectTx) (a : AuthTx) :
    x.pollConnect call t a false =
      if !(match call with | .connect => t.valid | _ => a.valid) then x.finish call (.err .codecError)
      else connectTail
        (match call with
          | .connect => { x with c := { x.c with sei := t.sessionExpiry.getD 0 } }
          | _ => x)
        call t a (match call with | .connect => t.encode | _ => a.encode) := by
  cases call <;> rfl

theorem pollConnect_veil (id) (w : World) (call : Call) (t : ConnectTx) (a : AuthTx) (started : Bool) :
    (veil id w).pollConnect call t a started = veil id (w.pollConnect call t a started) := by
  cases started with
  | true => simp only [pollConnect, ↓reduceIte, awaitFirst_veil]
  | false =>
    rw [pollConnect_false_eq', pollConnect_false_eq', veil_ite]
    cases call with
    | connect =>
      by_cases hv : (!t.valid) = true
      · rw [if_pos hv, if_pos hv]; exact finish_veil id w _ _
      · rw [if_neg hv, if_neg hv]
        exact connectTail_veil id { w with c := { w.c with sei := t.sessionExpiry.getD 0 } } _ t a _
    | authorize =>
      by_cases hv : (!a.valid) = true
      · rw [if_pos hv, if_pos hv]; exact finish_veil id w _ _
      · rw [if_neg hv, if_neg hv]; exact connectTail_veil id w _ t a _
    | run =>
      by_cases hv : (!a.valid) = true
      · rw [if_pos hv, if_pos hv]; exact finish_veil id w _ _
      · rw [if_neg hv, if_neg hv]; exact connectTail_veil id w _ t a _

/-- **a poll of the context task commutes with veiling** -/
theorem pollCtx_veil (id) (w : World) (h : CtxOK id w) : (veil id w).pollCtx = veil id w.pollCtx := by
  unfold pollCtx
  w11_vln
  cases w.task with
  | none => rfl
  | connecting call t a started => exact pollConnect_veil id w call t a started
  | running started => exact pollRun_veil id w started h

end W11
end World
end Poster
