/-
  Lemmas/CtxRetx.lean — the retransmit queue as a function of the history (property C17).

  `unfinished` is a SPECIFICATION: it is computed from the observations of a history alone (what was asked, what was
  written, what was handled), never from `Ctx.retx`.
-/
import PosterModel.Lemmas.CtxPkt

set_option linter.unusedVariables false
set_option linter.unusedSimpArgs false

namespace Poster

/-- one observation's effect on the list of unfinished outbound handshakes `(action id, packet to re-send)`:
    * an accepted request awaiting an acknowledgement (the loop goes on) whose packet was written is appended if it is a
      PUBLISH (type 3; stored with DUP set) or a PUBREL (type 6; stored as it is);
    * a handled PUBACK / PUBREC (any reason code) / PUBCOMP erases the first entry addressed by it;
    * nothing else matters. -/
def retxStep (acc : List (Nat × Bytes)) : CObs → List (Nat × Bytes)
  | .msg (.awaitAck aid pkt _) effs flow =>
    if Eff.write pkt ∈ effs ∧ flow = .cont then
      if pktType pkt = 3 then acc ++ [(aid, setDup pkt)]
      else if pktType pkt = 6 then acc ++ [(aid, pkt)]
      else acc
    else acc
  | .pkt (.puback a) _ _ => eraseFirst (actionId 4 a.packetId) acc
  | .pkt (.pubrec a) _ _ => eraseFirst (actionId 5 a.packetId) acc
  | .pkt (.pubcomp a) _ _ => eraseFirst (actionId 7 a.packetId) acc
  | _ => acc

/-- the unfinished handshakes after the history `t`, starting from the queue `r0` -/
def unfinishedFrom (r0 : List (Nat × Bytes)) (t : List CObs) : List (Nat × Bytes) := t.foldl retxStep r0

/-- the unfinished handshakes of a history that starts with an empty queue -/
def unfinished (t : List CObs) : List (Nat × Bytes) := unfinishedFrom [] t

set_option maxRecDepth 4096 in
/-- setting bit 3 of a byte: the low three bits and the high nibble stay, bit 3 is 1 -/
theorem lor8_bits : ∀ n < 256, (n ||| 8) % 8 = n % 8 ∧ (n ||| 8) / 16 = n / 16 ∧ (n ||| 8) / 8 % 2 = 1 ∧ (n ||| 8) < 256 := by
  decide

/-- the retransmit queue moves exactly as `retxStep` says -/
theorem step_retx (c : Ctx) (i : CIn) : (c.stepIn i).1.retx = retxStep c.retx (c.stepIn i).2 := by
  cases i with
  | msg m wok =>
    cases m with
    | ff pkt slot => simp only [Ctx.stepIn, Ctx.handleMsg, retxStep]; (repeat' split) <;> rfl
    | subscribe aid sid pkt slot chan => simp only [Ctx.stepIn, Ctx.handleMsg, retxStep]; (repeat' split) <;> rfl
    | awaitAck aid pkt slot =>
      by_cases hsz : c.sizeOk pkt = true
      · by_cases h3 : pktType pkt = 3
        · by_cases hq : c.quota = 0
          · simp [Ctx.stepIn, Ctx.handleMsg, retxStep, hsz, h3, hq]
          · cases wok <;> simp [Ctx.stepIn, Ctx.handleMsg, retxStep, hsz, h3, hq]
        · by_cases h6 : pktType pkt = 6 <;> cases wok <;> simp [Ctx.stepIn, Ctx.handleMsg, retxStep, hsz, h3, h6]
      · have hsz' : c.sizeOk pkt = false := by simpa using hsz
        simp [Ctx.stepIn, Ctx.handleMsg, retxStep, hsz']
  | pkt p dead wok =>
    simp only [Ctx.stepIn]
    rw [Ctx.handlePkt_retx]
    cases p <;> simp [retxStep]

end Poster
