/-
  Lemmas/WorldOwnAct.lean — what the *context side* of the world (the effects of the handlers: a oneshot
  completed or dropped, a message pushed into a subscription channel, a subscription sender dropped, bytes
  written) can do to the oneshots, the channels and the wakers. `ActInv w w'` collects it; it is reflexive,
  transitive and holds for every primitive effect. Used by Lemmas/WorldOwn.lean (C14, end to end).
-/
import PosterModel.Lemmas.WorldRun
import PosterModel.Lemmas.WorldDrop
import PosterModel.Lemmas.UserWorld

set_option linter.unusedVariables false
set_option linter.unusedSimpArgs false

namespace Poster
open Framing

/-! ## association lists -/

theorem lookupFirst_of_mem_nodup {β} (k : Nat) (v : β) (l : List (Nat × β)) (hn : (l.map (·.1)).Nodup)
    (h : (k, v) ∈ l) : lookupFirst k l = some v := by
  induction l with
  | nil => simp at h
  | cons x t ih =>
    obtain ⟨a, b⟩ := x
    simp only [List.map_cons, List.nodup_cons] at hn
    simp only [List.mem_cons, Prod.mk.injEq] at h
    rcases h with ⟨rfl, rfl⟩ | h
    · simp [lookupFirst]
    · have hne : a ≠ k := by
        intro e; subst e
        exact hn.1 (List.mem_map.mpr ⟨(a, v), h, rfl⟩)
      simp [lookupFirst, hne, ih hn.2 h]

theorem mem_of_lookupFirst {β} (k : Nat) (v : β) (l : List (Nat × β)) (h : lookupFirst k l = some v) :
    (k, v) ∈ l := by
  induction l with
  | nil => simp [lookupFirst] at h
  | cons x t ih =>
    obtain ⟨a, b⟩ := x
    simp only [lookupFirst] at h
    split at h
    · rename_i hk; simp only [Option.some.injEq] at h; subst hk; subst h; exact List.mem_cons_self
    · exact List.mem_cons_of_mem _ (ih h)

theorem lookupFirst_isSome_iff {β} (k : Nat) (l : List (Nat × β)) :
    (lookupFirst k l).isSome = true ↔ k ∈ l.map (·.1) := by
  induction l with
  | nil => simp [lookupFirst]
  | cons x t ih =>
    obtain ⟨a, b⟩ := x
    simp only [lookupFirst, List.map_cons, List.mem_cons]
    split
    · rename_i hk; simp [hk]
    · rename_i hk
      rw [ih]
      constructor
      · exact Or.inr
      · rintro (h | h)
        · exact absurd h.symm hk
        · exact h

theorem lookupFirst_append {β} (k : Nat) (a b : List (Nat × β)) :
    lookupFirst k (a ++ b) = match lookupFirst k a with
      | some v => some v
      | none => lookupFirst k b := by
  induction a with
  | nil => simp [lookupFirst]
  | cons x t ih =>
    obtain ⟨a', b'⟩ := x
    simp only [List.cons_append, lookupFirst]
    split
    · rfl
    · exact ih

theorem keys_setAssoc_of_lookup {β} (k : Nat) (v v0 : β) (l : List (Nat × β)) (h : lookupFirst k l = some v0) :
    (World.setAssoc k v l).map (·.1) = l.map (·.1) := by
  induction l with
  | nil => simp [lookupFirst] at h
  | cons x t ih =>
    obtain ⟨a, b⟩ := x
    simp only [lookupFirst] at h
    simp only [World.setAssoc]
    split
    · rename_i hk; simp [hk]
    · rename_i hk; simp only [hk, ↓reduceIte] at h; simp [ih h]

theorem keys_setAssoc_of_absent {β} (k : Nat) (v : β) (l : List (Nat × β)) (h : lookupFirst k l = none) :
    (World.setAssoc k v l).map (·.1) = l.map (·.1) ++ [k] := by
  induction l with
  | nil => simp [World.setAssoc]
  | cons x t ih =>
    obtain ⟨a, b⟩ := x
    simp only [lookupFirst] at h
    simp only [World.setAssoc]
    split at h
    · cases h
    · rename_i hk; simp [hk, ih h]

theorem nodup_keys_setAssoc {β} (k : Nat) (v : β) (l : List (Nat × β)) (hn : (l.map (·.1)).Nodup) :
    ((World.setAssoc k v l).map (·.1)).Nodup := by
  cases h : lookupFirst k l with
  | none =>
    rw [keys_setAssoc_of_absent k v l h]
    have hk : k ∉ l.map (·.1) := by
      intro hm
      have := (lookupFirst_isSome_iff k l).2 hm
      rw [h] at this; cases this
    rw [List.nodup_append]
    refine ⟨hn, by simp, ?_⟩
    intro a ha b hb
    simp only [List.mem_singleton] at hb
    subst hb
    intro e; subst e; exact hk ha
  | some v0 => rw [keys_setAssoc_of_lookup k v v0 l h]; exact hn

theorem eraseFirst_sublist' {β} (k : Nat) (l : List (Nat × β)) : (eraseFirst k l).Sublist l := by
  induction l with
  | nil => exact List.Sublist.refl _
  | cons x t ih =>
    obtain ⟨a, b⟩ := x
    rw [eraseFirst_cons]
    split
    · exact List.sublist_cons_self _ _
    · exact List.Sublist.cons_cons _ ih

theorem nodup_keys_eraseFirst {β} (k : Nat) (l : List (Nat × β)) (hn : (l.map (·.1)).Nodup) :
    ((eraseFirst k l).map (·.1)).Nodup :=
  List.Nodup.sublist (List.Sublist.map _ (eraseFirst_sublist' k l)) hn

theorem length_eraseFirst_of_lookup {β} (k : Nat) (v : β) (l : List (Nat × β)) (h : lookupFirst k l = some v) :
    (eraseFirst k l).length + 1 = l.length := by
  induction l with
  | nil => simp [lookupFirst] at h
  | cons x t ih =>
    obtain ⟨a, b⟩ := x
    simp only [lookupFirst] at h
    rw [eraseFirst_cons]
    split
    · simp
    · rename_i hk; simp only [hk, ↓reduceIte] at h; simp [ih h]

namespace World

/-! ## a oneshot completed: the same shape as a oneshot dropped -/

theorem sendSlot_eq (w : World) (s : Nat) (v : SlotVal) :
    w.sendSlot s v =
      if w.slot s = some .empty then
        { w with slots := setAssoc s (.full v) w.slots,
                 slotReg := if s ∈ w.slotReg then w.slotReg.filter (· ≠ s) else w.slotReg,
                 woken := if s ∈ w.slotReg then (w.wake (.op (s / 2))).woken else w.woken }
      else w := by
  by_cases he : w.slot s = some .empty
  · by_cases hr : s ∈ w.slotReg <;> simp [sendSlot, he, hr, setSlot, wake_eq]
  · have : sendSlot w s v = w := by
      unfold sendSlot
      split
      · rename_i h; exact absurd h he
      · rfl
    simp [this, he]

theorem deliver_eq (w : World) (c : Nat) (p : PublishRx) :
    w.deliver c p =
      match w.chan c with
      | some ch => { w with chans := setAssoc c { ch with buf := ch.buf ++ [p], reg := false } w.chans,
                            woken := if ch.reg then (w.wake (.st c)).woken else w.woken }
      | none => w := by
  cases h : w.chan c with
  | none => simp [deliver, h]
  | some ch => by_cases hr : ch.reg = true <;> simp [deliver, h, hr, setChan, wake_eq]

/-! ## `ActInv` -/

/-- what the effects of the context's handlers can do to the user-visible plumbing: a oneshot without a value
    may get one (or be closed) — and then the operation registered on it is woken —, a oneshot with a value or
    closed stays as it is; a channel whose sender is gone stays so; a channel that changes wakes the stream
    registered on it; no wakeup is lost; operations, streams, responses are untouched. -/
structure ActInv (w w' : World) : Prop where
  hasCtx_eq : w'.hasCtx = w.hasCtx
  ctxDropped_eq : w'.ctxDropped = w.ctxDropped
  ops_eq : w'.ops = w.ops
  streams_eq : w'.streams = w.streams
  rsps_eq : w'.rsps = w.rsps
  held_eq : w'.held = w.held
  bad_eq : w'.bad = w.bad
  wokenMono : ∀ t, t ∈ w.woken → t ∈ w'.woken
  slotNone : ∀ s, w.slot s = none → w'.slot s = none
  slotFull : ∀ s v, w.slot s = some (.full v) → w'.slot s = some (.full v)
  slotClosed : ∀ s, w.slot s = some .closed → w'.slot s = some .closed
  slotEmpty : ∀ s, w.slot s = some .empty →
    (w'.slot s = some .empty ∧ (s ∈ w.slotReg → s ∈ w'.slotReg)) ∨
    (w'.slot s ≠ some .empty ∧ w'.slot s ≠ none ∧ (s ∈ w.slotReg → .op (s / 2) ∈ w'.woken))
  chanKeys : w'.chans.map (·.1) = w.chans.map (·.1)
  chanNone : ∀ c, w.chan c = none → w'.chan c = none
  chanSome : ∀ c c0, w.chan c = some c0 → ∃ c1, w'.chan c = some c1 ∧
    (c0.txAlive = false → c1.txAlive = false) ∧ (c1 = c0 ∨ (c0.reg = true → .st c ∈ w'.woken))

theorem actInv_refl (w : World) : ActInv w w where
  hasCtx_eq := rfl
  ctxDropped_eq := rfl
  ops_eq := rfl
  streams_eq := rfl
  rsps_eq := rfl
  held_eq := rfl
  bad_eq := rfl
  wokenMono := fun _ h => h
  slotNone := fun _ h => h
  slotFull := fun _ _ h => h
  slotClosed := fun _ h => h
  slotEmpty := fun _ h => Or.inl ⟨h, id⟩
  chanKeys := rfl
  chanNone := fun _ h => h
  chanSome := fun _ c0 h => ⟨c0, h, id, Or.inl rfl⟩

/-- a oneshot that is not `empty` (holds a value, is closed, or does not exist) is never changed -/
theorem ActInv.slot_ne_empty {w w' : World} (h : ActInv w w') (s : Nat) (hs : w.slot s ≠ some .empty) :
    w'.slot s = w.slot s := by
  cases hv : w.slot s with
  | none => exact h.slotNone s hv
  | some v =>
    cases v with
    | empty => exact absurd hv hs
    | full x => exact h.slotFull s x hv
    | closed => exact h.slotClosed s hv

/-- a oneshot that is `empty` afterwards was `empty` before -/
theorem ActInv.slot_empty_inv {w w' : World} (h : ActInv w w') (s : Nat) (hs : w'.slot s = some .empty) :
    w.slot s = some .empty := by
  apply Classical.byContradiction
  intro hne
  rw [h.slot_ne_empty s hne] at hs
  exact hne hs

theorem ActInv.slot_ne_none {w w' : World} (h : ActInv w w') (s : Nat) (hs : w.slot s ≠ none) :
    w'.slot s ≠ none := by
  by_cases he : w.slot s = some .empty
  · rcases h.slotEmpty s he with ⟨a, _⟩ | ⟨_, a, _⟩
    · rw [a]; simp
    · exact a
  · rw [h.slot_ne_empty s he]; exact hs

theorem actInv_trans {a b c : World} (h1 : ActInv a b) (h2 : ActInv b c) : ActInv a c where
  hasCtx_eq := h2.hasCtx_eq.trans h1.hasCtx_eq
  ctxDropped_eq := h2.ctxDropped_eq.trans h1.ctxDropped_eq
  ops_eq := h2.ops_eq.trans h1.ops_eq
  streams_eq := h2.streams_eq.trans h1.streams_eq
  rsps_eq := h2.rsps_eq.trans h1.rsps_eq
  held_eq := h2.held_eq.trans h1.held_eq
  bad_eq := h2.bad_eq.trans h1.bad_eq
  wokenMono := fun t ht => h2.wokenMono t (h1.wokenMono t ht)
  slotNone := fun s hs => h2.slotNone s (h1.slotNone s hs)
  slotFull := fun s v hs => h2.slotFull s v (h1.slotFull s v hs)
  slotClosed := fun s hs => h2.slotClosed s (h1.slotClosed s hs)
  slotEmpty := fun s hs => by
    rcases h1.slotEmpty s hs with ⟨e1, r1⟩ | ⟨n1, m1, k1⟩
    · rcases h2.slotEmpty s e1 with ⟨e2, r2⟩ | ⟨n2, m2, k2⟩
      · exact Or.inl ⟨e2, fun hr => r2 (r1 hr)⟩
      · exact Or.inr ⟨n2, m2, fun hr => k2 (r1 hr)⟩
    · refine Or.inr ⟨?_, h2.slot_ne_none s m1, fun hr => h2.wokenMono _ (k1 hr)⟩
      rw [h2.slot_ne_empty s n1]; exact n1
  chanKeys := h2.chanKeys.trans h1.chanKeys
  chanNone := fun c hc => h2.chanNone c (h1.chanNone c hc)
  chanSome := fun c c0 hc => by
    obtain ⟨c1, e1, t1, k1⟩ := h1.chanSome c c0 hc
    obtain ⟨c2, e2, t2, k2⟩ := h2.chanSome c c1 e1
    refine ⟨c2, e2, fun ht => t2 (t1 ht), ?_⟩
    rcases k1 with k1 | k1
    · subst k1; exact k2
    · exact Or.inr fun hr => h2.wokenMono _ (k1 hr)

/-- a step that leaves the plumbing alone (and loses no wakeup) -/
theorem actInv_of_eq {w w' : World} (h1 : w'.hasCtx = w.hasCtx) (h2 : w'.ctxDropped = w.ctxDropped)
    (h3 : w'.ops = w.ops) (h4 : w'.streams = w.streams) (h5 : w'.rsps = w.rsps) (h6 : w'.held = w.held)
    (h7 : ∀ t, t ∈ w.woken → t ∈ w'.woken) (h8 : w'.slots = w.slots) (h9 : w'.slotReg = w.slotReg)
    (h10 : w'.chans = w.chans) (h11 : w'.bad = w.bad) : ActInv w w' := by
  have hs : ∀ s, w'.slot s = w.slot s := fun s => by simp [slot, h8]
  have hc : ∀ c, w'.chan c = w.chan c := fun c => by simp [chan, h10]
  exact {
    hasCtx_eq := h1, ctxDropped_eq := h2, ops_eq := h3, streams_eq := h4, rsps_eq := h5, held_eq := h6
    bad_eq := h11
    wokenMono := h7
    slotNone := fun s h => by rw [hs]; exact h
    slotFull := fun s v h => by rw [hs]; exact h
    slotClosed := fun s h => by rw [hs]; exact h
    slotEmpty := fun s h => Or.inl ⟨by rw [hs]; exact h, fun hr => by rw [h9]; exact hr⟩
    chanKeys := by rw [h10]
    chanNone := fun c h => by rw [hc]; exact h
    chanSome := fun c c0 h => ⟨c0, by rw [hc]; exact h, id, Or.inl rfl⟩ }

/-- the world after the `empty` oneshot `s` got its final state `x` -/
def fillW (w : World) (s : Nat) (x : Slot) : World :=
  { w with slots := setAssoc s x w.slots,
           slotReg := if s ∈ w.slotReg then w.slotReg.filter (· ≠ s) else w.slotReg,
           woken := if s ∈ w.slotReg then (w.wake (.op (s / 2))).woken else w.woken }

/-- an `empty` oneshot gets its final state `x` (a value, or closed), its registered receiver is woken -/
theorem actInv_fill (w : World) (s : Nat) (x : Slot) (hx : x ≠ .empty) (he : w.slot s = some .empty) :
    ActInv w (fillW w s x) := by
  have hslot : ∀ s', s' ≠ s → (fillW w s x).slot s'
                    = w.slot s' := by
    intro s' hne; simp [fillW, slot, lookupFirst_setAssoc_ne _ _ _ _ hne]
  have hself : (fillW w s x).slot s
                    = some x := by
    simp [fillW, slot, lookupFirst_setAssoc_self]
  have hw : ∀ t, t ∈ w.woken → t ∈ (if s ∈ w.slotReg then (w.wake (.op (s / 2))).woken else w.woken) := by
    intro t ht; split
    · exact mem_wake_of_mem _ _ _ ht
    · exact ht
  refine {
    hasCtx_eq := rfl, ctxDropped_eq := rfl, ops_eq := rfl, streams_eq := rfl, rsps_eq := rfl, held_eq := rfl
    bad_eq := rfl
    wokenMono := hw
    slotNone := ?_, slotFull := ?_, slotClosed := ?_, slotEmpty := ?_
    chanKeys := rfl
    chanNone := fun c h => h
    chanSome := fun c c0 h => ⟨c0, h, id, Or.inl rfl⟩ }
  · intro s' h
    have : s' ≠ s := by intro e; subst e; rw [he] at h; cases h
    rw [hslot s' this]; exact h
  · intro s' v h
    have : s' ≠ s := by intro e; subst e; rw [he] at h; cases h
    rw [hslot s' this]; exact h
  · intro s' h
    have : s' ≠ s := by intro e; subst e; rw [he] at h; cases h
    rw [hslot s' this]; exact h
  · intro s' h
    by_cases hs : s' = s
    · subst hs
      right
      rw [hself]
      refine ⟨by intro e; simp only [Option.some.injEq] at e; exact hx e, by simp, ?_⟩
      intro hr
      show Task.op (s' / 2) ∈ (if s' ∈ w.slotReg then (w.wake (.op (s' / 2))).woken else w.woken)
      rw [if_pos hr]; exact mem_wake_self _ _
    · left
      rw [hslot s' hs]
      refine ⟨h, fun hr => ?_⟩
      show s' ∈ (if s ∈ w.slotReg then w.slotReg.filter (· ≠ s) else w.slotReg)
      split
      · simp [hr, hs]
      · exact hr

theorem actInv_sendSlot (w : World) (s : Nat) (v : SlotVal) : ActInv w (w.sendSlot s v) := by
  rw [sendSlot_eq]
  split
  · rename_i he; exact actInv_fill w s (.full v) (by intro h; cases h) he
  · exact actInv_refl w

theorem actInv_dropSlotTx (w : World) (s : Nat) : ActInv w (w.dropSlotTx s) := by
  rw [dropSlotTx_eq]
  split
  · rename_i he; exact actInv_fill w s .closed (by intro h; cases h) he
  · exact actInv_refl w

/-- the world after the entry `ch` of channel `c` was replaced by `c1` -/
def putChanW (w : World) (c : Nat) (ch c1 : Chan) : World :=
  { w with chans := setAssoc c c1 w.chans,
           woken := if ch.reg then (w.wake (.st c)).woken else w.woken }

/-- the entry of channel `c` is replaced by `c1` (sender no more alive than before), its registered stream woken -/
theorem actInv_setChan (w : World) (c : Nat) (ch c1 : Chan) (hc : w.chan c = some ch)
    (ht : ch.txAlive = false → c1.txAlive = false) :
    ActInv w (putChanW w c ch c1) := by
  have hw : ∀ t, t ∈ w.woken → t ∈ (if ch.reg then (w.wake (.st c)).woken else w.woken) := by
    intro t ht; split
    · exact mem_wake_of_mem _ _ _ ht
    · exact ht
  have hother : ∀ c', c' ≠ c → (putChanW w c ch c1).chan c' = w.chan c' := by
    intro c' hne; simp [putChanW, chan, lookupFirst_setAssoc_ne _ _ _ _ hne]
  have hself : (putChanW w c ch c1).chan c = some c1 := by
    simp [putChanW, chan, lookupFirst_setAssoc_self]
  refine {
    hasCtx_eq := rfl, ctxDropped_eq := rfl, ops_eq := rfl, streams_eq := rfl, rsps_eq := rfl, held_eq := rfl
    bad_eq := rfl
    wokenMono := hw
    slotNone := fun s h => h
    slotFull := fun s v h => h
    slotClosed := fun s h => h
    slotEmpty := fun s h => Or.inl ⟨h, id⟩
    chanKeys := keys_setAssoc_of_lookup c c1 ch w.chans hc
    chanNone := ?_
    chanSome := ?_ }
  · intro c' h
    have : c' ≠ c := by intro e; subst e; rw [hc] at h; cases h
    rw [hother c' this]; exact h
  · intro c' c0 h
    by_cases hcc : c' = c
    · subst hcc
      rw [hc] at h; cases h
      refine ⟨c1, hself, ht, Or.inr fun hr => ?_⟩
      show Task.st c' ∈ (if ch.reg then (w.wake (.st c')).woken else w.woken)
      rw [if_pos hr]; exact mem_wake_self _ _
    · exact ⟨c0, by rw [hother c' hcc]; exact h, id, Or.inl rfl⟩

theorem actInv_deliver (w : World) (c : Nat) (p : PublishRx) : ActInv w (w.deliver c p) := by
  rw [deliver_eq]
  cases h : w.chan c with
  | none => exact actInv_refl w
  | some ch => exact actInv_setChan w c ch _ h (fun ht => ht)

theorem actInv_dropChanTx (w : World) (c : Nat) : ActInv w (w.dropChanTx c) := by
  rw [dropChanTx_eq]
  cases h : w.chan c with
  | none => exact actInv_refl w
  | some ch => exact actInv_setChan w c ch _ h (fun _ => rfl)

theorem actInv_writeBytes (w : World) (bs : Bytes) : ActInv w (w.writeBytes bs) :=
  actInv_of_eq (by simp) (by simp) (by simp) (by simp) (by simp) (by simp) (by simp) (by simp) (by simp) (by simp)
    (by simp)

theorem actInv_applyEff (w : World) (e : Eff) : ActInv w (w.applyEff e) := by
  cases e with
  | write bs => exact actInv_writeBytes w bs
  | send s v => exact actInv_sendSlot w s v
  | dropSlot s => exact actInv_dropSlotTx w s
  | deliver c p => exact actInv_deliver w c p
  | dropChan c => exact actInv_dropChanTx w c

theorem actInv_applyEffs (w : World) (es : List Eff) : ActInv w (w.applyEffs es) := by
  unfold applyEffs
  induction es generalizing w with
  | nil => exact actInv_refl w
  | cons e t ih => exact actInv_trans (actInv_applyEff w e) (ih _)

theorem actInv_closes {w w' : World} (h : Closes w w') : ActInv w w' := by
  induction h with
  | refl => exact actInv_refl _
  | slot s _ ih => exact actInv_trans ih (actInv_dropSlotTx _ s)
  | chan c _ ih => exact actInv_trans ih (actInv_dropChanTx _ c)

end World
end Poster
