/-
  Lemmas/WorldCancelBoth.lean — the two erasures combined: `shade id w = veil id (hide id w)` erases the private state of
  the handle future of operation `id` AND the receiving end of its subscription channel. This is what is needed for a
  `subscribe()` future dropped while it waits for its SUBACK: the drop removes the future, its oneshot and the receiving
  end of the channel it created. Lockstep as before, with a generic "settling" lemma.
-/
import PosterModel.Lemmas.WorldCancelVeilScript

set_option linter.unusedVariables false
set_option linter.unusedSimpArgs false

namespace Poster
open Framing
namespace World
namespace W11

/-! ## settling, generically -/

/-- what the settling argument needs of an erasure `H` and its side condition `S` -/
structure Erasure (H : World → World) (S : World → Prop) : Prop where
  bad : ∀ w, (H w).bad = w.bad
  task : ∀ w, (H w).task = w.task
  reader : ∀ w, (H w).reader = w.reader
  sweepCfg : ∀ w, (H w).cfg.sweep = w.cfg.sweep
  pick : ∀ w, S w → (H w).pick = w.pick
  drain : ∀ f w, S w → World.drain f (H w) = H (World.drain f w)
  sDrain : ∀ f w, S w → S (World.drain f w)
  sweep : ∀ w, S w → (H w).sweep = H w.sweep ∧ S w.sweep
  stall : ∀ w, (H w).emit .stall = H (w.emit .stall)
  sEmit : ∀ w o, S w → S (w.emit o)

theorem settle_erasure {H : World → World} {S : World → Prop} (E : Erasure H S) (a b : World) (ha : S a) (hb : S b)
    (heq : H a = H b)
    (qa1 : (drain a.drainFuel a).pick = none) (qb1 : (drain b.drainFuel b).pick = none)
    (qa2 : (drain (drain a.drainFuel a).sweep.drainFuel (drain a.drainFuel a).sweep).pick = none)
    (qb2 : (drain (drain b.drainFuel b).sweep.drainFuel (drain b.drainFuel b).sweep).pick = none) :
    H (settle a) = H (settle b) ∧ (a.bad = false → S (settle a) ∧ S (settle b)) := by
  have hbad : a.bad = b.bad := by rw [← E.bad a, ← E.bad b, heq]
  unfold settle
  by_cases hba : a.bad = true
  · have hbb : b.bad = true := by rw [← hbad]; exact hba
    simp only [hba, hbb, ↓reduceIte]
    exact ⟨heq, fun h => by cases h⟩
  · have hba' : a.bad = false := by simpa using hba
    have hbb' : b.bad = false := by rw [← hbad]; exact hba'
    simp only [hba', hbb', Bool.false_eq_true, ↓reduceIte]
    have sa1 := E.sDrain a.drainFuel a ha
    have sb1 := E.sDrain b.drainFuel b hb
    have e1 : H (drain a.drainFuel a) = H (drain b.drainFuel b) := by
      rw [← E.drain _ a ha, ← E.drain _ b hb, heq]
      apply drain_unique
      · rw [← heq, E.drain _ a ha, E.pick _ sa1]; exact qa1
      · rw [E.drain _ b hb, E.pick _ sb1]; exact qb1
    generalize drain a.drainFuel a = a1 at sa1 e1 qa2 ⊢
    generalize drain b.drainFuel b = b1 at sb1 e1 qb2 ⊢
    have hsw : a1.cfg.sweep = b1.cfg.sweep := by rw [← E.sweepCfg a1, ← E.sweepCfg b1, e1]
    have key : H (if a1.cfg.sweep = true then drain a1.sweep.drainFuel a1.sweep else a1) =
        H (if b1.cfg.sweep = true then drain b1.sweep.drainFuel b1.sweep else b1) ∧
        S (if a1.cfg.sweep = true then drain a1.sweep.drainFuel a1.sweep else a1) ∧
        S (if b1.cfg.sweep = true then drain b1.sweep.drainFuel b1.sweep else b1) := by
      by_cases hs : a1.cfg.sweep = true
      · have hs' : b1.cfg.sweep = true := by rw [← hsw]; exact hs
        simp only [hs, hs', ↓reduceIte]
        obtain ⟨ea, sa2⟩ := E.sweep a1 sa1
        obtain ⟨eb, sb2⟩ := E.sweep b1 sb1
        have e2 : H a1.sweep = H b1.sweep := by rw [← ea, ← eb, e1]
        generalize a1.sweep = a2 at sa2 e2 qa2 ⊢
        generalize b1.sweep = b2 at sb2 e2 qb2 ⊢
        refine ⟨?_, E.sDrain _ _ sa2, E.sDrain _ _ sb2⟩
        rw [← E.drain _ a2 sa2, ← E.drain _ b2 sb2, e2]
        apply drain_unique
        · rw [← e2, E.drain _ a2 sa2, E.pick _ (E.sDrain _ _ sa2)]; exact qa2
        · rw [E.drain _ b2 sb2, E.pick _ (E.sDrain _ _ sb2)]; exact qb2
      · have hs' : ¬ b1.cfg.sweep = true := by rw [← hsw]; exact hs
        simp only [hs, hs', Bool.false_eq_true, ↓reduceIte]
        exact ⟨e1, sa1, sb1⟩
    obtain ⟨e3, sa3, sb3⟩ := key
    generalize (if a1.cfg.sweep = true then drain a1.sweep.drainFuel a1.sweep else a1) = a3 at e3 sa3 ⊢
    generalize (if b1.cfg.sweep = true then drain b1.sweep.drainFuel b1.sweep else b1) = b3 at e3 sb3 ⊢
    have ht : a3.task = b3.task := by rw [← E.task a3, ← E.task b3, e3]
    have hr : a3.reader = b3.reader := by rw [← E.reader a3, ← E.reader b3, e3]
    by_cases hst : a3.task ≠ .none ∧ a3.reader ≠ []
    · have hst' : b3.task ≠ .none ∧ b3.reader ≠ [] := by rw [← ht, ← hr]; exact hst
      simp only [hst, hst', and_self, ne_eq, not_false_eq_true, ↓reduceIte]
      refine ⟨?_, fun _ => ⟨E.sEmit _ _ sa3, E.sEmit _ _ sb3⟩⟩
      rw [← E.stall a3, ← E.stall b3, e3]
    · have hst' : ¬ (b3.task ≠ .none ∧ b3.reader ≠ []) := by rw [← ht, ← hr]; exact hst
      simp only [hst, hst', ↓reduceIte]
      exact ⟨e3, fun _ => ⟨sa3, sb3⟩⟩

/-! ## the combined erasure -/

/-- `w` without the private state of the future of operation `id` and without the receiving end of channel `id` -/
def shade (id : Nat) (w : World) : World := veil id (hide id w)

/-- the side conditions of both commutations -/
structure SideB (id : Nat) (w : World) : Prop where
  h : Side id w
  v : SideV id (hide id w)

theorem SideB.pollTask {id : Nat} {w : World} (s : SideB id w) (t : Task) (ht : t ≠ .op id) (hs : t ≠ .st id) :
    SideB id (w.pollTask t) :=
  ⟨s.h.pollTask t ht, by rw [← pollTask_hide id w t ht s.h]; exact s.v.pollTask t hs ht⟩

theorem pollTask_shade (id) (w : World) (t : Task) (ht : t ≠ .op id) (hs : t ≠ .st id) (s : SideB id w) :
    (shade id w).pollTask t = shade id (w.pollTask t) := by
  unfold shade
  rw [pollTask_veil id (hide id w) t hs ht s.v.ctxOK, pollTask_hide id w t ht s.h]

theorem pick_shade (id) (w : World) (s : SideB id w) : (shade id w).pick = w.pick := by
  unfold shade
  rw [pick_veil id _ s.v.frozen, pick_hide id w s.h.frozen]

theorem SideB.not_picked {id : Nat} {w : World} (s : SideB id w) (t : Task) (hp : w.pick = some t) :
    t ≠ .op id ∧ t ≠ .st id := by
  refine ⟨s.h.frozen.not_picked t hp, ?_⟩
  have hp' : (hide id w).pick = some t := by rw [pick_hide id w s.h.frozen]; exact hp
  exact (s.v.frozen.not_picked t hp').1

theorem drain_shade (id) (f : Nat) (w : World) (s : SideB id w) : drain f (shade id w) = shade id (drain f w) := by
  unfold shade
  rw [drain_veil id f _ s.v, drain_hide id f w s.h]

theorem SideB.drain {id : Nat} (f : Nat) {w : World} (s : SideB id w) : SideB id (drain f w) :=
  ⟨s.h.drain f, by rw [← drain_hide id f w s.h]; exact s.v.drain f⟩

theorem sweep_shade (id) (w : World) (s : SideB id w) : (shade id w).sweep = shade id w.sweep ∧ SideB id w.sweep := by
  obtain ⟨e1, s1⟩ := sweep_hide id w s.h
  obtain ⟨e2, s2⟩ := sweep_veil id (hide id w) s.v
  unfold shade
  refine ⟨by rw [e2, e1], s1, by rw [← e1]; exact s2⟩

theorem SideB.emit {id : Nat} {w : World} (s : SideB id w) (o : Obs) : SideB id (w.emit o) := by
  refine ⟨s.h.emit o, ?_⟩
  by_cases hm : mine id o = true
  · rw [emit_hide_mine id w o hm]; exact s.v
  · rw [← emit_hide id w o (by simpa using hm)]; exact s.v.emit o

theorem erasure_shade (id : Nat) : Erasure (shade id) (SideB id) where
  bad := fun _ => rfl
  task := fun _ => rfl
  reader := fun _ => rfl
  sweepCfg := fun _ => rfl
  pick := fun w s => pick_shade id w s
  drain := fun f w s => drain_shade id f w s
  sDrain := fun f w s => s.drain f
  sweep := fun w s => sweep_shade id w s
  stall := fun w => by
    unfold shade
    rw [← emit_hide id w .stall rfl, emit_veil id _ .stall rfl]
  sEmit := fun w o s => s.emit o

end W11
end World
end Poster
