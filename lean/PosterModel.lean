import PosterModel.Prim
import PosterModel.Props
import PosterModel.Tx
import PosterModel.Rx
import PosterModel.Framing
import PosterModel.Ctx
import PosterModel.World
import PosterModel.Script
