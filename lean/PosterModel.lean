import PosterModel.Prim
import PosterModel.Props
import PosterModel.Tx
import PosterModel.Rx
import PosterModel.Framing
