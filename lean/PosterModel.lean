-- This module serves as the root of the `PosterModel` library.
-- Import modules here that should be built as part of the library.
import PosterModel.Basic
